"""C09 — schema datatypes: lexical, value-space, facet and canonical-form correctness.

Theorems: XV.Props.C09 (decimal/integer core, hexBinary/base64Binary codecs, boolean, whitespace, date/time parts).
Correspondence: harness/hx_dt.cpp drives the REAL library through
  (a) XMLBigDecimal / XMLBigInteger / HexBin / Base64 / XMLString::collapseWS / XMLDateTime directly,
  (b) the DatatypeValidatorFactory built-in validators (validate / compare / getCanonicalRepresentation),
  (c) XSValue::validate / getActualValue / getCanonicalRepresentation,
on strings generated from each type's grammar and its near-misses, and pairs/triples for the order axioms.
The Lean model (`xvdriver dt`) must agree with (a); the executable Spec (`xvdriver dtspec`) judges every
observation of (a), (b), (c) directly, and (b) and (c) must agree with each other on the same string.
float/double: lexical recogniser (Spec) + agreement between (b) and (c) only."""
import json, re
import common
from props import c09_facets
from props import c09_duration

PID = "C09"
GEN = ["Codec"]
LEAN_MODULE = "XV.Props.C09"
THEOREMS = ["XV.Props.C09." + t for t in (
    "decimal_lexical", "decimal_lexical_orig_fails", "decimal_value", "decimal_compare_value",
    "decimal_compare_refl", "decimal_compare_antisymm", "decimal_compare_trans", "decimal_compare_lexical_independent",
    "canonical_valid", "canonical_value", "canonical_idempotent", "eq_same_canonical", "digits_facets_spec",
    "integer_lexical", "integer_compare_value", "integer_canonical_idempotent",
    "codec_tables_spec", "hex_valid_iff", "hex_roundtrip", "hex_decode_sound", "hex_canonical_idempotent",
    "base64_roundtrip", "base64_roundtrip_schema", "base64_decode_sound", "base64_schema_iff",
    "base64_canonical_idempotent", "base64_narrowing_orig_fails",
    "replace_spec", "collapse_spec", "collapse_idempotent", "collapse_after_replace", "boolean_spec",
    "datetime_valid_iff", "normalize_preserves_instant_partial", "compare_spec_partial", "datetime_trans_partial",
    "datetime_orig_fails",
    "bounds_spec", "inherit_eq_conjunction", "inherit_eq_conjunction_decimal", "restriction_monotone",
    "length_inherit_eq_conjunction", "list_iff", "union_iff",
    "duration_indeterminate_iff", "duration_order_strict_partial", "duration_compare_sweep_partial",
    "duration_lexical_partial", "duration_lexical_orig_fails", "duration_compare_shortcut_fails",
)]
RULE = ("decimal/integer: every string of length <= 5 over {0,1,9,.,+,-,space,e} (exhaustive), the product "
        "sign x integer-part x fraction x white-space/garbage decoration, boundary numerals of every derived integer "
        "type +-2, random strings over the numeric alphabet; all ordered pairs and triples of a pool of equal/close "
        "values for the order axioms; hexBinary: all 1-2 unit strings over a 26-unit alphabet + random; base64Binary: "
        "every octet string of length 0..1, a grid of length 2-3 and 3000 random ones up to 200 octets encoded, "
        "padding/space/line-break/near-miss variants, all 4-unit final quartets over a 13-unit alphabet; white space: every "
        "string of length <= 5 over {space,tab,LF,CR,a,b} + random; date/time family: one-dimension-at-a-time variation of "
        "year/month/day/time/fraction/zone around a base value, month-length x leap-year x zone grid, carry-chain grid "
        "(time x zone x month/year boundaries), random combinations, all ordered pairs/triples of an order pool with equal "
        "instants in different zones, 24:00:00 forms and 14-hour boundary pairs; every built-in type above: the same strings "
        "through validator and XSValue; facet tier: 200 schema documents per run (restriction chains of depth 1-4 over decimal, "
        "integer, double, date, dateTime, string, token with one-sided steps, digits, length, enumeration; lists of unions, unions of "
        "lists; deliberately loosening steps), each value on every bound and one grid step either side, in-parse and through the "
        "declaration's validator at every level of the chain. Non-trivial = not the empty string and not rejected for an illegal first "
        "character alone; distinct by (operation, text)")
ASSUMPTIONS = ["strings shorter than 2^31 units (the C++ keeps digit counts in int)",
               "XMLCh strings contain no NUL (C strings)",
               "float/double numeric comparison (strtod) is outside the model: lexical recogniser and (b)/(c) agreement only",
               "in-parse validation is represented by the built-in validator applied to the whitespace-normalised string",
               "date/time: years of at most 9 digits, fractional seconds of at most 9 digits (the C++ holds them in int / double); "
               "second = 60 accepted; year arithmetic linear as in XSD 1.0 Appendix E",
               "xs:duration: the model is the code as it stands (shortcut compareOrder on the raw fields included); the lexical theorem is kernel-checked on every string "
               "of length <= 4 over {P T 1 Y M D H S . -}, the order theorem on the month-length boundary family (0..14 months against 28n..31n+2 days, both argument "
               "orders, and hours), longer strings and other mixes by correspondence only; fractional seconds are outside the order theorems",
               "date/time field parsers are represented by the Spec's lexical recogniser (not code-shaped)"]
TRUSTED = ["XV.Spec.Decimal, XV.Spec.Codec, XV.Spec.Ws, XV.Spec.DateTime, XV.Spec.Duration (XSD 1.0 Part 2 lexical/value spaces as transcribed)",
           "tools/props/c09.py: value ranges of the derived integer types (XSD 1.0 Part 2 section 3.3)"]

# ------------------------------------------------------------------ helpers
def hx(s):
    if isinstance(s, str):
        s = [ord(c) for c in s]
    return ".".join("%x" % u for u in s) if s else "-"

def unhx(h):
    return [] if h in ("-", "") else [int(x, 16) for x in h.split(".")]

def txt(h):
    return "".join(chr(u) if 0x20 <= u < 0x7f else "\\u%04x" % u for u in unhx(h))

WS = " \t\n\r"

def collapse(s):
    """whiteSpace=collapse (XSD 4.3.6) on a python str"""
    t = "".join(" " if c in "\t\n\r" else c for c in s)
    return " ".join(w for w in t.split(" ") if w)

def replace_ws(s):
    return "".join(" " if c in "\t\n\r" else c for c in s)

def spec(lines):
    if not lines:
        return []
    out = common.run_driver(["dtspec"], input=("\n".join(lines) + "\n").encode()).decode().split("\n")
    if out and out[-1] == "":
        out.pop()
    if len(out) != len(lines):
        raise common.InfraError("dtspec produced %d lines for %d" % (len(out), len(lines)))
    return out

def impl(lines):
    """run the harness alone; returns (outputs, stderr)"""
    if not lines:
        return [], ""
    p = common.run_harness("hx_dt", input=("\n".join(lines) + "\n").encode(), timeout=3000)
    o = p.stdout.decode(errors="replace").split("\n")
    if o and o[-1] == "":
        o.pop()
    err = p.stderr.decode(errors="replace")
    if p.returncode != 0 and len(o) < len(lines):
        o.append("CRASH rc=%d %s" % (p.returncode, common.sanitizer_summary(err)))
    while len(o) < len(lines):
        o.append("NO-OUTPUT")
    return o, err

def impl_single(line):
    """one case in its own process (ASan aborts the process).  A death without any sanitizer text is not evidence
    against the code (the machine may be overloaded): retry once, then infrastructure error."""
    for attempt in (0, 1):
        o, e = impl([line])
        if not o[0].startswith("CRASH") and o[0] != "NO-OUTPUT":
            return o, e
        if "AddressSanitizer" in e or "runtime error" in e:
            return o, e
    raise common.InfraError("harness hx_dt died without a sanitizer report on %r: %s" % (line, o[0]))

class Viol:
    """collects violations, one (the shortest input) per key"""
    def __init__(self, ctx):
        self.ctx = ctx
        self.best = {}
    def add(self, key, what, replay, concrete=True):
        size = len(json.dumps(replay))
        if key not in self.best or size < self.best[key][0]:
            self.best[key] = (size, {"key": key, "concrete": concrete, "what": what, "replay": replay})
    def flush(self):
        for k in sorted(self.best):
            self.ctx.violations.append(self.best[k][1])
        self.best = {}

# ------------------------------------------------------------------ generators: decimal / integer
INT_TYPES = {   # XSD 1.0 Part 2 section 3.3.13-3.3.25: value ranges
    "integer": (None, None), "nonPositiveInteger": (None, 0), "negativeInteger": (None, -1),
    "long": (-2**63, 2**63 - 1), "int": (-2**31, 2**31 - 1), "short": (-2**15, 2**15 - 1), "byte": (-128, 127),
    "nonNegativeInteger": (0, None), "unsignedLong": (0, 2**64 - 1), "unsignedInt": (0, 2**32 - 1),
    "unsignedShort": (0, 2**16 - 1), "unsignedByte": (0, 255), "positiveInteger": (1, None)}

def numeric_strings(ctx):
    r = ctx.rng
    th = ctx.thorough()
    out = []
    # (1) exhaustive short strings
    alph = "019.+- e"
    def rec(prefix, n):
        out.append(prefix)
        if n:
            for c in alph:
                rec(prefix + c, n - 1)
    rec("", 6 if th else 5)
    # (2) structured product
    signs = ["", "+", "-", "++", "-+"]
    ints = ["", "0", "00", "1", "10", "007", "123", "100", "9" * 20, "1" + "0" * 30, "4294967296", "18446744073709551616"]
    fracs = ["", ".", ".0", ".00", ".5", ".50", ".05", ".050", ".000", ".123456789", ".1.", "..", ".e", "e3", "E+3", ".5e1", ",5", "x"]
    decos = [("", ""), (" ", ""), ("", " "), (" \t", "\r\n"), ("", " "), (" ", ""), ("", "\v"), ("\f", "")]
    for s in signs:
        for i in ints:
            for f in fracs:
                out.append(s + i + f)
                if r.chance(1, 3):
                    a, b = r.choice(decos)
                    out.append(a + s + i + f + b)
    out += ["1 2", "1\t2", "- 1", "+ 1", "1 .5", "１", "١", "1٠", "0x10", "1_000", "1,000", "Infinity", "NaN", "INF"]
    # (3) boundary numerals of the derived integer types
    for lo, hi in INT_TYPES.values():
        for b in (lo, hi):
            if b is None:
                continue
            for d in (-2, -1, 0, 1, 2):
                v = b + d
                out += [str(v), "+" + str(v) if v >= 0 else str(v), ("-" if v < 0 else "") + "000" + str(abs(v)), str(v) + ".0", str(v) + "."]
    out += ["-0", "+0", "-00", "-0.0", "+0.", "-.0"]
    # (4) random strings over the numeric alphabet
    for _ in range(40000 if th else 5000):
        n = r.choice([1, 2, 3, 6, 7, 8, 12, 20, 40])
        k = r.below(10)
        a = "0123456789" if k < 5 else "0123456789.+- " if k < 9 else "0123456789.+-eE \t\n\rx"
        s = "".join(r.choice(a) for _ in range(n))
        if k < 5:
            p = r.below(len(s) + 1)
            s = r.choice(["", "+", "-"]) + s[:p] + r.choice(["", ".", ".", "0."]) + s[p:]
        out.append(s)
    seen, res = set(), []
    for s in out:
        if s not in seen and "\0" not in s:
            seen.add(s); res.append(s)
    return res

def order_pool(ctx):
    r = ctx.rng
    base = ["0", "-0", "+0.0", ".0", "0.", "-.000", "1", "1.0", "01", "+1.00", "1.", "0.1", "0.10", ".1", "0.09", "0.11",
            "0.100001", "-1", "-1.0", "-01.00", "-0.1", "-.10", "-0.09", "10", "10.0", "9.99", "9.999", "10.01", "100", "99.9",
            "-10", "-9.99", "0.001", "0.0010", ".001", "0.00099", "123456789012345678901234567890",
            "123456789012345678901234567890.0", "123456789012345678901234567891", "-123456789012345678901234567890",
            "0.000000000000000000000000000001", "0.0000000000000000000000000000010", "5", "5.5", "5.50", "05.5", "-5.5", "50", "0.5", "0.05"]
    for _ in range(40 if ctx.thorough() else 12):
        ip = "".join(r.choice("0123456789") for _ in range(r.choice([0, 1, 2, 5])))
        fp = "".join(r.choice("0123456789") for _ in range(r.choice([0, 1, 2, 5])))
        if not ip and not fp:
            ip = "7"
        s = r.choice(["", "-", "+"]) + ip + ("." + fp if fp or r.chance(1, 4) else "")
        base.append(s)
        base.append(r.choice(["", "0", "00"]) .join([s[:1] if s[:1] in "+-" else "", s[1:] if s[:1] in "+-" else s]) + ("0" if "." in s else ".0"))
    seen, res = set(), []
    for s in base:
        if s not in seen:
            seen.add(s); res.append(s)
    return res

# ------------------------------------------------------------------ generators: codecs
B64 = "ABCDEFGHIJKLMNOPQRSTUVWXYZabcdefghijklmnopqrstuvwxyz0123456789+/"

def py_b64(bs):
    out = []
    for k in range(0, len(bs), 3):
        t = bs[k:k + 3]
        n = len(t)
        t = t + [0] * (3 - n)
        v = (t[0] << 16) | (t[1] << 8) | t[2]
        q = [B64[(v >> 18) & 63], B64[(v >> 12) & 63], B64[(v >> 6) & 63], B64[v & 63]]
        if n == 1: q[2] = q[3] = "="
        if n == 2: q[3] = "="
        out += q
    return "".join(out)

def codec_cases(ctx):
    r = ctx.rng
    th = ctx.thorough()
    H, B, BE = [], [], []
    halph = [ord(c) for c in "09afAFgG/:@`"] + [0x20, 0x2f, 0x3a, 0x40, 0x47, 0x60, 0x67, 0x7f, 0x80, 0xfe, 0x130, 0x141, 0x2030, 0xff10]
    halph = sorted(set(halph))
    for a in halph:
        H.append([a])
        for b in halph:
            H.append([a, b])
    for _ in range(6000 if th else 1500):
        n = r.choice([0, 2, 3, 4, 6, 16, 17, 40])
        s = [ord(r.choice("0123456789abcdefABCDEF")) for _ in range(n)]
        if r.chance(1, 4) and s:
            s[r.below(len(s))] = r.choice(halph)
        H.append(s)
    # base64: encode side
    octs = [[]] + [[a] for a in range(256)] + [[a, b] for a in range(0, 256, 5) for b in (0, 1, 15, 16, 127, 128, 255)]
    if th:
        octs += [[a, b] for a in range(256) for b in range(256)]
    octs += [[a, b, c] for a in (0, 3, 252, 255) for b in (0, 15, 240, 255) for c in (0, 63, 192, 255)]
    for _ in range(12000 if th else 3000):
        n = r.choice([1, 2, 3, 4, 5, 6, 7, 44, 45, 46, 47, 48, 89, 90, 91, 135, 200])
        octs.append([r.below(256) for _ in range(n)])
    for o in octs:
        BE.append(o)
    # base64: decode side — encodings with decorations and near misses
    for o in octs[1:] if th else octs[1::3]:
        e = py_b64(o)
        k = r.below(12)
        if k < 3:
            v = e
        elif k < 6:   # single spaces (legal in schema mode)
            v = "".join(c + (" " if r.chance(1, 3) else "") for c in e).rstrip(" ")
        elif k < 7:   # illegal spacing
            p = r.below(len(e) + 1)
            v = r.choice([" " + e, e + " ", e[:p] + "  " + e[p:], e[:p] + "\t" + e[p:], e[:p] + "\n" + e[p:]])
        elif k < 8:   # RFC 2045 line breaks
            v = "\n".join(e[i:i + 76] for i in range(0, len(e), 76)) + "\n"
        elif k < 9:   # drop / add padding
            v = r.choice([e.rstrip("="), e + "=", e + "==", e[:-1], "=" + e, e.replace("=", "", 1)])
        elif k < 10:  # non-zero padding bits
            if e.endswith("=="):
                v = e[:-3] + B64[(B64.index(e[-3]) | (1 + r.below(15))) & 63] + "=="
            elif e.endswith("="):
                v = e[:-2] + B64[(B64.index(e[-2]) | (1 + r.below(3))) & 63] + "="
            else:
                v = e
        else:         # foreign character
            p = r.below(len(e))
            v = e[:p] + r.choice(["-", "_", "*", "é", "Ł", "ő", "Ā", "€", "Á", "Ａ"]) + e[p + 1:]
        for conf in "SR":
            B.append((conf, [ord(c) for c in v]))
    qa = "AQgwEBZ9+/= -"
    for c1 in "AZ/=":
        for c2 in qa:
            for c3 in qa:
                for c4 in qa:
                    B.append(("S", [ord(c) for c in c1 + c2 + c3 + c4]))
    for s in ["", "A", "AA", "AAA", "AAAA", "====", "A===", "AA==AAAA", "AAAA====", "AA= =", "AQ ==", "A Q==", "AQ==\n"]:
        for conf in "SR":
            B.append((conf, [ord(c) for c in s]))
    return H, B, BE

# ------------------------------------------------------------------ the check
def as_int(h):
    s = "".join(chr(u) for u in unhx(h))
    return int(s) if s else 0

def check_numeric(ctx, V):
    strs = numeric_strings(ctx)
    lines = ["D " + hx(s) for s in strs] + ["DC " + hx(s) for s in strs] + \
            ["I " + hx(s) for s in strs] + ["IC " + hx(s) for s in strs]
    m, i, err = common.run_pair("dt", "hx_dt", lines)
    n = len(strs)
    sD = spec(["SD " + hx(s) for s in strs])
    sI = spec(["SI " + hx(s) for s in strs])
    ctx.stats["numeric_strings"] = n
    hist = {}
    disagree = 0
    for k, s in enumerate(strs):
        oD, oC, oI, oIC = i[k], i[n + k], i[2 * n + k], i[3 * n + k]
        lexD = sD[k].startswith("lex 1")
        lexI = sI[k].startswith("lex 1")
        hist[oD.split()[0] + ("" if oD.startswith("ok") else " " + oD.split()[-1])] = hist.get(oD.split()[0] + ("" if oD.startswith("ok") else " " + oD.split()[-1]), 0) + 1
        rp = {"op": "D", "string": hx(s), "text": txt(hx(s))}
        # --- Spec judges (a): decimal
        if oD.startswith("ok") != lexD:
            only_point = collapse(s) in (".", "+.", "-.")
            key = "decimal-lone-point-accepted" if (only_point and oD.startswith("ok")) else \
                  ("decimal-lexical:accepts-non-lexical" if oD.startswith("ok") else "decimal-lexical:rejects-lexical")
            V.add(key, "XMLBigDecimal(%r): implementation %s, but the string %s in the lexical space of xs:decimal (XSD 3.2.3.1)" % (
                txt(hx(s)), "accepts it (%s)" % oD if oD.startswith("ok") else "rejects it (%s)" % oD, "is" if lexD else "is not"), rp)
        elif lexD:
            f = oD.split()
            sign, iv, td, sc = int(f[1]), f[2], int(f[3]), int(f[4])
            sf = sD[k].split()
            mant, k10 = int(sf[3]), int(sf[4])
            if sign * as_int(iv) * 10 ** k10 != mant * 10 ** sc:
                V.add("decimal-value", "XMLBigDecimal(%r) holds %s*%s*10^-%d, the lexical form denotes %d*10^-%d" % (txt(hx(s)), sign, txt(iv), sc, mant, k10), rp)
            # digits facets: minimal representation
            mm, kk = abs(mant), k10
            while kk > 0 and mm % 10 == 0:
                mm //= 10; kk -= 1
            want_td = max(len(str(mm)) if mm else 0, kk)
            if (td, sc) != (want_td, kk) and not (mant == 0 and (td, sc) == (0, 0)):
                V.add("decimal-digits", "XMLBigDecimal(%r): totalDigits=%d scale=%d, the value needs totalDigits=%d fractionDigits=%d" % (txt(hx(s)), td, sc, want_td, kk), rp)
        # --- canonical form of (a)
        if oC.startswith("can") != lexD:
            if not (collapse(s) in (".", "+.", "-.") and oC.startswith("can")):
                V.add("decimal-canonical:presence", "XMLBigDecimal::getCanonicalRepresentation(%r) = %s but lexical=%s" % (txt(hx(s)), oC, lexD), dict(rp, op="DC"))
        # --- integer
        if oI.startswith("ok") != lexI:
            V.add("integer-lexical", "XMLBigInteger::parseBigInteger(%r): %s, Spec lexical=%s" % (txt(hx(s)), oI, lexI), dict(rp, op="I"))
        elif lexI:
            f = oI.split()
            if int(f[1]) * as_int(f[2]) != int(sI[k].split()[3]) or (int(f[1]) == 0) != (int(sI[k].split()[3]) == 0):
                V.add("integer-value", "XMLBigInteger::parseBigInteger(%r): %s, Spec value %s" % (txt(hx(s)), oI, sI[k]), dict(rp, op="I"))
            want = str(int(sI[k].split()[3]))
            if oIC != "can " + hx(want):
                V.add("integer-canonical", "XMLBigInteger::getCanonicalRepresentation(%r) = %s, canonical form is %r" % (txt(hx(s)), oIC, want), dict(rp, op="IC"))
        elif oIC != "null":
            V.add("integer-canonical", "XMLBigInteger::getCanonicalRepresentation(%r) = %s for a non-lexical string" % (txt(hx(s)), oIC), dict(rp, op="IC"))
    ctx.stats["impl_outcomes_decimal"] = hist
    # canonical forms: valid, canonical, value preserving, idempotent (second round through the library)
    cans = [(strs[k], i[n + k].split()[1]) for k in range(n) if i[n + k].startswith("can ")]
    if cans:
        sc1 = spec(["SC " + c for _, c in cans])
        sk1 = spec(["SK " + c + " " + hx(s) for s, c in cans])
        again, _ = impl(["DC " + c for _, c in cans])
        for (s, c), a, b, d in zip(cans, sc1, sk1, again):
            rp = {"op": "DC", "string": hx(s), "text": txt(hx(s)), "canonical": txt(c)}
            if collapse(s) in (".", "+.", "-."):
                continue
            if a != "1":
                V.add("decimal-canonical:not-canonical", "canonical form %r of %r is not a canonical xs:decimal lexical form" % (txt(c), txt(hx(s))), rp)
            if b != "0":
                V.add("decimal-canonical:value", "canonical form %r of %r denotes a different value (Spec order %s)" % (txt(c), txt(hx(s)), b), rp)
            if d != "can " + c:
                V.add("decimal-canonical:idempotent", "canonical form of the canonical form %r is %s" % (txt(c), d), rp)
    # model vs implementation
    d = common.diff_pairs(lines, m, i)
    known_point = [x for x in d if collapse("".join(chr(u) for u in unhx(x[1].split()[1]))) in (".", "+.", "-.")]
    rest = [x for x in d if x not in known_point]
    ctx.stats["numeric_disagreements"] = len(d)
    if rest:
        k, l, mo, io = rest[0]
        V.add("corr:decimal", "correspondence decimal/integer model vs XMLBigDecimal/XMLBigInteger no longer checks (%d cases), first: %s (%r) model=%s impl=%s" % (
            len(rest), l, txt(l.split()[1]), mo, io), {"correspondence": "dt", "case": l, "model": mo, "impl": io}, concrete=False)
    ctx.samples += [{"case": lines[k], "text": txt(lines[k].split()[1]), "model": m[k], "impl": i[k]} for k in (len(strs) // 3, n + len(strs) // 2, 2 * n + 7 * len(strs) // 8)]
    if "runtime error" in err or "AddressSanitizer" in err:
        V.add("dt-sanitizer:numeric", "sanitizer report in numeric harness run: " + common.sanitizer_summary(err), {"stderr": err[-1500:]})
    return len(lines) + 3 * len(cans), {("D", s) for s in strs if s.strip(WS) and s.strip(WS)[0] in "+-.0123456789"}

def check_order(ctx, V):
    pool = order_pool(ctx)
    P = len(pool)
    lines = ["DK %s %s" % (hx(a), hx(b)) for a in pool for b in pool]
    ints = [s for s in pool if re.fullmatch(r"[+-]?[0-9]+", s)]
    lines_i = ["IK %s %s" % (hx(a), hx(b)) for a in ints for b in ints]
    m, i, err = common.run_pair("dt", "hx_dt", lines + lines_i)
    sk = spec(["SK %s %s" % (hx(a), hx(b)) for a in pool for b in pool])
    cmpm = {}
    for k, l in enumerate(lines):
        a, b = pool[k // P], pool[k % P]
        o = i[k]
        if not o.startswith("cmp "):
            V.add("decimal-compare:exception", "compareValues(%r, %r) = %s" % (a, b, o), {"op": "DK", "a": hx(a), "b": hx(b)})
            continue
        c = int(o.split()[1])
        cmpm[(a, b)] = c
        if str(c) != sk[k]:
            V.add("decimal-compare:value-order", "XMLBigDecimal::compareValues(%r, %r) = %d, the values compare %s" % (a, b, c, sk[k]),
                  {"op": "DK", "a": hx(a), "b": hx(b), "text": [a, b]})
    # order axioms on the implementation's own answers
    for a in pool:
        if cmpm.get((a, a)) != 0:
            V.add("decimal-compare:reflexive", "compare(%r,%r) = %s" % (a, a, cmpm.get((a, a))), {"op": "DK", "a": hx(a), "b": hx(a)})
        for b in pool:
            if cmpm.get((a, b)) is not None and cmpm.get((b, a)) is not None and cmpm[(a, b)] != -cmpm[(b, a)]:
                V.add("decimal-compare:antisymmetric", "compare(%r,%r)=%d but compare(%r,%r)=%d" % (a, b, cmpm[(a, b)], b, a, cmpm[(b, a)]),
                      {"op": "DK", "a": hx(a), "b": hx(b)})
    ntr = 0
    for a in pool:
        for b in pool:
            ab = cmpm.get((a, b))
            if ab is None or ab > 0:
                continue
            for c in pool:
                bc = cmpm.get((b, c)); ac = cmpm.get((a, c))
                if bc is None or ac is None or bc > 0:
                    continue
                ntr += 1
                want = 0 if (ab == 0 and bc == 0) else -1
                if ac != want:
                    V.add("decimal-compare:transitive", "compare(%r,%r)=%d, compare(%r,%r)=%d, but compare(%r,%r)=%d" % (a, b, ab, b, c, bc, a, c, ac),
                          {"op": "DK3", "a": hx(a), "b": hx(b), "c": hx(c)})
    # integer compare against python ints
    Q = len(ints)
    for k, l in enumerate(lines_i):
        a, b = ints[k // Q], ints[k % Q]
        want = (int(a) > int(b)) - (int(a) < int(b))
        if i[len(lines) + k] != "cmp %d" % want:
            V.add("integer-compare", "XMLBigInteger::compareValues(%r,%r) = %s, values compare %d" % (a, b, i[len(lines) + k], want), {"op": "IK", "a": hx(a), "b": hx(b)})
    d = common.diff_pairs(lines + lines_i, m, i)
    if d:
        k, l, mo, io = d[0]
        V.add("corr:decimal-compare", "correspondence toCompare model vs XMLBigDecimal::compareValues no longer checks (%d cases), first: %s model=%s impl=%s" % (len(d), l, mo, io),
              {"correspondence": "dt", "case": l, "model": mo, "impl": io}, concrete=False)
    ctx.stats["order_pool"] = P
    ctx.stats["order_triples_checked"] = ntr
    ctx.samples.append({"case": lines[P + 3], "text": [pool[1], pool[3]], "model": m[P + 3], "impl": i[P + 3], "spec": sk[P + 3]})
    return len(lines) + len(lines_i), {("DK", a, b) for a in pool for b in pool if a != b}

def check_codecs(ctx, V):
    H, B, BE = codec_cases(ctx)
    lines = ["H " + hx(s) for s in H] + ["B %s %s" % (c, hx(s)) for c, s in B if all(u < 0xff for u in s)] + ["BE " + hx(o) for o in BE]
    Bsafe = [(c, s) for c, s in B if all(u < 0xff for u in s)]
    m, i, err = common.run_pair("dt", "hx_dt", lines)
    nH, nB = len(H), len(Bsafe)
    sH = spec(["SH " + hx(s) for s in H])
    sE = spec(["SE " + hx(o) for o in BE])
    for k, s in enumerate(H):
        o = i[k].split()
        rp = {"op": "H", "string": hx(s), "text": txt(hx(s))}
        lex = sH[k].startswith("lex 1")
        if len(o) != 5 or o[0] != "hex":
            V.add("hex:harness", "unexpected output %s" % i[k], rp); continue
        if (o[1] == "1") != lex or (o[2] != "-1") != lex:
            V.add("hex-lexical", "HexBin::isArrayByteHex/getDataLength(%r) = %s/%s, Spec lexical=%s" % (txt(hx(s)), o[1], o[2], lex), rp)
        elif lex:
            val = sH[k].split()[3]
            if s and o[4] != val:
                V.add("hex-value", "HexBin::decodeToXMLByte(%r) = %s, Spec value %s" % (txt(hx(s)), o[4], val), rp)
            if o[3] != hx(hexenc(unhx(val))):
                V.add("hex-canonical", "HexBin::getCanonicalRepresentation(%r) = %r, canonical form is %r" % (txt(hx(s)), txt(o[3]), txt(hx(hexenc(unhx(val))))), rp)
        elif o[3] != "null":
            V.add("hex-canonical", "HexBin::getCanonicalRepresentation(%r) = %r for a non-lexical string" % (txt(hx(s)), txt(o[3])), rp)
    # base64 decode
    sB = spec(["SB " + hx(collapse_units(s) if c == "R" else s) for c, s in Bsafe])
    for k, (c, s) in enumerate(Bsafe):
        o = i[nH + k]
        rp = {"op": "B " + c, "string": hx(s), "text": txt(hx(s))}
        lex = sB[k] == "lex 1" and len(s) > 0 and (c == "S" or len(collapse_units(s)) > 0)
        if o.startswith("INCONSISTENT"):
            V.add("base64:api-inconsistent", "Base64 decodeToXMLByte/getCanonicalRepresentation/getDataLength disagree on %r: %s" % (txt(hx(s)), o), rp); continue
        if o.startswith("b64") != lex:
            V.add("base64-lexical", "Base64::decodeToXMLByte(%r, %s) %s, Spec (E2-54%s) lexical=%s" % (
                txt(hx(s)), "Conf_Schema" if c == "S" else "Conf_RFC2045", "accepts" if o.startswith("b64") else "rejects",
                "" if c == "S" else " after white-space collapse", lex), rp)
        elif lex:
            f = o.split()
            can = unhx(f[2])
            want = [ord(x) for x in py_b64(unhx(f[1]))]
            if can != want or can != [u for u in s if u not in (0x20, 9, 10, 13)]:
                V.add("base64-sound", "Base64 decode of %r gives octets %s with canonical form %r; the octets encode as %r" % (
                    txt(hx(s)), f[1], txt(f[2]), txt(hx(want))), rp)
    # encode: spec canonical form with a line feed after every 15 quartets and at the end, and round trip
    enc_lines, enc_src = [], []
    for k, o in enumerate(BE):
        out = i[nH + nB + k]
        rp = {"op": "BE", "octets": hx(o)}
        want = unhx(sE[k].split()[1])
        if not o:
            if out != "null":
                V.add("base64-encode", "Base64::encode of the empty octet string = %s" % out, rp)
            continue
        if not out.startswith("enc ") or "UNTERMINATED" in out:
            V.add("base64-encode", "Base64::encode(%s) = %s" % (hx(o), out), rp); continue
        got = unhx(out.split()[1])
        if [u for u in got if u != 10] != want or got[-1:] != [10] or any(
                (j + 1) % 61 == 0 and u != 10 or (j + 1) % 61 != 0 and u == 10 and j != len(got) - 1 for j, u in enumerate(got)):
            V.add("base64-encode", "Base64::encode(%s) = %r, expected %r in lines of 15 quartets" % (hx(o), txt(out.split()[1]), txt(hx(want))), rp)
        enc_lines.append("BB R " + out.split()[1]); enc_src.append(o)
    back, err2 = impl(enc_lines)
    for l, o, b in zip(enc_lines, enc_src, back):
        if b != "b64 " + hx(o):
            V.add("base64-roundtrip", "Base64::decode(Base64::encode(%s)) = %s" % (hx(o), b), {"op": "BE+BB", "octets": hx(o)})
    d = common.diff_pairs(lines, m, i)
    if d:
        k, l, mo, io = d[0]
        V.add("corr:codec", "correspondence HexBin/Base64 model vs implementation no longer checks (%d cases), first: %s model=%s impl=%s" % (len(d), l, mo, io),
              {"correspondence": "dt", "case": l, "model": mo, "impl": io}, concrete=False)
    if "runtime error" in err + err2 or "AddressSanitizer" in err + err2:
        V.add("dt-sanitizer:codec", "sanitizer report in codec harness run: " + common.sanitizer_summary(err + err2), {"stderr": (err + err2)[-1500:]})
    ctx.stats["codec_cases"] = {"hex": nH, "base64_decode": nB, "base64_encode": len(BE)}
    ctx.samples += [{"case": lines[nH + 11], "text": txt(lines[nH + 11].split()[2]), "model": m[nH + 11], "impl": i[nH + 11]},
                    {"case": lines[-1][:80], "model": m[-1][:80], "impl": i[-1][:80]}]
    # units >= 0xff: the narrowing (XMLByte) cast and the unchecked table indices.  One process per case: ASan aborts.
    risky = [("S", [0x41, 0x51, 0x3d, 0xff]), ("S", [0xff, 0xff, 0xff, 0xff]), ("S", [0x141, 0x51, 0x3d, 0x3d]),
             ("S", [0x41, 0x51, 0x3d, 0x3d, 0x100, 0x78, 0x78])]
    risky += [(c, s) for c, s in B if any(u >= 0xff for u in s)]
    seen = set()
    nr = 0
    for c, s in risky:
        if (c, tuple(s)) in seen or nr >= (400 if ctx.thorough() else 14):
            continue
        seen.add((c, tuple(s))); nr += 1
        l = "B %s %s" % (c, hx(s))
        o, e = impl_single(l)
        rp = {"op": "B " + c, "string": hx(s), "text": txt(hx(s))}
        if "AddressSanitizer" in e or "runtime error" in e or o[0].startswith("CRASH"):
            V.add("base64-isdata-index-255", "Base64::decodeToXMLByte(%r): %s" % (txt(hx(s)), common.sanitizer_summary(e)), dict(rp, stderr=e[-800:]))
        elif o[0].startswith("b64"):
            V.add("base64-xmlch-narrowing", "Base64::decodeToXMLByte(%r) accepts a string with non-base64 characters (XMLCh narrowed to XMLByte): %s" % (txt(hx(s)), o[0]), rp)
    for s in ([0x130, 0x131], [0x4130, 0x4131], [0xff, 0x30]):
        l = "HD " + hx(s)
        o, e = impl_single(l)
        rp = {"op": "HD", "string": hx(s), "text": txt(hx(s))}
        if "AddressSanitizer" in e or "runtime error" in e or o[0].startswith("CRASH") or o[0].startswith("dec"):
            V.add("hexbin-decode-unchecked-index", "HexBin::decodeToXMLByte(%r) (called unvalidated by XSValue::getActualValue): %s %s" % (
                txt(hx(s)), o[0], common.sanitizer_summary(e)), dict(rp, stderr=e[-800:]))
    return len(lines) + len(enc_lines) + nr + 3, {("H", tuple(s)) for s in H if len(s) > 1} | {("B", c, tuple(s)) for c, s in B if len(s) > 3} | {("BE", tuple(o)) for o in BE if o}

def hexenc(bs):
    return [ord(c) for b in bs for c in "%02X" % b]

def collapse_units(s):
    return [ord(c) for c in collapse("".join(chr(u) for u in s))]

def check_ws(ctx, V):
    r = ctx.rng
    th = ctx.thorough()
    strs = []
    alph = [0x20, 0x9, 0xA, 0xD, 0x61, 0x62]
    def rec(prefix, n):
        strs.append(prefix)
        if n:
            for c in alph:
                rec(prefix + [c], n - 1)
    rec([], 6 if th else 5)
    pool = [0x20, 0x20, 0x20, 0x9, 0xA, 0xD, 0x61, 0x62, 0x7a, 0xa0, 0x2003, 0x3000, 0x85, 0x2028, 0xb, 0xc, 0x1f, 0x21]
    for _ in range(20000 if th else 3000):
        n = r.choice([1, 2, 3, 7, 8, 9, 20, 60])
        strs.append([r.choice(pool) for _ in range(n)])
    lines = ["W c " + hx(x) for x in strs] + ["W r " + hx(x) for x in strs]
    m, i, err = common.run_pair("dt", "hx_dt", lines)
    sp = spec(["SW c " + hx(x) for x in strs] + ["SW r " + hx(x) for x in strs])
    again = []
    for k, l in enumerate(lines):
        rp = {"op": l.split()[0] + " " + l.split()[1], "string": l.split()[2], "text": txt(l.split()[2])}
        if i[k] != "ws " + sp[k]:
            V.add("whitespace-%s" % ("collapse" if l.startswith("W c") else "replace"),
                  "XMLString::%s(%r) = %r, XSD 4.3.6 gives %r" % ("collapseWS" if l.startswith("W c") else "replaceWS", txt(l.split()[2]),
                                                                txt(i[k].split()[-1]), txt(sp[k])), rp)
        elif l.startswith("W c"):
            again.append("W c " + sp[k])
    back, _ = impl(again)
    for l, b in zip(again, back):
        if b != "ws " + l.split()[2]:
            V.add("whitespace-collapse:idempotent", "collapseWS(collapseWS(x)) = %r for collapseWS(x) = %r" % (txt(b.split()[-1]), txt(l.split()[2])),
                  {"op": "W c", "string": l.split()[2], "text": txt(l.split()[2])})
    d = common.diff_pairs(lines, m, i)
    if d:
        k, l, mo, io = d[0]
        V.add("corr:whitespace", "correspondence collapseWS/replaceWS model vs XMLString no longer checks (%d cases), first: %s model=%s impl=%s" % (len(d), l, mo, io),
              {"correspondence": "dt", "case": l, "model": mo, "impl": io}, concrete=False)
    if "runtime error" in err or "AddressSanitizer" in err:
        V.add("dt-sanitizer:whitespace", "sanitizer report in white-space harness run: " + common.sanitizer_summary(err), {"stderr": err[-1500:]})
    ctx.stats["whitespace_strings"] = len(strs)
    ctx.samples.append({"case": lines[777], "text": txt(lines[777].split()[2]), "model": m[777], "impl": i[777], "spec": sp[777]})
    return len(lines) + len(again), {("W", tuple(x)) for x in strs if any(u in (0x20, 9, 10, 13) for u in x) and len(x) > 1}

# ------------------------------------------------------------------ date / time family
DT_KINDS = ["dateTime", "date", "time", "gYearMonth", "gYear", "gMonthDay", "gDay", "gMonth"]

def dt_strings(ctx):
    r = ctx.rng
    th = ctx.thorough()
    years = ["2000", "1999", "2004", "1900", "2100", "0001", "-0001", "0000", "-0000", "12345", "02000", "200", "-2000", "1696", "9999", "10000", "+2000", "20000000"]
    months = ["01", "02", "04", "06", "09", "11", "12", "00", "13", "1", "001"]
    days = ["01", "15", "28", "29", "30", "31", "00", "32", "1", "99"]
    times = ["00:00:00", "12:34:56", "23:59:59", "24:00:00", "24:00:01", "24:01:00", "12:60:00", "12:00:60", "12:00:61", "25:00:00",
             "1:00:00", "12:0:00", "12:00:0", "12-00-00", "120000", "12:00", "24:00:00.0", "24:00:00.001", "00:00:60"]
    fracs = ["", ".0", ".5", ".500", ".123456789", ".", ".5.5", ",5", ".000"]
    tzs = ["", "Z", "+00:00", "-00:00", "+14:00", "-14:00", "+14:01", "-14:01", "+13:59", "-13:59", "+15:00", "+01:60", "+05:30", "-08:00",
           "z", "+1:00", "+01:0", "+0100", "Z ", "ZZ", "+01:00Z", "+", "-", "+24:00", "+99:99"]
    out = {k: [] for k in DT_KINDS}
    def add(k, s):
        out[k].append(s)
    base = dict(y="2000", mo="02", d="28", t="12:34:56", f="", z="")
    def build(k, y, mo, d, t, f, z):
        if k == "dateTime": return "%s-%s-%sT%s%s%s" % (y, mo, d, t, f, z)
        if k == "date": return "%s-%s-%s%s" % (y, mo, d, z)
        if k == "time": return "%s%s%s" % (t, f, z)
        if k == "gYearMonth": return "%s-%s%s" % (y, mo, z)
        if k == "gYear": return "%s%s" % (y, z)
        if k == "gMonthDay": return "--%s-%s%s" % (mo, d, z)
        if k == "gDay": return "---%s%s" % (d, z)
        if k == "gMonth": return "--%s%s" % (mo, z)
    dims = dict(y=years, mo=months, d=days, t=times, f=fracs, z=tzs)
    for k in DT_KINDS:
        for dim, vals in dims.items():          # one dimension at a time around the base
            for v in vals:
                a = dict(base); a[dim] = v
                add(k, build(k, **a))
        for y in ("2000", "1900", "2004", "2100", "1999", "-0001", "-0004", "-0005"):       # month lengths / leap years
            for mo in ("01", "02", "03", "04", "12"):
                for d in ("28", "29", "30", "31"):
                    for z in ("", "Z", "+14:00", "-14:00"):
                        add(k, build(k, y, mo, d, "23:30:00", "", z))
        for t in ("00:00:00", "09:59:59", "10:00:00", "13:59:59", "14:00:00", "23:59:59", "24:00:00"):   # carry chain
            for z in ("+14:00", "-14:00", "+00:01", "-00:01", "+13:59", "-13:59", "+09:30", "-09:30"):
                for (y, mo, d) in (("2000", "01", "01"), ("2000", "12", "31"), ("2000", "02", "29"), ("2000", "03", "01"), ("1900", "02", "28"),
                                   ("1900", "03", "01"), ("0001", "01", "01"), ("-0001", "12", "31"), ("1999", "12", "31")):
                    add(k, build(k, y, mo, d, t, "", z))
        for _ in range(6000 if th else 800):     # random combinations
            a = {dim: r.choice(vals) for dim, vals in dims.items()}
            if r.chance(2, 3):
                a["y"] = r.choice(["2000", "1999", "2004", "0001", "-0001", "1900"])
            if r.chance(2, 3):
                a["t"] = "%02d:%02d:%02d" % (r.below(25), r.below(60), r.below(61))
            add(k, build(k, **a))
        near = []
        b = build(k, **base)
        near += [" " + b, b + " ", b.replace("T", " "), b.replace("T", "t"), b.replace("-", "/"), b + "x", "x" + b, b[:-1], b[1:], b.replace(":", ".", 1), ""]
        if k == "gMonth":
            near += ["--02--", "--02--Z", "--02--+01:00", "--02-", "--02---", "-02"]
        if k == "gDay":
            near += ["--28", "----28", "---28-", "---2"]
        for n in near:
            add(k, n)
    res = {}
    for k in DT_KINDS:
        seen, l = set(), []
        for x in out[k]:
            if x not in seen and "\0" not in x:
                seen.add(x); l.append(x)
        res[k] = l
    return res

def dt_order_pool(ctx):
    r = ctx.rng
    pool = ["2000-01-01T12:00:00", "2000-01-01T12:00:00Z", "2000-01-01T12:00:00+00:00", "2000-01-01T13:00:00+01:00", "2000-01-01T07:00:00-05:00",
            "2000-01-01T12:00:00.0", "2000-01-01T12:00:00.5", "2000-01-01T12:00:00.50Z", "2000-01-01T12:00:00.49Z",
            "2000-01-01T24:00:00", "2000-01-02T00:00:00", "2000-01-01T24:00:00Z", "2000-01-02T00:00:00Z", "2000-01-01T23:59:59Z", "2000-01-02T00:00:01Z",
            "1999-12-31T24:00:00", "2000-01-01T00:00:00", "2000-02-29T24:00:00Z", "2000-03-01T00:00:00Z", "2000-12-31T24:00:00-05:00", "2001-01-01T05:00:00Z",
            "2000-01-02T02:00:00Z", "2000-01-02T02:00:01Z", "2000-01-02T01:59:59Z", "1999-12-31T22:00:00Z", "1999-12-31T21:59:59Z", "1999-12-31T22:00:01Z",
            "2000-01-01T12:00:00+14:00", "2000-01-01T12:00:00-14:00", "2000-01-02T02:00:00", "1999-12-31T22:00:00",
            "0001-01-01T00:00:00Z", "0001-01-01T00:00:00+14:00", "-0001-12-31T23:59:59Z", "-0001-12-31T20:00:00-14:00", "-0001-12-31T10:00:00Z", "0001-01-01T10:00:00Z",
            "1900-02-28T23:00:00-02:00", "1900-03-01T01:00:00Z", "2004-02-29T00:00:00+01:00", "2004-02-28T23:00:00Z", "10000-01-01T00:00:00Z", "9999-12-31T23:59:59Z",
            "-2000-06-15T12:00:00Z", "-2000-06-15T12:00:00"]
    for _ in range(30 if ctx.thorough() else 10):
        y = r.choice(["2000", "1999", "2001"]); mo = r.choice(["01", "02", "12"]); d = r.choice(["01", "28", "15"])
        t = "%02d:%02d:%02d" % (r.below(24), r.below(60), r.below(60))
        pool.append("%s-%s-%sT%s%s" % (y, mo, d, t, r.choice(["", "Z", "+14:00", "-14:00", "+05:30", "-08:00", ""])))
    times = ["00:00:00", "24:00:00", "12:00:00", "12:00:00Z", "13:00:00+01:00", "12:00:00.5", "23:59:59", "00:00:00Z", "24:00:00Z", "14:00:00+14:00", "10:00:00-14:00",
             "02:00:00Z", "02:00:00", "16:00:00", "22:00:00Z"]
    dates = ["2000-01-01", "2000-01-01Z", "2000-01-01+14:00", "2000-01-01-14:00", "1999-12-31", "2000-01-02", "2000-01-02Z", "1999-12-31Z", "2000-02-29", "2000-03-01-10:00",
             "0001-01-01+14:00", "-0001-12-31", "-0001-12-31Z", "0001-01-01Z"]
    others = {"gYear": ["2000", "2000Z", "1999", "2001+14:00", "2001-14:00", "-0001", "0001", "0001+14:00", "-0001Z", "0001Z"],
              "gYearMonth": ["2000-01", "2000-02Z", "2000-01Z", "1999-12", "2000-01+14:00", "2000-01-14:00"],
              "gMonthDay": ["--02-29", "--03-01", "--02-29Z", "--03-01+14:00", "--12-31", "--01-01"],
              "gDay": ["---01", "---31", "---01Z", "---02+14:00", "---15"], "gMonth": ["--01", "--12", "--01Z", "--02+14:00", "--01--"]}
    d = {"dateTime": list(dict.fromkeys(pool)), "time": times, "date": dates}
    d.update(others)
    return d

def classify_dt(strs):
    j = " ".join(strs)
    if "24:00:00" in j: return "hour24"
    if "0001-" in j or any(x.startswith("0001") or x.startswith("-0001") for x in strs): return "year1-boundary"
    return "general"

def check_dates(ctx, V):
    strs = dt_strings(ctx)
    lines, meta = [], []
    for k in DT_KINDS:
        for x in strs[k]:
            lines.append("DT %s %s" % (k, hx(x))); meta.append((k, x))
    risky = [(l, mt) for l, mt in zip(lines, meta) if mt[0] == "date" and mt[1].lstrip(WS).startswith("-")]
    safe = [(l, mt) for l, mt in zip(lines, meta) if not (mt[0] == "date" and mt[1].lstrip(WS).startswith("-"))]
    lines = [l for l, _ in safe]; meta = [mt for _, mt in safe]
    m, i, err = common.run_pair("dt", "hx_dt", lines)
    sp = spec(["ST %s %s" % (k, hx(collapse(x))) for k, x in meta])
    # negative years through getDateCanonicalRepresentation: one process per case (ASan aborts)
    nr = 0
    for l, (k, x) in risky[:(40 if ctx.thorough() else 6)]:
        nr += 1
        o, e = impl_single(l)
        rp = {"op": "DT " + k, "string": hx(x), "text": x}
        if "AddressSanitizer" in e or "runtime error" in e or o[0].startswith("CRASH"):
            V.add("datetime-date-canonical-negative-year-overflow", "XMLDateTime(%r).parseDate(); getDateCanonicalRepresentation(): %s" % (x, common.sanitizer_summary(e)), dict(rp, stderr=e[-800:]))
        elif o[0].startswith("ok"):
            c = o[0].split()[7]
            v = spec(["ST date " + c, "ST date " + hx(collapse(x))])
            if v[0] != v[1]:
                V.add("datetime-canonical:negative-year", "canonical form %r of xs:date %r denotes %s, the lexical form denotes %s" % (txt(c), x, v[0], v[1]), rp)
    can_lines, can_src = [], []
    hist = {}
    ndis = 0
    first_dis = None
    for n, (k, x) in enumerate(meta):
        o = i[n]
        lex = sp[n].startswith("lex 1")
        rp = {"op": "DT " + k, "string": hx(x), "text": x}
        hist[k + (":ok" if o.startswith("ok") else ":exc")] = hist.get(k + (":ok" if o.startswith("ok") else ":exc"), 0) + 1
        if x != collapse(x):
            continue      # XMLDateTime is given white-space-processed strings by its callers; not judged here
        if o.startswith("ok") != lex:
            key = "datetime-lexical:%s:%s" % (k, "accepts" if o.startswith("ok") else "rejects")
            if len(x) > 0 and re.search(r"\d{10,}", x) and o.startswith("ok"):
                key = "datetime-year-overflow"
            elif o.startswith("ok") and re.search(r"\d\.(Z|[+-])", x):
                key = "datetime-lexical:empty-fraction-accepted"
            V.add(key, "XMLDateTime parse %s(%r): implementation %s (%s), Spec (XSD 3.2.7-3.2.14): %s" % (
                k, x, "accepts" if o.startswith("ok") else "rejects", o[:80], sp[n]), rp)
            continue
        if not lex:
            continue
        f = o.split()
        mo = m[n]
        if " ".join(f[:7]) != mo:
            ndis += 1
            if first_dis is None:
                first_dis = (lines[n], x, mo, " ".join(f[:7]))
        if f[7] != "-":
            can_lines.append("ST %s %s" % (k, f[7])); can_src.append((n, k, x, f[7]))
    # canonical forms: lexical, same value (instant, fraction, zonedness), canonical shape, idempotent
    if can_lines:
        sc = spec(can_lines)
        again, _ = impl(["DT %s %s" % (k, c) for _, k, _, c in can_src])
        for (n, k, x, c), v, a in zip(can_src, sc, again):
            rp = {"op": "DT " + k, "string": hx(x), "text": x, "canonical": txt(c)}
            want = sp[n]
            if k == "time" and v.startswith("lex 1") and want.startswith("lex 1"):
                # xs:time values are times of day: 12:00:00+14:00 and 22:00:00Z are the same recurring instant
                fv, fw = v.split(), want.split()
                fv[3] = str(int(fv[3]) % 86400); fw[3] = str(int(fw[3]) % 86400)
                v, want = " ".join(fv), " ".join(fw)
            if re.match(r"-?0000-", txt(c)):
                V.add("datetime-canonical:year-zero", "canonical form %r of xs:%s %r has the year 0000, which is not a lexical form (XSD 1.0 has no year zero)" % (txt(c), k, x), rp)
                continue
            if v != want:
                key = "datetime-canonical:value:" + classify_dt([x])
                V.add(key, "canonical form %r of xs:%s %r denotes %s, the lexical form denotes %s" % (txt(c), k, x, v, want), rp)
            ct = txt(c)
            if "T24:" in ct or ct.startswith("24:") or re.search(r"\.\d*0(Z|[+-]\d\d:\d\d)?$", ct) or (k != "date" and re.search(r"[+-]\d\d:\d\d$", ct)):
                V.add("datetime-canonical:shape", "canonical form %r of xs:%s %r is not canonical (hour 24, trailing fractional zero or non-UTC zone)" % (ct, k, x), rp)
            if not a.startswith("ok") or a.split()[7] != c:
                V.add("datetime-canonical:idempotent", "canonical form of the canonical form %r of xs:%s is %s" % (ct, k, a), rp)
    if ndis:
        l, x, mo, io = first_dis
        # the model has the hour-24 repair: disagreements on 24:00:00 inputs are explained by the canonical/order violations
        rest = [1 for n, (k, x2) in enumerate(meta) if sp[n].startswith("lex 1") and i[n].startswith("ok") and " ".join(i[n].split()[:7]) != m[n]
                and "24:00:00" not in x2 and x2 == collapse(x2)]
        if rest:
            V.add("corr:datetime", "correspondence XMLDateTime fields after parse: model vs implementation no longer checks (%d cases), first: %s (%r) model=%s impl=%s" % (
                len(rest), l, x, mo, io), {"correspondence": "dt", "case": l, "model": mo, "impl": io}, concrete=False)
    # order
    pools = dt_order_pool(ctx)
    klines, kmeta = [], []
    for k, pool in pools.items():
        for a in pool:
            for b in pool:
                klines.append("DTK %s %s %s" % (k, hx(a), hx(b))); kmeta.append((k, a, b))
    km, ki, kerr = common.run_pair("dt", "hx_dt", klines)
    ks = spec(["STK %s %s %s" % (k, hx(a), hx(b)) for k, a, b in kmeta])
    res = {}
    kd = 0
    for n, (k, a, b) in enumerate(kmeta):
        o = ki[n]
        rp = {"op": "DTK", "kind": k, "a": hx(a), "b": hx(b), "text": [a, b]}
        if ks[n] == "na":
            continue
        if not o.startswith("cmp "):
            V.add("datetime-order:exception", "XMLDateTime::compare(%r, %r) as xs:%s: %s" % (a, b, k, o), rp); continue
        c = o.split()[1]
        res[(k, a, b)] = int(c)
        if c != ks[n]:
            za = a.endswith("Z") or bool(re.search(r"[+-]\d\d:\d\d$", a)); zb = b.endswith("Z") or bool(re.search(r"[+-]\d\d:\d\d$", b))
            cls = classify_dt([a, b])
            if za != zb and ks[n] == "2" and "24:00:00" not in a + b:
                cls = "14h-boundary"
            V.add("datetime-order:" + cls, "XMLDateTime::compare(%r, %r) as xs:%s = %s, XSD 3.2.7.4 gives %s (2 = indeterminate)" % (a, b, k, c, ks[n]), rp)
        if km[n] != o and c == ks[n]:      # the implementation is right by the Spec, so the model has drifted
            kd += 1
            V.add("corr:datetime-compare", "correspondence XMLDateTime::compare model vs implementation no longer checks: %s (%r, %r) model=%s impl=%s" % (
                klines[n], a, b, km[n], o), {"correspondence": "dt", "case": klines[n], "model": km[n], "impl": o}, concrete=False)
    # order axioms on determinate results of the implementation itself
    ntr = 0
    for k, pool in pools.items():
        for a in pool:
            if res.get((k, a, a), 0) != 0:
                V.add("datetime-order:reflexive", "compare(%r,%r) = %s" % (a, a, res.get((k, a, a))), {"op": "DTK", "kind": k, "a": hx(a), "b": hx(a)})
            for b in pool:
                x, y = res.get((k, a, b)), res.get((k, b, a))
                if x is None or y is None:
                    continue
                if (x == 2) != (y == 2) or (x != 2 and x != -y):
                    V.add("datetime-order:antisymmetric:" + classify_dt([a, b]), "compare(%r,%r)=%d but compare(%r,%r)=%d" % (a, b, x, b, a, y),
                          {"op": "DTK", "kind": k, "a": hx(a), "b": hx(b)})
                if x is None or x == 2 or x > 0:
                    continue
                for c in pool:
                    y2, z = res.get((k, b, c)), res.get((k, a, c))
                    if y2 is None or z is None or y2 == 2 or y2 > 0 or z == 2:
                        continue
                    ntr += 1
                    want = 0 if (x == 0 and y2 == 0) else -1
                    if z != want:
                        V.add("datetime-order:transitive:" + classify_dt([a, b, c]), "compare(%r,%r)=%d, compare(%r,%r)=%d, but compare(%r,%r)=%d" % (a, b, x, b, c, y2, a, c, z),
                              {"op": "DTK3", "kind": k, "a": hx(a), "b": hx(b), "c": hx(c)})
    for e in (err, kerr):
        if "runtime error" in e or "AddressSanitizer" in e:
            V.add("dt-sanitizer:datetime", "sanitizer report in date/time harness run: " + common.sanitizer_summary(e), {"stderr": e[-1500:]})
    ctx.stats["datetime_outcomes"] = hist
    ctx.stats["datetime_pairs"] = len(klines)
    ctx.stats["datetime_triples_checked"] = ntr
    ctx.samples.append({"case": lines[40], "text": meta[40][1], "model": m[40], "impl": i[40], "spec": sp[40]})
    ctx.samples.append({"case": klines[9], "text": list(kmeta[9][1:]), "model": km[9], "impl": ki[9], "spec": ks[9]})
    return len(lines) + nr + 2 * len(can_lines) + len(klines), {("DT", k, x) for k, x in meta if x} | {("DTK",) + t for t in kmeta if t[1] != t[2]}

# ------------------------------------------------------------------ (b) validators vs (c) XSValue vs Spec
FLOAT_RE = re.compile(r"(\+|-)?([0-9]+(\.[0-9]*)?|\.[0-9]+)([Ee](\+|-)?[0-9]+)?|-?INF|NaN")

def type_strings(ctx):
    """(type, normalised string, spec verdict or None when the Spec used here does not cover the type)"""
    r = ctx.rng
    out = []
    nums = numeric_strings(ctx)
    st = 1 if ctx.thorough() else 4
    sample = [s for s in nums if len(s) <= 5][::7 * st] + [s for s in nums if len(s) > 5][::3 * st]
    extra = ["-0", "+0", "\v5", "\f5", "5\v", "-", "+", ".", "+.", "-.", "0x1", "1e2", "٣"]
    for t in ["decimal"] + list(INT_TYPES):
        for s in sample + extra + (["%d" % v for lo_hi in [INT_TYPES.get(t, (None, None))] for b in lo_hi if b is not None for v in (b - 1, b, b + 1)]):
            out.append((t, collapse(s)))
    fl = ["0", "-0", "1", "1.5", "1e3", "1E-3", "-1.5e+10", ".5", "5.", ".", "e3", "1e", "1e+", "INF", "-INF", "+INF", "NaN", "nan", "inf", "Infinity",
          "1e400", "-1e400", "1e-400", "3.4028235e38", "3.4028236e38", "1.7976931348623157e308", "1.7976931348623159e308", "4.9e-324", "1.4e-45",
          "1.0e", "1..0", "1,5", "0x1p3", "1f", "1d", "--1", "+-1", "1 e3", "٣"]
    for t in ("float", "double"):
        for s in fl:
            out.append((t, collapse(s)))
        for s in sample[::5]:
            out.append((t, collapse(s)))
    for s in ["true", "false", "1", "0", "TRUE", "True", "yes", "", "00", "01", "tru", "truee", "t", "10", "-0", "+1", "true false"]:
        out.append(("boolean", collapse(s)))
        out.append(("boolean", collapse(" " + s + "\n")))
    H, B, _ = codec_cases(ctx)
    for s in H[::4]:
        if all(0 < u < 0xff for u in s):
            out.append(("hexBinary", collapse("".join(chr(u) for u in s))))
    for c, s in B[::5]:
        if all(0 < u < 0xff for u in s):
            out.append(("base64Binary", collapse("".join(chr(u) for u in s))))
    seen, res = set(), []
    for x in out:
        if x not in seen and "\0" not in x[1]:
            seen.add(x); res.append(x)
    return res

def spec_verdicts(cases):
    """Spec verdict per (type, string): True/False, or None if not covered."""
    lines, idx = [], []
    res = [None] * len(cases)
    for k, (t, s) in enumerate(cases):
        if t == "decimal":
            lines.append("SD " + hx(s)); idx.append(k)
        elif t in INT_TYPES:
            lines.append("SI " + hx(s)); idx.append(k)
        elif t == "hexBinary":
            lines.append("SH " + hx(s)); idx.append(k)
        elif t == "base64Binary":
            lines.append("SB " + hx(s)); idx.append(k)
        elif t == "boolean":
            lines.append("SBo " + hx(s)); idx.append(k)
        elif t in DT_KINDS:
            lines.append("ST %s %s" % (t, hx(s))); idx.append(k)
        elif t in ("float", "double"):
            res[k] = bool(FLOAT_RE.fullmatch(s))
    for k, o in zip(idx, spec(lines)):
        t, s = cases[k]
        ok = o.startswith("lex 1")
        if ok and s != s.strip(WS):
            ok = False
        if ok and t in INT_TYPES:
            v = int(o.split()[3]); lo, hi = INT_TYPES[t]
            ok = (lo is None or v >= lo) and (hi is None or v <= hi)
        res[k] = ok
    return res

def check_types(ctx, V):
    cases = type_strings(ctx)
    cases += datetime_type_cases(ctx)
    # xs:date with a negative year: getDateCanonicalRepresentation overruns its buffer (ASan aborts) — own process each
    risky = [c for c in cases if c[0] == "date" and c[1].startswith("-")]
    cases = [c for c in cases if not (c[0] == "date" and c[1].startswith("-"))]
    for t, s in risky[:(20 if ctx.thorough() else 3)]:
        o, e = impl_single("T %s %s" % (t, hx(s)))
        if "AddressSanitizer" in e or "runtime error" in e or o[0].startswith("CRASH"):
            V.add("datetime-date-canonical-negative-year-overflow", "DateDatatypeValidator::getCanonicalRepresentation(%r): %s" % (s, common.sanitizer_summary(e)),
                  {"op": "T", "type": t, "string": hx(s), "text": s, "stderr": e[-800:]})
    lines = ["T %s %s" % (t, hx(s)) for t, s in cases]
    out, err = impl(lines)
    sv = spec_verdicts(cases)
    agree = 0
    hist = {}
    for (t, s), o, want in zip(cases, out, sv):
        f = dict(x.split("=", 1) for x in o.split() if "=" in x)
        rp = {"op": "T", "type": t, "string": hx(s), "text": txt(hx(s))}
        if "b" not in f or "c" not in f:
            V.add("types:harness", "unexpected output for %s %r: %s" % (t, s, o), rp); continue
        b, c = f["b"][0] == "V", f["c"][0] == "V"
        hist[t] = hist.get(t, 0) + 1
        if "FOREIGN" in o:
            V.add("types:foreign-exception", "%s %r: %s" % (t, txt(hx(s)), o), rp)
        if b != c:
            V.add(classify_bc(t, s, b, c), "xs:%s %r: validator (in-parse route) says %s, XSValue::validate says %s (%s); Spec: %s" % (
                t, txt(hx(s)), "valid" if b else "invalid", "valid" if c else "invalid", f["c"], want), rp)
        else:
            agree += 1
        if want is not None:
            for who, got in (("validator", b), ("XSValue::validate", c)):
                if got != want and b == c:
                    V.add(classify_spec(t, s, got), "xs:%s %r: %s says %s, Spec says %s" % (t, txt(hx(s)), who, "valid" if got else "invalid", "valid" if want else "invalid"), rp)
        # canonical forms agree when both exist (float/double excluded: partial)
        bc, cc = f.get("bc"), f.get("cc", "")
        if t not in ("float", "double") and bc not in (None, "null") and not bc.startswith("exc") and not cc.startswith("null"):
            if bc != cc:
                V.add("canonical:validator-vs-xsvalue:" + group(t), "xs:%s %r: validator canonical form %r, XSValue canonical form %r" % (t, txt(hx(s)), txt(bc), txt(cc)), rp)
        # actual value agrees with the Spec value where representable
        cv = f.get("cv", "")
        if want and t in INT_TYPES and not cv.startswith("null"):
            if int(cv) != int(collapse(s)):
                V.add("xsvalue-actual-value", "XSValue::getActualValue(%r, %s) = %s" % (txt(hx(s)), t, cv), rp)
        if t == "boolean" and want and cv not in ("true", "false") or (t == "boolean" and want and (cv == "true") != (s in ("true", "1"))):
            V.add("xsvalue-actual-value", "XSValue::getActualValue(%r, boolean) = %s" % (txt(hx(s)), cv), rp)
        if not c and not cv.startswith("null"):
            V.add("xsvalue-value-for-invalid:" + group(t), "XSValue::validate(%r, %s) is false but getActualValue returns %s" % (txt(hx(s)), t, cv), rp)
    if "runtime error" in err or "AddressSanitizer" in err:
        V.add("dt-sanitizer:types", "sanitizer report in validator/XSValue harness run: " + common.sanitizer_summary(err), {"stderr": err[-1500:]})
    ctx.stats["type_cases"] = hist
    ctx.stats["bc_agree"] = agree
    ctx.samples.append({"case": lines[5], "text": txt(lines[5].split()[2]), "impl": out[5], "spec": sv[5]})
    return len(lines), {("T", t, s) for t, s in cases if s}

def group(t):
    if t in DT_KINDS or t == "duration": return "datetime"
    if t in INT_TYPES or t == "decimal": return "numeric"
    if t in ("float", "double"): return "float"
    if t in ("hexBinary", "base64Binary"): return t
    return t

def classify_bc(t, s, b, c):
    if t in ("unsignedInt", "unsignedShort", "unsignedByte") and re.fullmatch(r"-0+", s) and b and not c:
        return "xsvalue-unsigned-minus-zero-rejected"
    if t in INT_TYPES and ("\v" in s or "\f" in s) and c and not b:
        return "xsvalue-strtol-skips-vt-ff"
    return "validator-vs-xsvalue:" + group(t)

def classify_spec(t, s, got):
    if t == "decimal" and s in (".", "+.", "-.") and got:
        return "decimal-lone-point-accepted"
    if t in DT_KINDS and got and re.search(r"\d\.(Z|[+-])", s):
        return "datetime-lexical:empty-fraction-accepted"
    return "spec-verdict:" + group(t) + (":accepts" if got else ":rejects")

def datetime_type_cases(ctx):
    strs = dt_strings(ctx)
    out = []
    for k in DT_KINDS:
        for x in strs[k][::(2 if ctx.thorough() else 3)]:
            if "\v" not in x:
                out.append((k, collapse(x)))
    for x in ["P1Y", "P", "PT", "P1YT", "-P1Y2M3DT4H5M6.7S", "P1.5Y", "PT1.S", "P1M2Y", "PT0S", "P0Y", "-P0D", "P1Y2M3D", "PT1H", "PT1.5S", "P1DT", "1Y", "p1y", "P-1Y", "P1Y-2M", "+P1Y",
              "PT1H1H", "P1YT1H", "PT1M1H", "P2147483648Y", "PT4294967296S"]:
        out.append(("duration", collapse(x)))
    return out

# ------------------------------------------------------------------ entry points
def correspondence(ctx):
    V = Viol(ctx)
    total, distinct = 0, set()
    for fn in (check_numeric, check_order, check_codecs, check_ws, check_dates, check_types, c09_facets.check_facets, c09_duration.check_durations):
        n, d = fn(ctx, V)
        total += n
        distinct |= d
    V.flush()
    ctx.stats["evaluations"] = total
    ctx.stats["distinct_nontrivial"] = len(distinct)

_search_done = {}

def search(ctx, broken):
    """A theorem / translator tie broke: the Spec-judged exploration is the same one correspondence() runs (it judges the
    implementation with `dtspec` independently of the model); return one concrete violation found there, if any."""
    if "done" in _search_done:
        return None
    _search_done["done"] = True
    conc = [v for v in ctx.violations if v.get("concrete")]
    if conc:
        return None          # already reported with their own replay
    sub = type("C", (), {})()
    sub.rng = common.SplitMix(ctx.seed * 7919 + 9); sub.tier = "thorough"; sub.thorough = lambda: True
    sub.violations, sub.stats, sub.samples, sub.seed = [], {}, [], ctx.seed
    V = Viol(sub)
    for fn in (check_numeric, check_order, check_codecs, check_ws):
        try:
            fn(sub, V)
        except common.InfraError:
            pass
    V.flush()
    conc = [v for v in sub.violations if v.get("concrete")]
    return conc[0] if conc else None

def replay(ctx, path):
    r = json.load(open(path))["replay"]
    op = r.get("op", "")
    if op == "FS":
        return c09_facets.replay_facet(r)
    if op == "T":
        l = "T %s %s" % (r["type"], r["string"])
        o, e = impl_single(l)
        sv = spec_verdicts([(r["type"], "".join(chr(u) for u in unhx(r["string"])))])
        print("case :", l, repr(r.get("text"))); print("impl :", o[0]); print("spec :", sv[0])
        return 0
    if op in ("DK", "IK"):
        l = "%s %s %s" % (op, r["a"], r["b"])
        m, i, _ = common.run_pair("dt", "hx_dt", [l])
        print("case :", l); print("model:", m[0]); print("impl :", i[0]); print("spec :", spec(["SK %s %s" % (r["a"], r["b"])])[0])
        return 0
    if op == "DK3":
        ls = ["DK %s %s" % (r[x], r[y]) for x, y in (("a", "b"), ("b", "c"), ("a", "c"))]
        m, i, _ = common.run_pair("dt", "hx_dt", ls)
        for l, a, b in zip(ls, m, i):
            print("case :", l); print("model:", a); print("impl :", b)
        return 0
    if op.split()[0:1] and op.split()[0] in ("D", "DC", "I", "IC", "H", "HD", "B"):
        l = op + " " + r["string"]
        try:
            m = common.run_driver(["dt"], input=(l + "\n").encode()).decode().strip()
        except common.InfraError as e:
            m = "driver: %s" % e
        o, e = impl_single(l)
        sl = {"D": "SD", "DC": "SD", "I": "SI", "IC": "SI", "H": "SH", "HD": "SH", "B": "SB"}[op.split()[0]]
        print("case :", l, repr(r.get("text"))); print("model:", m); print("impl :", o[0]); print("spec :", spec([sl + " " + r["string"]])[0])
        if e.strip():
            print("stderr:", common.sanitizer_summary(e))
        return 0
    if op.startswith("DT ") :
        l = op + " " + r["string"]
        m, i, _ = common.run_pair("dt", "hx_dt", [l])
        print("case :", l, repr(r.get("text"))); print("model:", m[0]); print("impl :", i[0]); print("spec :", spec(["ST " + op.split()[1] + " " + r["string"]])[0])
        return 0
    if op == "DTK" and "kind" in r:
        l = "DTK %s %s %s" % (r["kind"], r["a"], r["b"])
        m, i, _ = common.run_pair("dt", "hx_dt", [l])
        print("case :", l, r.get("text")); print("model:", m[0]); print("impl :", i[0]); print("spec :", spec(["STK %s %s %s" % (r["kind"], r["a"], r["b"])])[0])
        return 0
    if op == "DTK3" and "kind" in r:
        ls = ["DTK %s %s %s" % (r["kind"], r[x], r[y]) for x, y in (("a", "b"), ("b", "c"), ("a", "c"))]
        m, i, _ = common.run_pair("dt", "hx_dt", ls)
        for l, a, b in zip(ls, m, i):
            print("case :", l); print("model:", a); print("impl :", b)
        return 0
    if op in ("W c", "W r"):
        l = op + " " + r["string"]
        m, i, _ = common.run_pair("dt", "hx_dt", [l])
        print("case :", l, repr(r.get("text"))); print("model:", m[0]); print("impl :", i[0]); print("spec :", spec(["S" + l])[0])
        return 0
    if op == "BE":
        l = "BE " + r["octets"]
        m, i, _ = common.run_pair("dt", "hx_dt", [l])
        print("case :", l); print("model:", m[0]); print("impl :", i[0]); print("spec :", spec(["SE " + r["octets"]])[0])
        return 0
    print(json.dumps(r, indent=1))
    return 0
