"""C05 — transcoders decode/encode exactly.  Theorems: XV.Props.C05.  Correspondence: the real
XMLUTF8Transcoder (obtained from the transcoding service) against the code-shaped Lean model on
exhaustive short byte strings, structured boundary strings, every scalar (thorough) and random scalar
strings; on any disagreement or broken theorem the executable Spec (Table 3-7 reference decoder)
judges the implementation directly."""
import common

PID = "C05"
GEN = ["Utf8Tables", "ByteTables", "Recognizer", "ReaderConsts"]
LEAN_MODULE = "XV.Props.C05"
THEOREMS = ["XV.Props.C05." + t for t in (
    "utf8_tables_spec", "table37_iff_table36", "utf8_step_complete", "utf8_step_sound",
    "utf8_decode_sound", "utf8_decode_complete", "utf8_exc_only_illformed", "utf8_encode_exact",
    "utf8_roundtrip", "bytetables_wellformed", "xlatOneTo_is_lookup", "bytetables_roundtrip", "bytetables_to_consistent",
    "utf16_roundtrip", "ucs4_decode_exact", "ucs4_encode_exact", "ucs4_rejects_out_of_range", "latin1_roundtrip",
    "ascii_block_exact", "ascii_decode_exact", "ascii_roundtrip", "ascii_unrepresentable", "ascii_model_eq_reader_model",
    "probe_prefixes_are_encodings", "probe_eq_appendixF_decl", "probe_eq_appendixF_bom")]
RULE = ("byte strings: all of length 1-2, 3/4-byte forms over boundary bytes, random scalar strings with "
        "ill-formed splices, each with several maxChars; UTF-16 strings: boundary + random (all scalars in "
        "thorough); a case is non-trivial when it contains a byte >= 0x80 or a unit >= 0x80; distinct by text; "
        "single-byte transcoders (US-ASCII, ISO-8859-1, the four table code pages) and UCS-4: every byte value / "
        "an illegal value at every position 0..80 of a legal run, decoded as a stream of transcodeFrom calls with "
        "several (block, maxChars) sizes and in single calls; unrepresentable units at the same positions for "
        "transcodeTo; US-ASCII documents with an illegal byte around the block boundaries of the reader")
ASSUMPTIONS = ["ICU-provided encodings are outside the model", "XMLCh strings and byte buffers are modelled as lists of Nat"]
TRUSTED = ["XV.Spec.Utf8 (Unicode Tables 3-6/3-7, D91) as transcribed"]

def hx(v):
    return ".".join("%x" % x for x in v) if v else "-"

def enc_utf8(cp):
    if cp < 0x80: return [cp]
    if cp < 0x800: return [0xC0 | cp >> 6, 0x80 | cp & 63]
    if cp < 0x10000: return [0xE0 | cp >> 12, 0x80 | (cp >> 6) & 63, 0x80 | cp & 63]
    return [0xF0 | cp >> 18, 0x80 | (cp >> 12) & 63, 0x80 | (cp >> 6) & 63, 0x80 | cp & 63]

def utf16(cp):
    if cp < 0x10000: return [cp]
    c = cp - 0x10000
    return [0xD800 + (c >> 10), 0xDC00 + (c & 1023)]

EDGE = [0x00, 0x41, 0x7F, 0x80, 0x8F, 0x90, 0x9F, 0xA0, 0xBF, 0xC0, 0xC1, 0xC2, 0xDF, 0xE0, 0xE1, 0xEC, 0xED,
        0xEE, 0xEF, 0xF0, 0xF1, 0xF3, 0xF4, 0xF5, 0xF7, 0xF8, 0xFB, 0xFC, 0xFD, 0xFE, 0xFF]
SCALAR_EDGE = [0, 0x41, 0x7F, 0x80, 0x7FF, 0x800, 0xFFF, 0x1000, 0xD7FF, 0xE000, 0xFFFD, 0xFFFE, 0xFFFF, 0x10000,
               0x3FFFF, 0x40000, 0xFFFFF, 0x100000, 0x10FFFF]

def rand_scalar(r):
    k = r.below(10)
    if k < 3: return 0x20 + r.below(0x5F)
    if k < 5: return 0x80 + r.below(0x780)
    if k < 7:
        while True:
            c = 0x800 + r.below(0xF800)
            if not 0xD800 <= c <= 0xDFFF: return c
    if k < 9: return 0x10000 + r.below(0x100000)
    return r.choice(SCALAR_EDGE)

def gen_cases(ctx):
    r = ctx.rng
    th = ctx.thorough()
    F = []
    # (a) exhaustive length 1 and 2
    for a in range(256):
        F.append(("F 8", [a]))
        for b in range(256):
            F.append(("F 8", [a, b]))
    # (b) structured 3- and 4-byte forms over boundary bytes, with a trailing ASCII so that the
    # sequence is complete
    leads3 = list(range(0xE0, 0xF0)); leads4 = list(range(0xF0, 0x100))
    for l in leads3:
        for b1 in EDGE:
            for b2 in EDGE:
                F.append(("F 8", [l, b1, b2, 0x41]))
    for l in leads4:
        for b1 in EDGE:
            for b2 in (0x7F, 0x80, 0xBF, 0xC0):
                for b3 in (0x7F, 0x80, 0xBF, 0xC0):
                    F.append(("F 8", [l, b1, b2, b3, 0x41, 0x41]))
    if th:
        for l in range(0xC0, 0x100):
            for b1 in range(0x70, 0xD0):
                for b2 in range(0x70, 0xD0, 3):
                    F.append(("F 8", [l, b1, b2, 0x80 + (b1 * 7 + b2) % 64, 0x41, 0x41]))
    # (c) random scalar strings, sometimes with an ill-formed splice, several maxChars
    n = 60000 if th else 6000
    for _ in range(n):
        ln = r.choice([0, 1, 2, 3, 5, 8, 31, 32, 33, 34, 40, 70])
        ss = [rand_scalar(r) for _ in range(ln)]
        bs = [b for s in ss for b in enc_utf8(s)]
        k = r.below(10)
        if k < 4 and True:
            bad = r.choice([[0xF5, 0x80, 0x80, 0x80], [0xF7, 0xBF, 0xBF, 0xBF], [0xED, 0xA0, 0x80], [0xC0, 0x80],
                            [0xE0, 0x80, 0x80], [0xF0, 0x80, 0x80, 0x80], [0xF4, 0x90, 0x80, 0x80], [0x80],
                            [0xF8, 0x88, 0x80, 0x80, 0x80], [0xFC, 0x84, 0x80, 0x80, 0x80, 0x80], [0xFE], [0xFF],
                            [0xE2, 0x82], [0xF0, 0x9F, 0x98], [0xC3], [0xE2, 0x41, 0x80]])
            pos = r.below(len(bs) + 1)
            # splice at a sequence boundary
            while pos < len(bs) and 0x80 <= bs[pos] < 0xC0:
                pos += 1
            tail = [0x41] * r.choice([0, 1, 6])
            bs = bs[:pos] + bad + (bs[pos:] if r.chance(1, 2) else []) + tail
        elif k < 5 and bs:
            bs = list(bs); bs[r.below(len(bs))] = r.below(256)
        mc = r.choice([1, 2, 3, 4, 33, 34, 35, 64, 200])
        F.append(("F %d" % mc, bs))
    # (d) position sweep: every kind of ill-formed sequence after 0..80 decoded characters (the transcoder defers
    # some errors once more than 32 characters are out: the next call must raise them)
    BAD = [[0xF5, 0x80, 0x80, 0x80], [0xF7, 0xBF, 0xBF, 0xBF], [0xED, 0xA0, 0x80], [0xC0, 0x80], [0xE0, 0x80, 0x80],
           [0xF0, 0x80, 0x80, 0x80], [0xF4, 0x90, 0x80, 0x80], [0x80], [0xF8, 0x88, 0x80, 0x80, 0x80],
           [0xFC, 0x84, 0x80, 0x80, 0x80, 0x80], [0xFE], [0xFF], [0xE2, 0x41, 0x80], [0xC3, 0x41]]
    for pos in range(0, 81):
        for bad in BAD:
            wide = (pos + len(bad)) % 3 == 0
            run = [b for _ in range(pos) for b in (enc_utf8(0xE9) if wide else [0x61])]
            F.append(("F %d" % r.choice([4096, pos + 1, pos + 2, 64, 200]), run + bad + [0x41] * 6))
    T = []
    for s in SCALAR_EDGE:
        for room in (1, 2, 3, 4, 8):
            T.append(("T %d 1" % room, utf16(s)))
    scal = range(0, 0x110000) if th else [rand_scalar(r) for _ in range(20000)]
    for s in scal:
        if 0xD800 <= s <= 0xDFFF:
            continue
        T.append(("T 8 1", utf16(s)))
    for _ in range(20000 if th else 3000):
        ln = r.choice([1, 2, 3, 5, 17])
        us = [u for _ in range(ln) for u in utf16(rand_scalar(r))]
        k = r.below(8)
        if k == 0:
            us.insert(r.below(len(us) + 1), r.choice([0xD800, 0xDBFF, 0xDC00, 0xDFFF]))
        elif k == 1:
            us.append(0xD83D)
        T.append(("T %d %d" % (r.choice([1, 2, 3, 4, 5, 7, 64]), r.below(2)), us))
    return [p + " " + hx(v) for p, v in F], [p + " " + hx(v) for p, v in T]

# ------------------------------------------------------------------ spec judge
def parse_ok(line):
    f = line.split()
    if f and f[0] == "ok":
        return f
    return None

def judge_decode(byte_lists, maxchars=None):
    """Drive the real transcoder as a stream (repeated calls on the remaining bytes, ample room) and
    compare the final outcome with the executable Spec.  Returns list of (bytes, what) contradictions."""
    if not byte_lists:
        return []
    spec = common.run_driver(["utf8spec"], input=("\n".join("S " + hx(b) for b in byte_lists) + "\n").encode()).decode().split("\n")
    mcs = maxchars or [4096] * len(byte_lists)
    state = [{"bs": b, "pos": 0, "chars": [], "end": None, "mc": max(2, mc)} for b, mc in zip(byte_lists, mcs)]
    for _round in range(400):
        todo = [s for s in state if s["end"] is None]
        if not todo:
            break
        lines = ["F %d " % s["mc"] + hx(s["bs"][s["pos"]:]) for s in todo]
        p = common.run_harness("hx_utf8", input=("\n".join(lines) + "\n").encode())
        outs = p.stdout.decode().split("\n")
        for s, o in zip(todo, outs):
            f = parse_ok(o)
            if f is None:
                s["end"] = o.strip() or "NO-OUTPUT"
                continue
            chars = [] if f[1] == "-" else [int(x, 16) for x in f[1].split(".")]
            eaten = int(f[3])
            s["chars"] += chars
            s["pos"] += eaten
            if s["pos"] >= len(s["bs"]):
                s["end"] = "consumed"
            elif eaten == 0:
                s["end"] = "stalled"
    bad = []
    for s, sp in zip(state, spec):
        f = sp.split()
        want = [] if f[0] == "-" else [int(x, 16) for x in f[0].split(".")]
        status = f[1]
        off = int(f[2]) if len(f) > 2 else len(s["bs"])
        remaining = len(s["bs"]) - off
        got = s["chars"]
        what = None
        if got[:len(want)] != want[:len(got)] or len(got) > len(want):
            what = "decoded units %s differ from the Table 3-7 reading %s" % (hx(got), hx(want))
        elif status == "done":
            if s["end"] != "consumed" or got != want:
                what = "well-formed input not decoded completely (ended: %s)" % s["end"]
        elif status == "illformed" and remaining >= 6:
            if not (s["end"] or "").startswith("exc"):
                what = "ill-formed sequence at offset %d not rejected (ended: %s, consumed %d)" % (off, s["end"], s["pos"])
            elif got != want:
                what = None  # exception discards the partial block; acceptable
        elif status == "truncated":
            if s["end"] == "consumed":
                what = "truncated sequence at offset %d silently consumed" % off
        if what:
            bad.append((s["bs"], what))
    return bad

def classify(bs, what):
    if ("not rejected" in what or "differ" in what) and any(b in (0xF5, 0xF6, 0xF7) for b in bs):
        return "utf8-above-10ffff-skipped-after-32-chars"
    if "differ" in what:
        return "utf8-decode:wrong-or-illformed-data-decoded"
    if "not rejected" in what:
        return "utf8-decode:illformed-not-rejected"
    if "not decoded completely" in what:
        return "utf8-decode:wellformed-not-decoded"
    return "utf8-decode:truncated-consumed"

def check_decode_against_spec(ctx, byte_lists, origin, maxchars=None):
    bad = judge_decode(byte_lists, maxchars)
    by_key = {}
    for bs, what in bad:
        k = classify(bs, what)
        if k not in by_key or len(bs) < len(by_key[k][0]):
            by_key[k] = (bs, what)
    for k, (bs, what) in by_key.items():
        ctx.violations.append({"key": k, "concrete": True,
                               "what": "XMLUTF8Transcoder::transcodeFrom on bytes %s: %s" % (hx(bs), what),
                               "replay": {"op": "F", "bytes": hx(bs), "origin": origin}})
    return len(bad)

def correspondence(ctx):
    utf8_correspondence(ctx)
    codec_correspondence(ctx)
    stream_correspondence(ctx)
    doc_correspondence(ctx)
    ascii_doc_correspondence(ctx)

def utf8_correspondence(ctx):
    F, T = gen_cases(ctx)
    lines = F + T
    m, i, err = common.run_pair("utf8", "hx_utf8", lines)
    d = common.diff_pairs(lines, m, i)
    ctx.stats["evaluations"] = len(lines)
    ctx.stats["distinct_nontrivial"] = len({l for l in lines if any(len(t) > 2 or t > "7f" for t in l.split()[-1].split("."))})
    ctx.stats["decode_cases"] = len(F); ctx.stats["encode_cases"] = len(T)
    ctx.stats["disagreements"] = len(d)
    kinds = {}
    for o in i:
        k = o.split()[0] + (" " + o.split()[1] if o.startswith("exc") else "")
        kinds[k] = kinds.get(k, 0) + 1
    ctx.stats["impl_outcomes"] = kinds
    ctx.samples += [{"case": lines[k], "model": m[k], "impl": i[k]} for k in (0, 300, len(F) - 1, len(F) + 5, len(lines) - 1)]
    if "runtime error" in err or "AddressSanitizer" in err:
        ctx.violations.append({"key": "utf8-sanitizer", "concrete": True,
                               "what": "sanitizer report in transcoder harness: " + common.sanitizer_summary(err),
                               "replay": {"stderr": err[-2000:]}})
    if d:
        # judge the disagreeing decode inputs by the Spec
        fl = [l for _, l, _, _ in d if l.startswith("F")][:400]
        fb = [[int(x, 16) for x in l.split()[2].split(".")] if l.split()[2] != "-" else [] for l in fl]
        n = check_decode_against_spec(ctx, fb, "correspondence", [int(l.split()[1]) for l in fl]) if fb else 0
        # encode disagreements on well-formed UTF-16 are judged by the model's own theorem (encode = Spec)
        for k, l, mo, io in d:
            if l.startswith("T"):
                us = [int(x, 16) for x in l.split()[3].split(".")] if l.split()[3] != "-" else []
                wf = all(not 0xD800 <= u <= 0xDFFF for u in us) or is_wf16(us)
                if wf:
                    ctx.violations.append({"key": "utf8-encode-wellformed", "concrete": True,
                        "what": "XMLUTF8Transcoder::transcodeTo on well-formed UTF-16 %s gives %s, Spec (proved equal to the model) gives %s" % (l, io, mo),
                        "replay": {"op": l, "impl": io, "spec": mo}})
                    break
        if not any(v.get("concrete") for v in ctx.violations):
            k, l, mo, io = d[0]
            ctx.violations.append({"key": "corr:utf8", "concrete": False,
                "what": "correspondence utf8 model vs XMLUTF8Transcoder no longer checks (%d cases), first: %s model=%s impl=%s" % (len(d), l, mo, io),
                "replay": {"correspondence": "utf8", "case": l, "model": mo, "impl": io}})

# ------------------------------------------------------------------ other intrinsic encodings + detection
FIXED = ["ISO-8859-1", "US-ASCII", "UTF-16LE", "UTF-16BE", "UCS-4LE", "UCS-4BE"]
TABLES = ["windows-1252", "IBM037", "IBM1047", "IBM1140"]

def spec_encode(enc, cps):
    """Spec: bytes of a scalar string in a fixed-width encoding, or None if unrepresentable"""
    out = []
    for c in cps:
        if enc == "ISO-8859-1":
            if c > 255: return None
            out.append(c)
        elif enc == "US-ASCII":
            if c > 127: return None
            out.append(c)
        elif enc.startswith("UTF-16"):
            for u in utf16(c):
                out += [u >> 8, u & 255] if enc.endswith("BE") else [u & 255, u >> 8]
        else:
            b = [(c >> 24) & 255, (c >> 16) & 255, (c >> 8) & 255, c & 255]
            out += b if enc.endswith("BE") else b[::-1]
    return out

def load_gen_tables():
    """from/to tables as regenerated by the translator (the Spec side of the table encodings is the table itself)"""
    import re, os
    txt = open(os.path.join(common.GEN, "ByteTables.lean")).read()
    res = {}
    for enc, nm in zip(TABLES, ["Win1252", "Ebcdic037", "Ibm1047", "Ibm1140"]):
        fr = [int(x) for x in re.search(r"def from%s : List Nat := \[(.*?)\]" % nm, txt, re.S).group(1).replace("\n", " ").split(",")]
        to = [(int(a), int(b)) for a, b in re.findall(r"\((\d+), (\d+)\)", re.search(r"def to%s : List \(Nat × Nat\) := \[(.*?)\]\n" % nm, txt, re.S).group(1))]
        res[enc] = (fr, dict(to))
    return res

def codec_correspondence(ctx):
    r = ctx.rng
    lines = []; meta = []
    tabs = load_gen_tables()
    # every byte / every unit of the table encodings, every byte pair / quadruple class of the fixed ones
    for enc in TABLES:
        for b0 in range(0, 256, 16):
            lines.append("GF %s 64 %s" % (enc, hx(list(range(b0, b0 + 16))))); meta.append(("tf", enc, list(range(b0, b0 + 16))))
        units = range(0, 65536) if ctx.thorough() else sorted(set(list(tabs[enc][1].keys()) + [r.below(65536) for _ in range(600)] + list(range(0, 0x180))))
        for u in units:
            lines.append("GT %s 4 1 %x" % (enc, u)); meta.append(("tt", enc, u))
            if u % 7 == 0:
                lines.append("GC %s %x" % (enc, u)); meta.append(("tc", enc, u))
    n = 30000 if ctx.thorough() else 3000
    for _ in range(n):
        enc = r.choice(FIXED)
        cps = [rand_scalar(r) for _ in range(r.choice([1, 2, 3, 8]))]
        if enc in ("ISO-8859-1", "US-ASCII"):
            cps = [c % (300 if enc == "ISO-8859-1" else 160) for c in cps]
        us = [u for c in cps for u in utf16(c)]
        room = r.choice([1, 2, 3, 4, 5, 7, 8, 64])
        lines.append("GT %s %d %d %s" % (enc, room, r.below(2), hx(us))); meta.append(("ft", enc, cps, room))
        bs = spec_encode(enc, cps)
        if bs is not None:
            k = r.below(6)
            if k == 0 and bs: bs = bs[:-1]
            if k == 1 and enc.startswith("UCS") and len(bs) >= 4:
                v = r.choice([0x110000, 0xFFFFFFFF, 0x7FFFFFFF, 0xD800, 0xDFFF, 0x10FFFF, 0x110000 + r.below(1 << 20)])
                q = [(v >> 24) & 255, (v >> 16) & 255, (v >> 8) & 255, v & 255]
                bs = bs[:-4] + (q if enc.endswith("BE") else q[::-1])
                cps = cps[:-1] + [v]
            mc = r.choice([1, 2, 3, 4, 64])
            lines.append("GF %s %d %s" % (enc, mc, hx(bs))); meta.append(("ff", enc, cps, mc, k))
    # detection: every family's declaration opener / BOM followed by arbitrary bytes, plus short and random buffers
    decl = [0x3C, 0x3F, 0x78, 0x6D, 0x6C, 0x20]
    fam = {"UTF_8": decl, "UTF_16B": spec_encode("UTF-16BE", decl), "UTF_16L": spec_encode("UTF-16LE", decl),
           "UCS_4B": spec_encode("UCS-4BE", decl), "UCS_4L": spec_encode("UCS-4LE", decl),
           "EBCDIC": [tabs["IBM037"][1][c] for c in decl]}
    boms = {"UCS_4B": [0, 0, 0xFE, 0xFF], "UCS_4L": [0xFF, 0xFE, 0, 0], "UTF_16B": [0xFE, 0xFF], "UTF_16L": [0xFF, 0xFE], "UTF_8": [0xEF, 0xBB, 0xBF]}
    for _ in range(4000 if ctx.thorough() else 600):
        k = r.below(4)
        if k == 0:
            f = r.choice(sorted(fam)); tail = [r.below(256) for _ in range(1 + r.below(6))]
            lines.append("P " + hx(fam[f] + tail)); meta.append(("pd", f))
        elif k == 1:
            f = r.choice(sorted(boms)); tail = [1 + r.below(255), r.below(256), r.below(256), r.below(256)]
            lines.append("P " + hx(boms[f] + tail)); meta.append(("pb", f))
        elif k == 2:
            f = r.choice(sorted(fam)); cut = r.below(len(fam[f]) + 1)
            lines.append("P " + hx(fam[f][:cut])); meta.append(("px", None))
        else:
            lines.append("P " + hx([r.choice([0, 0x3C, 0x3F, 0xFE, 0xFF, 0xEF, 0xBB, 0xBF, 0x4C, 0x6F, 0x78, r.below(256)]) for _ in range(r.below(9))])); meta.append(("px", None))
    m, i, err = common.run_pair("codec", "hx_utf8", lines)
    nbad = 0; first = None; cats = {}
    for k, (l, mo, io, me) in enumerate(zip(lines, m, i, meta)):
        spec_bad = None
        kind = me[0]
        if kind == "tf":
            want = [tabs[me[1]][0][b] for b in me[2]]
            if io != "ok %s %s %d" % (hx(want), hx([1] * 16), 16): spec_bad = "table decoding of bytes differs from the generated from-table"
        elif kind == "tt":
            b = tabs[me[1]][1].get(me[2], 0)
            want = "ok %x 1" % b if b else "exc Trans_Unrepresentable"
            if io != want: spec_bad = "table encoding of U+%04X: expected %s" % (me[2], want)
        elif kind == "ft":
            enc, cps, room = me[1], me[2], me[3]
            full = spec_encode(enc, cps)
            if io.startswith("ok"):
                got = [] if io.split()[1] == "-" else [int(x, 16) for x in io.split()[1].split(".")]
                ref = spec_encode(enc, cps) if full is not None else None
                if ref is not None and got != ref[:len(got)]:
                    spec_bad = "encoded bytes are not a prefix of the %s form %s" % (enc, hx(ref))
                if ref is not None and len(got) > room:
                    spec_bad = "wrote past maxBytes"
            elif full is not None:
                spec_bad = "representable string rejected"
        elif kind == "ff":
            enc, cps, mc, k = me[1], me[2], me[3], me[4]
            if k == 1 and (cps[-1] > 0x10FFFF):
                # an out-of-range value must not be decoded: either an exception, or it is left unconsumed
                if io.startswith("ok"):
                    eaten = int(io.split()[3])
                    if eaten >= 4 * len(cps):
                        spec_bad = "UCS-4 value above U+10FFFF was decoded"
            elif k not in (0, 1) and io.startswith("ok"):
                want = [u for c in cps for u in utf16(c)]
                got = [] if io.split()[1] == "-" else [int(x, 16) for x in io.split()[1].split(".")]
                if got != want[:len(got)] or (mc >= len(want) and got != want):
                    spec_bad = "decoded units %s differ from %s" % (hx(got), hx(want))
            elif k not in (0, 1):
                spec_bad = "legal %s sequence rejected" % enc
        elif kind in ("pd", "pb"):
            if io != me[1]: spec_bad = "encoding probe says %s, Appendix F says %s" % (io, me[1])
        if spec_bad:
            nbad += 1
            key = {"tf": "codec-table-decode", "tt": "codec-table-encode", "ft": "codec-fixed-encode", "ff": "codec-fixed-decode",
                   "pd": "encoding-probe", "pb": "encoding-probe"}[kind]
            if key not in cats or len(l) < len(cats[key][0]):
                cats[key] = (l, io, spec_bad)
        if mo != io and first is None:
            first = (l, mo, io)
    for key, (l, io, what) in cats.items():
        ctx.violations.append({"key": key, "concrete": True, "what": "%s -> %s: %s" % (l, io, what), "replay": {"op": l, "impl": io}})
    if first and not cats:
        ctx.violations.append({"key": "corr:codec", "concrete": False,
            "what": "correspondence codec/probe model vs implementation no longer checks: %s model=%s impl=%s" % first,
            "replay": {"correspondence": "codec", "case": first[0], "model": first[1], "impl": first[2]}})
    ctx.stats["codec_cases"] = len(lines); ctx.stats["codec_spec_violations"] = nbad
    ctx.stats["evaluations"] = ctx.stats.get("evaluations", 0) + len(lines)
    ctx.stats["distinct_nontrivial"] = ctx.stats.get("distinct_nontrivial", 0) + len(set(lines))
    ctx.samples.append({"case": lines[len(lines) // 2], "model": m[len(lines) // 2], "impl": i[len(lines) // 2]})

# ------------------------------------------------------------------ single-byte transcoders as streams, position sweeps
SWEEP_POS = list(range(0, 81))
COMBOS = [(4096, 4096), (64, 64), (16, 7), (200, 40), (33, 33), (34, 34), (35, 200), (1, 1), (100, 34), (7, 3)]
SINGLE = ["US-ASCII", "ISO-8859-1"] + TABLES

def good_run(r, n):
    return [0x20 + r.below(0x5F) for _ in range(n)]

def unhx(t):
    return [] if t == "-" else [int(x, 16) for x in t.split(".")]

def spec_ascii(byte_lists):
    """the executable Lean Spec (XV.Spec.Ascii.decode): (code points of the legal prefix, offset of the first illegal byte | None)"""
    uniq = sorted({hx(b) for b in byte_lists})
    out = common.run_driver(["codec"], input=("\n".join("SA " + u for u in uniq) + "\n").encode()).decode().split("\n")
    res = {}
    for u, o in zip(uniq, out):
        f = o.split()
        res[u] = (unhx(f[0]), None if f[1] == "legal" else int(f[2]))
    return res

def judge_stream(io, want, off):
    """`want` = the Spec's code points of the maximal legal prefix, `off` = byte offset of the first illegal
    byte (None: all legal; for single-byte encodings offset == number of characters before it).  Returns a
    (key-suffix, text) contradiction or None."""
    f = io.split()
    if not f:
        return ("no-output", "no observation")
    if f[0] == "done" and len(f) >= 2:
        got = unhx(f[1])
        if off is not None:
            return ("illegal-not-rejected", "illegal input at offset %d was not rejected: the stream was consumed to the end, delivered %d units (legal prefix has %d)" % (off, len(got), len(want)))
        if got != want:
            return ("wrong-units", "delivered units %s differ from the Spec's %s" % (hx(got), hx(want)))
    elif f[0] == "exc" and len(f) >= 4:
        got = unhx(f[2]); pos = int(f[3])
        if off is None:
            return ("legal-rejected", "legal input rejected with %s" % f[1])
        if got != want[:len(got)]:
            return ("wrong-units", "units delivered before the exception %s are not a prefix of the Spec's %s" % (hx(got), hx(want)))
        if pos > off:
            return ("illegal-not-rejected", "the call starting at offset %d threw, but the first illegal byte is at offset %d: it was consumed without an error" % (pos, off))
    elif f[0] == "stalled":
        return ("stalled", "transcodeFrom consumed nothing although bytes remain: " + io[:80])
    else:
        return ("bad-observation", io[:120])
    if "charsizes-sum" in io:
        return ("charsizes", "charSizes do not add up to bytesEaten (%s)" % f[-1])
    return None

def judge_single_from(io, bs, mc, legal, table):
    """one transcodeFrom call on a single-byte encoding: `legal(b)`, `table(b)` = the Spec's code point"""
    f = io.split()
    n = min(mc, len(bs))
    firstbad = next((k for k in range(n) if not legal(bs[k])), None)
    if f and f[0] == "ok" and len(f) == 4:
        got = unhx(f[1]); sz = unhx(f[2]); eaten = int(f[3])
        if eaten > n or len(got) > mc:
            return ("overrun", "consumed %d bytes / produced %d units with maxChars %d, srcCount %d" % (eaten, len(got), mc, len(bs)))
        if firstbad is not None and eaten > firstbad:
            return ("illegal-not-rejected", "illegal byte at index %d reported as consumed (bytesEaten %d) without an error" % (firstbad, eaten))
        if got != [table(b) for b in bs[:eaten]] or len(got) != eaten:
            return ("wrong-units", "units %s are not the decoding of the %d consumed bytes" % (hx(got), eaten))
        if sz != [1] * len(got):
            return ("charsizes", "charSizes %s for a single-byte encoding" % hx(sz))
        if firstbad is None and eaten != n:
            return ("legal-not-decoded", "legal block decoded only up to %d of %d" % (eaten, n))
    elif f and f[0] == "exc":
        if firstbad is None:
            return ("legal-rejected", "legal block rejected with %s" % io)
    else:
        return ("bad-observation", io[:120])
    return None

def stream_correspondence(ctx):
    r = ctx.rng
    th = ctx.thorough()
    tabs = load_gen_tables()
    lines = []; meta = []
    def table_of(enc):
        if enc in tabs:
            fr = tabs[enc][0]
            return (lambda b: fr[b] != 0xFFFF), (lambda b: fr[b])
        if enc == "US-ASCII":
            return (lambda b: b < 0x80), (lambda b: b)
        return (lambda b: True), (lambda b: b)
    # (1) US-ASCII: every byte value at every position 0..80 of a legal run, whole-input streams + single calls
    for pos in SWEEP_POS:
        run = good_run(r, pos)
        for b in range(256):
            tail = good_run(r, (b + pos) % 3 * 3)
            bs = run + [b] + tail
            second = r.choice(COMBOS[1:])
            for blk, mc in ([COMBOS[0], second] if (b >= 0x80 and (b % 4 == pos % 4 or th)) or b % 16 == 0 else [COMBOS[0]] if b >= 0x80 else [second]):
                lines.append("GS US-ASCII %d %d %s" % (blk, mc, hx(bs))); meta.append(("s", "US-ASCII", bs))
            if b in (0x7F, 0x80, 0xA0, 0xE9, 0xFF) or th:
                for blk, mc in COMBOS:
                    lines.append("GS US-ASCII %d %d %s" % (blk, mc, hx(bs))); meta.append(("s", "US-ASCII", bs))
            if b >= 0x80 and (b % 8 == pos % 8 or th):
                for mc in {max(1, pos), pos + 1, pos + 2, 4096}:
                    lines.append("GF US-ASCII %d %s" % (mc, hx(bs))); meta.append(("f", "US-ASCII", bs, mc))
    # two illegal bytes, the second one behind a deferred first; long legal runs with odd block sizes
    for _ in range(3000 if th else 300):
        n = r.choice([33, 34, 40, 66, 70, 100, 130])
        bs = good_run(r, n)
        for _k in range(r.choice([1, 2, 3])):
            bs[r.below(n)] = 0x80 + r.below(0x80)
        blk, mc = r.choice(COMBOS)
        lines.append("GS US-ASCII %d %d %s" % (blk, mc, hx(bs))); meta.append(("s", "US-ASCII", bs))
    # (2) US-ASCII / ISO-8859-1 / tables, transcodeTo: an unrepresentable unit at every position, both options
    for enc in SINGLE:
        if enc in tabs:
            rep = sorted(u for u, b in tabs[enc][1].items() if b != 0 and 0x20 <= u < 0x7F)
            unrep = [u for u in (0x80, 0x3A9, 0x4E2D, 0xFFFD, 0xFFFF, 0xD800, 0x100, 0x2028) if not tabs[enc][1].get(u)]
            can = lambda u, e=enc: bool(tabs[e][1].get(u)) if u < 65536 else False
        else:
            lim = 0x80 if enc == "US-ASCII" else 0x100
            rep = list(range(0x20, 0x7F)); unrep = [lim, lim + 1, 0x3A9, 0x4E2D, 0xFFFD, 0xFFFF, 0xD800, 0x17F]
            can = lambda u, l=lim: u < l
        for pos in SWEEP_POS if (enc == "US-ASCII" or th) else (0, 1, 31, 32, 33, 34, 40, 64, 80):
            run = [r.choice(rep) for _ in range(pos)]
            for u in unrep[:8 if (enc == "US-ASCII" or th) else 3]:
                us = run + [u] + [r.choice(rep) for _ in range(pos % 3)]
                for thr in (0, 1):
                    room = r.choice([pos + 1, pos + 2, 200, max(1, pos)])
                    lines.append("GT %s %d %d %s" % (enc, room, thr, hx(us))); meta.append(("t", enc, us, room, thr, can))
        for u in list(range(0, 0x120)) + [0x17F, 0x20AC, 0xFFFF, 0x10000, 0x10FFFF]:
            lines.append("GC %s %x" % (enc, u)); meta.append(("c", enc, u, can))
    # (3) ISO-8859-1 and the table code pages: every byte value at the positions where a deferred-error rule
    # would bite (they have none: every byte is defined), streams + single calls
    for enc in ["ISO-8859-1"] + TABLES:
        for pos in (SWEEP_POS if th else (0, 31, 32, 33, 34, 40, 80)):
            run = good_run(r, pos)
            if enc.startswith("IBM"):
                run = [tabs[enc][1][c] for c in run]
            for b0 in range(0, 256, 8):
                bs = run + list(range(b0, b0 + 8))
                blk, mc = r.choice(COMBOS)
                lines.append("GS %s %d %d %s" % (enc, blk, mc, hx(bs))); meta.append(("s", enc, bs))
                lines.append("GF %s %d %s" % (enc, r.choice([pos + 1, pos + 8, 4096]), hx(bs))); meta.append(("f", enc, bs, int(lines[-1].split()[2])))
    # (4) UCS-4: a value above U+10FFFF / a legal supplementary at every position (the decoder throws at once: no deferral)
    for enc in ("UCS-4LE", "UCS-4BE"):
        for pos in (SWEEP_POS if th else (0, 1, 31, 32, 33, 34, 40, 80)):
            cps = [rand_scalar(r) for _ in range(pos)]
            for v in (0x110000, 0xFFFFFFFF, 0x10FFFF, 0x7FFFFFFF):
                q = [(v >> 24) & 255, (v >> 16) & 255, (v >> 8) & 255, v & 255]
                bs = spec_encode(enc, cps) + (q if enc.endswith("BE") else q[::-1]) + spec_encode(enc, [0x41])
                blk, mc = r.choice([(4096, 4096), (64, 64), (16, 7), (200, 40), (36, 34), (8, 2)])
                lines.append("GS %s %d %d %s" % (enc, blk, mc, hx(bs)))
                meta.append(("u", enc, [u for c in cps for u in utf16(c)] + (utf16(v) + [0x41] if v <= 0x10FFFF else []), 4 * pos if v > 0x10FFFF else None))
    m, i, err = common.run_pair("codec", "hx_utf8", lines)
    spec = spec_ascii([me[2] for me in meta if me[0] == "s" and me[1] == "US-ASCII"])
    cats = {}; first = None; nbad = 0; hist = {}
    for l, mo, io, me in zip(lines, m, i, meta):
        kind, enc = me[0], me[1]
        bad = None
        if kind == "s":
            if enc == "US-ASCII":
                want, off = spec[hx(me[2])]
            else:
                legal, tb = table_of(enc)
                off = next((k for k, b in enumerate(me[2]) if not legal(b)), None)
                want = [tb(b) for b in (me[2] if off is None else me[2][:off])]
            bad = judge_stream(io, want, off)
        elif kind == "u":
            bad = judge_stream(io, me[2], me[3])
        elif kind == "f":
            legal, tb = table_of(enc)
            bad = judge_single_from(io, me[2], me[3], legal, tb)
        elif kind == "t":
            us, room, thr, can = me[2], me[3], me[4], me[5]
            n = min(room, len(us))
            firstun = next((k for k in range(n) if not can(us[k])), None)
            f = io.split()
            if f and f[0] == "ok" and len(f) == 3:
                got = unhx(f[1]); eaten = int(f[2])
                if thr and firstun is not None:
                    bad = ("unrepresentable-not-rejected", "unit U+%04X at index %d cannot be represented, UnRep_Throw was asked for, but %d units were encoded without an error" % (us[firstun], firstun, eaten))
                elif len(got) != eaten or eaten != n:
                    bad = ("encode-count", "wrote %d bytes for %d consumed units (min(room, count) = %d)" % (len(got), eaten, n))
                elif enc in ("US-ASCII", "ISO-8859-1") and any(can(u) and g != u for u, g in zip(us, got)):
                    bad = ("encode-wrong", "representable units not written unchanged: %s" % hx(got))
                elif enc in tabs and any(can(u) and g != tabs[enc][1][u] for u, g in zip(us, got)):
                    bad = ("encode-wrong", "representable units not written as the to-table says: %s" % hx(got))
            elif f and f[0] == "exc":
                if not thr or firstun is None:
                    bad = ("representable-rejected", "exception %s although %s" % (io, "UnRep_RepChar was asked for" if not thr else "every unit is representable"))
            else:
                bad = ("bad-observation", io[:120])
        elif kind == "c":
            if io != ("1" if me[3](me[2]) else "0"):
                bad = ("cantranscode", "canTranscodeTo(U+%04X) = %s" % (me[2], io))
        hist[kind + ":" + io.split()[0] if io.split() else "?"] = hist.get(kind + ":" + io.split()[0] if io.split() else "?", 0) + 1
        if bad:
            nbad += 1
            key = "codec-%s%s:%s" % ("ascii" if enc == "US-ASCII" else "single-byte" if enc in SINGLE else "ucs4",
                                     {"s": "-stream", "u": "-stream", "f": "-block", "t": "-encode", "c": ""}[kind], bad[0])
            if key not in cats or len(l) < len(cats[key][0]):
                cats[key] = (l, io, bad[1])
        if mo != io and first is None:
            first = (l, mo, io)
    for key, (l, io, what) in cats.items():
        ctx.violations.append({"key": key, "concrete": True, "what": "%s -> %s: %s" % (l, io[:200], what), "replay": {"op": l, "impl": io}})
    if first and not cats:
        ctx.violations.append({"key": "corr:codec", "concrete": False,
            "what": "correspondence codec stream/block model vs implementation no longer checks: %s model=%s impl=%s" % first,
            "replay": {"correspondence": "codec", "case": first[0], "model": first[1], "impl": first[2]}})
    if "runtime error" in err or "AddressSanitizer" in err:
        ctx.violations.append({"key": "codec-sanitizer", "concrete": True,
                               "what": "sanitizer report in transcoder harness (stream cases): " + common.sanitizer_summary(err),
                               "replay": {"stderr": err[-2000:]}})
    ctx.stats["stream_cases"] = len(lines); ctx.stats["stream_spec_violations"] = nbad; ctx.stats["stream_outcomes"] = hist
    ctx.stats["evaluations"] = ctx.stats.get("evaluations", 0) + len(lines)
    ctx.stats["distinct_nontrivial"] = ctx.stats.get("distinct_nontrivial", 0) + len({l for l, me in zip(lines, meta) if me[0] == "c" or any(x >= 0x80 for x in me[2])})
    ctx.samples.append({"case": lines[40 * 300], "model": m[40 * 300], "impl": i[40 * 300]})

def ascii_doc_correspondence(ctx):
    """documents declared US-ASCII (and aliases) through the real parser: an illegal byte anywhere — in particular
    around the positions where the transcoder defers its error (index > 32 of a decoding call) and around the
    16K character-buffer boundary — must end in a fatal error / exception; the legal control must parse."""
    r = ctx.rng
    th = ctx.thorough()
    ks = list(range(0, 72)) + [100, 1000, 4096] + list(range(16300, 16460, 1 if th else 5)) + [16384, 16417, 32768 + 40]
    ks = sorted(set(ks))
    lines = []; meta = []
    for k in ks:
        name = r.choice(["US-ASCII", "ASCII", "us-ascii", "US_ASCII", "USASCII"]) if k % 5 == 0 else "US-ASCII"
        decl = [ord(c) for c in '<?xml version="1.0" encoding="%s"?>' % name]
        fill = [0x61 + (j % 26) for j in range(k)]
        for where in (("text", "attr") if (k % 3 == 0 if k < 72 else k % 10 == 0) or th else ("text",)):
            for b in ([0xE9, 0x80] if k < 72 else [r.choice([0x80, 0xA0, 0xE9, 0xFF])]) + ([None] if k < 72 or k % 10 == 0 or th else []):
                mid = fill + ([b] if b is not None else [0x7A]) + [0x62, 0x63]
                if where == "text":
                    body = [ord(c) for c in "<r>"] + mid + [ord(c) for c in "</r>"]
                    content = [0x3C, 0x72, 0x7C] + mid + [0x3E]
                else:
                    body = [ord(c) for c in '<r a="'] + mid + [ord(c) for c in '"/>']
                    content = [0x3C, 0x72, 0x7C, 0x61, 0x7C] + mid + [0x7C, 0x3E]
                lines.append("D " + hx(decl + body)); meta.append((b, k, where, hx(content), name))
    outs, crashes = common.run_lines_resilient("hx_utf8", lines)
    cats = {}; hist = {}
    for l, o, me in zip(lines, outs, meta):
        b, k, where, content, name = me
        bad = None
        rejected = o.startswith("fatal") or o.startswith("exc ")
        hist[("illegal:" if b is not None else "legal:") + o.split()[0]] = hist.get(("illegal:" if b is not None else "legal:") + o.split()[0], 0) + 1
        if o.startswith("CRASH") or o.startswith("FOREIGN"):
            bad = ("doc-encoding-crash", o[:100])
        elif b is not None and not rejected:
            bad = ("doc-ascii-illegal-byte-accepted", "document declared %s with byte 0x%02X after %d legal characters of %s was accepted" % (name, b, k, where))
        elif b is None and not (o.startswith("ok " + content + " ") and o.endswith(" w=0 e=0")):
            bad = ("doc-encoding-content", "legal %s document (%d characters of %s) must yield its content" % (name, k + 3, where))
        if bad and (bad[0] not in cats or len(l) < len(cats[bad[0]][0])):
            cats[bad[0]] = (l, o, bad[1])
    for key, (l, o, what) in cats.items():
        ctx.violations.append({"key": key, "concrete": True, "what": "%s; parser result: %s" % (what, o[:120]), "replay": {"op": l, "impl": o[:400]}})
    ctx.stats["ascii_doc_cases"] = len(lines); ctx.stats["ascii_doc_outcomes"] = hist
    ctx.stats["evaluations"] = ctx.stats.get("evaluations", 0) + len(lines)
    ctx.stats["distinct_nontrivial"] = ctx.stats.get("distinct_nontrivial", 0) + len({l for l, me in zip(lines, meta) if me[0] is not None})

# ------------------------------------------------------------------ document level
DOC_ENCS = [  # (declared name, family, encoder key)
    ("UTF-8", "8", "utf8"), ("ISO-8859-1", "8", "ISO-8859-1"), ("US-ASCII", "8", "US-ASCII"), ("windows-1252", "8", "windows-1252"),
    ("UTF-16", "16", None), ("UTF-16LE", "16L", "UTF-16LE"), ("UTF-16BE", "16B", "UTF-16BE"),
    ("UCS-4", "32", None), ("UCS-4LE", "32L", "UCS-4LE"), ("UCS-4BE", "32B", "UCS-4BE"),
    ("IBM037", "E", "IBM037"), ("IBM1047", "E", "IBM1047"), ("IBM1140", "E", "IBM1140")]

def enc_text(key, cps, tabs):
    if key == "utf8":
        return [b for c in cps for b in enc_utf8(c)]
    if key in tabs:
        out = []
        for c in cps:
            b = tabs[key][1].get(c)
            if b is None or (b == 0 and c != 0): return None
            out.append(b)
        return out
    return spec_encode(key, cps)

def doc_correspondence(ctx):
    r = ctx.rng
    tabs = load_gen_tables()
    lines = []; meta = []
    pools = {"ascii": list(range(0x61, 0x7B)) + [0x20, 0x2D], "latin": [0xE9, 0xF1, 0xFC, 0xA9], "bmp": [0x20AC, 0x3B1, 0x4E2D, 0xFFFD],
             "supp": [0x1F600, 0x10400, 0x10FFFF]}
    for _ in range(2500 if ctx.thorough() else 260):
        actual = r.choice([e for e in DOC_ENCS if e[2]])
        kinds = ["ascii"]
        if actual[2] in ("utf8", "UTF-16LE", "UTF-16BE", "UCS-4LE", "UCS-4BE"): kinds += ["latin", "bmp", "supp"]
        elif actual[2] in ("ISO-8859-1", "windows-1252", "IBM037", "IBM1047", "IBM1140"): kinds += ["latin"]
        txt = [r.choice(pools[r.choice(kinds)]) for _ in range(1 + r.below(8))]
        av = [r.choice(pools[r.choice(kinds)]) for _ in range(r.below(5))]
        mode = r.below(10)
        if mode < 6:
            declared = actual if mode else None          # matching declaration / none
            if declared is None and actual[1] in ("8",) and actual[2] != "utf8":
                declared = actual                        # 8-bit non-UTF-8 needs its declaration
            if declared is None and actual[1] == "E": declared = actual
            if declared is not None and actual[1] in ("16L", "16B") and r.chance(1, 2): declared = DOC_ENCS[4]
            if declared is not None and actual[1] in ("32L", "32B") and r.chance(1, 2): declared = DOC_ENCS[7]
            expect = "same"
        else:
            declared = r.choice(DOC_ENCS)
            fa, fd = actual[1], declared[1]
            compatible = fa == fd or (fd == "16" and fa in ("16L", "16B")) or (fd == "32" and fa in ("32L", "32B"))
            if compatible: expect = "same" if (fa != "8" or declared[0] == actual[0]) else "skip"
            else: expect = "reported"
        decl = [ord(c) for c in ('<?xml version="1.0"' + (' encoding="%s"' % declared[0] if declared else "") + "?>")]
        body = [ord(c) for c in '<r a="'] + av + [ord(c) for c in '">'] + txt + [ord(c) for c in "</r>"]
        bs = enc_text(actual[2], decl + body, tabs)
        if bs is None: continue
        bom = []
        fam = actual[1]
        usebom = r.chance(1, 2)
        if fam in ("16L", "16B") and (usebom or declared is None or declared[0] == "UTF-16"):
            bom = [0xFF, 0xFE] if fam == "16L" else [0xFE, 0xFF]
        elif fam in ("32L", "32B") and (usebom or declared is None):
            bom = [0xFF, 0xFE, 0, 0] if fam == "32L" else [0, 0, 0xFE, 0xFF]
        elif actual[2] == "utf8" and usebom:
            bom = [0xEF, 0xBB, 0xBF]
        content = [0x3C, 0x72, 0x7C, 0x61, 0x7C] + [u for c in av for u in utf16(c)] + [0x7C] + [u for c in txt for u in utf16(c)] + [0x3E]
        lines.append("D " + hx(bom + bs)); meta.append((expect, actual[0], declared[0] if declared else None, bool(bom), hx(content)))
    outs, crashes = common.run_lines_resilient("hx_utf8", lines)
    cats = {}
    hist = {}
    for l, o, me in zip(lines, outs, meta):
        expect, act, dec, hasbom, content = me
        hist[expect] = hist.get(expect, 0) + 1
        bad = None
        if expect == "same":
            if not o.startswith("ok " + content + " "): bad = ("doc-encoding-content", "document in %s (declared %s, BOM %s) must yield content %s" % (act, dec, hasbom, content))
            elif " w=0 e=0" not in o: bad = ("doc-encoding-spurious-report", "matching declaration %s on %s data reported as a problem" % (dec, act))
        elif expect == "reported":
            if o.startswith("ok") and o.endswith(" w=0 e=0"):
                bad = ("doc-encoding-contradiction-unreported", "declaration %s contradicts the detected family of %s data but nothing was reported" % (dec, act))
        if o.startswith("CRASH") or o.startswith("FOREIGN"):
            bad = ("doc-encoding-crash", o[:100])
        if bad and (bad[0] not in cats or len(l) < len(cats[bad[0]][0])):
            cats[bad[0]] = (l, o, bad[1])
    for key, (l, o, what) in cats.items():
        ctx.violations.append({"key": key, "concrete": True, "what": "%s; parser result: %s" % (what, o[:160]), "replay": {"op": l, "impl": o}})
    ctx.stats["doc_cases"] = len(lines); ctx.stats["doc_expectations"] = hist
    ctx.stats["evaluations"] = ctx.stats.get("evaluations", 0) + len(lines)
    ctx.stats["distinct_nontrivial"] = ctx.stats.get("distinct_nontrivial", 0) + len(set(lines))

def is_wf16(us):
    k = 0
    while k < len(us):
        u = us[k]
        if 0xD800 <= u <= 0xDBFF:
            if k + 1 < len(us) and 0xDC00 <= us[k + 1] <= 0xDFFF:
                k += 2; continue
            return False
        if 0xDC00 <= u <= 0xDFFF:
            return False
        k += 1
    return True

_search_cache = {}

def search(ctx, broken):
    """A theorem/translator tie broke: look for a concrete input on which the implementation contradicts
    the Spec (independently of the model)."""
    if "done" in _search_cache:
        return None      # the one search already ran; its findings (if any) are recorded
    _search_cache["done"] = True
    F, _ = gen_cases(ctx)
    bl = []
    for l in F:
        t = l.split()[2]
        bl.append([] if t == "-" else [int(x, 16) for x in t.split(".")])
    before = len(ctx.violations)
    check_decode_against_spec(ctx, bl, "search after broken %s %s" % (broken["kind"], broken["name"]), [int(l.split()[1]) for l in F])
    if len(ctx.violations) == before:
        codec_correspondence(ctx)
    if len(ctx.violations) == before:
        stream_correspondence(ctx)
    if len(ctx.violations) == before:
        ascii_doc_correspondence(ctx)
    if len(ctx.violations) > before:
        return ctx.violations.pop()
    return None

def replay(ctx, path):
    import json
    r = json.load(open(path))["replay"]
    if "op" in r and isinstance(r["op"], str) and r["op"].split()[0] == "D":
        p = common.run_harness("hx_utf8", input=(r["op"] + "\n").encode())
        print("case :", r["op"]); print("impl :", p.stdout.decode().strip()); return 0
    if "op" in r and isinstance(r["op"], str) and r["op"].split()[0] in ("GF", "GT", "GC", "GS", "P"):
        m, i, _ = common.run_pair("codec", "hx_utf8", [r["op"]])
        print("case :", r["op"]); print("model:", m[0]); print("impl :", i[0])
        f = r["op"].split()
        if f[0] in ("GS", "GF") and f[1] == "US-ASCII":
            want, off = spec_ascii([unhx(f[-1])])[f[-1]]
            print("spec :", hx(want), "legal" if off is None else "illegal byte at offset %d" % off)
        return 0
    if "bytes" in r:
        line = "F 4096 " + r["bytes"]
    elif "op" in r and isinstance(r["op"], str) and r["op"][:1] in "FT":
        line = r["op"]
    else:
        print(json.dumps(r)); return 0
    m, i, _ = common.run_pair("utf8", "hx_utf8", [line])
    sp = common.run_driver(["utf8spec"], input=("S " + line.split()[-1] + "\n").encode()).decode().strip() if line.startswith("F") else ""
    print("case :", line); print("model:", m[0]); print("impl :", i[0]); print("spec :", sp)
    return 0
