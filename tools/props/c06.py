"""C06 — namespace processing binds every name to the URI the declarations in scope imply.

Theorems: XV.Props.C06 (ElemStack/WFElemStack models vs the Spec's inScope for all histories, pop restores, two-pass
start tag, SAX2 prefix-mapping stack is Dyck, DOM L3 lookups on parsed trees).
Correspondence:
 (a) direct: random op histories on the exported ElemStack and WFElemStack (depth > 32, > 16 prefixes per level,
     shadowing, un-declaration, pops, resets, global prefixes) against the Lean models, judged by an independent
     "nearest enclosing declaration" oracle;
 (b) parse level: generated documents (tree + text) through SAX2 (namespace-prefixes on/off), SAX1 and DOM for the
     four scanners; the implementation's report is compared with the code-shaped models and judged by the executable
     Spec (`xvdriver nsspec`): names, URIs, prefix-mapping events, DOM namespaceURI/prefix/localName, and
     lookupNamespaceURI / lookupPrefix / isDefaultNamespace on every node for every prefix/URI of the document;
     namespace-ill-formed documents must be reported as errors by every scanner/API;
 (c) DOM lookups on a Document without document element (child process)."""
import json, os, re
from concurrent.futures import ThreadPoolExecutor
import common

PID = "C06"
GEN = ["ElemStackConsts"]
LEAN_MODULE = "XV.Props.C06"
THEOREMS = ["XV.Props.C06." + t for t in (
    "reserved_names_spec", "growth_strict", "mapPrefix_eq_inScope_history", "mapPrefix_eq_inScope",
    "unknown_implies_undeclared", "pop_restores", "startTag_sees_whole_tag", "decl_after_use", "decl_order_irrelevant",
    "prefix_events_scoped", "prefix_events_dyck", "reader_stack_discipline", "sax2_events_eq_spec",
    "dom_lookup_eq_inScope", "lookupPrefix_sound", "lookupPrefix_sound_any_tree", "isDefaultNamespace_eq_inScope",
    "collision_detected_iff", "wf_mapPrefix_eq_inScope_history", "illegal_bindings_rejected",
    "lookupPrefix_complete", "lookupPrefix_complete_any_tree", "build_names", "built_chain_eq_spec",
    "dom_lookup_on_built_nodes", "dup_check_threshold_independent", "start_tag_error_iff",
    "scan_errors_iff_not_wellformed", "collision_detected_iff_spec")]
RULE = ("stack histories: random addLevel/popTop/addPrefix/addGlobalPrefix/mapPrefixToURI/reset sequences in three shapes "
        "(deep > 32 levels, wide > 16 prefixes on a level, mixed); a history is non-trivial when it contains a lookup "
        "answered from below the top level or after a pop, distinct by text. Documents: random trees with shadowing, "
        "re-/un-declaration, uses before declarations, deep chains, wide tags (up to 150 attributes), XML 1.0 and 1.1, "
        "and injected namespace errors; a document is non-trivial when it has at least one declaration and one prefixed "
        "name, distinct by text; each document is parsed by 4 scanners x 4 APIs")
ASSUMPTIONS = ["prefixes, local names and namespace names are ASCII strings without white space in the generated documents",
               "attribute values, DTD-defaulted attributes, entities and schema validation are outside this property's models",
               "XMLStringPool is modelled as an injective id assignment (list position); its hashing is not modelled"]
TRUSTED = ["XV.Spec.Namespace (Namespaces in XML 1.0/1.1 scoping, reserved prefixes, attribute uniqueness; DOM L3 lookup meaning) as transcribed"]

XML_URI = "http://www.w3.org/XML/1998/namespace"
XMLNS_URI = "http://www.w3.org/2000/xmlns/"
SCANNERS = ("IG", "WF", "SG", "DG")
APIS = ("sax2p", "sax2", "sax1", "dom")

def scaled(n):
    """VERIF_C06_SCALE (default 1) scales the case counts, e.g. for a smoke test of the thorough tier"""
    return max(8, int(n * float(os.environ.get("VERIF_C06_SCALE", "1"))))

def hx(s):
    return ".".join("%x" % b for b in s.encode()) if s else "-"

def T(s):
    return s if s != "" else "-"

# ====================================================================================== (a) stack histories
PFX = ["-", "a", "b", "c", "p", "q", "xml", "xmlns", "d0", "d1", "longprefix"]

def gen_history(r, kind, wf):
    """returns the op list (strings).  ids: 1 empty, 2 unknown, 3 xml, 4 xmlns, 5.. ordinary"""
    ops = []
    depth = 0
    if r.chance(1, 25):
        ops.append("M " + r.choice(PFX))           # before any reset: guarded on both sides
    ops.append("R 1 2 3 4")
    def uri():
        return 1 if r.chance(1, 8) else 5 + r.below(8)
    def pfx(wide=False):
        if wide and r.chance(3, 4):
            return "w%d" % r.below(60)
        return r.choice(PFX)
    n = {"deep": 140, "wide": 120, "mix": 60}[kind] + r.below(40)
    if not wf and r.chance(1, 3):
        for _ in range(1 + r.below(20 if kind == "wide" else 3)):
            ops.append("G %s %d" % (pfx(kind == "wide"), uri()))
    def lvl():
        return "N" if r.chance(1, 3) else "L"      # the two addLevel overloads
    for k in range(n):
        x = r.below(100)
        if kind == "deep":
            if x < 45: ops.append(lvl()); depth += 1
            elif x < 55 and depth: ops.append("P"); depth -= 1
            elif x < 75: ops.append("A %s %d" % (pfx(), uri()))
            else: ops.append("M " + pfx())
        elif kind == "wide":
            if x < 6: ops.append(lvl()); depth += 1
            elif x < 10: ops.append("P"); depth = max(0, depth - 1)
            elif x < 70: ops.append("A %s %d" % (pfx(True), uri()))
            else: ops.append("M " + pfx(True))
        else:
            if x < 25: ops.append(lvl()); depth += 1
            elif x < 45: ops.append("P"); depth = max(0, depth - 1)
            elif x < 70: ops.append("A %s %d" % (pfx(), uri()))
            elif x < 73 and not wf: ops.append("G %s %d" % (pfx(), uri()))
            elif x < 75: ops.append("R 1 2 3 4"); depth = 0
            else: ops.append("M " + pfx())
    # unwind with lookups on the way (pop restores)
    for _ in range(min(depth, 6 + r.below(40))):
        ops.append("P")
        ops.append("M " + pfx(kind == "wide"))
    return ops

def oracle_history(ops, wf):
    """Independent reading: nearest enclosing declaration.  Returns (observations, ambiguous) where ambiguous means a
    level declared the same prefix twice (not a well-formed tag; ElemStack and WFElemStack legitimately differ)."""
    out = []
    levels = []
    glob = []
    was_reset = False
    ambiguous = False
    for op in ops:
        f = op.split()
        if f[0] == "R":
            levels = []; glob = []; was_reset = True
        elif f[0] in ("L", "N"):
            levels.append([])
        elif f[0] == "P":
            if levels: levels.pop()
            else: out.append("exc:EmptyStack")
        elif f[0] == "A":
            if not levels: out.append("exc:EmptyStack")
            else:
                if any(p == f[1] for p, _ in levels[-1]): ambiguous = True
                levels[-1].append((f[1], int(f[2])))
        elif f[0] == "G":
            if any(p == f[1] for p, _ in glob): ambiguous = True
            glob.append((f[1], int(f[2])))
        elif f[0] == "M":
            if not was_reset or (wf and not levels):
                out.append("guard"); continue
            p = f[1]
            if p == "xml": out.append("3/0"); continue
            if p == "xmlns": out.append("4/0"); continue
            ans = None
            for lv in reversed(levels):
                hit = [u for q, u in lv if q == p]
                if hit:
                    ans = hit[0]; break
            if ans is None:
                hit = [u for q, u in glob if q == p]
                if hit: ans = hit[0]
            if ans is not None: out.append("%d/0" % ans)
            elif p == "-": out.append("1/0")
            else: out.append("2/1")
    return (" ".join(out) if out else "-"), ambiguous

def nontrivial_history(ops):
    seen_pop = False
    for o in ops:
        if o == "P": seen_pop = True
        if o.startswith("M") and seen_pop: return True
    return False

def stack_correspondence(ctx):
    r = ctx.rng
    n = scaled(4000 if not ctx.thorough() else 60000)
    lines, meta = [], []
    for i in range(n):
        kind = ("deep", "wide", "mix", "mix")[i % 4]
        for wf in (False, True):
            ops = gen_history(r, kind, wf)
            lines.append(("W " if wf else "S ") + ",".join(ops))
            meta.append((ops, wf))
    m = run_driver_sharded("ns", lines, shards=2)
    im, err = run_sharded(lines)
    ctx.stats["stack_histories"] = len(lines)
    ctx.stats["stack_ops"] = sum(len(o) for o, _ in meta)
    ctx.stats["stack_max_depth"] = max(max_depth(o) for o, _ in meta)
    ctx.stats["stack_max_prefixes_on_a_level"] = max(max_width(o) for o, _ in meta)
    d = common.diff_pairs(lines, m, im)
    ctx.stats["stack_disagreements"] = len(d)
    ctx.samples.append({"case": lines[2][:300], "model": m[2][:200], "impl": im[2][:200]})
    check_sanitizer(ctx, err, "stack histories")
    bad_oracle = 0
    for k, (ops, wf) in enumerate(meta):
        want, amb = oracle_history(ops, wf)
        if amb:
            continue
        if im[k] != want:
            bad_oracle += 1
            add_violation(ctx, "elemstack-lookup-not-nearest-declaration:" + ("WFElemStack" if wf else "ElemStack"), True,
                          "%s history: mapPrefixToURI answers %s, nearest-enclosing-declaration reading gives %s" % (
                              "WFElemStack" if wf else "ElemStack", first_diff(im[k], want), ""),
                          {"kind": "stack", "line": lines[k], "impl": im[k], "oracle": want, "model": m[k]}, size=len(lines[k]))
    ctx.stats["stack_oracle_contradictions"] = bad_oracle
    if d and not bad_oracle:
        k, l, mo, io = d[0]
        add_violation(ctx, "corr:ns-stack", False,
                      "correspondence ElemStack/WFElemStack model vs library no longer checks (%d histories), first: model=%s impl=%s" % (
                          len(d), first_diff(mo, io), ""),
                      {"correspondence": "ns-stack", "kind": "stack", "line": l, "model": mo, "impl": io}, size=len(l))
    return len(lines), len({l for l, (o, _) in zip(lines, meta) if nontrivial_history(o)})

def max_depth(ops):
    d = m = 0
    for o in ops:
        if o in ("L", "N"): d += 1; m = max(m, d)
        elif o == "P" and d: d -= 1
        elif o.startswith("R"): d = 0
    return m

def max_width(ops):
    st = []; m = 0
    for o in ops:
        if o in ("L", "N"): st.append(0)
        elif o == "P" and st: st.pop()
        elif o.startswith("R"): st = []
        elif o.startswith("A") and st:
            st[-1] += 1; m = max(m, st[-1])
    return m

def first_diff(a, b):
    x, y = a.split(), b.split()
    for i in range(max(len(x), len(y))):
        u = x[i] if i < len(x) else "<end>"; v = y[i] if i < len(y) else "<end>"
        if u != v:
            return "token %d: %s vs %s" % (i, u, v)
    return "equal"

# ====================================================================================== (b) documents
LOCALS = ["a", "b", "c", "item", "x"]
NORMAL_URIS = ["u:0", "u:1", "u:2", "urn:x:y", "http://e.org/ns"]
NORMAL_PFX = ["p", "q", "r", "ns1", "xsl", "xmlnsx"]
# names that look like namespace machinery but are ordinary: `p:xmlns="…"` is an attribute {uri-of-p}xmlns, not a declaration
LOOKALIKE_LOCALS = ["xmlns", "xml", "xmlns2"]

class Elem:
    def __init__(self, pre, loc):
        self.pre, self.loc, self.items, self.kids = pre, loc, [], []   # items: ("d", pre, uri) | ("a", pre, loc)

def scope_lookup(chain, p):
    if p == "xml": return XML_URI
    if p == "xmlns": return XMLNS_URI
    for ds in reversed(chain):
        for q, u in ds:
            if q == p:
                return u or None
    return None

def gen_elem(r, chain, depth, budget, v11, shape):
    """well-formed by construction (errors are injected afterwards)"""
    decls = []
    nd = 0
    x = r.below(100)
    if shape == "wide" and depth == 1:
        nd = 17 + r.below(30)
    elif x < 35: nd = 0
    elif x < 70: nd = 1
    else: nd = 2 + r.below(3)
    used = set()
    for i in range(nd):
        if shape == "wide" and depth == 1 and i >= 3:
            p = "w%d" % i
        else:
            p = "" if r.chance(1, 4) else r.choice(NORMAL_PFX)
        if p in used:
            continue
        used.add(p)
        if p == "":
            u = "" if r.chance(1, 4) else r.choice(NORMAL_URIS)
        elif v11 and r.chance(1, 6) and scope_lookup(chain, p):
            u = ""                                   # XML 1.1: un-declare a prefix that is in scope
        else:
            u = r.choice(NORMAL_URIS)
        decls.append((p, u))
    if r.chance(1, 30) and "xml" not in used:
        decls.append(("xml", XML_URI))               # legal: re-declaring xml with its own namespace name
    mychain = chain + [decls]
    bound = [p for p in set(q for ds in mychain for q, _ in ds) if p and p != "xml" and scope_lookup(mychain, p)]
    bound.sort()
    def pick_prefix(for_attr):
        k = r.below(100)
        if bound and k < 55: return r.choice(bound)
        if k < 58: return "xml"
        return ""
    e = Elem(pick_prefix(False), r.choice(LOOKALIKE_LOCALS) if r.chance(1, 25) else r.choice(LOCALS))
    attrs = []
    seen_q, seen_x = set(), set()
    na = r.choice([0, 0, 1, 1, 2, 3])
    if shape == "manyattrs" and depth == 1:
        na = 101 + r.below(40)
    for i in range(na):
        p = pick_prefix(True)
        if na >= 20: l = "n%d" % i
        elif p == "xml": l = "lang"
        elif r.chance(1, 8):
            l = r.choice(LOOKALIKE_LOCALS)
            if not p and l == "xmlns": l = "xml"      # unprefixed `xmlns` IS the default-namespace declaration
        else: l = r.choice(LOCALS)
        u = scope_lookup(mychain, p) if p else None
        if (p, l) in seen_q or (u, l) in seen_x:
            continue
        seen_q.add((p, l)); seen_x.add((u, l))
        attrs.append(("a", p, l))
    items = [("d", p, u) for p, u in decls] + attrs
    # shuffle: uses before declarations and vice versa
    for i in range(len(items) - 1, 0, -1):
        j = r.below(i + 1)
        items[i], items[j] = items[j], items[i]
    e.items = items
    # children
    nk = 0
    if shape == "deep":
        nk = 1 if depth < budget else 0
    elif depth < 6 and budget[0] > 0:
        nk = r.choice([0, 1, 1, 2, 3]) if depth > 0 else 1 + r.below(3)
    last_text = False
    for _ in range(nk):
        k = r.below(100)
        if shape != "deep" and k < 12 and not last_text:
            e.kids.append("T"); last_text = True; continue
        if shape != "deep" and k < 18:
            e.kids.append(r.choice(["K", "P", "C"])); last_text = False; continue
        if shape != "deep":
            budget[0] -= 1
        e.kids.append(gen_elem(r, mychain, depth + 1, budget, v11, shape)); last_text = False
    return e

def all_elems(e, chain=()):
    mychain = list(chain) + [[(p, u) for k, p, u in e.items if k == "d"]]
    yield e, mychain
    for k in e.kids:
        if isinstance(k, Elem):
            yield from all_elems(k, mychain)

ERROR_KINDS = ["unbound-elem", "unbound-attr", "xml-wrong-uri", "xmlns-prefix", "xmluri-other-prefix", "xmluri-default",
               "xmlnsuri-prefix", "xmlnsuri-default", "empty-prefixed-1.0", "collision", "collision-ancestor",
               "sibling-scope", "undeclared-then-used-elem", "undeclared-then-used-attr", "collision-last-of-many",
               "collision-first-of-many"]

def inject_error(r, root, v11, kind):
    elems = list(all_elems(root))
    e, chain = elems[r.below(len(elems))]
    def ins(item):
        e.items.insert(r.below(len(e.items) + 1), item)
    if kind == "unbound-elem":
        e.pre = "zz"
    elif kind == "unbound-attr":
        ins(("a", "zz", "a"))
    elif kind == "xml-wrong-uri":
        if any(k == "d" and p == "xml" for k, p, u in e.items): return False
        ins(("d", "xml", "u:0"))
    elif kind == "xmlns-prefix":
        ins(("d", "xmlns", r.choice(["u:0", XMLNS_URI])))
    elif kind == "xmluri-other-prefix":
        ins(("d", "bad", XML_URI))
    elif kind == "xmluri-default":
        if any(k == "d" and p == "" for k, p, u in e.items): return False
        ins(("d", "", XML_URI))
    elif kind == "xmlnsuri-prefix":
        ins(("d", "bad", XMLNS_URI))
    elif kind == "xmlnsuri-default":
        if any(k == "d" and p == "" for k, p, u in e.items): return False
        ins(("d", "", XMLNS_URI))
    elif kind == "empty-prefixed-1.0":
        if v11: return False
        ins(("d", "emp", ""))
    elif kind in ("collision", "collision-last-of-many", "collision-first-of-many"):
        ins(("d", "ca", "u:same")); ins(("d", "cb", "u:same"))
        if kind == "collision":
            ins(("a", "ca", "k")); ins(("a", "cb", "k"))
        else:
            extra = [("a", "", "m%d" % i) for i in range(101 + r.below(30))]
            if kind == "collision-last-of-many":
                e.items = e.items + [("a", "ca", "k")] + extra + [("a", "cb", "k")]
            else:
                e.items = [("a", "ca", "k"), ("a", "cb", "k")] + e.items + extra
    elif kind == "collision-ancestor":
        root.items.insert(0, ("d", "ca", "u:same"))
        if e is root: return False
        if any(k == "d" and p in ("ca", "cb") for el, _ in elems for k, p, u in el.items if el is not root): return False
        ins(("d", "cb", "u:same")); ins(("a", "ca", "k")); ins(("a", "cb", "k"))
    elif kind == "sibling-scope":
        # a prefix declared on one element used on its following sibling
        cands = [(el, i) for el, _ in elems for i in range(len(el.kids) - 1)
                 if isinstance(el.kids[i], Elem) and isinstance(el.kids[i + 1], Elem)]
        if not cands: return False
        el, i = cands[r.below(len(cands))]
        el.kids[i].items.append(("d", "sib", "u:sib"))
        el.kids[i + 1].pre = "sib"
    elif kind in ("undeclared-then-used-elem", "undeclared-then-used-attr"):
        if not v11: return False
        root.items.insert(0, ("d", "und", "u:und"))
        if e is root: return False
        if any(k == "d" and p == "und" for el, _ in elems for k, p, u in el.items if el is not root): return False
        e.items.insert(0, ("d", "und", ""))
        if kind.endswith("elem"): e.pre = "und"
        else: ins(("a", "und", "a"))
    return True

def render(e):
    s = "<" + (e.pre + ":" if e.pre else "") + e.loc
    for it in e.items:
        if it[0] == "d":
            s += " xmlns%s=\"%s\"" % (":" + it[1] if it[1] else "", it[2])
        else:
            s += " %s%s=\"v\"" % (it[1] + ":" if it[1] else "", it[2])
    if not e.kids:
        return s + ("/>" if e.empty_tag else "></" + (e.pre + ":" if e.pre else "") + e.loc + ">")
    s += ">"
    for k in e.kids:
        if isinstance(k, Elem): s += render(k)
        else: s += {"T": "t", "K": "<!--k-->", "P": "<?pi x?>", "C": "<![CDATA[c]]>"}[k]
    return s + "</" + (e.pre + ":" if e.pre else "") + e.loc + ">"

def tree_tokens(e):
    t = ["E", T(e.pre), e.loc, str(len(e.items))]
    for it in e.items:
        t += [it[0], T(it[1]), T(it[2]) if it[0] == "d" else it[2]]
    t.append(str(len(e.kids)))
    for k in e.kids:
        t += tree_tokens(k) if isinstance(k, Elem) else [k]
    return t

class Doc:
    pass

def gen_doc(r, idx, thorough):
    d = Doc()
    d.v11 = r.chance(1, 3)
    x = idx % 20
    shape = "deep" if x == 0 else "wide" if x == 1 else "manyattrs" if x == 2 else "tree"
    if shape == "deep":
        root = gen_elem(r, [], 0, 34 + r.below(20), d.v11, shape)
    else:
        root = gen_elem(r, [], 0, [3 + r.below(14)], d.v11, shape)
    d.intent = "wf"
    if r.chance(3, 10):
        kind = r.choice(ERROR_KINDS)
        if inject_error(r, root, d.v11, kind):
            d.intent = kind
    for e, _ in all_elems(root):
        e.empty_tag = r.chance(1, 2)
    tops = []
    if r.chance(1, 6): tops.append(r.choice(["K", "P"]))
    tops.append(root)
    if r.chance(1, 8): tops.append(r.choice(["K", "P"]))
    d.root = root
    d.xml = ("<?xml version=\"1.1\"?>" if d.v11 else "") + "".join(
        render(t) if isinstance(t, Elem) else {"K": "<!--k-->", "P": "<?pi x?>"}[t] for t in tops)
    toks = [str(len(tops))]
    for t in tops:
        toks += tree_tokens(t) if isinstance(t, Elem) else [t]
    d.tree = " ".join(toks)
    ps, us = [], []
    for e, _ in all_elems(root):
        if e.pre: ps.append(e.pre)
        for it in e.items:
            if it[1]: ps.append(it[1])
            if it[0] == "d" and it[2]: us.append(it[2])
    ps = sorted(set(ps) | {"xml", "xmlns", "zz9"})
    us = sorted(set(us) | {XML_URI, XMLNS_URI, "u:never"})
    if len(ps) > 24:      # wide tags: keep the query set bounded (first, last and reserved prefixes)
        keep = set(ps[:10] + ps[-8:]) | {"xml", "xmlns", "zz9"}
        ps = [p for p in ps if p in keep]
    d.qp, d.qu = ps, us
    d.max_attrs = max(len(e.items) for e, _ in all_elems(root))
    d.nontrivial = any(it[0] == "d" for e, _ in all_elems(root) for it in e.items) and \
        any(e.pre or any(it[0] == "a" and it[1] for it in e.items) for e, _ in all_elems(root))
    return d

def driver_lines(d, api):
    return "D %s %d %s %s %s" % (api, 1 if d.v11 else 0, ",".join(d.qp) or "-", ",".join(d.qu) or "-", d.tree)

def harness_line(d, sc, api):
    return "X %s %s %s %s %s" % (sc, api, ",".join(d.qp) or "-", ",".join(d.qu) or "-", hx(d.xml))

def canon_tokens(body):
    """token list with each run of attribute tokens sorted"""
    toks = body.split()
    out, run = [], []
    for t in toks:
        if t.startswith("@"):
            run.append(t)
        else:
            if run: out += sorted(run); run = []
            out.append(t)
    if run: out += sorted(run)
    return out

def parse_impl(line):
    if not line.startswith("ERR "):
        return None
    head, _, body = line.partition(" |")
    f = head.split()
    errs = [] if f[1] == "-" else f[1].split(",")
    exc = [x for x in f[2:]]
    return errs, exc, body

def run_sharded(lines, harness="hx_ns", shards=None):
    shards = shards or 4           # fixed: parsers are reused inside a shard, so the split must not depend on the machine
    common.build_harness(harness)
    chunks = [lines[i::shards] for i in range(shards)]
    def one(ch):
        if not ch: return [], ""
        # a small ASan quarantine: the default (256 MB per process) costs most of the run in page faults
        env = {"ASAN_OPTIONS": common.HENV["ASAN_OPTIONS"] + ":quarantine_size_mb=8"}
        p = common.run_harness(harness, input=("\n".join(ch) + "\n").encode(), env=env)
        o = p.stdout.decode(errors="replace").split("\n")
        if o and o[-1] == "": o.pop()
        if p.returncode != 0 and len(o) < len(ch):
            o.append("CRASH rc=%d %s" % (p.returncode, common.sanitizer_summary(p.stderr.decode(errors="replace"))))
        while len(o) < len(ch): o.append("NO-OUTPUT")
        return o, p.stderr.decode(errors="replace")
    with ThreadPoolExecutor(shards) as ex:
        res = list(ex.map(one, chunks))
    out = [None] * len(lines)
    err = ""
    for s, (o, e) in enumerate(res):
        for j, v in enumerate(o):
            out[s + j * shards] = v
        err += e
    return out, err

def run_driver_sharded(area, lines, shards=8):
    chunks = [lines[i::shards] for i in range(shards)]
    def one(ch):
        if not ch: return []
        o = common.run_driver([area], input=("\n".join(ch) + "\n").encode()).decode(errors="replace").split("\n")
        if o and o[-1] == "": o.pop()
        return o
    with ThreadPoolExecutor(shards) as ex:
        res = list(ex.map(one, chunks))
    out = [None] * len(lines)
    for s, o in enumerate(res):
        if len(o) != len(chunks[s]):
            raise common.InfraError("xvdriver %s: %d lines for %d cases" % (area, len(o), len(chunks[s])))
        for j, v in enumerate(o):
            out[s + j * shards] = v
    return out

def add_violation(ctx, key, concrete, what, replay, size=0):
    """keep, per key, the smallest witness"""
    best = getattr(ctx, "_c06_best", None)
    if best is None:
        best = ctx._c06_best = {}
    if key in best and best[key][0] <= size:
        best[key][2] += 1
        return
    cnt = best[key][2] + 1 if key in best else 1
    v = {"key": key, "concrete": concrete, "what": what, "replay": replay}
    if key in best:
        ctx.violations[best[key][1]] = v
        best[key] = [size, best[key][1], cnt]
    else:
        ctx.violations.append(v)
        best[key] = [size, len(ctx.violations) - 1, cnt]

def check_sanitizer(ctx, err, where):
    if "runtime error" in err or "AddressSanitizer" in err:
        for l in err.split("\n"):
            if "runtime error:" in l or "ERROR: AddressSanitizer" in l:
                if "ElemStack.cpp" in l and "null pointer passed as argument 2" in l:
                    key = "elemstack-expandMap-memcpy-null-source"
                else:
                    key = "ns-sanitizer"
                add_violation(ctx, key, True, "sanitizer report during %s: %s" % (where, l.strip()[:300]),
                              {"kind": "sanitizer", "stderr": l.strip()[:600],
                               "hint": "any document with a namespace declaration, e.g. <a xmlns:p=\"u\"/>, parsed with IGXMLScanner"},
                              size=len(l))

KEY_VERSION_STICKS = "xml-version-sticks-across-parses:xmlns-prefix-empty-accepted-in-1.0"
KEY_SG_STALE = "sgscanner-endElement-stale-prefix-from-earlier-parse"

def classify_missing_error(d, sc, spec_errs):
    s = set(spec_errs)
    if sc == "WF" and s <= {"xmlURIWrongPrefix", "xmlnsURIBound"} and \
            any(it[0] == "d" and it[1] and it[2] in (XML_URI, XMLNS_URI) for e, _ in all_elems(d.root) for it in e.items):
        return "wfscanner-accepts-prefix-bound-to-reserved-namespace"
    if sc == "WF" and s == {"attrCollision"} and d.max_attrs > 100:
        return "wfscanner-misses-attr-collision-beyond-100-attrs"
    if s == {"unboundAttrPrefix"} and d.v11:
        return "xml11-undeclared-prefix-accepted-on-attribute"
    if s == {"emptyPrefixedURI"} and not d.v11:
        return KEY_VERSION_STICKS      # confirmed (or re-keyed) by verify_history_dependent
    return "ns-error-not-reported:" + sorted(s)[0]

def compare_tokens(d, sc, api, got, want_model, want_spec):
    """returns list of (key, concrete, detail) for the differences between the implementation's canonical token list and
    the expectations.  want_spec for dom has sets in P^ tokens."""
    res = []
    if len(got) != len(want_spec):
        k = next((i for i, (g, w) in enumerate(zip(got, want_spec)) if g != w), min(len(got), len(want_spec)))
        return [("ns-report-differs:" + api, True,
                 "%d events/nodes reported, Spec %d; first difference at token %d: reported %s, Spec %s" % (
                     len(got), len(want_spec), k, got[k] if k < len(got) else "<end>",
                     want_spec[k] if k < len(want_spec) else "<end>"))]
    for i, (g, ws) in enumerate(zip(got, want_spec)):
        wm = want_model[i] if i < len(want_model) else None
        if g == wm and (api != "dom" or not ws.startswith("P")):
            if g == ws: continue
        if api == "dom" and g[:1] in "LPD" and g[1:2] in ("^", "") and ws[:1] == g[:1]:
            gf, sf = g.split("^")[1:], ws.split("^")[1:]
            mf = wm.split("^")[1:] if wm and wm[:2] == g[:2] else None
            if len(gf) != len(sf):
                res.append(("ns-report-differs:dom", True, "lookup arity %s vs %s" % (g, ws))); continue
            queries = (["(null)"] + d.qp) if g[0] == "L" else d.qu
            for j, (a, b) in enumerate(zip(gf, sf)):
                q = queries[j]
                if g[0] == "L" and a == "":
                    a = "~"                 # empty string for "no namespace" (counted in stats)
                ok = (a in b.split(",")) if g[0] == "P" else (a == b)
                if ok:
                    if mf is not None and mf[j] != a and g[0] != "P":
                        res.append(("corr:ns-dom-model", False, "%s query %s: impl %s = spec, model %s" % (g[0], q, a, mf[j])))
                    continue
                if q in ("xml", "xmlns", XML_URI, XMLNS_URI) and g[0] in "LP":
                    res.append(("dom-lookup-reserved-prefixes-not-prebound", True,
                                "%s(%s) answers %s, in-scope declarations give %s" % (
                                    "lookupNamespaceURI" if g[0] == "L" else "lookupPrefix", q, a, b)))
                else:
                    res.append(("dom-lookup-differs:" + {"L": "lookupNamespaceURI", "P": "lookupPrefix", "D": "isDefaultNamespace"}[g[0]], True,
                                "query %s answers %s, in-scope declarations give %s (node token %d)" % (q, a, b, i)))
            continue
        if g == ws:
            if wm is not None and g != wm:
                res.append(("corr:ns-model-" + api, False, "token %d: impl %s = spec, model %s" % (i, g, wm)))
            continue
        if sc == "DG" and api in ("sax2", "sax2p") and g.startswith(">{http://apache.org/xml/UnknownNS}") and \
                ws.startswith(">{") and g.split("}", 1)[1] == ws.split("}", 1)[1]:
            res.append(("dgscanner-sax2-endElement-unknown-uri", True, "endElement reported as %s, startElement/Spec %s" % (g, ws)))
            continue
        if sc == "SG" and api != "dom" and g.startswith(">") and ws.startswith(">") and same_but_prefix(g, ws):
            res.append((KEY_SG_STALE, True, "endElement qname reported as %s, start tag / Spec %s" % (g, ws)))
            continue
        res.append(("ns-report-differs:" + api, True, "token %d: %s, Spec %s" % (i, g, ws)))
    return res

def same_but_prefix(g, w):
    """two end-element tokens (`>{uri}local|qname` or `>qname`) that differ only in the prefix of the qname"""
    def parts(t):
        head, _, q = t[1:].rpartition("|")
        return head, q.split(":")[-1]
    return parts(g) == parts(w)

def verify_history_dependent(ctx):
    """Two categories are only meaningful if the same document is handled correctly by a fresh parser: confirm that,
    attach a two-document replay (prior document, then the witness, on one parser object); otherwise re-key."""
    best = getattr(ctx, "_c06_best", {})
    for key in (KEY_VERSION_STICKS, KEY_SG_STALE):
        if key not in best:
            continue
        v = ctx.violations[best[key][1]]
        rep = v["replay"]
        d = Doc(); d.xml = rep["xml"]; d.qp = rep["qp"]; d.qu = rep["qu"]
        sc, api = rep["scanner"], rep["api"]
        if key == KEY_VERSION_STICKS:
            prior = "<?xml version=\"1.1\"?><a/>"
        else:
            m = re.search(r"Spec >(?:\{([^}]*)\})?(?:[^|]*\|)?([^ ]+)$", v["what"])
            uri = (m.group(1) if m and m.group(1) else None)
            local = (m.group(2).split(":")[-1] if m else "a")
            if uri is None:    # sax1 witness: find the URI from the document's declarations
                um = re.search(r'xmlns:\w+="([^"]+)"', d.xml)
                uri = um.group(1) if um else "u:0"
            prior = "<r xmlns:stale=\"%s\"><stale:%s></stale:%s></r>" % (uri, local, local)
        pd = Doc(); pd.xml = prior; pd.qp = d.qp; pd.qu = d.qu
        fresh = common.run_harness("hx_ns", ["--fresh"], input=(harness_line(d, sc, api) + "\n").encode()).stdout.decode().split("\n")[0]
        both = common.run_harness("hx_ns", input=(harness_line(pd, sc, api) + "\n" + harness_line(d, sc, api) + "\n").encode()).stdout.decode().split("\n")
        reused = both[1] if len(both) > 1 else ""
        rep["prior"] = prior
        rep["impl_fresh_parser"] = fresh[:1500]
        rep["impl_after_prior"] = reused[:1500]
        good_fresh = (parse_impl(fresh) or ([], [], ""))[0] != [] if key == KEY_VERSION_STICKS else \
            canon_tokens((parse_impl(fresh) or ([], [], ""))[2]) == canon_tokens(rep.get("spec", ""))
        if not good_fresh:
            v["key"] = "ns-error-not-reported:emptyPrefixedURI" if key == KEY_VERSION_STICKS else "ns-report-differs:" + api
            v["what"] += " (also with a fresh parser object)"
        else:
            v["what"] += " -- history dependent: a fresh parser handles the document correctly (%s); after first parsing %s on the same parser it does not" % (
                "error reported" if key == KEY_VERSION_STICKS else "report equals the Spec", prior)

def doc_correspondence(ctx, use_model=True):
    r = ctx.rng
    ndocs = scaled(800 if not ctx.thorough() else 12000)
    docs = [gen_doc(r, i, ctx.thorough()) for i in range(ndocs)]
    total = 0
    distinct = set()
    hist = {"wf": 0, "ill": 0}
    intents = {}
    empty_string_answers = 0
    batch = 3000
    for b0 in range(0, ndocs, batch):
        chunk = docs[b0:b0 + batch]
        apis5 = ("err",) + APIS
        dl = [driver_lines(d, api) for api in apis5 for d in chunk]      # one driver call per area (process start-up dominates)
        so = run_driver_sharded("nsspec", dl, shards=2)
        sp = {api: so[k * len(chunk):(k + 1) * len(chunk)] for k, api in enumerate(apis5)}
        mo = {}
        if use_model:
            mm = run_driver_sharded("nsmodel", dl, shards=2)
            mo = {api: mm[k * len(chunk):(k + 1) * len(chunk)] for k, api in enumerate(apis5)}
        hl = [harness_line(d, sc, api) for d in chunk for sc in SCANNERS for api in APIS]
        out, err = run_sharded(hl)
        check_sanitizer(ctx, err, "document parses")
        total += len(hl)
        k = 0
        for di, d in enumerate(chunk):
            spec_err = sp["err"][di]
            spec_ok = spec_err == "ok"
            spec_names = [] if spec_ok else spec_err[4:].split(",")
            hist["wf" if spec_ok else "ill"] += 1
            intents[d.intent] = intents.get(d.intent, 0) + 1
            if d.nontrivial: distinct.add(d.xml)
            if use_model:
                model_ok = mo["err"][di] == "ok"
                if model_ok != spec_ok:
                    add_violation(ctx, "corr:ns-model-errors", False,
                                  "scan model and Spec disagree on namespace well-formedness (model %s, Spec %s)" % (mo["err"][di], spec_err),
                                  {"correspondence": "ns-model-errors", "kind": "doc", "xml": d.xml, "tree": d.tree, "v11": d.v11}, size=len(d.xml))
            if use_model and spec_ok:
                # the code-shaped models and the Spec must agree (proved for SAX2: sax2_events_eq_spec; checked here for all)
                for api in APIS:
                    tm, ts = canon_tokens(mo[api][di]), canon_tokens(sp[api][di])
                    if len(tm) != len(ts) or any(x != y and not (api == "dom" and x[:1] == "P" and y[:1] == "P" and
                            all(a in b.split(",") for a, b in zip(x.split("^")[1:], y.split("^")[1:]))) for x, y in zip(tm, ts)):
                        add_violation(ctx, "corr:ns-model-spec-" + api, False,
                                      "model and Spec outputs differ for a namespace-well-formed document (%s): %s" % (api, first_diff(mo[api][di], sp[api][di])),
                                      {"correspondence": "ns-model-spec", "kind": "doc", "xml": d.xml, "tree": d.tree, "v11": d.v11,
                                       "qp": d.qp, "qu": d.qu, "api": api, "scanner": "IG"}, size=len(d.xml))
            for sc in SCANNERS:
                for api in APIS:
                    o = out[k]; k += 1
                    rep = {"kind": "doc", "xml": d.xml, "tree": d.tree, "v11": d.v11, "qp": d.qp, "qu": d.qu,
                           "scanner": sc, "api": api, "impl": o[:1500], "spec_errors": spec_err}
                    pi = parse_impl(o)
                    if pi is None:
                        add_violation(ctx, "ns-crash-or-no-output", True, "%s/%s: %s" % (sc, api, o[:300]), rep, size=len(d.xml))
                        continue
                    errs, exc, body = pi
                    if any(x.startswith("FOREIGN") for x in exc):
                        add_violation(ctx, "ns-foreign-exception", True, "%s/%s: foreign exception" % (sc, api), rep, size=len(d.xml))
                    if not spec_ok:
                        if not errs and not exc:
                            key = classify_missing_error(d, sc, spec_names)
                            add_violation(ctx, key, True,
                                          "%s scanner via %s reports no error for a document the Spec finds namespace-ill-formed (%s)" % (
                                              sc, api, spec_err), rep, size=len(d.xml))
                        elif not errs and exc:
                            # an exception escaped parse() without any error having been reported to the handler
                            key = classify_missing_error(d, sc, spec_names)
                            add_violation(ctx, key, True,
                                          "%s scanner via %s reports no error for a namespace-ill-formed document (%s); %s escapes parse()" % (
                                              sc, api, spec_err, " ".join(exc)), rep, size=len(d.xml))
                        continue
                    if errs or exc:
                        add_violation(ctx, "ns-spurious-error", True,
                                      "%s scanner via %s reports %s for a namespace-well-formed document" % (sc, api, ",".join(errs + exc)),
                                      rep, size=len(d.xml))
                        continue
                    got = canon_tokens(body)
                    ws = canon_tokens(sp[api][di])
                    wm = canon_tokens(mo[api][di]) if use_model else ws
                    if api == "dom":
                        empty_string_answers += sum(1 for t in got if t.startswith("L^") for f in t.split("^")[1:] if f == "")
                        if not use_model:
                            wm = [None] * len(ws)
                    for key, concrete, detail in compare_tokens(d, sc, api, got, wm, ws):
                        rep2 = dict(rep); rep2["spec"] = sp[api][di][:1500]
                        if use_model: rep2["model"] = mo[api][di][:1500]
                        add_violation(ctx, key, concrete, "%s scanner via %s: %s" % (sc, api, detail), rep2, size=len(d.xml))
        if b0 == 0 and chunk:
            d = chunk[3 % len(chunk)]
            ctx.samples.append({"case": d.xml[:400], "spec_errors": sp["err"][3 % len(chunk)], "sax2p_spec": sp["sax2p"][3 % len(chunk)][:300],
                                "impl_IG_sax2p": out[(3 % len(chunk)) * 16][:300]})
    verify_history_dependent(ctx)
    ctx.stats["documents"] = ndocs
    ctx.stats["document_parses"] = total
    ctx.stats["documents_spec_verdict"] = hist
    ctx.stats["documents_intent"] = intents
    ctx.stats["dom_lookupNamespaceURI_empty_string_answers"] = empty_string_answers
    if empty_string_answers:
        ctx.notes.append("lookupNamespaceURI answered the empty string (instead of null) %d times for un-declared "
                         "namespaces (xmlns=\"\"); treated as 'no namespace' when judging" % empty_string_answers)
    return total, len(distinct)

# ====================================================================================== (c) document without root
def noroot_check(ctx):
    variants = ["lookupNamespaceURI", "lookupNamespaceURI0", "lookupPrefix", "isDefaultNamespace", "comment"]
    p = common.run_harness("hx_ns", input=("\n".join("F15 " + v for v in variants) + "\n").encode())
    out = p.stdout.decode().split("\n")
    res = dict(zip(variants, out))
    ctx.stats["document_without_root"] = res
    for v in variants:
        o = res.get(v, "NO-OUTPUT")
        if o != "ok null":
            add_violation(ctx, "dom-lookup-on-document-without-root-crashes", True,
                          "DOMDocument without document element: %s -> %s (Spec: no declarations in scope, answer null/false)" % (v, o),
                          {"kind": "noroot", "op": "F15 " + v, "impl": o, "spec": "ok null"}, size=len(v))
    return len(variants)

# ====================================================================================== entry points
def correspondence(ctx):
    n1, d1 = stack_correspondence(ctx)
    n2, d2 = doc_correspondence(ctx, use_model=True)
    n3 = noroot_check(ctx)
    ctx.stats["evaluations"] = n1 + n2 + n3
    ctx.stats["distinct_nontrivial"] = d1 + d2
    best = getattr(ctx, "_c06_best", {})
    ctx.stats["violation_witness_counts"] = {k: v[2] for k, v in best.items()}

_search_done = {}

def search(ctx, broken):
    if "done" in _search_done:
        return None
    _search_done["done"] = True
    before = {v["key"] for v in ctx.violations}
    sub = type(ctx)(ctx.pid, ctx.tier, ctx.seed + 7919)
    stack_correspondence(sub)
    doc_correspondence(sub, use_model=False)
    for v in sub.violations:
        if v.get("concrete") and v["key"] not in before:
            v["what"] += " (found by the Spec-judged search after broken %s %s)" % (broken["kind"], broken["name"])
            return v
    return None

def replay(ctx, path):
    r = json.load(open(path))["replay"]
    kind = r.get("kind")
    if kind == "stack":
        line = r["line"]
        m, i, _ = common.run_pair("ns", "hx_ns", [line])
        want, amb = oracle_history(line[2:].split(","), line.startswith("W"))
        print("case  :", line); print("model :", m[0]); print("impl  :", i[0]); print("oracle:", want, "(ambiguous)" if amb else "")
    elif kind == "doc":
        d = Doc(); d.xml = r["xml"]; d.tree = r["tree"]; d.v11 = r["v11"]; d.qp = r.get("qp", []); d.qu = r.get("qu", [])
        sc, api = r.get("scanner", "IG"), r.get("api", "sax2p")
        print("document:", d.xml)
        if r.get("prior"):
            pd = Doc(); pd.xml = r["prior"]; pd.qp = d.qp; pd.qu = d.qu
            p = common.run_harness("hx_ns", input=(harness_line(pd, sc, api) + "\n" + harness_line(d, sc, api) + "\n").encode())
            print("prior document on the same parser:", r["prior"])
            print("impl (%s/%s, after the prior document): %s" % (sc, api, p.stdout.decode().split("\n")[1].strip()))
        p = common.run_harness("hx_ns", ["--fresh"], input=(harness_line(d, sc, api) + "\n").encode())
        print("impl (%s/%s, fresh parser): %s" % (sc, api, p.stdout.decode().strip()))
        print("model:", common.run_driver(["nsmodel"], input=(driver_lines(d, api) + "\n").encode()).decode().strip())
        print("spec :", common.run_driver(["nsspec"], input=(driver_lines(d, api) + "\n").encode()).decode().strip())
        print("spec namespace errors:", common.run_driver(["nsspec"], input=(driver_lines(d, "err") + "\n").encode()).decode().strip())
    elif kind == "noroot":
        p = common.run_harness("hx_ns", input=(r["op"] + "\n").encode())
        print("case :", r["op"]); print("impl :", p.stdout.decode().strip()); print("model: ok null"); print("spec : ok null")
    elif kind == "sanitizer":
        p = common.run_harness("hx_ns", input=b"S R 1 2 3 4,L,A p 5,M p\n")
        print("case : S R 1 2 3 4,L,A p 5,M p   (first addPrefix on a fresh row)")
        print("impl :", p.stdout.decode().strip(), "| stderr:", common.sanitizer_summary(p.stderr.decode(errors="replace")))
        print("model: 5/0   (no undefined behaviour: the copy of an empty map copies nothing)")
    else:
        print(json.dumps(r, indent=1))
    return 0
