"""C09, facet tier: user-derived simple types built through REAL schema documents.

Restriction chains of depth 1..4 over decimal, integer, double, date, dateTime, string, token; lists of unions and unions
of lists.  Every schema is loaded from memory (harness/hx_facet.cpp); every value is validated in-parse (<ek>v</ek>)
AND by the DatatypeValidator of the element declaration; values sit on every bound and one step of the lexical grid
either side of it.  Judges:
  * the Spec (`xvdriver facetspec`: a value is accepted iff the base and EVERY step of the chain accept it),
  * in-parse vs validator agreement,
  * monotonicity — a derived level accepting what its base level rejects is a violation by itself,
  * derivations that loosen a bound must be refused when the schema is loaded.
The code-shaped model (`xvdriver facet`: inheritFacet / inspectFacetBase / boundsCheck) must agree with the library."""
import json, re
import common

def hx(s):
    return ".".join("%x" % ord(c) for c in s) if s else "-"

def hexbytes(s):
    return s.encode("utf-8").hex() if s else "-"

XS = "http://www.w3.org/2001/XMLSchema"

# ------------------------------------------------------------------ type trees
class A:            # restriction chain over a built-in
    def __init__(self, kind, steps): self.kind, self.steps = kind, steps
    def expr(self, upto=None):
        st = self.steps if upto is None else self.steps[:upto]
        return "A(%s;%s)" % (self.kind, "/".join(step_expr(s) for s in st) if st else "-")
class L:
    def __init__(self, item, steps): self.item, self.steps = item, steps
    def expr(self, upto=None):
        st = self.steps if upto is None else self.steps[:upto]
        return "L(%s;%s)" % (self.item.expr(), "/".join(step_expr(s) for s in st) if st else "-")
class U:
    def __init__(self, members): self.members = members
    def expr(self, upto=None):
        return "U(%s)" % "|".join(m.expr() for m in self.members)

FACET_XSD = {"maxI": "maxInclusive", "maxE": "maxExclusive", "minI": "minInclusive", "minE": "minExclusive", "td": "totalDigits",
             "fd": "fractionDigits", "len": "length", "minL": "minLength", "maxL": "maxLength"}

def step_expr(s):
    if not s:
        return "-"
    out = []
    for k, v in s.items():
        if k == "enum":
            out.append("enum=" + ":".join(hx(x) for x in v))
        elif k in ("td", "fd", "len", "minL", "maxL"):
            out.append("%s=%d" % (k, v))
        else:
            out.append("%s=%s" % (k, hx(v)))
    return ",".join(out)

def facets_xsd(s):
    out = []
    for k, v in s.items():
        if k == "enum":
            out += ['<xs:enumeration value="%s"/>' % x for x in v]
        else:
            out.append('<xs:%s value="%s"/>' % (FACET_XSD[k], v))
    return "".join(out)

class Emit:
    """turns type trees into named xs:simpleType definitions"""
    def __init__(self):
        self.defs, self.n = [], 0
    def fresh(self):
        self.n += 1
        return "t%d" % self.n
    def chain(self, base_name, steps):
        """returns the list of type names after each step"""
        names, cur = [], base_name
        for s in steps:
            nm = self.fresh()
            self.defs.append('<xs:simpleType name="%s"><xs:restriction base="%s">%s</xs:restriction></xs:simpleType>' % (nm, cur, facets_xsd(s)))
            names.append(nm); cur = nm
        return names
    def type(self, t):
        """returns (top type name, names per chain level)"""
        if isinstance(t, A):
            names = self.chain("xs:" + t.kind, t.steps)
            return (names[-1] if names else "xs:" + t.kind), names
        if isinstance(t, L):
            item, _ = self.type(t.item)
            nm = self.fresh()
            self.defs.append('<xs:simpleType name="%s"><xs:list itemType="%s"/></xs:simpleType>' % (nm, item))
            names = self.chain(nm, t.steps)
            return (names[-1] if names else nm), [nm] + names
        if isinstance(t, U):
            ms = [self.type(m)[0] for m in t.members]
            nm = self.fresh()
            self.defs.append('<xs:simpleType name="%s"><xs:union memberTypes="%s"/></xs:simpleType>' % (nm, " ".join(ms)))
            return nm, [nm]
    def schema(self, elem_types):
        els = "".join('<xs:element name="e%d" type="%s"/>' % (k + 1, tn) for k, tn in enumerate(elem_types))
        return '<xs:schema xmlns:xs="%s" elementFormDefault="qualified">%s%s</xs:schema>' % (XS, "".join(self.defs), els)

# ------------------------------------------------------------------ generators
def fmt_dec(x10):            # tenths -> decimal literal
    s = "-" if x10 < 0 else ""
    a = abs(x10)
    return "%s%d.%d" % (s, a // 10, a % 10) if a % 10 else "%s%d" % (s, a // 10)

def date_of(n):              # day index -> date literal in 2000 (leap year), around the end of February
    import datetime
    d = datetime.date(2000, 2, 20) + datetime.timedelta(days=n)
    return d.isoformat()

def dt_of(n):                # second index -> dateTime literal
    import datetime
    d = datetime.datetime(2000, 2, 28, 23, 59, 30) + datetime.timedelta(seconds=n)
    return d.isoformat()

def numeric_chain(r, kind, depth, allow_loosen):
    """steps over an ordered kind; positions are integers on the kind's lexical grid"""
    if kind == "decimal": lit, span = fmt_dec, 400            # tenths
    elif kind == "double": lit, span = (lambda n: fmt_dec(n * 5)), 80
    elif kind == "integer": lit, span = (lambda n: str(n)), 60
    elif kind == "date": lit, span = date_of, 30
    else: lit, span = dt_of, 90
    lo, hi = -span // 2, span // 2          # inclusive interval currently in force (grid positions)
    has_lo = has_hi = False
    steps, marks, loosened = [], [], False
    for d in range(depth):
        s = {}
        what = r.below(8)
        # one-sided steps are frequent: they are the ones that rely on inheritance of the other side
        if what in (0, 1, 4, 6) and hi - lo > 4:
            nh = hi - 1 - r.below(max(1, (hi - lo) // 3))
            if allow_loosen and not loosened and has_hi and r.chance(1, 7):
                nh = hi + 1 + r.below(3); loosened = True
            if r.chance(1, 2):
                s["maxI"] = lit(nh); marks.append(nh); hi = nh if not loosened else hi
            else:
                s["maxE"] = lit(nh + 1); marks.append(nh + 1); hi = nh if not loosened else hi
            has_hi = True
        if what in (2, 3, 4, 7) and hi - lo > 4:
            nl = lo + 1 + r.below(max(1, (hi - lo) // 3))
            if allow_loosen and not loosened and has_lo and r.chance(1, 7):
                nl = lo - 1 - r.below(3); loosened = True
            if r.chance(1, 2):
                s["minI"] = lit(nl); marks.append(nl); lo = nl if not loosened else lo
            else:
                s["minE"] = lit(nl - 1); marks.append(nl - 1); lo = nl if not loosened else lo
            has_lo = True
        if what == 5 and kind == "decimal" and r.chance(1, 2):
            s["fd"] = r.choice([0, 1, 2]); s["td"] = r.choice([3, 4])
        steps.append(s)
    if kind in ("decimal", "integer") and r.chance(1, 5) and not loosened and hi - lo >= 2:
        pts = sorted({lo + r.below(hi - lo + 1) for _ in range(3)})
        steps.append({"enum": [lit(p) for p in pts]}); marks += pts
    vals = set()
    for m in marks + [lo, hi]:
        for dlt in (-1, 0, 1):
            vals.add(lit(m + dlt))
    vals = sorted(vals)
    extra = []
    if kind == "decimal":
        v0 = lit(marks[0] if marks else 0)
        extra = [v0 + "0" if "." in v0 else v0 + ".0", "+" + v0 if not v0.startswith("-") else v0, lit(lo + 1) + "5" if "." in lit(lo + 1) else lit(lo + 1) + ".05",
                 "1234.5", " " + v0 + " ", "abc", ""]
    elif kind == "integer":
        v0 = lit(marks[0] if marks else 0)
        extra = ["+" + v0 if not v0.startswith("-") else v0, "0" + v0 if not v0.startswith("-") else v0, v0 + ".0", "x", ""]
    elif kind == "double":
        v0 = lit(marks[0] if marks else 0)
        extra = [v0 + "0" if "." in v0 else v0 + ".0", " " + v0, "NaNx"]
    elif kind == "date":
        v0 = lit(marks[0] if marks else 0)
        extra = [v0 + "Z", v0 + "+14:00", v0 + "-14:00", "2000-02-30", "2000-2-28"]
    else:
        v0 = lit(marks[0] if marks else 0)
        extra = [v0 + "Z", v0 + ".5", v0 + "+14:00", v0 + "-14:00", "2000-02-28T24:00:01"]
    return A(kind, steps), vals + extra, loosened

def string_chain(r, kind, depth, allow_loosen):
    lo, hi = 0, 12
    steps, marks, loosened = [], [], False
    has_lo = has_hi = False
    for d in range(depth):
        s = {}
        what = r.below(6)
        if what in (0, 3, 5) and hi - lo > 2:
            nh = hi - 1 - r.below(2)
            if allow_loosen and not loosened and has_hi and r.chance(1, 6):
                nh = hi + 1; loosened = True
            s["maxL"] = nh; marks.append(nh)
            if not loosened: hi = nh
            has_hi = True
        if what in (1, 3, 4) and hi - lo > 2:
            nl = lo + 1 + r.below(2)
            if allow_loosen and not loosened and has_lo and r.chance(1, 6):
                nl = max(0, lo - 1)
                loosened = nl < lo
            s["minL"] = nl; marks.append(nl)
            if not loosened: lo = nl
            has_lo = True
        if what == 2 and not (has_lo or has_hi) and d == depth - 1:
            ln = lo + r.below(hi - lo + 1)
            s["len"] = ln; marks.append(ln); lo = hi = ln
        steps.append(s)
    if r.chance(1, 4) and not loosened:
        n1, n2 = lo + r.below(hi - lo + 1), lo + r.below(hi - lo + 1)
        steps.append({"enum": ["a" * n1, "b" * n2 if n2 else "a" * n1]}); marks += [n1, n2]
    vals = set()
    for m in marks + [lo, hi]:
        for dlt in (-1, 0, 1):
            if m + dlt >= 0:
                vals.add("a" * (m + dlt))
    vals = sorted(vals, key=len)
    n0 = marks[0] if marks else 2
    extra = ["b" * n0, " " + "a" * max(0, n0 - 2) + " ", "a " * (n0 // 2) + "a"]
    return A(kind, steps), vals + extra, loosened

def composite(r):
    """list of union / union of lists, with length facets on the lists"""
    i1, _, _ = numeric_chain(r, "integer", 1 + r.below(2), False)
    d1, _, _ = numeric_chain(r, "date", 1, False)
    tk = A("token", [{"enum": ["x", "yy", "INF"]}])
    if r.chance(1, 2):
        u = U([i1, d1] if r.chance(1, 2) else [i1, tk])
        n = 1 + r.below(3)
        steps = [{"maxL": n + 1}, {"minL": 1}] if r.chance(1, 2) else [{"len": n}]
        t = L(u, steps)
    else:
        n = 2 + r.below(2)
        t = U([L(i1, [{"maxL": n}]), L(d1, [{"minL": 1}, {"maxL": 2}]), tk][: 2 + r.below(2)])
    iv = [s for st in i1.steps for k, s in st.items() if k in ("maxI", "minI")] or ["0"]
    dv = [s for st in d1.steps for k, s in st.items() if k in ("maxI", "minI")] or ["2000-02-20"]
    a, b = iv[0], dv[0]
    vals = [a, b, "%s %s" % (a, a), "%s %s" % (a, b), "%s %s %s" % (a, a, a), "%s  %s\t%s %s" % (a, a, a, a), "x", "yy x", "%s x" % a,
            str(int(a) + 1000), "%s %d" % (a, int(a) + 1000), "", "  ", b + " " + b, b + " " + b + " " + b, "2000-02-30", "zz"]
    return t, vals

# ------------------------------------------------------------------ the check
def run_lines(area, lines):
    out = common.run_driver([area], input=("\n".join(lines) + "\n").encode()).decode().split("\n")
    if out and out[-1] == "":
        out.pop()
    if len(out) != len(lines):
        raise common.InfraError("%s produced %d lines for %d" % (area, len(out), len(lines)))
    return out

def build_cases(ctx):
    r = ctx.rng
    th = ctx.thorough()
    cases = []     # dict(schema, levels:[expr per element], values, loosened, kind, pure)
    kinds = ["decimal", "integer", "double", "date", "dateTime", "string", "token"]
    # the chain every generator run must contain: a lower bound, then a step that only sets an upper bound (and the mirror)
    fixed = [(A("decimal", [{"minE": "0"}, {"maxI": "10"}]), ["-1", "0", "0.1", "10", "10.1", "11"]),
             (A("integer", [{"maxE": "10"}, {"minI": "0"}]), ["-1", "0", "9", "10", "11"]),
             (A("integer", [{"minE": "0"}, {"maxI": "10"}, {"maxE": "8"}]), ["-1", "0", "1", "7", "8", "10", "11"]),
             (A("dateTime", [{"minE": "2000-02-28T23:59:59"}, {"maxI": "2000-02-29T00:00:05"}]),
              ["2000-02-28T23:59:58", "2000-02-28T23:59:59", "2000-02-29T00:00:00", "2000-02-29T00:00:05", "2000-02-29T00:00:06"]),
             (A("decimal", [{"minI": "0"}, {"maxE": "10"}, {"minE": "1"}, {"maxI": "5"}]), ["-0.1", "0", "1", "1.1", "5", "5.1", "9.9", "10"]),
             (A("date", [{"minE": "2000-02-28"}, {"maxI": "2000-03-01"}]), ["2000-02-27", "2000-02-28", "2000-02-29", "2000-03-01", "2000-03-02"]),
             (A("double", [{"maxI": "2.5"}, {"minE": "-2.5"}]), ["-3", "-2.5", "-2", "2.5", "3"])]
    for t, vals in fixed:
        cases.append((t, vals, False))
    n = 700 if th else 170
    for _ in range(n):
        kind = r.choice(kinds)
        depth = 1 + r.below(4)
        if kind in ("string", "token"):
            t, vals, loos = string_chain(r, kind, depth, True)
        else:
            t, vals, loos = numeric_chain(r, kind, depth, True)
        cases.append((t, vals, loos))
    out = []
    for t, vals, loos in cases:
        em = Emit()
        _, names = em.type(t)
        if not names:
            continue
        schema = em.schema(names)
        levels = [t.expr(k + 1) for k in range(len(names))]
        pure = all(set(s) <= {"maxI", "maxE", "minI", "minE", "maxL", "minL"} for s in t.steps)
        out.append({"schema": schema, "levels": levels, "values": vals, "loosened": loos, "kind": t.kind, "pure": pure, "chain": True})
    for _ in range(120 if th else 30):
        t, vals = composite(r)
        em = Emit()
        top, names = em.type(t)
        schema = em.schema([top])
        out.append({"schema": schema, "levels": [t.expr()], "values": vals, "loosened": False, "kind": "composite", "pure": False, "chain": False})
    return out

def check_facets(ctx, V):
    cases = build_cases(ctx)
    fs = ["FS %s %d %s" % (hexbytes(c["schema"]), len(c["levels"]), ",".join(hexbytes(v) for v in c["values"])) for c in cases]
    p = common.run_harness("hx_facet", input=("\n".join(fs) + "\n").encode(), timeout=3000)
    impl = p.stdout.decode(errors="replace").split("\n")
    err = p.stderr.decode(errors="replace")
    if impl and impl[-1] == "":
        impl.pop()
    if len(impl) < len(fs) and not ("AddressSanitizer" in err or "runtime error" in err):
        raise common.InfraError("harness hx_facet stopped after %d of %d cases without a sanitizer report (rc=%s)" % (len(impl), len(fs), p.returncode))
    while len(impl) < len(fs):
        impl.append("NO-OUTPUT")
    fa, idx = [], []
    for ci, c in enumerate(cases):
        for li, e in enumerate(c["levels"]):
            for vi, v in enumerate(c["values"]):
                fa.append("FA %s %s" % (e, hx(v))); idx.append((ci, li, vi))
    spec = run_lines("facetspec", fa)
    model = run_lines("facet", fa)
    sv = {k: s for k, s in zip(idx, spec)}
    mv = {k: s for k, s in zip(idx, model)}
    evals, hist = 0, {}
    corr = 0
    for ci, c in enumerate(cases):
        o = impl[ci]
        rp0 = {"op": "FS", "schema": c["schema"], "levels": c["levels"], "values": c["values"]}
        f = o.split()
        if not f or not f[0].startswith("load="):
            V.add("facet:harness", "unexpected harness output %r" % o[:200], rp0); continue
        loaded = f[0] == "load=ok"
        m_load = all(mv[(ci, li, 0)].startswith("load=ok") for li in range(len(c["levels"]))) if c["values"] else True
        hist["%s:%s" % (c["kind"], "loaded" if loaded else "refused")] = hist.get("%s:%s" % (c["kind"], "loaded" if loaded else "refused"), 0) + 1
        if c["loosened"] and loaded:
            V.add("facet:loosening-derivation-accepted", "a restriction step that loosens a bound of its base was accepted when the schema was loaded: %s" % c["levels"][-1], rp0)
        elif not c["loosened"] and c["pure"] and c["chain"] and not loaded:
            V.add("facet:valid-derivation-refused", "a chain of tightening steps was refused at load (%s): %s" % (f[0][:120], c["levels"][-1]), rp0)
        elif loaded != m_load:
            corr += 1
            V.add("corr:facet-derivation", "derivation checks: model (inspectFacet/inspectFacetBase) says %s, the library %s for %s" % (
                "ok" if m_load else "error", f[0][:100], c["levels"][-1]), dict(rp0, model=m_load), concrete=False)
        if not loaded:
            continue
        per = {}
        for tok in f[1:]:
            if "=" in tok:
                k, s = tok.split("=", 1)
                per[int(k[1:]) - 1] = s
        for li in range(len(c["levels"])):
            s = per.get(li, "")
            for vi, v in enumerate(c["values"]):
                pd = s[2 * vi:2 * vi + 2]
                evals += 1
                rp = {"op": "FS", "schema": c["schema"], "level": li + 1, "expr": c["levels"][li], "value": v}
                if len(pd) != 2 or pd[0] not in "VI" or pd[1] not in "VI":
                    V.add("facet:harness", "unexpected verdict %r for level %d value %r" % (pd, li + 1, v), rp); continue
                want = sv[(ci, li, vi)].endswith("v=V")
                P, D = pd[0] == "V", pd[1] == "V"
                if P != D:
                    V.add("facet:in-parse-vs-validator:" + c["kind"], "%r against %s: in-parse says %s, the declaration's DatatypeValidator says %s (Spec: %s)" % (
                        v, c["levels"][li], "valid" if P else "invalid", "valid" if D else "invalid", "valid" if want else "invalid"), rp)
                for who, got in (("in-parse validation", P), ("DatatypeValidator::validate", D)):
                    if got != want and P == D:
                        V.add("facet:%s:%s" % (c["kind"], "accepts" if got else "rejects"),
                              "%s of %r against %s says %s; by XSD 4.1.2/4.3 (base and every step must accept) it is %s" % (
                                  who, v, c["levels"][li], "valid" if got else "invalid", "valid" if want else "invalid"), rp)
                # monotonicity: independent of model and Spec
                if c["chain"] and li > 0:
                    ps = per.get(li - 1, "")[2 * vi:2 * vi + 2]
                    if len(ps) == 2 and ((P and ps[0] == "I") or (D and ps[1] == "I")):
                        V.add("facet:monotonicity:" + c["kind"], "%r is accepted by the derived type %s but rejected by its base %s" % (v, c["levels"][li], c["levels"][li - 1]), rp)
                if (mv[(ci, li, vi)].endswith("v=V")) != P and P == want:
                    corr += 1
                    V.add("corr:facet", "model (inheritFacet/boundsCheck) says %s, library and Spec say %s for %r against %s" % (
                        mv[(ci, li, vi)], "valid" if P else "invalid", v, c["levels"][li]), dict(rp, model=mv[(ci, li, vi)]), concrete=False)
    # sanitizer reports in the datatype code only (the schema loader's own reports belong to other properties)
    rel = [l for l in err.split("\n") if ("runtime error" in l or "AddressSanitizer" in l or l.strip().startswith("#"))
           and re.search(r"validators/datatype/|util/XML(Big|DateTime|Double|Float|AbstractDoubleFloat|String)|util/(Base64|HexBin)|psvi/XSValue", l)]
    if rel:
        V.add("dt-sanitizer:facets", "sanitizer report in facet harness run: " + rel[0].strip()[:300], {"stderr": "\n".join(rel)[:1500]})
    ctx.stats["facet_schemas"] = hist
    ctx.stats["facet_evaluations"] = evals
    ctx.stats["facet_model_disagreements"] = corr
    c0 = cases[0]
    ctx.samples.append({"case": c0["levels"][-1], "schema": c0["schema"][:300], "values": c0["values"], "impl": impl[0][:200],
                        "spec": [sv[(0, len(c0["levels"]) - 1, vi)] for vi in range(len(c0["values"]))]})
    return evals + len(cases), {("FS", c["levels"][li], v) for c in cases for li in range(len(c["levels"])) for v in c["values"] if v}

def replay_facet(r):
    levels = r.get("levels") or [r.get("expr")]
    n = len(levels) if "levels" in r else r.get("level", 1)
    vals = r.get("values") or [r.get("value", "")]
    line = "FS %s %d %s" % (hexbytes(r["schema"]), n, ",".join(hexbytes(v) for v in vals))
    p = common.run_harness("hx_facet", input=(line + "\n").encode())
    print("schema:", r["schema"])
    print("values:", vals)
    print("impl  :", p.stdout.decode().strip())
    exprs = [r["expr"]] if "expr" in r else levels
    for e in exprs:
        fa = ["FA %s %s" % (e, hx(v)) for v in vals]
        print("type  :", e)
        print("spec  :", run_lines("facetspec", fa))
        print("model :", run_lines("facet", fa))
    return 0
