"""C07 — DTD validation reports a validity error iff a validity constraint is violated.

Theorems: XV.Props.C07 (deriv_iff for all content specs and all child sequences; simple_iff, mixed_iff,
select_total, followpos_sound/complete, dfa_iff, checkContent_iff for the code-shaped models of
Simple/Mixed/DFAContentModel, DTDElementDecl::makeContentModel and DTDValidator::checkContent;
validate_iff_partial for the document-level executable Spec).

Correspondence, content-model tier: for every generated content spec the REAL DTDValidator::checkContent
(real DTDElementDecl, real model selection, real Simple/Mixed/DFAContentModel) is run on EVERY child sequence
of length <= 5 over the spec's alphabet plus one foreign name, and compared with (a) the executable Spec
`derivMatch` (the judge: implementation != Spec is a concrete violation, replay = spec + sequence) and (b)
the code-shaped Lean model incl. the selected model class and *indexFailingChild.

Document tier: generated documents with internal, external (served from memory by an entity resolver) and
split DTD subsets, standalone yes/no/absent, general entities, are parsed in 16 modes ({XercesDOMParser,
SAXParser} x {IGXMLScanner, DGXMLScanner} x namespaces off/on x validation always/never); 'no validity error'
must coincide with the executable Lean spec `validDoc` (incl. the standalone-declaration VCs), violations
must be errors (never fatal) unless the Spec says not well-formed (WFC Entity Declared), and the reported
attributes (defaults included) and expanded entity text must be the same in every mode and equal the Spec's."""
import json, re
import common

PID = "C07"
GEN = []
LEAN_MODULE = "XV.Props.C07"
THEOREMS = ["XV.Props.C07." + t for t in (
    "nullable_iff", "deriv_step", "deriv_iff", "simple_iff", "mixed_iff", "select_total",
    "followpos_sound", "followpos_complete", "dfa_iff", "checkContent_iff", "validate_iff_partial")]
RULE = ("content specs: EMPTY, ANY, (#PCDATA), (#PCDATA)*, all mixed lists over <= 3 names (with duplicates), ALL children "
        "particles of depth <= 2 over 2 names (3 names in thorough), a curated list of ambiguous / non-deterministic models, "
        "random particles of depth <= 4 over 1-4 names; for each spec EVERY child sequence of length <= 5 over its alphabet "
        "plus one foreign name is evaluated on implementation, model and Spec. evaluations = number of (spec, sequence) "
        "pairs plus document parses; distinct_nontrivial = number of distinct specs having both accepted and rejected sequences. "
        "Document tier: random DTDs (2-4 element types, all content-spec kinds, 0-3 attribute definitions of every modelled type and "
        "default kind incl. IDREF/IDREFS/ENTITY/ENTITIES defaults naming existing and missing IDs / unparsed entities, an element type that "
        "never occurs, 0-2 general entities) whose declarations are placed in the internal subset, in parameter entities (internal or external, "
        "served from memory) referenced in the internal subset, in an external subset served from memory (there also through PEs), or "
        "split; standalone yes/no/absent; instance sampled from the content models; 65% of the documents get ONE mutation out of "
        "36 kinds (instance, DTD, standalone clauses of XML 1.0 2.9, subset placement, entity references); each document is parsed in 16 modes "
        "({XercesDOMParser, SAXParser} x {IGXMLScanner, DGXMLScanner} x namespaces off/on x validation always/never) with parser objects reused")
ASSUMPTIONS = ["document tier: for invalid documents with class 'character-data-not-allowed' or 'unique-element-type-declaration' the delivered "
               "character data is not compared (a validating parse reports character data in element content as a validity error and does not "
               "deliver it; of duplicated element declarations the library lets the last one take effect)",
               "document tier: NOTATION attribute types are not generated; parameter entities always hold complete declarations; unparsed entities are "
               "declared in the internal subset; a PE declared in the external subset is not referenced there in standalone=\"yes\" documents "
               "(the library reports that reference itself as a 2.9 violation, a debatable reading)",
               "children passed to validateContent are element QNames (never PCDATA), as the DTD scanners do",
               "content spec trees have the shape DTDScanner builds (binary Sequence/Choice, unary ?,*,+); n-ary groups are nested binary",
               "names are compared as Nat ids (raw-name string comparison is XMLString::equals)"]
TRUSTED = ["XV.Spec.ContentModel (XML 1.0 section 3.2 content models as regular languages) as transcribed"]

MAXLEN = 5

# ------------------------------------------------------------------ spec generation (Polish notation)
def all_cm(depth, k, memo={}):
    key = (depth, k)
    if key in memo:
        return memo[key]
    leaves = [str(i) for i in range(k)]
    if depth == 0:
        res = leaves
    else:
        sub = all_cm(depth - 1, k)
        res = list(leaves)
        for a in sub:
            for op in "?*+":
                res.append(op + a)
            for b in sub:
                res.append("s" + a + b)
                res.append("c" + a + b)
    memo[key] = res
    return res

CURATED = [
    "cs01s02", "s*00", "s?00", "s*0*0", "s+0+0", "s?0?0", "cs01s0s12", "*c0s01", "+c0s01", "s*c01c01", "s*c010", "ss*c0101",
    "s*s010", "cs0*1s0+1", "c0s0?1", "?c00", "*?0", "+?0", "?*0", "?+0", "**0", "++0", "+*0", "*+0", "*+?0", "s0s0s00", "ss00s00",
    "c0c0c00", "cc00c00", "s?0s?0s?00", "s*0s*1s*01", "s*c01s01", "+s?0?1", "*s?0?1", "+s*0*1", "sc0s01c1s10", "cs0s12s0s13",
    "s+c0s01c01", "cs?01s?02", "c*0*1", "c+0*0", "cs00s0s00", "*cs01s10", "+s0?0", "s+s0?00", "ss0?0?0", "s?s0?01", "sc01c10",
    "c?0?1", "s*s0?1?0", "s+?0+?0", "*s*0*1", "sc0?1c0?1",
]

def rand_cm(r, depth, k):
    if depth == 0 or r.below(6) == 0:
        return str(r.below(k))
    op = r.below(10)
    if op < 3:
        return "s" + rand_cm(r, depth - 1, k) + rand_cm(r, depth - 1, k)
    if op < 6:
        return "c" + rand_cm(r, depth - 1, k) + rand_cm(r, depth - 1, k)
    return "?*+"[op % 3] + rand_cm(r, depth - 1, k)

def alphabet(spec):
    ds = [int(c) for c in spec if c.isdigit()]
    return (max(ds) + 1) if ds else 0

def gen_specs(ctx):
    r = ctx.rng
    th = ctx.thorough()
    specs = ["E", "A", "M", "N"]
    # mixed: every list of length 1..3 over 3 names (order and duplicates matter to buildChildList)
    for n in range(1, 4):
        def rec(pre):
            if len(pre) == n:
                specs.append("M" + "".join(map(str, pre))); return
            for x in range(3):
                rec(pre + [x])
        rec([])
    specs += ["M0123", "M3210", "M0120"]
    specs += ["K" + c for c in all_cm(2, 3 if th else 2)]
    specs += ["K" + c for c in CURATED]
    n = 50000 if th else 1100
    for _ in range(n):
        k = 1 + r.below(4)
        specs.append("K" + rand_cm(r, 2 + r.below(3), k))
    seen, out = set(), []
    for s in specs:
        if s not in seen:
            seen.add(s); out.append(s)
    return out

_seq_cache = {}
def dfs_seqs(nsyms, maxlen):
    key = (nsyms, maxlen)
    if key not in _seq_cache:
        out = []
        def go(pre, left):
            out.append(tuple(pre))
            if left:
                for s in range(nsyms):
                    pre.append(s); go(pre, left - 1); pre.pop()
        go([], maxlen)
        _seq_cache[key] = out
    return _seq_cache[key]

def ids(seq):
    return "".join(map(str, seq)) if seq else "-"

def case_line(spec):
    k = alphabet(spec)
    nsyms = min(k + 1, 5)
    return "A %s %d %d" % (spec, nsyms, MAXLEN), nsyms

# ------------------------------------------------------------------ DTD text of a spec (for reports and the document tier)
def cm_text(p, pos=0):
    c = p[pos]
    if c.isdigit():
        return "e" + c, pos + 1
    if c in "sc":
        a, q = cm_text(p, pos + 1)
        b, q = cm_text(p, q)
        return "(%s%s%s)" % (a, "," if c == "s" else "|", b), q
    a, q = cm_text(p, pos + 1)
    if a[-1] in "?*+":          # (e0?)*  : a repetition of a repetition needs its own group
        a = "(" + a + ")"
    return a + c, q

def spec_text(spec):
    """contentspec text of a spec token; parses (DTDScanner) to exactly the tree the harness builds"""
    if spec == "E": return "EMPTY"
    if spec == "A": return "ANY"
    if spec == "M": return "(#PCDATA)"
    if spec == "N": return "(#PCDATA)*"
    if spec[0] == "M":
        return "(#PCDATA|" + "|".join("e" + c for c in spec[1:]) + ")*"
    t, _ = cm_text(spec[1:])
    return t if t.startswith("(") else "(" + t + ")"

# ------------------------------------------------------------------ running
def run_three(lines, want_model=True):
    """model observation, implementation observation, Spec verdict strings for the same case lines"""
    import threading
    data = ("\n".join(lines) + "\n").encode()
    res = {}
    def t_model():
        res["m"] = common.run_driver(["cm"], input=data).decode(errors="replace").split("\n") if want_model else None
    def t_spec():
        res["s"] = common.run_driver(["cmspec"], input=data).decode(errors="replace").split("\n")
    common.build_harness("hx_cm")
    ths = [threading.Thread(target=t_model), threading.Thread(target=t_spec)]
    for t in ths: t.start()
    p = common.run_harness("hx_cm", input=data, timeout=3000)
    for t in ths: t.join()
    if "s" not in res or (want_model and res.get("m") is None):
        raise common.InfraError("xvdriver cm/cmspec failed")
    i = p.stdout.decode(errors="replace").split("\n")
    if i and i[-1] == "": i.pop()
    err = p.stderr.decode(errors="replace")
    if p.returncode != 0 and len(i) < len(lines):
        i.append("CRASH rc=%d %s" % (p.returncode, common.sanitizer_summary(err)))
    while len(i) < len(lines):
        i.append("NO-OUTPUT")
    return res.get("m"), i, res["s"], err

def judge_line(spec, nsyms, impl, sp):
    """Spec-judged comparison of one enumeration line.  Returns list of (category, sequence, impl char, spec char)."""
    f = impl.split()
    if len(f) != 2 or len(f[1]) != len(sp):
        return [("no-verdict", (), impl[:60], "")]
    route, verd = f
    bad = []
    seqs = None
    for k in range(len(sp)):
        a = verd[k] == "."
        if verd[k] == "x":
            cat = "exception"
        elif a == (sp[k] == "1"):
            continue
        else:
            cat = "accepts-invalid" if a else "rejects-valid"
        if seqs is None:
            seqs = dfs_seqs(nsyms, MAXLEN)
        bad.append((route + ":" + cat, seqs[k], verd[k], sp[k]))
    return bad

def add_concrete(ctx, spec, bad, origin):
    by = {}
    for cat, seq, ic, sc in bad:
        if cat not in by or len(seq) < len(by[cat][0]):
            by[cat] = (seq, ic, sc)
    for cat, (seq, ic, sc) in by.items():
        route = cat.split(":")[0]
        ctx.violations.append({
            "key": "cm:" + cat, "concrete": True,
            "what": "content model %s (route %s): child sequence [%s] %s by DTDValidator::checkContent but Spec derivMatch says %s"
                    % (spec_text(spec), route, " ".join("e%d" % s for s in seq),
                       "raises an exception" if ic == "x" else ("accepted" if ic == "." else "rejected (index %s)" % ic),
                       "member" if sc == "1" else "not a member"),
            "replay": {"tier": "cm", "spec": spec, "dtd": spec_text(spec), "children": ids(seq), "origin": origin}})

def correspondence(ctx):
    specs = gen_specs(ctx)
    lines, ns = [], []
    for s in specs:
        l, n = case_line(s)
        lines.append(l); ns.append(n)
    m, i, sp, err = run_three(lines)
    evals = 0; nontrivial = 0; routes = {}; nbad = 0; ndiff = 0
    first_diff = None
    accepts = 0
    for k, spec in enumerate(specs):
        evals += len(sp[k])
        if "1" in sp[k] and "0" in sp[k]:
            nontrivial += 1
        accepts += sp[k].count("1")
        rt = i[k].split()[0] if i[k] else "?"
        routes[rt] = routes.get(rt, 0) + 1
        bad = judge_line(spec, ns[k], i[k], sp[k])
        if bad:
            nbad += len(bad)
            if nbad < 2000 or len(bad) < 50:
                add_concrete(ctx, spec, bad, "correspondence")
        if m[k] != i[k]:
            ndiff += 1
            if first_diff is None:
                first_diff = k
    ctx.stats["evaluations"] = evals
    ctx.stats["distinct_nontrivial"] = nontrivial
    ctx.stats["specs"] = len(specs)
    ctx.stats["exhaustive"] = True
    ctx.stats["accepted_sequences"] = accepts
    ctx.stats["routes"] = routes
    ctx.stats["spec_contradictions"] = nbad
    ctx.stats["model_disagreements"] = ndiff
    for k in (0, 4, 40, 200, len(specs) - 1):
        if k < len(specs):
            ctx.samples.append({"case": lines[k], "dtd": spec_text(specs[k]), "model": m[k][:80], "impl": i[k][:80], "spec": sp[k][:72]})
    if "runtime error" in err or "AddressSanitizer" in err:
        ctx.violations.append({"key": "cm-sanitizer", "concrete": True,
                               "what": "sanitizer report in content-model harness: " + common.sanitizer_summary(err),
                               "replay": {"stderr": err[-2000:]}})
    if ndiff and not any(v.get("concrete") for v in ctx.violations):
        k = first_diff
        # locate the first differing sequence
        seq = ""
        mf, jf = m[k].split(), i[k].split()
        if len(mf) == 2 and len(jf) == 2 and len(mf[1]) == len(jf[1]):
            for q in range(len(mf[1])):
                if mf[1][q] != jf[1][q]:
                    seq = ids(dfs_seqs(ns[k], MAXLEN)[q]); break
        ctx.violations.append({"key": "corr:cm", "concrete": False,
            "what": "correspondence cm (code-shaped model of checkContent/Simple/Mixed/DFAContentModel vs the library) no longer checks "
                    "(%d specs), first: %s [%s] children %s model=%s impl=%s; the implementation still agrees with the Spec on every evaluated sequence"
                    % (ndiff, specs[k], spec_text(specs[k]), seq, m[k][:60], i[k][:60]),
            "replay": {"tier": "cm", "correspondence": "cm", "spec": specs[k], "children": seq or "-"}})
    doc_correspondence(ctx)

_search_cache = {}
def search(ctx, broken):
    """A theorem / tie broke: Spec-judged exploration of the implementation, without the model."""
    if "done" in _search_cache:
        return None
    _search_cache["done"] = True
    specs = gen_specs(ctx)
    if not ctx.thorough():
        r = ctx.rng
        for _ in range(4000):
            specs.append("K" + rand_cm(r, 2 + r.below(3), 1 + r.below(4)))
    lines, ns = [], []
    for s in specs:
        l, n = case_line(s); lines.append(l); ns.append(n)
    _, i, sp, _ = run_three(lines, want_model=False)
    before = len(ctx.violations)
    for k, spec in enumerate(specs):
        bad = judge_line(spec, ns[k], i[k], sp[k])
        if bad:
            add_concrete(ctx, spec, bad, "search after broken %s %s" % (broken["kind"], broken["name"]))
            break
    if len(ctx.violations) > before:
        return ctx.violations.pop()
    return None

def replay(ctx, path):
    r = json.load(open(path))["replay"]
    if r.get("tier") == "doc":
        return doc_replay(ctx, r)
    if "spec" not in r:
        print(json.dumps(r)); return 0
    line = "V %s %s" % (r["spec"], r.get("children", "-") or "-")
    m, i, sp, _ = run_three([line])
    print("case :", line, "  DTD:", spec_text(r["spec"]))
    print("model:", m[0]); print("impl :", i[0]); print("spec :", "member" if sp[0] == "1" else "not a member")
    return 0

# ------------------------------------------------------------------ document tier
# abstract documents (see lean/XV/Spec/DtdValid.lean, lean/XV/Driver/DtdValid.lean); the Spec `validDoc` is the judge.
# doc = {doctype, standalone 0 absent|1 "no"|2 "yes", hasExt, decls:[{name, spec, ext, atts:[(aname, type, dflt, ext)]}],
#        ents:[(name, ext)], root: elem};  elem = {name, text, ws, refs:[ent], attrs:[(aname, [tok], padded)], children}
NONNAME = [90, 91]          # tokens that are Nmtokens but not Names ("9z90")
MODES = ["%s-%s-ns%d-v%d" % (p, sc, ns, v) for p in ("dom", "sax") for sc in ("ig", "dg") for ns in (0, 1) for v in (1, 0)]

def tok_str(t):
    return "v%d" % t if t < 90 else "9z%d" % t

def val_str(v):
    return ".".join(map(str, v)) if v else "-"

def type_tok(t):
    return "G:" + val_str(t[1]) if isinstance(t, tuple) else t

def dflt_tok(d):
    return "%s:%s" % (d[0], val_str(d[1])) if isinstance(d, tuple) else d

def type_text(t):
    if isinstance(t, tuple):
        return "(" + "|".join(tok_str(x) for x in t[1]) + ")"
    return {"C": "CDATA", "I": "ID", "R": "IDREF", "RS": "IDREFS", "N": "NMTOKEN", "NS": "NMTOKENS", "Y": "ENTITY", "YS": "ENTITIES"}[t]

def dflt_text(d):
    if isinstance(d, tuple):
        q = '"%s"' % " ".join(tok_str(x) for x in d[1])
        return "#FIXED " + q if d[0] == "FIX" else q
    return "#REQUIRED" if d == "REQ" else "#IMPLIED"

def eff_atts(decls, name):
    """binding attribute definitions: internal subset first, first definition of a name wins"""
    allatts = [a for d in decls if d["name"] == name for a in d["atts"]]
    out, seen = [], set()
    for a in [x for x in allatts if x[3] != 1] + [x for x in allatts if x[3] == 1]:
        if a[0] not in seen:
            seen.add(a[0]); out.append(a)
    return out

def find_decl(decls, name):
    for d in decls:
        if d["name"] == name and d["ext"] != 1:
            return d
    for d in decls:
        if d["name"] == name:
            return d
    return None

def find_ent(ents, n):
    for e in ents:
        if e[0] == n and e[1] != 1:
            return e
    for e in ents:
        if e[0] == n:
            return e
    return None

def b01(x):
    return "1" if x else "0"

def org(x):
    """origin of a declaration: 0 internal subset, 1 external subset, 2 parameter entity referenced in the internal
    subset (processed in internal-subset order, but an EXTERNAL markup declaration for XML 1.0 2.9)"""
    return str(int(x))

def abstract_line(doc):
    w = ["X", str(doc["doctype"]), str(doc["standalone"]), b01(doc["hasExt"]), str(len(doc["decls"]))]
    for d in doc["decls"]:
        w += ["EL", str(d["name"]), d["spec"], org(d["ext"]), str(len(d["atts"]))]
        for a in d["atts"]:
            w += [str(a[0]), type_tok(a[1]), dflt_tok(a[2]), org(a[3])]
    w.append(str(len(doc["ents"])))
    for e in doc["ents"]:
        w += [str(e[0]), org(e[1])]
    w.append(val_str(doc.get("unparsed", [])))
    def el(e):
        w.extend(["E", str(e["name"]), b01(e["text"]), b01(e["ws"]), val_str(e["refs"]), str(len(e["attrs"]))])
        for a in e["attrs"]:
            w.extend([str(a[0]), val_str(a[1]), b01(a[2])])
        w.append(str(len(e["children"])))
        for c in e["children"]:
            el(c)
    el(doc["root"])
    return " ".join(w)

def render(doc, r):
    """(document text, external subset text or None) of an abstract document; well-formed by construction
    except for the entity-declared WFC, which the Spec judges"""
    internal, external, extra = [], [], {}
    cnt = [0]
    def put(origin, text):
        if origin == 1:
            # through an internal parameter entity of the external subset; not in standalone="yes" documents, where the
            # library reports the reference to the externally declared PE itself as a 2.9 violation (debatable reading)
            if doc["standalone"] != 2 and r.chance(1, 4):
                cnt[0] += 1
                external.append("<!ENTITY %% q%d '%s'>\n%%q%d;" % (cnt[0], text, cnt[0]))
            else:
                external.append(text)
        elif origin == 2:               # parameter entity (internal or external) referenced in the internal subset
            cnt[0] += 1
            if (doc.get("pe_kind") or ("int" if r.chance(2, 3) else "ext")) == "int":
                internal.append("<!ENTITY %% p%d '%s'>\n%%p%d;" % (cnt[0], text, cnt[0]))
            else:
                extra["pe%d.ent" % cnt[0]] = ('<?xml version="1.0" encoding="UTF-8"?>' if r.chance(1, 4) else "") + text + "\n"
                internal.append('<!ENTITY %% p%d SYSTEM "pe%d.ent">\n%%p%d;' % (cnt[0], cnt[0], cnt[0]))
        else:
            internal.append(text)
    if doc.get("unparsed"):
        internal.append('<!NOTATION nt SYSTEM "nt">')
        for u in doc["unparsed"]:
            internal.append('<!ENTITY %s SYSTEM "u%d" NDATA nt>' % (tok_str(u), u))
    for d in doc["decls"]:
        put(int(d["ext"]), "<!ELEMENT e%d %s>" % (d["name"], spec_text(d["spec"])))
        for a in d["atts"]:
            put(int(a[3]), "<!ATTLIST e%d a%d %s %s>" % (d["name"], a[0], type_text(a[1]), dflt_text(a[2])))
    for e in doc["ents"]:
        put(int(e[1]), '<!ENTITY n%d "t">' % e[0])
    decl = "" if doc["standalone"] == 0 else '<?xml version="1.0" standalone="%s"?>\n' % ("yes" if doc["standalone"] == 2 else "no")
    out = [decl + "<!DOCTYPE e%d%s [" % (doc["doctype"], ' SYSTEM "ext.dtd"' if doc["hasExt"] else "")]
    out += internal
    out.append("]>")
    def el(e):
        s = "<e%d" % e["name"]
        for a in e["attrs"]:
            v = " ".join(tok_str(x) for x in a[1])
            if a[2]:
                v = " " + v.replace(" ", "  ") + " "
            s += ' a%d="%s"' % (a[0], v)
        if not e["text"] and not e["children"] and not e["ws"] and not e["refs"]:
            return s + ("/>" if r.chance(2, 3) else "></e%d>" % e["name"])
        s += ">"
        ws = "\n " if e["ws"] else ""
        if e["text"]:
            s += "t"
        refs = list(e["refs"])
        if not e["children"]:
            s += ws + "".join("&n%d;" % x for x in refs)
        for k, c in enumerate(e["children"]):
            s += ws + el(c)
            if refs and k == 0:
                s += "".join("&n%d;" % x for x in refs)
        return s + ("\n" if e["ws"] and e["children"] else "") + "</e%d>" % e["name"]
    out.append(el(doc["root"]))
    ext = None
    if doc["hasExt"]:
        ext = ('<?xml version="1.0" encoding="UTF-8"?>\n' if r.chance(1, 3) else "") + "\n".join(external) + ("\n" if external else "")
    return "\n".join(out), ext, extra

def sample_cm(r, p, pos, minimal):
    """a word of the particle in Polish notation starting at pos; returns (word, next pos)"""
    c = p[pos]
    if c.isdigit():
        return [int(c)], pos + 1
    if c in "sc":
        a, q = sample_cm(r, p, pos + 1, minimal)
        b, q2 = sample_cm(r, p, q, minimal)
        if c == "s":
            return a + b, q2
        if minimal:
            return (a if len(a) <= len(b) else b), q2
        return (a if r.chance(1, 2) else b), q2
    a, q = sample_cm(r, p, pos + 1, minimal)
    if c == "?":
        return ([] if minimal or r.chance(1, 2) else a), q
    reps = (0 if c == "*" else 1) if minimal else (r.below(3) if c == "*" else 1 + r.below(2))
    w = []
    for k in range(reps):
        w += a if k == 0 else sample_cm(r, p, pos + 1, minimal)[0]
    return w, q

def gen_doc(r):
    nel = 2 + r.below(3)
    extmode = r.below(6)            # 0: internal subset only, 1: everything external, 2: split, 3/4: split incl. PEs, 5: all via PEs
    def ext():
        if extmode == 0: return 0
        if extmode == 1: return 1
        if extmode == 2: return r.below(2)
        if extmode == 5: return 2
        return r.choice([0, 1, 2, 2])
    decls = []
    for n in range(nel):
        k = r.below(20)
        if k < 3: spec = "E"
        elif k < 5: spec = "A"
        elif k < 6: spec = r.choice(["M", "N"])
        elif k < 10:
            names = [x for x in range(nel) if r.chance(1, 2)] or [r.below(nel)]
            if r.chance(1, 2): names.reverse()
            spec = "M" + "".join(map(str, names))
        elif r.chance(1, 4) or n == nel - 1:
            spec = "K" + rand_cm(r, 1 + r.below(3), nel)          # may be recursive
        else:
            # children only of later element types: every instance terminates
            cm = rand_cm(r, 1 + r.below(3), nel - n - 1)
            spec = "K" + "".join(str(int(c) + n + 1) if c.isdigit() else c for c in cm)
        atts = []
        for a in range(r.below(4)):
            t = r.choice(["C", "C", "I", "R", "R", "RS", "N", "NS", "G", "Y", "YS"])
            if t == "I" and any(x[1] == "I" for x in atts):
                t = "C"
            if t == "G":
                vals = [10 + x for x in range(4) if r.chance(1, 2)] or [10]
                if r.chance(1, 4): vals.append(90)
                t = ("G", vals)
            if t == "I":
                d = r.choice(["REQ", "IMP"])
            else:
                k = r.below(4)
                if k == 0: d = "REQ" if t not in ("R", "RS") or r.chance(1, 3) else "IMP"
                elif k == 1: d = "IMP"
                else:
                    if isinstance(t, tuple): v = [r.choice(t[1])]
                    elif t == "C": v = [r.below(8) for _ in range(r.below(3))]
                    elif t == "R": v = [r.choice([20, 21, 78])]          # 78/79 are never IDs ("ghost")
                    elif t == "RS": v = r.choice([[20], [20, 21], [78], [20, 79]])
                    elif t == "Y": v = [r.choice([30, 30, 32])]            # 30/31 declared unparsed entities, 32 not
                    elif t == "YS": v = r.choice([[30], [30, 31], [32], [31, 32]])
                    elif t == "N": v = [r.choice([1, 2, 90])]
                    else: v = [r.choice([1, 2, 90]) for _ in range(1 + r.below(2))]
                    d = "IMP" if v is None else (("FIX" if k == 2 else "DEF"), v)
            atts.append((a, t, d, ext()))
        decls.append({"name": n, "spec": spec, "atts": atts, "ext": ext()})
    if r.chance(1, 3):
        # an element type that never occurs in the instance: its defaults are never applied
        t = r.choice(["R", "R", "RS", "Y", "N"])
        v = {"R": [[78], [20]], "RS": [[20, 79], [78]], "Y": [[32], [30]], "N": [[90]]}[t]
        decls.append({"name": nel, "spec": r.choice(["E", "A", "M"]), "ext": ext(),
                      "atts": [(0, t, (r.choice(["DEF", "FIX"]), r.choice(v)), ext())]})
    ents = [(k, ext()) for k in range(r.below(3))]
    standalone = r.choice([0, 1, 2, 2])
    state = {"next_id": 20, "ids": [], "refs": []}
    def gen_elem(name, depth):
        d = find_decl(decls, name)
        e = {"name": name, "text": False, "ws": False, "refs": [], "attrs": [], "children": []}
        if d is None:
            return e
        sp = d["spec"]
        if sp == "A":
            kids = [r.below(nel) for _ in range(r.below(3))] if depth < 3 else []
            e["text"] = r.chance(1, 3)
        elif sp[0] in "MN":
            names = [int(c) for c in sp[1:]]
            kids = [r.choice(names) for _ in range(r.below(4))] if names and depth < 3 else []
            e["text"] = r.chance(1, 2)
        elif sp == "E":
            kids = []
        else:
            kids, _ = sample_cm(r, sp[1:], 0, depth >= 2)
            if depth >= 6:
                kids = []
        if sp != "E":
            e["ws"] = r.chance(1, 3)
        if sp[0] in "AMN" and ents and r.chance(1, 3):
            e["refs"] = [r.choice(ents)[0] for _ in range(1 + r.below(2))]
        e["children"] = [gen_elem(k, depth + 1) for k in kids[:6 if depth >= 4 else 12]]
        for (an, t, df, _x) in eff_atts(decls, name):
            if df == "REQ": want = True
            elif df == "IMP": want = r.chance(1, 2)
            elif df[0] == "DEF": want = r.chance(2, 5)
            else: want = r.chance(1, 3)
            if isinstance(df, tuple) and t in ("R", "RS", "Y", "YS") and any(x in (78, 79, 32) for x in df[1]):
                want = r.chance(4, 5)       # a default naming a missing ID / entity is fine as long as it is never applied
            if not want:
                continue
            if isinstance(df, tuple) and df[0] == "FIX":
                v = list(df[1])
            elif isinstance(t, tuple): v = [r.choice(t[1])]
            elif t == "C": v = [r.choice([0, 1, 2, 3, 90]) for _ in range(r.below(3))]
            elif t == "I":
                v = [state["next_id"]]; state["next_id"] += 1; state["ids"].append(v[0])
            elif t in ("R", "RS"):
                v = [None] * (1 if t == "R" else 1 + r.below(2))
                state["refs"].append((v, e, an, df == "REQ"))
            elif t == "N": v = [r.choice([1, 2, 3, 90])]
            elif t == "Y": v = [r.choice([30, 31])]
            elif t == "YS": v = [r.choice([30, 31]) for _ in range(1 + r.below(2))]
            else: v = [r.choice([1, 2, 3, 90]) for _ in range(1 + r.below(3))]
            padded = bool(v) and t != "C" and r.chance(1, 4)
            e["attrs"].append((an, v, padded))
        return e
    root = gen_elem(0, 0)
    for (v, e, an, required) in state["refs"]:
        if not state["ids"] and not required:
            e["attrs"] = [a for a in e["attrs"] if a[0] != an]      # nothing to refer to
            continue
        for k in range(len(v)):
            v[k] = r.choice(state["ids"]) if state["ids"] else 77      # 77: unresolved (the Spec judges)
    doc = {"doctype": 0, "standalone": standalone, "hasExt": False, "decls": decls, "ents": ents, "root": root,
           "unparsed": [30, 31] if r.chance(4, 5) else [30]}
    if r.chance(4, 5):
        repair_refs(doc, r)
    if standalone == 2 and r.chance(3, 4):
        make_standalone_ok(doc)
    return doc, nel

def repair_refs(doc, r):
    """make the base document valid w.r.t. IDREF / ENTITY defaults and required IDREFs: a default that names a missing
    ID / undeclared entity stays in the DTD but is never applied (the attribute is specified, or the default is dropped
    when it cannot be); what is left dangling is judged by the Spec"""
    decls = doc["decls"]
    es = all_elems(doc["root"], [])
    ids = []
    for x in es:
        at = {a[0]: a for a in eff_atts(decls, x["name"])}
        for (n, v, _p) in x["attrs"]:
            if n in at and at[n][1] == "I":
                ids += v
    unp = doc.get("unparsed", [])
    def ok(t, v):
        return all(x in ids for x in v) if t in ("R", "RS") else all(x in unp for x in v)
    for d in decls:
        for j, a in enumerate(d["atts"]):
            (an, t, df, o) = a
            if t not in ("R", "RS", "Y", "YS"):
                continue
            good = ids if t in ("R", "RS") else unp
            for x in es:
                if x["name"] != d["name"] or eff_atts(decls, x["name"]).count(a) == 0:
                    continue
                have = [k for k, y in enumerate(x["attrs"]) if y[0] == an]
                if have:
                    k = have[0]
                    if not ok(t, x["attrs"][k][1]) and not (isinstance(df, tuple) and df[0] == "FIX"):
                        if good:
                            x["attrs"][k] = (an, [r.choice(good)], x["attrs"][k][2])
                        elif df != "REQ":
                            del x["attrs"][k]
                elif isinstance(df, tuple) and not ok(t, df[1]):
                    if good and df[0] == "DEF":
                        x["attrs"].append((an, [r.choice(good)], False))        # the dangling default is never applied
                    else:
                        d["atts"][j] = a = (an, t, "IMP", o); df = "IMP"

def make_standalone_ok(doc):
    """repair a document so that standalone="yes" is truthful (XML 1.0 2.9); mutations then break one clause"""
    decls = doc["decls"]
    for e in all_elems(doc["root"], []):
        have = {a[0] for a in e["attrs"]}
        at = eff_atts(decls, e["name"])
        for (an, t, df, x) in at:
            if x and isinstance(df, tuple) and an not in have:
                e["attrs"].append((an, list(df[1]), False))
        byname = {a[0]: a for a in at}
        e["attrs"] = [(n, v, p and not (n in byname and byname[n][3] and byname[n][1] != "C")) for (n, v, p) in e["attrs"]]
        d = find_decl(decls, e["name"])
        if d is not None and d["ext"] and d["spec"][0] == "K":
            e["ws"] = False
        e["refs"] = [x for x in e["refs"] if (find_ent(doc["ents"], x) or (0, 1))[1] == 0]

def all_elems(e, acc):
    acc.append(e)
    for c in e["children"]:
        all_elems(c, acc)
    return acc

MUTATIONS = ["root", "child-del", "child-ins", "child-repl", "child-swap", "text", "attr-del", "attr-undeclared", "attr-value",
             "id-dup", "idref-break", "id-nonname", "fixed-change", "enum-bad", "multi-token", "empty-value",
             "dtd-dup-elem", "dtd-second-id", "dtd-id-default", "dtd-enum-default", "dtd-dup-token", "dtd-mixed-dup",
             "dtd-undeclare", "dtd-idref-default", "dtd-content", "dtd-required",
             "sa-omit-default", "sa-omit-default", "sa-omit-fixed", "sa-omit-fixed", "sa-pad", "sa-ws", "sa-ws", "sa-ws", "sa-extref", "sa-flip", "ext-flip",
             "ent-undeclared", "ent-ref", "ws", "idref-default-ghost", "idref-default-ghost", "entity-bad"]

def mutate(doc, nel, r):
    """one single-constraint mutation (may be a no-op or leave the document valid: the Spec judges)"""
    kind = r.choice(MUTATIONS)
    if kind.startswith("sa-") and kind != "sa-flip" and r.chance(5, 6):
        # a truthful standalone="yes" document, then exactly one clause of 2.9 is broken
        doc["standalone"] = 2
        make_standalone_ok(doc)
    es = all_elems(doc["root"], [])
    e = r.choice(es)
    decls = doc["decls"]
    def typed(pred):
        c = []
        for x in es:
            at = {a[0]: a for a in eff_atts(decls, x["name"])}
            for k, a in enumerate(x["attrs"]):
                if a[0] in at and pred(at[a[0]]):
                    c.append((x, k, at[a[0]]))
        return c
    def setval(x, k, v):
        x["attrs"][k] = (x["attrs"][k][0], v, x["attrs"][k][2] and bool(v))
    if kind == "root":
        doc["doctype"] = r.below(nel + 1)
    elif kind == "child-del" and e["children"]:
        del e["children"][r.below(len(e["children"]))]
    elif kind == "child-ins":
        e["children"].insert(r.below(len(e["children"]) + 1), {"name": r.below(nel + 1), "text": False, "ws": False, "refs": [], "attrs": [], "children": []})
    elif kind == "child-repl" and e["children"]:
        e["children"][r.below(len(e["children"]))]["name"] = r.below(nel + 1)
    elif kind == "child-swap" and len(e["children"]) > 1:
        k = r.below(len(e["children"]) - 1)
        e["children"][k], e["children"][k + 1] = e["children"][k + 1], e["children"][k]
    elif kind == "text":
        e["text"] = not e["text"]
    elif kind == "ws":
        e["ws"] = not e["ws"]
    elif kind == "attr-del" and e["attrs"]:
        del e["attrs"][r.below(len(e["attrs"]))]
    elif kind == "attr-undeclared":
        used = {a[0] for a in e["attrs"]}
        free = [k for k in range(6) if k not in used]
        e["attrs"].append((r.choice(free), [r.below(4)], r.chance(1, 4)))
    elif kind == "attr-value" and e["attrs"]:
        k = r.below(len(e["attrs"]))
        setval(e, k, [r.choice([0, 1, 2, 10, 11, 20, 21, 90]) for _ in range(r.below(3))])
    elif kind == "id-dup":
        c = typed(lambda a: a[1] == "I")
        if len(c) > 1:
            (x, k, _), (y, j, _) = c[0], c[-1]
            setval(y, j, list(x["attrs"][k][1]))
    elif kind == "idref-break":
        c = typed(lambda a: a[1] in ("R", "RS"))
        if c:
            x, k, _ = r.choice(c)
            v = list(x["attrs"][k][1])
            if v: v[r.below(len(v))] = r.choice([78, 79, 90])
            setval(x, k, v)
    elif kind == "id-nonname":
        c = typed(lambda a: a[1] == "I")
        if c:
            x, k, _ = r.choice(c)
            setval(x, k, [r.choice(NONNAME)])
    elif kind == "fixed-change":
        c = typed(lambda a: isinstance(a[2], tuple) and a[2][0] == "FIX")
        if c:
            x, k, a = r.choice(c)
            if r.chance(1, 4) and a[1] == "C":
                x["attrs"][k] = (x["attrs"][k][0], x["attrs"][k][1], True)     # " v " is not the fixed CDATA value "v"
            else:
                setval(x, k, list(a[2][1]) + [1] if r.chance(1, 2) else [5])
    elif kind == "enum-bad":
        c = typed(lambda a: isinstance(a[1], tuple))
        if c:
            x, k, a = r.choice(c)
            setval(x, k, [r.choice([14, 15, 1])])
    elif kind == "multi-token":
        c = typed(lambda a: a[1] in ("I", "R", "N", "Y") or isinstance(a[1], tuple))
        if c:
            x, k, a = r.choice(c)
            setval(x, k, list(x["attrs"][k][1]) * 2)
    elif kind == "empty-value":
        c = typed(lambda a: a[1] != "C")
        if c:
            x, k, a = r.choice(c)
            setval(x, k, [])
    elif kind == "dtd-dup-elem":
        d = r.choice(decls)
        decls.insert(r.below(len(decls) + 1), {"name": d["name"], "spec": r.choice(["A", "E", d["spec"]]), "ext": r.chance(1, 2) and doc_has_ext(doc),
                                               "atts": [(5, "C", ("DEF", [3]), False)] if r.chance(1, 2) else []})
    elif kind == "dtd-second-id":
        d = r.choice(decls)
        d["atts"].append((4, "I", "IMP", False))
        if r.chance(1, 2) and not any(a[1] == "I" for a in d["atts"][:-1]):
            d["atts"].append((5, "I", "IMP", False))
    elif kind == "dtd-id-default":
        d = r.choice(decls)
        d["atts"].append((4, "I", (r.choice(["DEF", "FIX"]), [60 + r.below(5)]), False))
    elif kind == "dtd-enum-default":
        d = r.choice(decls)
        d["atts"].append((4, ("G", [10, 11]), (r.choice(["DEF", "FIX"]), r.choice([[10], [12], [90], [10, 11], [11, 11], [10, 12]])), False))
    elif kind == "dtd-dup-token":
        d = r.choice(decls)
        d["atts"].append((4, ("G", [10, 11, r.choice([10, 12])]), "IMP", False))
    elif kind == "dtd-mixed-dup":
        d = r.choice(decls)
        d["spec"] = "M" + "".join(str(r.below(nel)) for _ in range(2 + r.below(2)))
    elif kind == "dtd-undeclare" and len(decls) > 1:
        del decls[1 + r.below(len(decls) - 1)]
    elif kind == "dtd-idref-default":
        d = r.choice(decls)
        d["atts"].append((4, r.choice(["R", "RS"]), ("DEF", [r.choice([20, 21, 78, 90])]), False))
    elif kind == "dtd-content":
        d = r.choice(decls)
        d["spec"] = r.choice(["E", "A", "M", "K" + rand_cm(r, 2, nel)])
    elif kind == "dtd-required":
        d = r.choice(decls)
        d["atts"].append((4, r.choice(["C", "N"]), "REQ", r.chance(1, 2) and doc_has_ext(doc)))
    elif kind in ("sa-omit-default", "sa-omit-fixed"):
        # an externally declared default / #FIXED value that is needed (2.9, first clause)
        want = "FIX" if kind == "sa-omit-fixed" else "DEF"
        c = typed(lambda a: a[3] and isinstance(a[2], tuple) and a[2][0] == want)
        if c:
            x, k, _ = r.choice(c)
            del x["attrs"][k]
        else:
            d = find_decl(decls, e["name"])
            if d is not None and not any(a[0] in (4,) for a in e["attrs"]):
                t = r.choice(["C", "N", ("G", [10, 11])])
                d["atts"].append((4, t, (want, [10]), 1 + r.below(2)))
    elif kind == "sa-pad":
        c = typed(lambda a: a[1] != "C")
        if c:
            x, k, a = r.choice(c)
            if x["attrs"][k][1]:
                x["attrs"][k] = (x["attrs"][k][0], x["attrs"][k][1], True)
    elif kind == "sa-ws":
        c = [x for x in es if (find_decl(decls, x["name"]) or {"spec": "E"})["spec"][0] == "K"]
        c2 = [x for x in c if find_decl(decls, x["name"])["ext"]]
        if c2 and r.chance(3, 4):
            x = r.choice(c2); x["ws"] = True
            if r.chance(1, 2):
                find_decl(decls, x["name"])["ext"] = 2          # delivered by a parameter entity referenced in the internal subset
        elif c:
            x = r.choice(c); x["ws"] = True
            if r.chance(1, 2):
                find_decl(decls, x["name"])["ext"] = 1 + r.below(2)
    elif kind == "sa-extref":
        ex = [n for n in doc["ents"] if n[1]]
        c = [x for x in es if (find_decl(decls, x["name"]) or {"spec": "E"})["spec"][0] in "AMN"]
        if c:
            if not ex:
                o = 1 + r.below(2)
                doc["ents"].append((7, o)); ex = [(7, o)]
            r.choice(c)["refs"].append(r.choice(ex)[0])
    elif kind == "sa-flip":
        doc["standalone"] = 2 if doc["standalone"] != 2 else r.choice([0, 1])
    elif kind == "ext-flip":
        k = r.below(3)
        if k == 0:
            d = r.choice(decls); d["ext"] = (int(d["ext"]) + 1 + r.below(2)) % 3
        elif k == 1:
            ds = [d for d in decls if d["atts"]]
            if ds:
                d = r.choice(ds); j = r.below(len(d["atts"])); a = d["atts"][j]
                d["atts"][j] = (a[0], a[1], a[2], (int(a[3]) + 1 + r.below(2)) % 3)
        elif doc["ents"]:
            j = r.below(len(doc["ents"])); doc["ents"][j] = (doc["ents"][j][0], (int(doc["ents"][j][1]) + 1 + r.below(2)) % 3)
    elif kind == "idref-default-ghost":
        # IDREF/IDREFS default (or #FIXED) naming an ID that does not exist: valid iff the default is never applied
        d = r.choice(decls)
        t = r.choice(["R", "RS"])
        d["atts"].append((4, t, (r.choice(["DEF", "DEF", "FIX"]), [78] if t == "R" else r.choice([[78], [20, 79]])), r.below(3) if doc_has_ext(doc) else 0))
        ids = [v for x in es for (n, vv, _p) in x["attrs"] for v in vv
               if n in {a[0] for a in eff_atts(decls, x["name"]) if a[1] == "I"}]
        for x in es:
            if x["name"] == d["name"] and r.chance(4, 5) and ids and not any(a[0] == 4 for a in x["attrs"]):
                x["attrs"].append((4, [r.choice(ids)], False))
    elif kind == "entity-bad":
        c = typed(lambda a: a[1] in ("Y", "YS"))
        if c:
            x, k, _ = r.choice(c)
            setval(x, k, [r.choice([32, 90])])
    elif kind == "ent-undeclared":
        e["refs"].append(9)
    elif kind == "ent-ref" and doc["ents"]:
        e["refs"].append(r.choice(doc["ents"])[0])
    return kind

def doc_has_ext(doc):
    return any(d["ext"] == 1 or any(a[3] == 1 for a in d["atts"]) for d in doc["decls"]) or any(e[1] == 1 for e in doc["ents"])

def finish_doc(doc, r):
    """derive hasExt (sometimes an empty external subset)"""
    doc["hasExt"] = doc_has_ext(doc) or r.chance(1, 8)

def doc_flags(doc):
    """features used only to give violations of one known cause one stable key"""
    fl = set()
    for e in all_elems(doc["root"], []):
        at = {a[0]: a for a in eff_atts(doc["decls"], e["name"])}
        for (n, v, padded) in e["attrs"]:
            if padded and n in at and isinstance(at[n][1], tuple):
                fl.add("enum-padded")
    return fl

ENUM_NORM_KEY = "doc:enumerated-attribute-value-not-normalised:igxmlscanner-namespaces"

def hexs(text):
    return ".".join("%x" % b for b in text.encode()) if text else "0"

def parse_modes(o):
    """harness line -> {mode: {v, f, exc, dump}} or None"""
    res = {}
    for seg in o.split(" ## "):
        f = seg.split(" ", 4)
        if len(f) < 5 or not f[1].startswith("v=") or not f[4].startswith("dump="):
            return None
        try:
            res[f[0]] = {"v": int(f[1][2:]), "f": int(f[2][2:]), "exc": f[3][4:], "dump": f[4][5:].split(" | ")[0]}
        except ValueError:
            return None
    return res if len(res) == len(MODES) else None

def run_docs(docs, verbose=False):
    """docs: list of (abstract line, xml, ext).  Returns per doc (spec out, harness line), stderr"""
    ab = ("\n".join(d[0] for d in docs) + "\n").encode()
    sp = common.run_driver(["dtdspec"], input=ab).decode(errors="replace").split("\n")
    lines = ["%s %s %s%s" % ("MV" if verbose else "M", hexs(d[1]), "-" if d[2] is None else hexs(d[2]),
                             "".join(" %s=%s" % (k, hexs(v)) for k, v in sorted((d[4] or {}).items()))) for d in docs]
    # several harness processes side by side (each reuses its own parser objects); results keep document order
    from concurrent.futures import ThreadPoolExecutor
    common.build_harness("hx_cm")
    nproc = max(1, min(8, common.NCPU // 2, len(lines) // 20 or 1))
    chunks = [lines[k::nproc] for k in range(nproc)]
    def work(ch):
        p = common.run_harness("hx_cm", input=("\n".join(ch) + "\n").encode(), timeout=3000)
        o = p.stdout.decode(errors="replace").split("\n")
        e = p.stderr.decode(errors="replace")
        if o and o[-1] == "": o.pop()
        while len(o) < len(ch):
            o.append("CRASH rc=%d %s" % (p.returncode, common.sanitizer_summary(e)) if p.returncode else "NO-OUTPUT")
        return o, e
    with ThreadPoolExecutor(nproc) as ex:
        parts = list(ex.map(work, chunks))
    o = [None] * len(lines)
    for k, (po, _) in enumerate(parts):
        o[k::nproc] = po
    err = "".join(e for _, e in parts)
    return [(sp[k], o[k]) for k in range(len(docs))], err

def modes_str(ms):
    return "all modes" if len(ms) == len(MODES) else ",".join(ms)

def judge_doc(spec_out, impl_out, flags=()):
    """list of (key, what) contradictions between the implementation (16 modes) and the Spec for one document"""
    bad = judge_doc0(spec_out, impl_out)
    if "enum-padded" in flags:
        # one cause, several symptoms (un-normalised value reported; false #FIXED / multiple-values errors):
        # IGXMLScanner::normalizeAttValue treats enumerated types as CDATA on the namespaces path
        out = []
        for key, what, ms in bad:
            if ms and all("-ig-ns1-" in k for k in ms) and key in ("doc:content-differs-from-spec", "doc:valid-document-reported-invalid"):
                key = ENUM_NORM_KEY
            out.append((key, what, ms))
        bad = out
    return [(k, w) for k, w, _ in bad]

def judge_doc0(spec_out, impl_out):
    if not spec_out.startswith(("valid ", "invalid:", "notwf:")):
        raise common.InfraError("dtdspec driver: " + spec_out[:200])
    verdict, sdump = spec_out.split(" dump=", 1)
    m = parse_modes(impl_out)
    if m is None:
        return [("doc:no-verdict", "harness output: %s" % impl_out[:160], [])]
    bad = []
    if verdict.startswith("notwf:"):
        cls = verdict.split(":", 1)[1]
        ms = [k for k in MODES if m[k]["f"] == 0]
        if ms:
            bad.append(("doc:not-wellformed-not-fatal:" + cls.split(",")[0],
                        "Spec: not well-formed (%s) but no fatal error in %s" % (cls, modes_str(ms)), ms))
        return bad
    ms = [k for k in MODES if m[k]["f"] or m[k]["exc"] != "-"]
    if ms:
        k = ms[0]
        bad.append(("doc:fatal-or-exception-on-wellformed-document",
                    "fatal errors / exception on a well-formed document in %s (f=%d exc=%s)" % (modes_str(ms), m[k]["f"], m[k]["exc"]), ms))
        return bad
    val = [k for k in MODES if k.endswith("v1")]
    nov = [k for k in MODES if k.endswith("v0")]
    if verdict == "valid":
        ms = [k for k in val if m[k]["v"] > 0]
        if ms:
            bad.append(("doc:valid-document-reported-invalid", "Spec validDoc = valid but validity errors were reported in %s" % modes_str(ms), ms))
    else:
        cls = verdict.split(":", 1)[1]
        ms = [k for k in val if m[k]["v"] == 0]
        if ms:
            bad.append(("doc:missed:" + cls.split(",")[0], "Spec validDoc = invalid (%s) but no validity error was reported in %s" % (cls, modes_str(ms)), ms))
    ms = [k for k in nov if m[k]["v"] != 0]
    if ms:
        bad.append(("doc:error-with-validation-off", "errors reported with validation off in %s" % modes_str(ms), ms))
    if verdict != "valid" and ("character-data-not-allowed" in verdict or "unique-element-type-declaration" in verdict):
        # A validating parse reports character data in EMPTY / element content as a validity error and does not
        # deliver it (IGXMLScanner::sendCharData); for such invalid documents only the attributes are compared.
        # With a duplicated element type declaration (invalid; XML 1.0 does not say which one binds) the library
        # lets the LAST declaration take effect, so the same holds there.
        sdump = re.sub(r"\|\d+>", ">", sdump)
        for k in MODES:
            m[k]["dump"] = re.sub(r"\|\d+>", ">", m[k]["dump"])
    ssax = sdump.replace("!", "")
    dep = [k for k in val if m[k]["dump"] != m[k[:-1] + "0"]["dump"]]
    if dep:
        k = dep[0]
        bad.append(("doc:content-depends-on-validation", "attributes / expanded character data differ with validation on %s and off %s (%s)"
                    % (m[k]["dump"], m[k[:-1] + "0"]["dump"], modes_str(dep)), dep))
    else:
        ms = [k for k in MODES if m[k]["dump"] != (ssax if k.startswith("sax") else sdump)]
        if ms:
            k = ms[0]
            bad.append(("doc:content-differs-from-spec", "reported attributes / character data %s, Spec %s (%s)"
                        % (m[k]["dump"], ssax if k.startswith("sax") else sdump, modes_str(ms)), ms))
    return bad

def family_docs(r):
    """the systematic part of the document tier: minimal documents for every clause of the standalone-declaration VC crossed
    with where the declaration comes from, and for IDREF(S)/ENTITY(IES) defaults naming a missing ID / entity crossed with
    'default applied / attribute specified / element type never occurs'.  The Spec judges each of them like any other."""
    out = []
    def el(name, attrs=(), children=(), ws=False, text=False, refs=()):
        return {"name": name, "text": text, "ws": ws, "refs": list(refs), "attrs": list(attrs), "children": list(children)}
    for clause in ("ws", "default", "fixed", "pad", "entity"):
        for origin, pe_kind in ((0, None), (1, None), (2, "int"), (2, "ext")):
            for sa in ((2, 1) if origin else (2,)):
                a0 = r.below(4); tok = 1 + r.below(3)
                d0 = {"name": 0, "spec": "K*1", "ext": 0, "atts": []}
                d1 = {"name": 1, "spec": "E", "ext": 0, "atts": []}
                root = el(0, children=[el(1), el(1)] if r.chance(1, 2) else [el(1)])
                ents = []
                if clause == "ws":
                    d0["ext"] = origin; root["ws"] = True
                elif clause == "default":
                    d0["atts"].append((a0, r.choice(["C", "N", ("G", [tok, 11])]), ("DEF", [tok]), origin))
                elif clause == "fixed":
                    d0["atts"].append((a0, r.choice(["C", "N", "NS"]), ("FIX", [tok]), origin))
                elif clause == "pad":
                    d0["atts"].append((a0, r.choice(["NS", "N", "RS"]), "IMP", origin))
                    d0["atts"].append((a0 + 1, "I", "IMP", 0))
                    root["attrs"] = [(a0, [20], True), (a0 + 1, [20], False)]
                else:
                    d0["spec"] = "M1"; ents = [(0, origin)]; root["refs"] = [0]
                doc = {"doctype": 0, "standalone": sa, "hasExt": False, "decls": [d0, d1], "ents": ents, "root": root,
                       "unparsed": [], "pe_kind": pe_kind}
                out.append(doc)
    for t, ghost, good in (("R", [78], [20]), ("RS", [20, 79], [20]), ("Y", [32], [30]), ("YS", [30, 32], [30])):
        for dk in ("DEF", "FIX"):
            for scen in ("specified", "never-occurs", "applied", "resolved"):
                if scen == "specified" and dk == "FIX":
                    continue
                val = good if scen == "resolved" else ghost
                d0 = {"name": 0, "spec": "K*1", "ext": 0, "atts": [(1, "I", "REQ", 0)]}
                d1 = {"name": 1, "spec": "E", "ext": 0, "atts": [(0, t, (dk, list(val)), 0)]}
                kids = [] if scen == "never-occurs" else [el(1, attrs=[(0, list(good), False)] if scen == "specified" else [])]
                out.append({"doctype": 0, "standalone": r.choice([0, 2]), "hasExt": False, "decls": [d0, d1], "ents": [],
                            "root": el(0, attrs=[(1, [20], False)], children=kids), "unparsed": [30]})
    return out

def gen_docs(ctx, n):
    r = ctx.rng
    docs, kinds = [], {}
    for doc in family_docs(r):
        finish_doc(doc, r)
        kinds["family"] = kinds.get("family", 0) + 1
        xml, ext, extra = render(doc, r)
        docs.append((abstract_line(doc), xml, ext, doc_flags(doc), extra))
    for _ in range(n):
        doc, nel = gen_doc(r)
        k = "none"
        if r.chance(13, 20):
            k = mutate(doc, nel, r)
        finish_doc(doc, r)
        kinds[k] = kinds.get(k, 0) + 1
        xml, ext, extra = render(doc, r)
        docs.append((abstract_line(doc), xml, ext, doc_flags(doc), extra))
    return docs, kinds

def doc_check(ctx, docs, origin):
    res, err = run_docs(docs)
    by = {}
    nvalid = 0; classes = {}; nsa = 0; next_ = 0
    for (ab, xml, ext, flags, extra), (sp, io) in zip(docs, res):
        if ext is not None: next_ += 1
        if 'standalone="yes"' in xml: nsa += 1
        if sp.startswith("valid "):
            nvalid += 1
        elif sp.startswith(("invalid:", "notwf:")):
            for c in sp.split(" dump=")[0].split(":", 1)[1].split(","):
                c = ("notwf:" if sp.startswith("notwf") else "") + c
                classes[c] = classes.get(c, 0) + 1
        for key, what in judge_doc(sp, io, flags):
            if key not in by or len(xml) + len(ext or "") < len(by[key][1]) + len(by[key][2] or ""):
                by[key] = (ab, xml, ext, what, sp, io, extra)
    for key, (ab, xml, ext, what, sp, io, extra) in by.items():
        ctx.violations.append({"key": key, "concrete": True,
            "what": "DTD validation of a generated document: %s. Document: %s%s" % (what, xml.replace("\n", " ")[:500],
                    "" if ext is None else "  EXTERNAL SUBSET ext.dtd: " + ext.replace("\n", " ")[:300]),
            "replay": {"tier": "doc", "abstract": ab, "xml": xml, "ext": ext, "external_pes": extra, "spec": sp, "impl": io, "origin": origin}})
    if "runtime error" in err or "AddressSanitizer" in err:
        ctx.violations.append({"key": "doc-sanitizer", "concrete": True,
                               "what": "sanitizer report while validating generated documents: " + common.sanitizer_summary(err),
                               "replay": {"stderr": err[-2000:]}})
    return {"valid": nvalid, "classes": classes, "standalone_yes": nsa, "with_external_subset": next_}, res

def doc_correspondence(ctx):
    n = 6000 if ctx.thorough() else 400
    docs, kinds = gen_docs(ctx, n)
    n = len(docs)                      # random documents + the systematic family
    st, res = doc_check(ctx, docs, "correspondence")
    ctx.stats["documents"] = n
    ctx.stats["document_parses"] = n * len(MODES)
    ctx.stats["document_modes"] = MODES
    ctx.stats["documents_valid_by_spec"] = st["valid"]
    ctx.stats["documents_standalone_yes"] = st["standalone_yes"]
    ctx.stats["documents_with_external_subset"] = st["with_external_subset"]
    ctx.stats["documents_mutation_kinds"] = kinds
    ctx.stats["documents_violated_classes"] = st["classes"]
    ctx.stats["evaluations"] = ctx.stats.get("evaluations", 0) + n * len(MODES)
    for k in (0, 1, 2):
        ctx.samples.append({"doc": docs[k][1].replace("\n", " ")[:300], "ext": docs[k][2], "spec": res[k][0][:120], "impl": res[k][1][:160]})

def doc_replay(ctx, r):
    res, _ = run_docs([(r["abstract"], r["xml"], r.get("ext"), (), r.get("external_pes") or {})], verbose=True)
    sp, io = res[0]
    print("document:\n" + r["xml"])
    for k, v in sorted((r.get("external_pes") or {}).items()):
        print("external parameter entity %s:\n%s" % (k, v))
    if r.get("ext") is not None:
        print("external subset (ext.dtd):\n" + r["ext"])
    print("spec :", sp)
    for seg in io.split(" ## "):
        print("impl :", seg)
    return 0
