"""C11 — regular expressions.  Theorems: XV.Props.C11 (range algebra = set algebra for all inputs; derivative
matcher = language semantics; quantifier semantics).  Correspondence: (1) RangeToken operation histories on
real tokens vs the code-shaped Lean model, judged by set algebra; (2) RegularExpression::matches (schema mode)
vs the proved matcher on generated expressions x all short strings; (3) malformed patterns must be rejected."""
import itertools, json
import common

PID = "C11"
GEN = []
LEAN_MODULE = "XV.Props.C11"
THEOREMS = ["XV.Props.C11." + t for t in (
    "addRange_set", "merge_set", "subtract_set", "intersect_set", "complement_set", "match_eq_mem",
    "sort_compact_set", "derivMatch_iff", "fastMatch_iff", "rep_semantics")]
RULE = ("range histories: 4 tokens, 3-14 ops drawn from add/merge/subtract/intersect/complement/normalise over a small "
        "universe with overlaps, adjacency and the 0 / 0xFF / 0x100 / 0x10FFFF edges; regexes: random ASTs (depth<=4) over "
        "{a,b,c} with classes, negation, subtraction, groups, every quantifier form, x all strings of length<=4 over "
        "{a,b,c,x} plus long random strings; non-trivial = history with >=2 ops touching one token / regex with an operator; "
        "distinct by text")
ASSUMPTIONS = ["sortRanges (bubble sort) modelled by insertion sort on the same total order",
               "category/block escapes: range lists taken from the library itself (not re-derived from UCD)",
               "options i/s/m/x, back-references, look-around, tokenize/replace: not modelled (partial)"]
TRUSTED = ["XV.Spec.Regex (language semantics)", "Python renderer of regex ASTs to XSD syntax"]

MAXC = 0x10FFFF
FASTCRASH = {"ASAN_OPTIONS": "detect_leaks=0:symbolize=0:allocator_may_return_null=1"}
def hexs(s): return ".".join("%x" % ord(c) for c in s) if s else "-"

# ------------------------------------------------------------------ range histories
EDGES = [0, 1, 2, 5, 9, 10, 11, 20, 30, 31, 32, 40, 0xFE, 0xFF, 0x100, 0x101, 0x150, 0x200, 0xFFFF, 0x10000, MAXC - 1, MAXC]

def gen_history(r):
    n = 3 + r.below(12)
    ops = []
    compacted = [False] * 4
    nonempty = [False] * 4
    disciplined = True
    sets = [[], [], [], []]      # oracle state, to retire tokens emptied by subtract/intersect
    dead = [False] * 4           # (allocated-but-empty arrays are outside the model: fRanges[-1] is read by addRange)
    for _ in range(n):
        k = r.below(4)
        c = r.below(100)
        if dead[k]: continue
        if c < 55 or not any(nonempty):
            if r.chance(1, 3):
                a = r.choice(EDGES); b = r.choice(EDGES)
            else:
                a = r.below(60); b = a + r.choice([0, 0, 1, 2, 5, 12])
                if r.chance(1, 10): a, b = b, a
            ops.append("a,%d,%x,%x" % (k, a, b))
            if compacted[k]: disciplined = False
            nonempty[k] = True
            sets[k] = norm(sets[k] + [rset(a, b)])
        elif c < 65:
            j = r.below(4)
            if j == k or dead[j]: continue
            ops.append("m,%d,%d" % (k, j))
            if compacted[k] and nonempty[j]: disciplined = False
            nonempty[k] = nonempty[k] or nonempty[j]
            sets[k] = norm(sets[k] + sets[j])
        elif c < 77:
            j = r.below(4)
            if j == k or dead[j]: continue
            ops.append("s,%d,%d" % (k, j))
            if nonempty[k] and nonempty[j]:
                compacted[k] = compacted[j] = True
                sets[k] = inter(sets[k], compl(sets[j]))
                if not sets[k]: dead[k] = True
        elif c < 87:
            j = r.below(4)
            if j == k or dead[j]: continue
            ops.append("i,%d,%d" % (k, j))
            if nonempty[k] and nonempty[j]:
                compacted[k] = compacted[j] = True
                sets[k] = inter(sets[k], sets[j])
                if not sets[k]: dead[k] = True
        elif c < 94:
            j = r.below(4)
            if j == k or not nonempty[j] or dead[j]: continue
            ops.append("c,%d,%d" % (k, j))
            compacted[k] = True; compacted[j] = True
            sets[k] = compl(sets[j])
            nonempty[k] = bool(sets[k])
            if not sets[k]: nonempty[k] = False   # complement of everything: a fresh, never-allocated token
        else:
            ops.append("n,%d" % k)
            compacted[k] = True
    qs = sorted({r.choice(EDGES) for _ in range(6)} | {r.below(64) for _ in range(6)})
    return "H " + ";".join(ops) + " | " + " ".join("%x" % q for q in qs), disciplined

def rset(a, b):
    if a > b: a, b = b, a
    return (a, b)

def norm(rs):
    rs = sorted(rs)
    out = []
    for a, b in rs:
        if out and a <= out[-1][1] + 1:
            out[-1] = (out[-1][0], max(out[-1][1], b))
        else:
            out.append((a, b))
    return out

def compl(rs):
    rs = norm(rs); out = []; cur = 0
    for a, b in rs:
        if a > cur: out.append((cur, a - 1))
        cur = b + 1
    if cur <= MAXC: out.append((cur, MAXC))
    return out

def inter(x, y):
    out = []
    for a, b in norm(x):
        for c, d in norm(y):
            lo, hi = max(a, c), min(b, d)
            if lo <= hi: out.append((lo, hi))
    return norm(out)

def oracle_history(line):
    """Set algebra (the Spec): returns normalised range lists of the 4 tokens, or None where the C++ API's
    documented preconditions are not met (complement of an empty token)."""
    ops = line.split(" | ")[0].split()[1].split(";")
    t = [[], [], [], []]
    for op in ops:
        f = op.split(",")
        if f[0] == "a":
            t[int(f[1])] = norm(t[int(f[1])] + [rset(int(f[2], 16), int(f[3], 16))])
        elif f[0] == "m":
            t[int(f[1])] = norm(t[int(f[1])] + t[int(f[2])])
        elif f[0] == "s":
            k, j = int(f[1]), int(f[2])
            if t[k] and t[j]: t[k] = inter(t[k], compl(t[j]))
        elif f[0] == "i":
            k, j = int(f[1]), int(f[2])
            if t[k] and t[j]: t[k] = inter(t[k], t[j])
        elif f[0] == "c":
            k, j = int(f[1]), int(f[2])
            if not t[j]: return None
            t[k] = compl(t[j])
    return t

def parse_dump(out):
    toks = out.split(" | ")[0].split()
    res = []
    for tk in toks:
        if tk == "-": res.append([]); continue
        rs = []
        for p in tk.split(","):
            a, b = p.split("-") if not p.startswith("-") else (None, None)
            rs.append((int(a, 16), int(b, 16)))
        res.append(rs)
    return res

# ------------------------------------------------------------------ regex generation
ALPHA = "abc"
def gen_cls(r):
    """returns (xsd text, set of chars over ALPHA+'x' it matches restricted to letters a..z, rpn token)"""
    items = []; text = ""
    for _ in range(1 + r.below(3)):
        if r.chance(1, 2):
            c = r.choice("abcx"); items.append((ord(c), ord(c))); text += c
        else:
            a = r.choice("abc"); b = r.choice("bcdxz")
            if a > b: a, b = b, a
            items.append((ord(a), ord(b))); text += a + "-" + b
    neg = r.chance(1, 4)
    sub = None
    if r.chance(1, 5):
        c = r.choice("abc"); sub = [(ord(c), ord(c))]
    base = norm(items)
    if neg: base = compl(base)
    if sub: base = inter(base, compl(sub))
    xsd = "[" + ("^" if neg else "") + text + ("-[" + chr(sub[0][0]) + "]" if sub else "") + "]"
    rpn = "c:" + ".".join("%x-%x" % p for p in base)
    return xsd, rpn

def gen_re(r, depth):
    """returns (xsd, rpn, is_atom)"""
    k = r.below(100)
    if depth == 0 or k < 28:
        c = r.choice(ALPHA)
        return c, "c:%x-%x" % (ord(c), ord(c)), True
    if k < 40:
        x, p = gen_cls(r); return x, p, True
    if k < 44:
        return ".", "n:a-a.d-d", True
    if k < 60:
        a = gen_re(r, depth - 1); b = gen_re(r, depth - 1)
        ax = a[0] if a[2] or a[0].startswith("(") or "|" not in a[0] else "(" + a[0] + ")"
        bx = b[0] if b[2] or b[0].startswith("(") or "|" not in b[0] else "(" + b[0] + ")"
        if "|" in ax and not a[2]: ax = "(" + a[0] + ")"
        if "|" in bx and not b[2]: bx = "(" + b[0] + ")"
        return ax + bx, a[1] + "," + b[1] + ",.", False
    if k < 72:
        a = gen_re(r, depth - 1); b = gen_re(r, depth - 1)
        return "(" + a[0] + "|" + b[0] + ")", a[1] + "," + b[1] + ",|", True
    a = gen_re(r, depth - 1)
    ax = a[0] if a[2] else "(" + a[0] + ")"
    q = r.below(9)
    if q == 0: return ax + "*", a[1] + ",*", False
    if q == 1: return ax + "+", a[1] + ",+", False
    if q == 2: return ax + "?", a[1] + ",?", False
    if q == 3:
        n = r.below(4); return ax + "{%d}" % n, a[1] + ",r:%d:%d" % (n, n), False
    if q == 4:
        n = r.below(3); return ax + "{%d,}" % n, a[1] + ",r:%d:" % n, False
    if q in (5, 6):
        n = r.below(3); m = n + r.below(3); return ax + "{%d,%d}" % (n, m), a[1] + ",r:%d:%d" % (n, m), False
    if q == 7:
        return "(" + ax + "*)*", a[1] + ",*,*", False
    return "(" + ax + "?)+", a[1] + ",?,+", False

def rpn_hazard(rpn):
    """True when an unbounded repetition (*, +, {n,}) is applied to a nullable sub-expression."""
    st = []; hz = False
    for t in rpn.split(","):
        if t[:2] in ("c:", "n:"): st.append(False)
        elif t == "e": st.append(True)
        elif t == ".": b = st.pop(); a = st.pop(); st.append(a and b)
        elif t == "|": b = st.pop(); a = st.pop(); st.append(a or b)
        elif t in ("*", "+"):
            a = st.pop(); hz = hz or a; st.append(True if t == "*" else a)
        elif t == "?": st.pop(); st.append(True)
        elif t.startswith("r:"):
            _, n, m = t.split(":"); a = st.pop()
            if m == "": hz = hz or a
            st.append(a or n == "0")
    return hz

def all_strings(maxlen, alpha="abcx"):
    out = [""]
    for n in range(1, maxlen + 1):
        out += ["".join(t) for t in itertools.product(alpha, repeat=n)]
    return out

FIXED_RE = [("[a-d]*[^x]", "c:61-64,*,n:78-78,."), ("[ab]*[^xy]", "c:61-62,*,n:78-79,."), ("(ab|a|bc)*", "c:61-61,c:62-62,.,c:61-61,|,c:62-62,c:63-63,.,|,*"), ("(b*)*c", "c:62-62,*,*,c:63-63,."), ("[g-tj-z]", "c:67-7a"), ("[a-cb-z]", "c:61-7a"), ("[b-da-a]", "c:61-64"), ("[a-cx-za-b]", "c:61-63.78-7a"),
            ("[m-pn-qa-z]", "c:61-7a"), ("(a|ab)(c|bcd)?", "c:61-61,c:61-61,c:62-62,.,|,c:63-63,c:62-62,c:63-63,.,c:64-64,.,|,?,."),
            ("(a*)*b", "c:61-61,*,*,c:62-62,."), ("(a|b)*abb", "c:61-61,c:62-62,|,*,c:61-61,.,c:62-62,.,c:62-62,.")]
FIXED_STR = ["x", "y", "g", "t", "u", "z", "a", "c", "d", "m", "q", "ab", "abc", "abcd", "abb", "aabb", "b", "aab", ""]

MALFORMED = ["(", ")", "a)", "(a", "[", "[a", "a{2,1}", "[z-a]", "a{", "a{2", "\\", "*a", "+", "?", "a|*", "[]", "[a-]-]", "\\q",
             "a{,2}", "[a-\\d]", "(?a)", "\\p{Foo}", "\\p{", "[^]", "a{1,2,3}"]

def gen_regex_cases(ctx):
    r = ctx.rng
    lines = []
    strs = all_strings(4)
    n = 2500 if ctx.thorough() else 260
    seen = set(); seen_rpn = {}
    for _ in range(n):
        x, rpn, _ = gen_re(r, 1 + r.below(4))
        if x in seen: continue
        if rpn_hazard(rpn):
            # unbounded repetition of a nullable sub-expression: recorded known finding (stack overflow in the
            # backtracking matcher); the fixed witness (b*)*c below keeps it under observation
            ctx.stats["hazard_patterns_skipped"] = ctx.stats.get("hazard_patterns_skipped", 0) + 1
            continue
        seen.add(x); seen_rpn[x] = rpn
        ss = strs if len(seen) % 3 == 0 or ctx.thorough() else [s for s in strs if len(s) <= 3]
        for s in ss:
            lines.append(("M %s %s" % (hexs(x), hexs(s)), "M %s %s" % (rpn, hexs(s)), x, s))
        for _ in range(3):
            s = "".join(r.choice("abcabcx") for _ in range(r.choice([6, 9, 40, 300, 600])))
            lines.append(("M %s %s" % (hexs(x), hexs(s)), "M %s %s" % (rpn, hexs(s)), x, s))
    for x, rpn in FIXED_RE:
        for s in FIXED_STR:
            lines.append(("M %s %s" % (hexs(x), hexs(s)), "M %s %s" % (rpn, hexs(s)), x, s))
    # XPath-flavoured (non-schema) mode: matches() is an unanchored search; the answer must not depend on the
    # optimisation options (F = no fixed-string/Boyer-Moore prefilter, H = no head-character prefilter).
    ANY = "c:0-10ffff,*"
    GREEK = {"a": "\u03b1", "b": "\u03b2", "c": "1", "x": "x"}
    nsearch = 0
    for x in list(seen):
        if "-[" in x or nsearch >= (400 if ctx.thorough() else 60):
            continue
        rpn = seen_rpn[x]
        variants = [(x, rpn, None)]
        if "[" not in x and "." not in x:
            gx = "".join(GREEK.get(ch, ch) for ch in x)
            def gtok(t):
                if t.startswith("c:"):
                    ch = chr(int(t[2:].split("-")[0], 16))
                    if ch in GREEK:
                        return "c:%x-%x" % (ord(GREEK[ch]), ord(GREEK[ch]))
                return t
            grpn = ",".join(gtok(t) for t in rpn.split(","))
            variants.append((gx, grpn, GREEK))
        nsearch += 1
        for vx, vrpn, mp in variants:
            srpn = ANY + "," + vrpn + ",.," + ANY + ",."
            ss = [s for s in strs if len(s) <= 3] + ["".join(r.choice("abcx") for _ in range(r.choice([5, 6, 12]))) for _ in range(6)]
            for s in ss:
                vs = "".join(mp.get(ch, ch) for ch in s) if mp else s
                for opt in ("-", "F", "H", "FH"):
                    lines.append(("M %s %s %s" % (hexs(vx), hexs(vs), opt), "M %s %s" % (srpn, hexs(vs)), vx + " /" + opt, vs))
    for lit in ["\u03b1\u03b2", "[0-9]+\u03b1\u03b2", "x?\u03b2\u03b11", "\u03b1\u03b2[x1]", "ab", "abc", "b+abc"]:
        lrpn = {"\u03b1\u03b2": "c:3b1-3b1,c:3b2-3b2,.", "[0-9]+\u03b1\u03b2": "c:30-39,+,c:3b1-3b1,.,c:3b2-3b2,.",
                "x?\u03b2\u03b11": "c:78-78,?,c:3b2-3b2,.,c:3b1-3b1,.,c:31-31,.", "\u03b1\u03b2[x1]": "c:3b1-3b1,c:3b2-3b2,.,c:31-31.78-78,.",
                "ab": "c:61-61,c:62-62,.", "abc": "c:61-61,c:62-62,.,c:63-63,.", "b+abc": "c:62-62,+,c:61-61,.,c:62-62,.,c:63-63,."}[lit]
        alpha = "1x\u03b1\u03b2" if "\u03b1" in lit else "abcx"
        srpn = ANY + "," + lrpn + ",.," + ANY + ",."
        for s in all_strings(5 if ctx.thorough() else 4, alpha):
            for opt in ("-", "F", "H", "FH"):
                lines.append(("M %s %s %s" % (hexs(lit), hexs(s), opt), "M %s %s" % (srpn, hexs(s)), lit + " /" + opt, s))
    return lines, len(seen) + len(FIXED_RE)

def run_regex(ctx):
    cases, nre = gen_regex_cases(ctx)
    impl_in = [c[0] for c in cases]
    model_in = [c[1] for c in cases]
    m = common.run_driver(["regex"], input=("\n".join(model_in) + "\n").encode()).decode().split("\n")
    i, crashes = common.run_lines_resilient("hx_regex", impl_in, env=FASTCRASH)
    ctx.stats["regex_crashes"] = len(crashes)
    bad = {}
    for k, c in enumerate(cases):
        mo, io = m[k], (i[k] if k < len(i) else "NO-OUTPUT")
        if mo == "bad-op":
            raise common.InfraError("model rejected generated regex " + c[1])
        if mo != io and io.startswith("CRASH"):
            key = "regex-crash-unbounded-repeat-of-nullable" if rpn_hazard(c[1].split()[1]) and "stack-overflow" in io else "regex-crash"
            if key not in bad or len(c[2]) + len(c[3]) < len(bad[key][2]) + len(bad[key][3]):
                bad[key] = (mo, io, c[2], c[3])
        elif mo != io:
            key = "regex-overlapping-class-ranges" if c[2] in dict(FIXED_RE) and c[2].startswith("[") else "regex-match:" + ("parse" if io.startswith("exc") else "verdict")
            if key not in bad or len(c[2]) + len(c[3]) < len(bad[key][2]) + len(bad[key][3]):
                bad[key] = (mo, io, c[2], c[3])
    # second pass: a false negative that disappears when an explicit end sentinel forces the continuation to fail
    # away from the end of the string is the recorded "first match is not backtracked to the end" defect
    mism = [(k, c) for k, c in enumerate(cases) if m[k] == "1" and i[k] == "0"]
    if mism:
        probe = ["M %s %s" % (hexs("(" + c[2] + ")#"), hexs(c[3] + "#")) for _, c in mism[:300]]
        po, _ = common.run_lines_resilient("hx_regex", probe, env=FASTCRASH)
        n_known = 0
        for (k, c), o in zip(mism[:300], po):
            if o == "1":
                n_known += 1
                key = "regex-schema-mode-first-match-not-backtracked"
                if key not in bad or len(c[2]) + len(c[3]) < len(bad[key][2]) + len(bad[key][3]):
                    bad[key] = ("1", "0", c[2], c[3])
        ctx.stats["first_match_not_backtracked_cases"] = n_known
        if n_known == len(mism):
            bad.pop("regex-match:verdict", None)
        else:
            for (k, c), o in zip(mism[:300], po):
                if o != "1":
                    bad["regex-match:verdict"] = ("1", "0", c[2], c[3]); break
    for key, (mo, io, x, s) in bad.items():
        ctx.violations.append({"key": key, "concrete": True,
            "what": "RegularExpression(%r, schema mode).matches(%r) = %s but the language semantics (proved matcher) says %s" % (x, s, io, mo),
            "replay": {"op": "M", "pattern": x, "string": s, "impl": io, "spec": mo}})
    ctx.stats["regexes"] = nre
    ctx.stats["regex_cases"] = len(cases)
    ctx.samples.append({"pattern": cases[len(cases) // 2][2], "string": cases[len(cases) // 2][3], "impl": i[len(cases) // 2], "model": m[len(cases) // 2]})
    # malformed patterns (Spec = XSD regex grammar; no model, correspondence only)
    pm = common.run_harness("hx_regex", input=("\n".join("M %s %s" % (hexs(x), hexs("a")) for x in MALFORMED) + "\n").encode())
    outs = pm.stdout.decode().split("\n")
    for x, o in zip(MALFORMED, outs):
        if not o.startswith("exc ParseException"):
            ctx.violations.append({"key": "regex-malformed-accepted:" + x, "concrete": True,
                "what": "malformed pattern %r not rejected with ParseException (got %s)" % (x, o),
                "replay": {"op": "M", "pattern": x, "string": "a", "impl": o, "spec": "exc ParseException"}})
    ctx.stats["malformed_patterns"] = len(MALFORMED)
    return len(cases) + len(MALFORMED)

def run_histories(ctx):
    r = ctx.rng
    n = 40000 if ctx.thorough() else 4000
    hs = [gen_history(r) for _ in range(n)]
    hs += [("H a,0,67,74;a,0,6a,7a;n,0 | 67 78 75", True), ("H a,0,61,63;a,0,62,7a | 79 61", True),
           ("H a,0,1,5;a,0,3,9;a,0,2,2;n,0 | 1 9 a", True)]
    lines = [h[0] for h in hs]
    m = common.run_driver(["regex"], input=("\n".join(lines) + "\n").encode()).decode().split("\n")
    i, crashes = common.run_lines_resilient("hx_regex", lines)
    ctx.stats["history_crashes"] = len(crashes)
    nbad = 0
    first_corr = None
    cats = {}
    for k, (line, disc) in enumerate(hs):
        exp = oracle_history(line) if disc else None
        io = i[k]
        if exp is not None and not io.startswith("exc") and " | " in io:
            got = parse_dump(io)
            qs = [int(q, 16) for q in line.split(" | ")[1].split()]
            mbits = io.split(" | ")[1].split()
            ok = all(norm(g) == e for g, e in zip(got, exp))
            okm = all(mbits[t][qi] == ("1" if any(a <= q <= b for a, b in exp[t]) else "0") for t in range(4) for qi, q in enumerate(qs))
            if not ok or not okm:
                nbad += 1
                ops = line.split(" | ")[0]
                key = "rangetoken-set-semantics" if not ok else "rangetoken-match"
                if key not in cats or len(line) < len(cats[key][0]):
                    cats[key] = (line, io, exp)
        elif exp is not None:
            cats.setdefault("rangetoken-crash" if io.startswith("CRASH") else "rangetoken-exception", (line, io, exp))
        if m[k] != io and first_corr is None:
            first_corr = (line, m[k], io)
    for key, (line, io, exp) in cats.items():
        ctx.violations.append({"key": key, "concrete": True,
            "what": "RangeToken history %s gives %s; set algebra requires %s" % (line, io, exp),
            "replay": {"op": "H", "line": line, "impl": io, "spec": exp}})
    if first_corr and not cats:
        ctx.violations.append({"key": "corr:rangetoken", "concrete": False,
            "what": "correspondence RangeToken model vs implementation no longer checks: %s model=%s impl=%s" % first_corr,
            "replay": {"correspondence": "rangetoken", "line": first_corr[0], "model": first_corr[1], "impl": first_corr[2]}})
    ctx.stats["histories"] = len(hs)
    ctx.stats["histories_spec_judged"] = sum(1 for h in hs if h[1])
    ctx.stats["history_set_violations"] = nbad
    ctx.samples.append({"history": lines[5], "impl": i[5], "model": m[5]})
    return len(hs)

def correspondence(ctx):
    a = run_histories(ctx)
    b = run_regex(ctx)
    ctx.stats["evaluations"] = a + b
    ctx.stats["distinct_nontrivial"] = ctx.stats["histories"] + ctx.stats["regex_cases"] - ctx.stats["regexes"]

_done = {}
def search(ctx, broken):
    # the correspondence above already judges the implementation by the Spec (set algebra / proved matcher);
    # a broken theorem adds no further input to try.
    return None

def replay(ctx, path):
    r = json.load(open(path))["replay"]
    if r.get("op") == "H":
        m, i, _ = common.run_pair("regex", "hx_regex", [r["line"]])
        print("case :", r["line"]); print("model:", m[0]); print("impl :", i[0]); print("spec :", oracle_history(r["line"]))
    elif r.get("op") == "M":
        p = common.run_harness("hx_regex", input=("M %s %s\n" % (hexs(r["pattern"]), hexs(r["string"]))).encode())
        print("pattern:", r["pattern"], "string:", repr(r["string"])); print("impl :", p.stdout.decode().strip()); print("spec :", r.get("spec"))
    else:
        print(json.dumps(r))
    return 0
