"""C11 — regular expressions.  Theorems: XV.Props.C11 (range algebra = set algebra for all inputs; derivative
matcher = language semantics; quantifier semantics).  Correspondence: (1) RangeToken operation histories on
real tokens vs the code-shaped Lean model, judged by set algebra; (2) RegularExpression::matches (schema mode)
vs the proved matcher on generated expressions x all short strings; (3) malformed patterns must be rejected."""
import itertools, json
import common
from props import c11_xsd as XSD

PID = "C11"
GEN = []
LEAN_MODULE = "XV.Props.C11"
THEOREMS = ["XV.Props.C11." + t for t in (
    "addRange_set", "merge_set", "subtract_set", "intersect_set", "complement_set", "match_eq_mem",
    "sort_compact_set", "derivMatch_iff", "fastMatch_iff", "rep_semantics")]
RULE = ("range histories: 4 tokens, 3-14 ops drawn from add/merge/subtract/intersect/complement/normalise over a small "
        "universe with overlaps, adjacency and the 0 / 0xFF / 0x100 / 0x10FFFF edges; regexes: random ASTs (depth<=4) over "
        "{a,b,c} with classes, negation, subtraction, groups, every quantifier form, x all strings of length<=4 over "
        "{a,b,c,x} plus long random strings; non-trivial = history with >=2 ops touching one token / regex with an operator; "
        "distinct by text; long subjects: small expressions pad* core{n,m} tail pad* (tail = alternation / optional / group / "
        "class / nothing; three bracketings) x subjects built from the parts with the core repeated 0..m+1 times, wrong tails and a "
        "corrupted pad, padded to total lengths 40/255..259/300/511..513/600, in schema mode, anchored ^..$ and unanchored under "
        "the option sets -/F/H/FH; syntax: quantifier grid {n,m},{n},{n,} over n,m in 0..4,7,12 x 4 atoms x both modes, a curated "
        "edge list and mutated edge-syntax expressions, each judged by an independent Appendix F parser (reject / accept with "
        "language / no claim)")
ASSUMPTIONS = ["sortRanges (bubble sort) modelled by insertion sort on the same total order",
               "category/block escapes: range lists taken from the library itself (not re-derived from UCD)",
               "options i/s/m/x, back-references, look-around, tokenize/replace: not modelled (partial)",
               "general (non-schema) syntax: only dialect-independent errors are claimed (min > max, unbalanced parentheses, on texts "
               "without class / escape / (? constructs); accepted general-mode expressions are judged through ^..$ or an unanchored search",
               "Appendix F points on which the Recommendation is silent or inconsistent (unknown block names, '^' after the negation, "
               "'--' at the start of a group) are not judged; unescaped braces follow the prose (metacharacters) and XSD 1.1 production [10]"]
TRUSTED = ["XV.Spec.Regex (language semantics)", "Python renderer of regex ASTs to XSD syntax",
           "tools/props/c11_xsd.py (Appendix F recursive-descent parser: syntactic oracle and text -> Spec expression)"]

MAXC = 0x10FFFF
FASTCRASH = {"ASAN_OPTIONS": "detect_leaks=0:symbolize=0:allocator_may_return_null=1"}
def hexs(s): return ".".join("%x" % ord(c) for c in s) if s else "-"

# ------------------------------------------------------------------ range histories
EDGES = [0, 1, 2, 5, 9, 10, 11, 20, 30, 31, 32, 40, 0xFE, 0xFF, 0x100, 0x101, 0x150, 0x200, 0xFFFF, 0x10000, MAXC - 1, MAXC]

def gen_history(r):
    n = 3 + r.below(12)
    ops = []
    compacted = [False] * 4
    nonempty = [False] * 4
    disciplined = True
    sets = [[], [], [], []]      # oracle state, to retire tokens emptied by subtract/intersect
    dead = [False] * 4           # (allocated-but-empty arrays are outside the model: fRanges[-1] is read by addRange)
    for _ in range(n):
        k = r.below(4)
        c = r.below(100)
        if dead[k]: continue
        if c < 55 or not any(nonempty):
            if r.chance(1, 3):
                a = r.choice(EDGES); b = r.choice(EDGES)
            else:
                a = r.below(60); b = a + r.choice([0, 0, 1, 2, 5, 12])
                if r.chance(1, 10): a, b = b, a
            ops.append("a,%d,%x,%x" % (k, a, b))
            if compacted[k]: disciplined = False
            nonempty[k] = True
            sets[k] = norm(sets[k] + [rset(a, b)])
        elif c < 65:
            j = r.below(4)
            if j == k or dead[j]: continue
            ops.append("m,%d,%d" % (k, j))
            if compacted[k] and nonempty[j]: disciplined = False
            nonempty[k] = nonempty[k] or nonempty[j]
            sets[k] = norm(sets[k] + sets[j])
        elif c < 77:
            j = r.below(4)
            if j == k or dead[j]: continue
            ops.append("s,%d,%d" % (k, j))
            if nonempty[k] and nonempty[j]:
                compacted[k] = compacted[j] = True
                sets[k] = inter(sets[k], compl(sets[j]))
                if not sets[k]: dead[k] = True
        elif c < 87:
            j = r.below(4)
            if j == k or dead[j]: continue
            ops.append("i,%d,%d" % (k, j))
            if nonempty[k] and nonempty[j]:
                compacted[k] = compacted[j] = True
                sets[k] = inter(sets[k], sets[j])
                if not sets[k]: dead[k] = True
        elif c < 94:
            j = r.below(4)
            if j == k or not nonempty[j] or dead[j]: continue
            ops.append("c,%d,%d" % (k, j))
            compacted[k] = True; compacted[j] = True
            sets[k] = compl(sets[j])
            nonempty[k] = bool(sets[k])
            if not sets[k]: nonempty[k] = False   # complement of everything: a fresh, never-allocated token
        else:
            ops.append("n,%d" % k)
            compacted[k] = True
    qs = sorted({r.choice(EDGES) for _ in range(6)} | {r.below(64) for _ in range(6)})
    return "H " + ";".join(ops) + " | " + " ".join("%x" % q for q in qs), disciplined

def rset(a, b):
    if a > b: a, b = b, a
    return (a, b)

def norm(rs):
    rs = sorted(rs)
    out = []
    for a, b in rs:
        if out and a <= out[-1][1] + 1:
            out[-1] = (out[-1][0], max(out[-1][1], b))
        else:
            out.append((a, b))
    return out

def compl(rs):
    rs = norm(rs); out = []; cur = 0
    for a, b in rs:
        if a > cur: out.append((cur, a - 1))
        cur = b + 1
    if cur <= MAXC: out.append((cur, MAXC))
    return out

def inter(x, y):
    out = []
    for a, b in norm(x):
        for c, d in norm(y):
            lo, hi = max(a, c), min(b, d)
            if lo <= hi: out.append((lo, hi))
    return norm(out)

def oracle_history(line):
    """Set algebra (the Spec): returns normalised range lists of the 4 tokens, or None where the C++ API's
    documented preconditions are not met (complement of an empty token)."""
    ops = line.split(" | ")[0].split()[1].split(";")
    t = [[], [], [], []]
    for op in ops:
        f = op.split(",")
        if f[0] == "a":
            t[int(f[1])] = norm(t[int(f[1])] + [rset(int(f[2], 16), int(f[3], 16))])
        elif f[0] == "m":
            t[int(f[1])] = norm(t[int(f[1])] + t[int(f[2])])
        elif f[0] == "s":
            k, j = int(f[1]), int(f[2])
            if t[k] and t[j]: t[k] = inter(t[k], compl(t[j]))
        elif f[0] == "i":
            k, j = int(f[1]), int(f[2])
            if t[k] and t[j]: t[k] = inter(t[k], t[j])
        elif f[0] == "c":
            k, j = int(f[1]), int(f[2])
            if not t[j]: return None
            t[k] = compl(t[j])
    return t

def parse_dump(out):
    toks = out.split(" | ")[0].split()
    res = []
    for tk in toks:
        if tk == "-": res.append([]); continue
        rs = []
        for p in tk.split(","):
            a, b = p.split("-") if not p.startswith("-") else (None, None)
            rs.append((int(a, 16), int(b, 16)))
        res.append(rs)
    return res

# ------------------------------------------------------------------ regex generation
ALPHA = "abc"
def gen_cls(r):
    """returns (xsd text, set of chars over ALPHA+'x' it matches restricted to letters a..z, rpn token)"""
    items = []; text = ""
    for _ in range(1 + r.below(3)):
        if r.chance(1, 2):
            c = r.choice("abcx"); items.append((ord(c), ord(c))); text += c
        else:
            a = r.choice("abc"); b = r.choice("bcdxz")
            if a > b: a, b = b, a
            items.append((ord(a), ord(b))); text += a + "-" + b
    neg = r.chance(1, 4)
    sub = None
    if r.chance(1, 5):
        c = r.choice("abc"); sub = [(ord(c), ord(c))]
    base = norm(items)
    if neg: base = compl(base)
    if sub: base = inter(base, compl(sub))
    xsd = "[" + ("^" if neg else "") + text + ("-[" + chr(sub[0][0]) + "]" if sub else "") + "]"
    rpn = "c:" + ".".join("%x-%x" % p for p in base)
    return xsd, rpn

def gen_re(r, depth):
    """returns (xsd, rpn, is_atom)"""
    k = r.below(100)
    if depth == 0 or k < 28:
        c = r.choice(ALPHA)
        return c, "c:%x-%x" % (ord(c), ord(c)), True
    if k < 40:
        x, p = gen_cls(r); return x, p, True
    if k < 44:
        return ".", "n:a-a.d-d", True
    if k < 60:
        a = gen_re(r, depth - 1); b = gen_re(r, depth - 1)
        ax = a[0] if a[2] or a[0].startswith("(") or "|" not in a[0] else "(" + a[0] + ")"
        bx = b[0] if b[2] or b[0].startswith("(") or "|" not in b[0] else "(" + b[0] + ")"
        if "|" in ax and not a[2]: ax = "(" + a[0] + ")"
        if "|" in bx and not b[2]: bx = "(" + b[0] + ")"
        return ax + bx, a[1] + "," + b[1] + ",.", False
    if k < 72:
        a = gen_re(r, depth - 1); b = gen_re(r, depth - 1)
        return "(" + a[0] + "|" + b[0] + ")", a[1] + "," + b[1] + ",|", True
    a = gen_re(r, depth - 1)
    ax = a[0] if a[2] else "(" + a[0] + ")"
    q = r.below(9)
    if q == 0: return ax + "*", a[1] + ",*", False
    if q == 1: return ax + "+", a[1] + ",+", False
    if q == 2: return ax + "?", a[1] + ",?", False
    if q == 3:
        n = r.below(4); return ax + "{%d}" % n, a[1] + ",r:%d:%d" % (n, n), False
    if q == 4:
        n = r.below(3); return ax + "{%d,}" % n, a[1] + ",r:%d:" % n, False
    if q in (5, 6):
        n = r.below(3); m = n + r.below(3); return ax + "{%d,%d}" % (n, m), a[1] + ",r:%d:%d" % (n, m), False
    if q == 7:
        return "(" + ax + "*)*", a[1] + ",*,*", False
    return "(" + ax + "?)+", a[1] + ",?,+", False

def rpn_hazard(rpn):
    """True when an unbounded repetition (*, +, {n,}) is applied to a nullable sub-expression."""
    st = []; hz = False
    for t in rpn.split(","):
        if t[:2] in ("c:", "n:"): st.append(False)
        elif t == "e": st.append(True)
        elif t == ".": b = st.pop(); a = st.pop(); st.append(a and b)
        elif t == "|": b = st.pop(); a = st.pop(); st.append(a or b)
        elif t in ("*", "+"):
            a = st.pop(); hz = hz or a; st.append(True if t == "*" else a)
        elif t == "?": st.pop(); st.append(True)
        elif t.startswith("r:"):
            _, n, m = t.split(":"); a = st.pop()
            if m == "": hz = hz or a
            st.append(a or n == "0")
    return hz

def all_strings(maxlen, alpha="abcx"):
    out = [""]
    for n in range(1, maxlen + 1):
        out += ["".join(t) for t in itertools.product(alpha, repeat=n)]
    return out

FIXED_RE = [("[a-d]*[^x]", "c:61-64,*,n:78-78,."), ("[ab]*[^xy]", "c:61-62,*,n:78-79,."), ("(ab|a|bc)*", "c:61-61,c:62-62,.,c:61-61,|,c:62-62,c:63-63,.,|,*"), ("(b*)*c", "c:62-62,*,*,c:63-63,."), ("[g-tj-z]", "c:67-7a"), ("[a-cb-z]", "c:61-7a"), ("[b-da-a]", "c:61-64"), ("[a-cx-za-b]", "c:61-63.78-7a"),
            ("[m-pn-qa-z]", "c:61-7a"), ("(a|ab)(c|bcd)?", "c:61-61,c:61-61,c:62-62,.,|,c:63-63,c:62-62,c:63-63,.,c:64-64,.,|,?,."),
            ("(a*)*b", "c:61-61,*,*,c:62-62,."), ("(a|b)*abb", "c:61-61,c:62-62,|,*,c:61-61,.,c:62-62,.,c:62-62,.")]
FIXED_STR = ["x", "y", "g", "t", "u", "z", "a", "c", "d", "m", "q", "ab", "abc", "abcd", "abb", "aabb", "b", "aab", ""]

MALFORMED = ["(", ")", "a)", "(a", "[", "[a", "a{2,1}", "[z-a]", "a{", "a{2", "\\", "*a", "+", "?", "a|*", "[]", "[a-]-]", "\\q",
             "a{,2}", "[a-\\d]", "(?a)", "\\p{Foo}", "\\p{", "[^]", "a{1,2,3}"]

def gen_regex_cases(ctx):
    r = ctx.rng
    lines = []
    strs = all_strings(4)
    n = 2500 if ctx.thorough() else 260
    seen = set(); seen_rpn = {}
    for _ in range(n):
        x, rpn, _ = gen_re(r, 1 + r.below(4))
        if x in seen: continue
        if rpn_hazard(rpn):
            # unbounded repetition of a nullable sub-expression: recorded known finding (stack overflow in the
            # backtracking matcher); the fixed witness (b*)*c below keeps it under observation
            ctx.stats["hazard_patterns_skipped"] = ctx.stats.get("hazard_patterns_skipped", 0) + 1
            continue
        seen.add(x); seen_rpn[x] = rpn
        ss = strs if len(seen) % 3 == 0 or ctx.thorough() else [s for s in strs if len(s) <= 3]
        for s in ss:
            lines.append(("M %s %s" % (hexs(x), hexs(s)), "M %s %s" % (rpn, hexs(s)), x, s))
        for _ in range(3):
            s = "".join(r.choice("abcabcx") for _ in range(r.choice([6, 9, 40, 300, 600])))
            lines.append(("M %s %s" % (hexs(x), hexs(s)), "M %s %s" % (rpn, hexs(s)), x, s))
    for x, rpn in FIXED_RE:
        for s in FIXED_STR:
            lines.append(("M %s %s" % (hexs(x), hexs(s)), "M %s %s" % (rpn, hexs(s)), x, s))
    # XPath-flavoured (non-schema) mode: matches() is an unanchored search; the answer must not depend on the
    # optimisation options (F = no fixed-string/Boyer-Moore prefilter, H = no head-character prefilter).
    ANY = "c:0-10ffff,*"
    GREEK = {"a": "\u03b1", "b": "\u03b2", "c": "1", "x": "x"}
    nsearch = 0
    for x in list(seen):
        if "-[" in x or nsearch >= (400 if ctx.thorough() else 60):
            continue
        rpn = seen_rpn[x]
        variants = [(x, rpn, None)]
        if "[" not in x and "." not in x:
            gx = "".join(GREEK.get(ch, ch) for ch in x)
            def gtok(t):
                if t.startswith("c:"):
                    ch = chr(int(t[2:].split("-")[0], 16))
                    if ch in GREEK:
                        return "c:%x-%x" % (ord(GREEK[ch]), ord(GREEK[ch]))
                return t
            grpn = ",".join(gtok(t) for t in rpn.split(","))
            variants.append((gx, grpn, GREEK))
        nsearch += 1
        for vx, vrpn, mp in variants:
            srpn = ANY + "," + vrpn + ",.," + ANY + ",."
            ss = [s for s in strs if len(s) <= 3] + ["".join(r.choice("abcx") for _ in range(r.choice([5, 6, 12]))) for _ in range(6)]
            for s in ss:
                vs = "".join(mp.get(ch, ch) for ch in s) if mp else s
                for opt in ("-", "F", "H", "FH"):
                    lines.append(("M %s %s %s" % (hexs(vx), hexs(vs), opt), "M %s %s" % (srpn, hexs(vs)), vx + " /" + opt, vs))
    for lit in ["\u03b1\u03b2", "[0-9]+\u03b1\u03b2", "x?\u03b2\u03b11", "\u03b1\u03b2[x1]", "ab", "abc", "b+abc"]:
        lrpn = {"\u03b1\u03b2": "c:3b1-3b1,c:3b2-3b2,.", "[0-9]+\u03b1\u03b2": "c:30-39,+,c:3b1-3b1,.,c:3b2-3b2,.",
                "x?\u03b2\u03b11": "c:78-78,?,c:3b2-3b2,.,c:3b1-3b1,.,c:31-31,.", "\u03b1\u03b2[x1]": "c:3b1-3b1,c:3b2-3b2,.,c:31-31.78-78,.",
                "ab": "c:61-61,c:62-62,.", "abc": "c:61-61,c:62-62,.,c:63-63,.", "b+abc": "c:62-62,+,c:61-61,.,c:62-62,.,c:63-63,."}[lit]
        alpha = "1x\u03b1\u03b2" if "\u03b1" in lit else "abcx"
        srpn = ANY + "," + lrpn + ",.," + ANY + ",."
        for s in all_strings(5 if ctx.thorough() else 4, alpha):
            for opt in ("-", "F", "H", "FH"):
                lines.append(("M %s %s %s" % (hexs(lit), hexs(s), opt), "M %s %s" % (srpn, hexs(s)), lit + " /" + opt, s))
    return lines, len(seen) + len(FIXED_RE)

def run_regex(ctx):
    cases, nre = gen_regex_cases(ctx)
    impl_in = [c[0] for c in cases]
    model_in = [c[1] for c in cases]
    m = common.run_driver(["regex"], input=("\n".join(model_in) + "\n").encode()).decode().split("\n")
    i, crashes = common.run_lines_resilient("hx_regex", impl_in, env=FASTCRASH)
    ctx.stats["regex_crashes"] = len(crashes)
    bad = {}; gen_mism = []
    for k, c in enumerate(cases):
        mo, io = m[k], (i[k] if k < len(i) else "NO-OUTPUT")
        if mo == "bad-op":
            raise common.InfraError("model rejected generated regex " + c[1])
        if mo != io and io.startswith("CRASH"):
            key = "regex-crash-unbounded-repeat-of-nullable" if rpn_hazard(c[1].split()[1]) and "stack-overflow" in io else "regex-crash"
            if key not in bad or len(c[2]) + len(c[3]) < len(bad[key][2]) + len(bad[key][3]):
                bad[key] = (mo, io, c[2], c[3])
        elif mo != io and io in ("0", "1") and (c[2].endswith(" /-") or c[2].endswith(" /F")):
            gen_mism.append((k, c))           # general mode without option H: judged below
        elif mo != io:
            key = "regex-overlapping-class-ranges" if c[2] in dict(FIXED_RE) and c[2].startswith("[") else "regex-match:" + ("parse" if io.startswith("exc") else "verdict")
            if key not in bad or len(c[2]) + len(c[3]) < len(bad[key][2]) + len(bad[key][3]):
                bad[key] = (mo, io, c[2], c[3])
    # general-mode mismatches that disappear when option H switches the head-character optimisation off are one defect
    # (Token::analyzeFirstCharacter) and get their own category; anything else stays a verdict violation
    hc = head_char_explains([(c[2].rsplit(" /", 1)[0], c[3], c[2].rsplit(" /", 1)[1], m[k]) for k, c in gen_mism[:400]])
    ctx.stats["head_character_cases"] = len(hc)
    for n, (k, c) in enumerate(gen_mism[:400]):
        key = "regex-head-character-optimisation" if n in hc else "regex-match:verdict"
        if key not in bad or len(c[2]) + len(c[3]) < len(bad[key][2]) + len(bad[key][3]):
            bad[key] = (m[k], i[k], c[2], c[3])
    # second pass: a false negative that disappears when an explicit end sentinel forces the continuation to fail
    # away from the end of the string is the recorded "first match is not backtracked to the end" defect
    mism = [(k, c) for k, c in enumerate(cases) if m[k] == "1" and i[k] == "0" and " /" not in c[2]]   # schema mode only
    if mism:
        probe = ["M %s %s" % (hexs("(" + c[2] + ")#"), hexs(c[3] + "#")) for _, c in mism[:300]]
        po, _ = common.run_lines_resilient("hx_regex", probe, env=FASTCRASH)
        n_known = 0
        for (k, c), o in zip(mism[:300], po):
            if o == "1":
                n_known += 1
                key = "regex-schema-mode-first-match-not-backtracked"
                if key not in bad or len(c[2]) + len(c[3]) < len(bad[key][2]) + len(bad[key][3]):
                    bad[key] = ("1", "0", c[2], c[3])
        ctx.stats["first_match_not_backtracked_cases"] = n_known
        if n_known == len(mism):
            bad.pop("regex-match:verdict", None)
        else:
            for (k, c), o in zip(mism[:300], po):
                if o != "1":
                    bad["regex-match:verdict"] = ("1", "0", c[2], c[3]); break
    for key, (mo, io, x, s) in bad.items():
        ctx.violations.append({"key": key, "concrete": True,
            "what": "RegularExpression(%r, %s).matches(%r) = %s but the language semantics (proved matcher) says %s" % (
                x.rsplit(" /", 1)[0], mode_name(x.rsplit(" /", 1)[1]) + " (unanchored search)" if " /" in x else "schema mode", s, io, mo),
            "replay": {"op": "M", "pattern": x.rsplit(" /", 1)[0], "string": s, "options": x.rsplit(" /", 1)[1] if " /" in x else "X", "impl": io, "spec": mo}})
    ctx.stats["regexes"] = nre
    ctx.stats["regex_cases"] = len(cases)
    ctx.samples.append({"pattern": cases[len(cases) // 2][2], "string": cases[len(cases) // 2][3], "impl": i[len(cases) // 2], "model": m[len(cases) // 2]})
    # malformed patterns (Spec = XSD regex grammar; no model, correspondence only)
    pm = common.run_harness("hx_regex", input=("\n".join("M %s %s" % (hexs(x), hexs("a")) for x in MALFORMED) + "\n").encode())
    outs = pm.stdout.decode().split("\n")
    for x, o in zip(MALFORMED, outs):
        if not o.startswith("exc ParseException"):
            ctx.violations.append({"key": "regex-malformed-accepted:" + x, "concrete": True,
                "what": "malformed pattern %r not rejected with ParseException (got %s)" % (x, o),
                "replay": {"op": "M", "pattern": x, "string": "a", "impl": o, "spec": "exc ParseException"}})
    ctx.stats["malformed_patterns"] = len(MALFORMED)
    return len(cases) + len(MALFORMED)

# ------------------------------------------------------------------ shared: spec evaluation and judging
ANY = "c:0-10ffff,*"

def spec_eval(pairs):
    """pairs: iterable of (rpn, subject) -> dict (rpn, subject) -> '1' / '0' (Lean derivative matcher, proved = language)"""
    uniq = sorted(set(pairs))
    if not uniq: return {}
    out = common.run_driver(["regex"], input=("\n".join("M %s %s" % (p, hexs(s)) for p, s in uniq) + "\n").encode()).decode().split("\n")
    res = {}
    for (p, s), o in zip(uniq, out):
        if o not in ("0", "1"):
            raise common.InfraError("Spec driver rejected %s on %r: %s" % (p, s, o))
        res[(p, s)] = o
    return res

def known_first_match(cands):
    """cands: list of (pattern, subject) false negatives in schema mode.  Returns the set of indices that are the recorded
    'first match is not backtracked to the end' defect: the same expression followed by an end sentinel accepts."""
    if not cands: return set()
    probe = ["M %s %s" % (hexs("(" + x + ")#"), hexs(s + "#")) for x, s in cands]
    po, _ = common.run_lines_resilient("hx_regex", probe, env=FASTCRASH)
    return {k for k, o in enumerate(po) if o == "1"}

def keep_smallest(bad, key, item):
    """item = (spec, impl, pattern, subject, options, rpn, note)"""
    if key not in bad or len(item[2]) + len(item[3]) < len(bad[key][2]) + len(bad[key][3]):
        bad[key] = item

def mode_name(opt):
    return "schema mode" if opt == "X" else "options %r" % ("" if opt == "-" else opt)

def emit(ctx, bad):
    for key, (so, io, x, s, opt, rpn, note) in bad.items():
        shown = s if len(s) <= 80 else s[:30] + "...(%d chars)..." % len(s) + s[-30:]
        ctx.violations.append({"key": key, "concrete": True,
            "what": "RegularExpression(%r, %s)%s gives %s but %s requires %s%s" % (
                x, mode_name(opt), "" if so.startswith("exc") and s == "" else ".matches(%r)" % shown, io,
                "XML Schema Datatypes Appendix F" if so.startswith("exc") else "the language semantics (proved matcher)", so,
                ("; " + note) if note else ""),
            "replay": {"op": "M", "pattern": x, "string": s, "options": opt, "rpn": rpn, "impl": io, "spec": so}})

# ------------------------------------------------------------------ long subjects (explicit-stack path of match())
LONG_PADS = ["y*", "[yz]*", "(y|z)*", "(yz)*", ".*", "y+", "y{2,}", "[^a-x]*", "(y)*", "(x{1,2}(b|c))*", "(w{0,2}b?c)*"]
LONG_ATOMS = ["x", "[xw]", "(xw)", "(x|w)", "(x)", "."]
LONG_TAILS = ["(b|c)", "z?", "(b)", "(bc)?", "(b|c)d", "b?c", "(b|cd)", "(b|c)?d?", "(b|(c|d))", "(b|c)(d|a)?", "(b)(c)?", "(b?)",
              "[bc]", "b", "", "(b|c){1,2}", "(b|c)*d"]
LONG_LENS = [40, 255, 259, 300, 511, 512, 513, 600]

def xsd_ast(text):
    v = XSD.parse(text)
    if v[0] != "ok": raise common.InfraError("generator produced %r, oracle says %s" % (text, v))
    return v[1]

def gen_long_pattern(r):
    pre = r.choice(LONG_PADS) if r.chance(3, 4) else ""
    post = r.choice(LONG_PADS[:9]) if (pre == "" or r.chance(1, 3)) else ""
    atom = r.choice(LONG_ATOMS)
    q = r.below(100)
    if q < 72:
        n = r.below(4); quant = "{%d,%d}" % (n, n + 1 + r.below(3))
    elif q < 79: quant = "{%d}" % (1 + r.below(3))
    elif q < 86: quant = "{%d,}" % r.below(3)
    else: quant = r.choice(["?", "*", "+"])
    core = atom + quant
    tail = r.choice(LONG_TAILS[:12]) if r.chance(3, 4) else r.choice(LONG_TAILS)
    style = r.below(4)
    if style == 1: text = "(" + pre + core + ")" + tail + post
    elif style == 2: text = pre + "(" + core + tail + ")" + post
    else: text = pre + core + tail + post
    return text, (pre, core, tail, post)

def fill_pad(ast, r, budget):
    """as many copies of the pad body as fit into `budget` characters (at least its minimum count)"""
    if ast[0] != "rep": return ""
    out = ""; cnt = 0
    simple = ast[1][0] in ("cls",) or (ast[1][0] == "grp" and ast[1][1][0] in ("cls", "alt"))
    while True:
        u = XSD.sample(ast[1], r, None, "yz" if simple else "abcxyzw")
        if u == "" or (len(out) + len(u) > budget and cnt >= ast[2]): break
        out += u; cnt += 1
    return out

def build_subject(r, parts, asts, L, j, wrong, corrupt):
    pre, core, tail, post = asts
    cs = XSD.sample(core, r, j)
    ts = wrong if wrong is not None else XSD.sample(tail, r)
    rest = max(0, L - len(cs) - len(ts))
    if parts[0] and parts[3]:
        a = r.choice([rest, rest // 2, 3, max(0, rest - 3), 0])
    else:
        a = rest if parts[0] else 0
    ps = fill_pad(pre, r, a)
    qs = fill_pad(post, r, rest - len(ps))
    if corrupt and (ps or qs):
        if ps and (not qs or r.chance(1, 2)):
            k = r.below(len(ps)); ps = ps[:k] + "q" + ps[k + 1:]
        else:
            k = r.below(len(qs)); qs = qs[:k] + "q" + qs[k + 1:]
    return ps + cs + ts + qs

def head_char_explains(cands):
    """cands: (pattern, subject, options, spec) mismatches in the general mode without option H.  Returns the indices where
    adding H (PROHIBIT_HEAD_CHARACTER_OPTIMIZATION) alone restores the answer the language requires."""
    if not cands: return set()
    probe = ["M %s %s %s" % (hexs(x), hexs(s), (opt if opt != "-" else "") + "H") for x, s, opt, _ in cands]
    po, _ = common.run_lines_resilient("hx_regex", probe, env=FASTCRASH)
    return {k for k, o in enumerate(po) if o == cands[k][3]}

def run_long(ctx):
    """Subjects longer than 256 UTF-16 units take the explicit-stack branch of RegularExpression::match (closures and
    optional copies of {n,m} are pushed instead of recursed into).  The per-case cost of the sanitizer build is ~linear in the
    subject, so the quick tier spends its budget on the window 256..258 and one longer length per expression."""
    r = ctx.rng
    full = ctx.thorough()
    npat = 60 if full else 24
    seen = set(); cases = []      # (impl line, rpn, subject, pattern text, options)
    fixed = [("y*x{1,3}(b|c)", ("y*", "x{1,3}", "(b|c)", "")), ("x{1,3}(b|c)y*", ("", "x{1,3}", "(b|c)", "y*")),
             ("y*x{2,4}z?", ("y*", "x{2,4}", "z?", ""))]
    pats = list(fixed)
    while len(pats) < npat + len(fixed):
        pats.append(gen_long_pattern(r))
    def add(text, opt, rpn, s):
        cases.append(("M %s %s %s" % (hexs(text), hexs(s), opt), rpn, s, text, opt))
    for text, parts in pats:
        if text in seen: continue
        seen.add(text)
        whole = xsd_ast(text)
        if XSD.hazard(whole)[1]: continue
        rpn = XSD.ast_rpn(whole)
        srpn = ANY + "," + rpn + ",.," + ANY + ",."
        asts = [xsd_ast(p) for p in parts]
        core = asts[1]
        n, m = core[2], core[3]
        top = (m if m is not None else n + 3) + 1
        js = list(range(0, min(top, 5) + 1))
        hi = min(top - 1, 5)
        L2 = [r.choice([256, 258, 258, 259, 300, 511, 512, 513, 600])] + ([r.choice(LONG_LENS)] if full else [])
        for L in [257] + L2:
            if L == 257 or full:
                variants = [(j, None, False) for j in js]
                variants.append((r.choice(js), r.choice(["", "a", "bb", "cb", "x"]), False))
                variants.append((min(max(n, 1), top), None, True))
            else:
                variants = [(j, None, False) for j in sorted({n, hi, top})]
            for j, wrong, corrupt in variants:
                s = build_subject(r, parts, asts, L, j, wrong, corrupt)
                add(text, "X", rpn, s)
                add("^" + text + "$", "-", rpn, s)
                if full or (L == 257 and wrong is None and not corrupt and j in (hi, top)):
                    for opt in ("F", "H", "FH"):
                        add("^" + text + "$", opt, rpn, s)
                    for opt in (("-", "FH") if full else ("-",)):
                        add(text, opt, srpn, s)
        # the same core and tail without a closure around them: unanchored search in a long haystack
        bare = "a" + parts[1] + parts[2]
        brpn = XSD.ast_rpn(xsd_ast(bare))
        bsrpn = ANY + "," + brpn + ",.," + ANY + ",."
        for L in [257] + ([r.choice([256, 258, 300, 512, 513, 600])] if full else []):
            for j in js:
                mid = "a" + XSD.sample(core, r, j) + XSD.sample(asts[2], r)
                k = r.choice([0, 1, (L - len(mid)) // 2, L - len(mid) - 1, L - len(mid)])
                s = "q" * k + mid + "q" * max(0, L - len(mid) - k)
                for opt in (("-", "F", "H", "FH") if full else ("-", "FH")):
                    add(bare, opt, bsrpn, s)
    spec = spec_eval((c[1], c[2]) for c in cases)
    io, crashes = common.run_lines_resilient("hx_regex", [c[0] for c in cases], env=FASTCRASH)
    bad = {}; fneg = []; gen = []
    nin = 0
    for c, o in zip(cases, io):
        so = spec[(c[1], c[2])]
        nin += so == "1"
        if o == so: continue
        item = (so, o, c[3], c[2], c[4], c[1], "subject length %d" % len(c[2]))
        if o.startswith("CRASH"): keep_smallest(bad, "regex-crash", item)
        elif o.startswith("exc"): keep_smallest(bad, "regex-syntax:wellformed-rejected", item)
        elif c[4] == "X" and so == "1" and o == "0": fneg.append(item)
        elif c[4] != "X" and "H" not in c[4]: gen.append(item)
        else: keep_smallest(bad, "regex-long-subject:verdict", item)
    known = known_first_match([(it[2], it[3]) for it in fneg[:400]])
    for k, it in enumerate(fneg[:400]):
        keep_smallest(bad, "regex-schema-mode-first-match-not-backtracked" if k in known else "regex-long-subject:verdict", it)
    headc = head_char_explains([(it[2], it[3], it[4], it[0]) for it in gen[:400]])
    for k, it in enumerate(gen[:400]):
        if k in headc:
            keep_smallest(bad, "regex-head-character-optimisation", it[:6] + (it[6] + "; with option H added (no head-character optimisation) the answer is " + it[0],))
        else:
            keep_smallest(bad, "regex-long-subject:verdict", it)
    emit(ctx, bad)
    ctx.stats["long_subject_patterns"] = len(seen)
    ctx.stats["long_subject_cases"] = len(cases)
    ctx.stats["long_subject_in_language"] = nin
    ctx.stats["long_subject_spec_evaluations"] = len(spec)
    ctx.stats["long_subject_first_match_known"] = len(known)
    ctx.stats["long_subject_head_character_cases"] = len(headc)
    mid = cases[len(cases) // 3]
    ctx.samples.append({"long_pattern": mid[3], "options": mid[4], "subject_length": len(mid[2]), "spec": spec[(mid[1], mid[2])]})
    return len(cases)

# ------------------------------------------------------------------ malformed / edge syntax against the Appendix F oracle
QGRID = [0, 1, 2, 3, 4, 7, 12]
QATOMS = [("a", ["a"]), ("[ab]", ["a", "b"]), ("(ab)", ["ab"]), ("(a|b)", ["a", "b"])]
CURATED = ["[-]", "[^-]", "[-]+a", "[--]", "[a-b-c]", "[\\d-a]", "[\\s-a]", "[a-c-e]", "\\1", "(a)\\1", "a{1,0}", "a{2,0}", "(ab){3,0}", "[ab]{7,0}", "a{12,0}", "a{0,0}", "a{0}", "a{1}", "a{,1}", "a{,}", "a{}", "a{1,}", "a{0,}",
    "a{1,2", "a{1", "a{", "a}", "a{1}}", "a{{1}", "{1}", "{", "}", "a{1,2,3}", "a{1, 2}", "a{ 1}", "a{1 }", "a{-1}", "a{+1}", "a{1,-2}", "a{01,02}", "a{00}",
    "a{1}{2}", "a{1}*", "a**", "a*?", "a+?", "a??", "a?*", "a*+", "a{1,2}?", "a{2,1}", "a{3,2}", "(a{2,1})", "a{10,9}", "a|*", "(*a)", "(+)", "|", "a|", "|a", "a||b",
    "(|)", "()", "(a|)", "(|a)b", "(a", "a)", "((a)", "(a))", ")(", "(", ")", "[", "]", "a]", "[a", "[]", "[^]", "[a-]", "[-a]", "[^-a]", "[a-b-c]",
    "[z-a]", "[b-a]", "[a-a]", "[\\d-a]", "[a-\\d]", "[a-\\s]", "[a-[b]]", "[a-c-[b]]", "[a-c-[b]", "[a-c-[b]c]", "[a-c-[^b]]", "[^a-c-[b]]", "[a[b]]", "[a-c-[]]",
    "[\\-a]", "[a\\]]", "[\\^a]", "[a^]", "[{}]", "[.]", "[*+?|()]", "[a,b]", "[\\s]", "[^\\s]", "[\\n-\\r]", "[\\r-\\n]",
    "\\", "a\\", "\\q", "\\a", "\\1", "\\e", "\\x41", "\\u0041", "\\$", "\\,", "\\ ", "\\Q", "\\b", "\\B", "\\A", "\\z", "\\<", "\\>",
    "\\.", "\\\\", "\\{", "\\}", "\\-", "\\[", "\\]", "\\^", "\\|", "\\?", "\\*", "\\+", "\\(", "\\)", "\\n", "\\t", "\\r", "\\s", "\\S", "\\s+a", "\\d", "\\w", "\\i\\c*",
    "\\p{L}", "\\p{Lu}", "\\P{Nd}", "\\p{IsBasicLatin}", "\\p{Foo}", "\\p{", "\\p{L", "\\p", "\\pL", "\\p{}", "\\p{l}", "\\p{LL}", "\\P{", "\\P{Foo}",
    "[\\p{L}]", "[\\p{Foo}]", "[\\p{L]", "*", "+", "?", "*a", "+a", "?a", "(?a)", "(?:a)", "(?=a)", "(?#a)", "^a$", "a$", "^", "$", "a^b", ".", "a.b", "-", "a-b", ",",
    "a{2}b{0,1}", "(a{2}){2}", "(a|b){0,2}b", "a{0,0}b", "(ab){0}", "[ab]{0,0}c?"]
# hand-stated verdicts (from reading Appendix F) that the oracle itself must reproduce: guards the oracle against its own bugs
ORACLE_SELFTEST = [("a{1,0}", "rej"), ("a{0,0}", "ok"), ("a{,1}", "rej"), ("a{1,}", "ok"), ("a{2,1}", "rej"), ("a{1", "rej"), ("a**", "rej"), ("a|", "ok"),
    ("()", "ok"), ("(a", "rej"), ("a)", "rej"), ("[z-a]", "rej"), ("[a-]", "ok"), ("[-a]", "ok"), ("[]", "rej"), ("[^]", "rej"), ("[a-\\d]", "rej"),
    ("[a-c-[b]]", "ok"), ("\\q", "rej"), ("\\p{Foo}", "rej"), ("\\p{", "rej"), ("\\p{L}", "ok"), ("*", "rej"), ("a{1}{2}", "rej"), ("a{01,02}", "ok"),
    ("[a-b-c]", "rej"), ("[\\d-a]", "rej"), ("[^^]", "unk"), ("\\p{IsFoo}", "unk"), ("a]", "rej"), ("a{1, 2}", "rej"), ("\\-", "ok"), ("a-b", "ok"), ("^a$", "ok")]

EDGE_ATOMS = ["a", "b", "a", "b", "-", ",", "^", "$", "\\.", "\\\\", "\\{", "\\}", "\\-", "\\[", "\\]", "\\^", "\\|", "\\?", "\\*", "\\+", "\\(", "\\)",
    "\\n", "\\t", "\\s", "\\S", "\\d", "\\p{L}", "\\P{Nd}", ".", "[ab]", "[a-c]", "[^a]", "[-a]", "[a-]", "[\\-a]", "[a\\]]", "[\\^a]", "[a^]", "[a-c-[b]]",
    "[^a-[b]]", "[\\s]", "[{}]", "[.]", "[*+?|()]", "[a,b]", "()", "(|a)", "(a|)", "(a||b)"]
EDGE_QUANT = ["?", "*", "+", "{0}", "{1}", "{2}", "{0,}", "{1,}", "{2,}", "{0,0}", "{0,1}", "{1,1}", "{0,2}", "{1,3}", "{2,2}", "{00,1}", "{1,02}"]
EDGE_INSERT = list("(){}[]|*+?\\,-^012ab.") + ["{1,0}", "{2,1}", "{,1}", "\\p{", "{0,0}", "[b-a]"]

def gen_edge(r, depth):
    k = r.below(100)
    if depth == 0 or k < 35:
        return r.choice(EDGE_ATOMS)
    if k < 55:
        return gen_edge(r, depth - 1) + gen_edge(r, depth - 1)
    if k < 65:
        return "(" + gen_edge(r, depth - 1) + "|" + gen_edge(r, depth - 1) + ")"
    if k < 72:
        return "(" + gen_edge(r, depth - 1) + ")"
    a = gen_edge(r, depth - 1)
    v = XSD.parse(a)
    single = v[0] == "ok" and v[1][0] in ("cls", "grp", "opaque")
    return (a if single else "(" + a + ")") + r.choice(EDGE_QUANT)

def mutate(r, s):
    for _ in range(r.below(3)):
        if not s: break
        k = r.below(len(s)); c = r.below(4)
        if c == 0: s = s[:k] + s[k + 1:]
        elif c == 1: s = s[:k] + r.choice(EDGE_INSERT) + s[k:]
        elif c == 2: s = s[:k] + s[k] + s[k:]
        elif k + 1 < len(s): s = s[:k] + s[k + 1] + s[k] + s[k + 2:]
    return s

SPECIALS = "-,^$.{}[]|?*+()\\ \n\t0"
def edge_subjects(r, text, ast):
    alpha = ["a", "b"] + [c for c in SPECIALS if c in text or (c == "\n" and "\\n" in text) or (c == "\t" and "\\t" in text) or (c == " " and "\\s" in text)][:3]
    ss = all_strings(2, alpha)
    for _ in range(6):
        ss.append(XSD.sample(ast, r, None, "ab" + "".join(alpha[2:])))
    ss += ["aab", "aba", "bab", "aaaa"]
    return sorted(set(ss))

def rejected_key(text):
    """category of a well-formed expression the constructor refuses (narrow, so that a recorded deviation masks nothing else)"""
    import re
    if re.search(r"\[\^?-\]", text): return "regex-syntax:wellformed-rejected:class-lone-dash"
    return "regex-syntax:wellformed-rejected"

def general_mode_claim(text, verdict):
    """what may be claimed for the general (non-schema) syntax: only dialect-independent rejections on texts that use no
    class, escape or (? construct before the error"""
    if verdict[0] != "rej" or verdict[1] not in ("quantifier-min-gt-max", "paren"): return False
    return not any(t in text for t in ("[", "]", "\\", "(?"))

def run_syntax(ctx):
    r = ctx.rng
    for text, want in ORACLE_SELFTEST:
        if XSD.parse(text)[0] != want:
            raise common.InfraError("Appendix F oracle self-test: %r judged %s, stated %s" % (text, XSD.parse(text), want))
    cases = []    # (impl line, expectation, rpn or None, subject, pattern, options, category)
    def add_reject(text, opt, cat):
        cases.append(("M %s %s %s" % (hexs(text), hexs("a"), opt), "exc ParseException", None, "a", text, opt, cat))
    def add_accept(text, opt, rpn, s):
        cases.append(("M %s %s %s" % (hexs(text), hexs(s), opt), None, rpn, s, text, opt, None))
    # (A) quantifier grid, both dialects
    grid = 0
    for atom, units in QATOMS:
        forms = [("{%d,%d}" % (n, m), n, m) for n in QGRID for m in QGRID] + [("{%d}" % n, n, n) for n in QGRID] + [("{%d,}" % n, n, None) for n in QGRID]
        for q, n, m in forms:
            text = atom + q; grid += 1
            v = XSD.parse(text)
            if (m is not None and n > m) != (v == ("rej", "quantifier-min-gt-max")):
                raise common.InfraError("oracle disagrees with the grid on " + text)
            if v[0] == "rej":
                add_reject(text, "X", v[1]); add_reject(text, "-", v[1]); add_reject("^" + text + "$", "-", v[1]); add_reject("(" + text + ")b", "FH", v[1])
                continue
            rpn = XSD.ast_rpn(v[1])
            hi = m if m is not None else n + 4
            for j in sorted({0, n - 1, n, n + 1, hi - 1, hi, hi + 1, hi + 2} - {-1}):
                s = "".join(r.choice(units) for _ in range(j))
                add_accept(text, "X", rpn, s)
                add_accept("^" + text + "$", "-", rpn, s)
                if j in (n, hi + 1): add_accept("^" + text + "$", "FH", rpn, s)
            add_accept(text, "X", rpn, "a" * n + "x")
    # (A') a closure / counted repetition of '.' in front of a literal, general mode: the answer must not depend on the
    # head-character optimisation (option H switches it off)
    for text in [".{1}b", ".{1,2}b", "^.*b$", "^.{1,2}b$", "^(.)*b$", "^(a|.)*b$", "^.+b$", "^.?b$", "(.){2}b", "^[^c]*b$", "^a*.b$", "(a|.)b", "^(a|.)b$", "(a|b|.)a"]:
        inner = text.strip("^$")
        rpn = XSD.ast_rpn(xsd_ast(inner))
        if not (text.startswith("^") and text.endswith("$")):
            rpn = ANY + "," + rpn + ",.," + ANY + ",."
        for s in ["ab", "b", "aab", "abb", "ba", "a", "cab", ""]:
            for opt in ("-", "F", "H", "FH"):
                add_accept(text, opt, rpn, s)
    # (B) curated edge list and (C) mutated edge-syntax expressions, schema mode judged in full, general mode where unambiguous
    texts = list(CURATED)
    nrand = 3000 if ctx.thorough() else 260
    for _ in range(nrand):
        texts.append(mutate(r, gen_edge(r, 1 + r.below(3))))
    seen = set(); nrej = nok = nunk = nskip = 0
    cats = {}
    for text in texts:
        if text in seen: continue
        seen.add(text)
        v = XSD.parse(text)
        if v[0] == "unk": nunk += 1; continue
        if v[0] == "rej":
            nrej += 1; cats[v[1]] = cats.get(v[1], 0) + 1
            add_reject(text, "X", v[1])
            if general_mode_claim(text, v):
                add_reject(text, "-", v[1])
            continue
        if XSD.hazard(v[1])[1] or XSD.max_count(v[1]) > 12: nskip += 1; continue
        nok += 1
        rpn = XSD.ast_rpn(v[1])
        if rpn is None:
            cases.append(("M %s %s X" % (hexs(text), hexs("a")), "accepted", None, "a", text, "X", None))
            continue
        for s in edge_subjects(r, text, v[1]):
            add_accept(text, "X", rpn, s)
    spec = spec_eval((c[2], c[3]) for c in cases if c[1] is None)
    io, crashes = common.run_lines_resilient("hx_regex", [c[0] for c in cases], env=FASTCRASH)
    bad = {}; fneg = []; gen = []
    for c, o in zip(cases, io):
        line, exp, rpn, s, text, opt, cat = c
        if exp == "exc ParseException":
            if o == exp: continue
            key = "regex-crash" if o.startswith("CRASH") else ("regex-syntax:malformed-accepted:" + cat) if o in ("0", "1") else "regex-syntax:malformed-wrong-exception:" + o.split()[-1]
            keep_smallest(bad, key, (exp, o, text, "", opt, None, "not derivable from regExp: " + cat))
            continue
        if exp == "accepted":
            if o in ("0", "1"): continue
            keep_smallest(bad, "regex-crash" if o.startswith("CRASH") else rejected_key(text), ("accepted", o, text, "", opt, None, ""))
            continue
        so = spec[(rpn, s)]
        if o == so: continue
        item = (so, o, text, s, opt, rpn, "")
        if o.startswith("CRASH"): keep_smallest(bad, "regex-crash", item)
        elif o.startswith("exc"): keep_smallest(bad, rejected_key(text), item)
        elif opt == "X" and so == "1" and o == "0": fneg.append(item)
        elif opt != "X" and "H" not in opt: gen.append(item)
        else: keep_smallest(bad, "regex-syntax:language", item)
    known = known_first_match([(it[2], it[3]) for it in fneg[:400]])
    for k, it in enumerate(fneg[:400]):
        keep_smallest(bad, "regex-schema-mode-first-match-not-backtracked" if k in known else "regex-syntax:language", it)
    headc = head_char_explains([(it[2], it[3], it[4], it[0]) for it in gen[:400]])
    for k, it in enumerate(gen[:400]):
        if k in headc:
            keep_smallest(bad, "regex-head-character-optimisation", it[:6] + ("with option H added (no head-character optimisation) the answer is " + it[0],))
        else:
            keep_smallest(bad, "regex-syntax:language", it)
    emit(ctx, bad)
    ctx.stats["syntax_head_character_cases"] = len(headc)
    ctx.stats["syntax_quantifier_grid_patterns"] = grid
    ctx.stats["syntax_texts"] = len(seen)
    ctx.stats["syntax_oracle_reject"] = nrej
    ctx.stats["syntax_oracle_accept"] = nok
    ctx.stats["syntax_oracle_no_claim"] = nunk
    ctx.stats["syntax_skipped_known_hazard_or_large"] = nskip
    ctx.stats["syntax_reject_categories"] = cats
    ctx.stats["syntax_cases"] = len(cases)
    return len(cases)

def run_histories(ctx):
    r = ctx.rng
    n = 40000 if ctx.thorough() else 4000
    hs = [gen_history(r) for _ in range(n)]
    hs += [("H a,0,67,74;a,0,6a,7a;n,0 | 67 78 75", True), ("H a,0,61,63;a,0,62,7a | 79 61", True),
           ("H a,0,1,5;a,0,3,9;a,0,2,2;n,0 | 1 9 a", True)]
    lines = [h[0] for h in hs]
    m = common.run_driver(["regex"], input=("\n".join(lines) + "\n").encode()).decode().split("\n")
    i, crashes = common.run_lines_resilient("hx_regex", lines)
    ctx.stats["history_crashes"] = len(crashes)
    nbad = 0
    first_corr = None
    cats = {}
    for k, (line, disc) in enumerate(hs):
        exp = oracle_history(line) if disc else None
        io = i[k]
        if exp is not None and not io.startswith("exc") and " | " in io:
            got = parse_dump(io)
            qs = [int(q, 16) for q in line.split(" | ")[1].split()]
            mbits = io.split(" | ")[1].split()
            ok = all(norm(g) == e for g, e in zip(got, exp))
            okm = all(mbits[t][qi] == ("1" if any(a <= q <= b for a, b in exp[t]) else "0") for t in range(4) for qi, q in enumerate(qs))
            if not ok or not okm:
                nbad += 1
                ops = line.split(" | ")[0]
                key = "rangetoken-set-semantics" if not ok else "rangetoken-match"
                if key not in cats or len(line) < len(cats[key][0]):
                    cats[key] = (line, io, exp)
        elif exp is not None:
            cats.setdefault("rangetoken-crash" if io.startswith("CRASH") else "rangetoken-exception", (line, io, exp))
        if m[k] != io and first_corr is None:
            first_corr = (line, m[k], io)
    for key, (line, io, exp) in cats.items():
        ctx.violations.append({"key": key, "concrete": True,
            "what": "RangeToken history %s gives %s; set algebra requires %s" % (line, io, exp),
            "replay": {"op": "H", "line": line, "impl": io, "spec": exp}})
    if first_corr and not cats:
        ctx.violations.append({"key": "corr:rangetoken", "concrete": False,
            "what": "correspondence RangeToken model vs implementation no longer checks: %s model=%s impl=%s" % first_corr,
            "replay": {"correspondence": "rangetoken", "line": first_corr[0], "model": first_corr[1], "impl": first_corr[2]}})
    ctx.stats["histories"] = len(hs)
    ctx.stats["histories_spec_judged"] = sum(1 for h in hs if h[1])
    ctx.stats["history_set_violations"] = nbad
    ctx.samples.append({"history": lines[5], "impl": i[5], "model": m[5]})
    return len(hs)

def correspondence(ctx):
    a = run_histories(ctx)
    b = run_regex(ctx)
    c = run_long(ctx)
    d = run_syntax(ctx)
    ctx.stats["evaluations"] = a + b + c + d
    ctx.stats["distinct_nontrivial"] = (ctx.stats["histories"] + ctx.stats["regex_cases"] - ctx.stats["regexes"]
                                        + ctx.stats["long_subject_cases"] + ctx.stats["syntax_cases"])

_done = {}
def search(ctx, broken):
    # the correspondence above already judges the implementation by the Spec (set algebra / proved matcher);
    # a broken theorem adds no further input to try.
    return None

def replay(ctx, path):
    r = json.load(open(path))["replay"]
    if r.get("op") == "H":
        m, i, _ = common.run_pair("regex", "hx_regex", [r["line"]])
        print("case :", r["line"]); print("model:", m[0]); print("impl :", i[0]); print("spec :", oracle_history(r["line"]))
    elif r.get("op") == "M":
        opt = r.get("options", "X")
        p = common.run_harness("hx_regex", input=("M %s %s %s\n" % (hexs(r["pattern"]), hexs(r["string"]), opt)).encode())
        print("pattern:", r["pattern"], "options:", opt, "string:", repr(r["string"])); print("impl :", p.stdout.decode().strip())
        if r.get("rpn"):
            print("spec :", common.run_driver(["regex"], input=("M %s %s\n" % (r["rpn"], hexs(r["string"]))).encode()).decode().strip(), "(Lean matcher on", r["rpn"] + ")")
        else:
            print("spec :", r.get("spec"))
    else:
        print(json.dumps(r))
    return 0
