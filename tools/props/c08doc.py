"""C08 document tier: typed schema COMPONENT model, its printer renderXsd, its abstract description for the Lean Spec
(`xvdriver xsd`), instance generation (exhaustive child sequences, valid-by-construction, single-rule mutations),
schema mutations that must be reported at load time.  Used by tools/props/c08.py."""
import re

XS = "http://www.w3.org/2001/XMLSchema"
XSI = "http://www.w3.org/2001/XMLSchema-instance"
NSURI = {0: "", 1: "urn:a", 2: "urn:b", 3: "urn:c"}
PFX = {1: "a", 2: "b", 3: "c"}
STRING, ST1 = 900, 901          # simple types: xs:string, {urn:a}st1 = restriction of xs:string

# ----------------------------------------------------------------------------------------------- names
# local names are small integers in the abstract description; their text form is <letter><number>
def lname(n):
    return "n%d" % n

def vtext(v):
    return "v%d" % v

# ----------------------------------------------------------------------------------------------- component model
class Model:
    """decls  : element declarations. dict(ns, name, glob, type, vc, subst, abstract, block=(s,e,r), nillable, doc)
       ctypes : complex types. dict(id, name|None, ns, base|None, deriv, abstract, block=(e,r), kind E|S|O|M,
                own (particle AST or None), eff (effective particle AST or None), uses_own, uses_eff, wild_own, wild_eff, doc)
       leaves : ('d', declIndex) | ('w', nsc, pc)       nsc = ('a',) | ('o', ns) | ('l', [ns…])
       gattrs : global attribute declarations dict(ns, name, vc)
       particle AST: ('L', leaf, mn, mx) | ('G', 's'|'c', [kids], mn, mx) | ('A', [(leaf, optional)…], mn) | ('Z',)"""
    def __init__(self):
        self.decls, self.ctypes, self.leaves, self.gattrs = [], [], [], []
        self.form_qualified = True
        self.notes = []
    def decl(self, **kw):
        d = dict(ns=1, glob=True, type=STRING, vc=("n",), subst=None, abstract=False, block=(0, 0, 0), nillable=False, doc="a")
        d.update(kw)
        self.decls.append(d)
        return len(self.decls) - 1
    def ctype(self, **kw):
        c = dict(id=len(self.ctypes), name=None, ns=1, base=None, deriv="r", abstract=False, block=(0, 0), kind="E",
                 own=None, eff=None, uses_own=[], uses_eff=[], wild_own=None, wild_eff=None, doc="a", owner=None)
        c.update(kw)
        if c["eff"] is None and c["base"] is None:
            c["eff"] = c["own"]
        if not c["uses_eff"] and c["base"] is None:
            c["uses_eff"] = list(c["uses_own"])
        if c["wild_eff"] is None and c["base"] is None:
            c["wild_eff"] = c["wild_own"]
        self.ctypes.append(c)
        return c["id"]
    def leaf(self, l):
        if l in self.leaves:
            return self.leaves.index(l)
        self.leaves.append(l)
        return len(self.leaves) - 1
    def dleaf(self, k):
        return self.leaf(("d", k))
    def gdecl(self, ns, name):
        for k, d in enumerate(self.decls):
            if d["glob"] and d["ns"] == ns and d["name"] == name:
                return k
        return None
    def is_ct(self, t):
        return t < 900

def use(name, u="o", vc=("n",), ns=0):
    return dict(ns=ns, name=name, use=u, vc=vc)

# ----------------------------------------------------------------------------------------------- abstract description
def occ_s(mn, mx):
    return "" if (mn, mx) == (1, 1) else "{%d,%s}" % (mn, "u" if mx is None else mx)

def ptok(p):
    k = p[0]
    if k == "Z": return "z"
    if k == "L": return occ_s(p[2], p[3]) + "L%d;" % p[1]
    if k == "A": return occ_s(p[2], 1) + "a[" + ",".join("%d:%d" % (l, 1 if o else 0) for l, o in p[1]) + "]"
    kids = p[2]
    if not kids:
        return occ_s(p[3], p[4]) + "z"        # empty sequence / (empty choice never generated)
    if len(kids) == 1:
        # a group around one particle: nested ranges
        inner = ptok(kids[0])
        if (p[3], p[4]) == (1, 1): return inner
        if not inner.startswith("{"): return occ_s(p[3], p[4]) + inner
        return occ_s(p[3], p[4]) + p[1] + inner + "z" if p[1] == "s" else occ_s(p[3], p[4]) + "s" + inner + "z"
    s = ptok(kids[0])
    for j, c in enumerate(kids[1:]):
        last = j == len(kids) - 2
        s = (occ_s(p[3], p[4]) if last else "") + p[1] + s + ptok(c)
    return s

def vc_tok(vc):
    return "n" if vc[0] == "n" else "%s%d" % (vc[0], vc[1])

def nsc_tok(nsc):
    if nsc[0] == "a": return "a"
    if nsc[0] == "o": return "o%d" % nsc[1]
    return "l" + "".join(str(n) for n in nsc[1])

def blk3(b):
    return "".join("1" if x else "0" for x in b)

def schema_line(M):
    w = ["S"]
    types = [("T", STRING, "-", "r", 0, "000"), ("T", ST1, STRING, "r", 0, "000")]
    for c in M.ctypes:
        types.append(("T", c["id"], "-" if c["base"] is None else c["base"], c["deriv"], 1 if c["abstract"] else 0,
                      "0" + blk3(c["block"])))
    w += ["NT", str(len(types))]
    for t in types: w += [str(x) for x in t]
    w += ["NC", str(len(M.ctypes))]
    for c in M.ctypes:
        kind = c["kind"]
        if kind in "OM":
            content = kind + (ptok(c["eff"]) if c["eff"] is not None else "z")
        else:
            content = kind
        w += ["C", str(c["id"]), str(c["ns"]), "-" if c["name"] is None else str(c["name"]), content, str(len(c["uses_eff"]))]
        for u in c["uses_eff"]:
            w += [str(u["ns"]), str(u["name"]), u["use"], vc_tok(u["vc"])]
        w.append("-" if c["wild_eff"] is None else nsc_tok(c["wild_eff"][0]) + c["wild_eff"][1])
    w += ["ND", str(len(M.decls))]
    for d in M.decls:
        w += ["D", str(d["ns"]), str(d["name"]), "1" if d["glob"] else "0", str(d["type"]), vc_tok(d["vc"])]
        if d["subst"] is None: w += ["-", "-"]
        else: w += [str(d["subst"][0]), str(d["subst"][1])]
        w += ["1" if d["abstract"] else "0", blk3(d["block"]), "1" if d["nillable"] else "0"]
    w += ["NL", str(len(M.leaves))]
    for l in M.leaves:
        w += ["L", "d%d" % l[1] if l[0] == "d" else "w" + nsc_tok(l[1]) + l[2]]
    names = [(1, 9001, ST1)] + [(c["ns"], c["name"], c["id"]) for c in M.ctypes if c["name"] is not None]
    names.append((4, 1, STRING))           # xs:string, namespace id 4 = the XML Schema namespace
    w += ["NN", str(len(names))]
    for n in names: w += ["N", str(n[0]), str(n[1]), str(n[2])]
    w += ["NG", str(len(M.gattrs))]
    for g in M.gattrs: w += ["G", str(g["ns"]), str(g["name"]), vc_tok(g["vc"])]
    return " ".join(w)

def elem_line(e):
    w = []
    def go(x):
        w.extend(["E", str(x["eid"]), str(x["ns"]), str(x["name"]), str(len(x["attrs"]))])
        for (ns, nm, v) in x["attrs"]:
            w.extend([str(ns), str(nm), str(v)])
        w.append("-" if x.get("xsitype") is None else "%d:%d" % x["xsitype"])
        w.append("-" if x.get("nil") is None else ("1" if x["nil"] else "0"))
        w.append("-" if x.get("text") is None else str(x["text"]))
        w.append(str(len(x["kids"])))
        for c in x["kids"]:
            go(c)
    go(e)
    return "I " + " ".join(w)

# ----------------------------------------------------------------------------------------------- renderXsd
def qn(ns, name, doc_ns):
    """QName text for a reference from a schema document"""
    if ns == 0: return lname(name)
    return "%s:%s" % (PFX[ns], lname(name))

def type_ref(M, t):
    if t == STRING: return "xs:string"
    if t == ST1: return "a:st1"
    c = M.ctypes[t]
    return "%s:%s" % (PFX[c["ns"]], tname(c))

def tname(c):
    return "T%d" % c["name"]

def occ_attrs(mn, mx):
    s = ""
    if mn != 1: s += ' minOccurs="%d"' % mn
    if mx != 1: s += ' maxOccurs="%s"' % ("unbounded" if mx is None else mx)
    return s

def vc_attrs(vc):
    if vc[0] == "d": return ' default="%s"' % vtext(vc[1])
    if vc[0] == "f": return ' fixed="%s"' % vtext(vc[1])
    return ""

def ns_attr(nsc, tns):
    if nsc[0] == "a": return "##any"
    if nsc[0] == "o": return "##other"
    out = []
    for n in nsc[1]:
        out.append("##local" if n == 0 else ("##targetNamespace" if n == tns else NSURI[n]))
    return " ".join(out)

PCNAME = {"s": "strict", "l": "lax", "k": "skip"}

def block_attr(b3, what, mode=None, r=None):
    """mode None: the attribute is written iff the set is non-empty (schemas without blockDefault);
       'inherit': no attribute (the effective value is the schema's blockDefault);
       'explicit': always written — block="" overrides a blockDefault; the full set may be written #all"""
    if mode == "inherit":
        return ""
    names = [n for n, x in zip(what, b3) if x]
    if mode == "explicit":
        if len(names) == len(what) and r is not None and r.chance(1, 2):
            return ' block="#all"'
        return ' block="%s"' % " ".join(names)
    return ' block="%s"' % " ".join(names) if names else ""

class Render:
    def __init__(self, M, r):
        self.M, self.r = M, r
        self.groups = {}          # doc -> list of named model group texts
        self.attgroups = {}
        self.gcount = 0
    def particle(self, p, doc, tns, inner_types, top=False):
        M = self.M
        k = p[0]
        if k == "Z":
            return "<xs:sequence/>"
        if k == "L":
            l = M.leaves[p[1]]
            if l[0] == "w":
                return '<xs:any namespace="%s" processContents="%s"%s/>' % (ns_attr(l[1], tns), PCNAME[l[2]], occ_attrs(p[2], p[3]))
            d = M.decls[l[1]]
            if d["glob"]:
                return '<xs:element ref="%s"%s/>' % (qn(d["ns"], d["name"], tns), occ_attrs(p[2], p[3]))
            form = ""
            if d["ns"] == 0 and M.form_qualified: form = ' form="unqualified"'
            if d["ns"] != 0 and not M.form_qualified: form = ' form="qualified"'
            t = d["type"]
            if M.is_ct(t) and M.ctypes[t]["name"] is None:
                return '<xs:element name="%s"%s%s%s>%s</xs:element>' % (
                    lname(d["name"]), form, vc_attrs(d["vc"]), occ_attrs(p[2], p[3]), self.ctype_body(M.ctypes[t], doc, tns))
            return '<xs:element name="%s" type="%s"%s%s%s/>' % (lname(d["name"]), type_ref(M, t), form, vc_attrs(d["vc"]), occ_attrs(p[2], p[3]))
        if k == "A":
            s = "<xs:all%s>" % occ_attrs(p[2], 1)
            for l, o in p[1]:
                s += self.particle(("L", l, 0 if o else 1, 1), doc, tns, inner_types)
            return s + "</xs:all>"
        tag = "xs:sequence" if p[1] == "s" else "xs:choice"
        body = "".join(self.particle(c, doc, tns, inner_types) for c in p[2])
        # rendering choice: a named model group referenced with the group's occurrence range
        if not top and p[2] and self.r.chance(1, 6):
            self.gcount += 1
            gname = "G%d" % self.gcount
            self.groups.setdefault(doc, []).append('<xs:group name="%s"><%s>%s</%s></xs:group>' % (gname, tag, body, tag))
            return '<xs:group ref="%s:%s"%s/>' % (PFX[tns], gname, occ_attrs(p[3], p[4]))
        return "<%s%s>%s</%s>" % (tag, occ_attrs(p[3], p[4]), body, tag)
    def attr_uses(self, uses, wild, doc, tns):
        s = ""
        for u in uses:
            usea = {"r": ' use="required"', "p": ' use="prohibited"', "o": ""}[u["use"]]
            if u["ns"] != 0 and self.M_gattr(u["ns"], u["name"]) is not None:
                s += '<xs:attribute ref="%s"%s/>' % (qn(u["ns"], u["name"], tns), usea)
            else:
                s += '<xs:attribute name="%s" type="xs:string"%s%s/>' % (lname(u["name"]), usea, vc_attrs(u["vc"]) if u["use"] != "p" else "")
        if uses and self.r.chance(1, 5):
            self.gcount += 1
            gname = "AG%d" % self.gcount
            self.attgroups.setdefault(doc, []).append('<xs:attributeGroup name="%s">%s</xs:attributeGroup>' % (gname, s))
            s = '<xs:attributeGroup ref="%s:%s"/>' % (PFX[tns], gname)
        if wild is not None:
            s += '<xs:anyAttribute namespace="%s" processContents="%s"/>' % (ns_attr(wild[0], tns), PCNAME[wild[1]])
        return s
    def M_gattr(self, ns, name):
        for g in self.M.gattrs:
            if g["ns"] == ns and g["name"] == name:
                return g
        return None
    def ctype_body(self, c, doc, tns):
        M = self.M
        a = ""
        if c["name"] is not None: a += ' name="%s"' % tname(c)
        if c["abstract"]: a += ' abstract="true"'
        a += block_attr(c["block"], ("extension", "restriction"), c.get("block_mode"), self.r)
        kind = c["kind"]
        if c["base"] is None:
            if kind == "S":
                inner = '<xs:simpleContent><xs:extension base="xs:string">%s</xs:extension></xs:simpleContent>' % self.attr_uses(c["uses_own"], c["wild_own"], doc, tns)
                return "<xs:complexType%s>%s</xs:complexType>" % (a, inner)
            if kind == "M": a += ' mixed="true"'
            body = self.particle(c["own"], doc, tns, None, top=True) if c["own"] is not None else ""
            return "<xs:complexType%s>%s%s</xs:complexType>" % (a, body, self.attr_uses(c["uses_own"], c["wild_own"], doc, tns))
        base = type_ref(M, c["base"])
        tag = "xs:extension" if c["deriv"] == "e" else "xs:restriction"
        if kind == "S":
            inner = "<xs:simpleContent><%s base=\"%s\">%s</%s></xs:simpleContent>" % (tag, base, self.attr_uses(c["uses_own"], c["wild_own"], doc, tns), tag)
            return "<xs:complexType%s>%s</xs:complexType>" % (a, inner)
        mixed = ' mixed="true"' if kind == "M" else ""
        body = self.particle(c["own"], doc, tns, None, top=True) if c["own"] is not None else ""
        inner = "<xs:complexContent%s><%s base=\"%s\">%s%s</%s></xs:complexContent>" % (
            mixed, tag, base, body, self.attr_uses(c["uses_own"], c["wild_own"], doc, tns), tag)
        return "<xs:complexType%s>%s</xs:complexType>" % (a, inner)
    def global_elem(self, d, doc, tns):
        M = self.M
        a = ' name="%s"' % lname(d["name"])
        t = d["type"]
        anon = M.is_ct(t) and M.ctypes[t]["name"] is None
        if not anon: a += ' type="%s"' % type_ref(M, t)
        if d["subst"] is not None: a += ' substitutionGroup="%s"' % qn(d["subst"][0], d["subst"][1], tns)
        if d["abstract"]: a += ' abstract="true"'
        if d["nillable"]: a += ' nillable="true"'
        a += block_attr(d["block"], ("substitution", "extension", "restriction"), d.get("block_mode"), self.r)
        a += vc_attrs(d["vc"])
        if anon:
            return "<xs:element%s>%s</xs:element>" % (a, self.ctype_body(M.ctypes[t], doc, tns))
        return "<xs:element%s/>" % a
    def docs(self):
        """-> list of (sysid, text); the first is the root document"""
        M = self.M
        out = {}
        docs = ["a", "a2", "b"]
        tns_of = {"a": 1, "a2": 1, "b": 2}
        parts = {d: [] for d in docs}
        for c in M.ctypes:
            if c["name"] is not None:
                parts[c["doc"]].append(self.ctype_body(c, c["doc"], tns_of[c["doc"]]))
        for d in M.decls:
            if d["glob"]:
                parts[d["doc"]].append(self.global_elem(d, d["doc"], tns_of[d["doc"]]))
        for g in M.gattrs:
            parts["b" if g["ns"] == 2 else "a"].append('<xs:attribute name="%s" type="xs:string"%s/>' % (lname(g["name"]), vc_attrs(g["vc"])))
        parts["a"].append('<xs:simpleType name="st1"><xs:restriction base="xs:string"/></xs:simpleType>')
        res = []
        for doc in docs:
            body = parts[doc] + self.groups.get(doc, []) + self.attgroups.get(doc, [])
            if doc == "a2" and not body:
                continue
            tns = tns_of[doc]
            head = '<xs:schema xmlns:xs="%s" xmlns:a="urn:a" xmlns:b="urn:b" targetNamespace="%s"%s>' % (
                XS, NSURI[tns], ' elementFormDefault="qualified"' if M.form_qualified else "")
            bd = getattr(M, "block_default", None)
            if bd is not None and doc == "a":
                names = [n for n, x in zip(("substitution", "extension", "restriction"), bd) if x]
                head = head[:-1] + ' blockDefault="%s">' % ("#all" if len(names) == 3 and self.r.chance(1, 2) else " ".join(names))
            pre = ""
            if doc == "a":
                pre += '<xs:import namespace="urn:b" schemaLocation="b.xsd"/>'
                if parts["a2"] or self.groups.get("a2") or self.attgroups.get("a2"):
                    pre += '<xs:include schemaLocation="a2.xsd"/>'
            if doc == "b":
                pre += '<xs:import namespace="urn:a" schemaLocation="a.xsd"/>' if self.b_needs_a() else ""
            res.append((doc + ".xsd", head + pre + "".join(body) + "</xs:schema>"))
        return res
    def b_needs_a(self):
        return False

def render_xsd(M, r):
    return Render(M, r).docs()

# ----------------------------------------------------------------------------------------------- instances
def render_xml(M, e, r):
    """instance document text (well-formed by construction)"""
    def go(x, top):
        ns = x["ns"]
        tag = ("%s:%s" % (PFX[ns], lname(x["name"]))) if ns else lname(x["name"])
        s = "<" + tag
        if top:
            s += ' xmlns:a="urn:a" xmlns:b="urn:b" xmlns:c="urn:c" xmlns:xsi="%s" xmlns:xs="%s"' % (XSI, XS)
        for (ans, anm, v) in x["attrs"]:
            s += ' %s="%s"' % (("%s:%s" % (PFX[ans], lname(anm))) if ans else lname(anm), vtext(v))
        if x.get("xsitype") is not None:
            tns, tl = x["xsitype"]
            tn = "xs:string" if tns == 4 else ("a:st1" if tl == 9001 else "%s:T%d" % (PFX.get(tns, "c"), tl))
            s += ' xsi:type="%s"' % tn
        if x.get("nil") is not None:
            s += ' xsi:nil="%s"' % ("true" if x["nil"] else "false")
        if not x["kids"] and x.get("text") is None:
            return s + ("/>" if r.chance(2, 3) else "></%s>" % tag)
        s += ">"
        if x.get("text") is not None:
            s += vtext(x["text"])
        ws = x["kids"] and x.get("text") is None and r.chance(1, 4)
        for c in x["kids"]:
            s += ("\n  " if ws else "") + go(c, False)
        return s + ("\n" if ws else "") + "</%s>" % tag
    return go(e, True)

def number(e):
    n = [0]
    def go(x):
        x["eid"] = n[0]; n[0] += 1
        for c in x["kids"]: go(c)
    go(e)
    return e

def mk(ns, name, attrs=None, kids=None, text=None, xsitype=None, nil=None):
    return dict(ns=ns, name=name, attrs=list(attrs or []), kids=list(kids or []), text=text, xsitype=xsitype, nil=nil)

# shortest word of a particle (list of leaf indices) ; None if the language is empty
def shortest(p):
    k = p[0]
    if k == "Z": return []
    if k == "L": return [p[1]] * p[2]
    if k == "A": return [l for l, o in p[1] if not o] if p[2] >= 1 else []
    if p[3] == 0: return []
    kids = [shortest(c) for c in p[2]]
    if not kids: return []
    if p[1] == "s":
        if any(x is None for x in kids): return None
        w = [y for x in kids for y in x]
    else:
        ok = [x for x in kids if x is not None]
        if not ok: return None
        w = min(ok, key=len)
    return w * p[3]

def sample(p, r, depth=0):
    """a random word of the particle (leaf indices)"""
    k = p[0]
    if k == "Z": return []
    def reps(mn, mx):
        hi = mn + 2 if mx is None else mx
        return mn + r.below(hi - mn + 1) if r.chance(2, 3) else mn
    if k == "L":
        return [p[1]] * reps(p[2], p[3])
    if k == "A":
        if p[2] == 0 and r.chance(1, 3): return []
        ms = [l for l, o in p[1] if not o or r.chance(1, 2)]
        for i in range(len(ms) - 1, 0, -1):
            j = r.below(i + 1); ms[i], ms[j] = ms[j], ms[i]
        return ms
    w = []
    for _ in range(reps(p[3], p[4]) if depth < 3 else p[3]):
        if not p[2]: break
        if p[1] == "s":
            for c in p[2]: w += sample(c, r, depth + 1)
        else:
            w += sample(r.choice(p[2]), r, depth + 1)
    return w

class Inst:
    """builds instance elements for declarations of a model"""
    def __init__(self, M, r):
        self.M, self.r = M, r
    def members(self, k):
        """declarations that may stand for global declaration k in an instance (k itself first)"""
        M = self.M
        d = M.decls[k]
        out = [k]
        if not d["glob"]: return out
        changed = True
        names = {(d["ns"], d["name"])}
        while changed:
            changed = False
            for j, x in enumerate(M.decls):
                if x["glob"] and x["subst"] in names and (x["ns"], x["name"]) not in names:
                    names.add((x["ns"], x["name"])); out.append(j); changed = True
        return out
    def attrs_for(self, c, full=False):
        r = self.r
        out = []
        for u in c["uses_eff"]:
            if u["use"] == "p": continue
            if u["use"] == "r" or (full or r.chance(1, 3)):
                v = u["vc"][1] if u["vc"][0] == "f" else (2 + r.below(3))
                out.append((u["ns"], u["name"], v))
        return out
    def elem_for(self, k, depth, minimal):
        """a (normally valid) element for declaration index k"""
        M, r = self.M, self.r
        d = M.decls[k]
        e = mk(d["ns"], d["name"])
        t = d["type"]
        if not M.is_ct(t):
            if d["vc"][0] == "f":
                e["text"] = d["vc"][1] if r.chance(1, 2) else None
            elif d["vc"][0] == "d":
                e["text"] = None if r.chance(1, 2) else 5
            else:
                e["text"] = None if minimal and r.chance(1, 2) else 3 + r.below(3)
            return e
        self.fill(e, M.ctypes[t], depth, minimal)
        return e
    def fill(self, e, c, depth, minimal):
        M, r = self.M, self.r
        e["attrs"] = self.attrs_for(c)
        if c["kind"] == "S":
            e["text"] = 4
        elif c["kind"] in "OM" and c["eff"] is not None:
            w = shortest(c["eff"]) if (minimal or depth >= 3) else sample(c["eff"], r)
            if w is None: w = []
            e["kids"] = [self.child_for_leaf(l, depth + 1, True if depth >= 2 else minimal) for l in w[:8]]
            e["kids"] = [x for x in e["kids"] if x is not None]
            if c["kind"] == "M" and r.chance(1, 2):
                e["text"] = 6
    def child_for_leaf(self, l, depth, minimal):
        M, r = self.M, self.r
        lf = M.leaves[l]
        if lf[0] == "d":
            k = lf[1]
            ms = [j for j in self.members(k) if not M.decls[j]["abstract"]]
            if not ms: ms = [k]
            j = ms[0] if (minimal or r.chance(2, 3)) else r.choice(ms)
            return self.elem_for(j, depth, minimal)
        return self.wild_child(lf, depth)
    def wild_names(self, nsc):
        """candidate child names for a wildcard: (ns, name, declIndex|None)"""
        M = self.M
        out = []
        def allowed(n):
            if nsc[0] == "a": return True
            if nsc[0] == "o": return n != 0 and n != nsc[1]
            return n in nsc[1]
        for j, d in enumerate(M.decls):
            if d["glob"] and allowed(d["ns"]) and not d["abstract"] and d.get("wild_ok", True):
                out.append((d["ns"], d["name"], j))
        for n in (0, 1, 2, 3):
            if allowed(n):
                out.append((n, 77, None))          # undeclared name
        return out
    def wild_child(self, lf, depth):
        r = self.r
        cands = self.wild_names(lf[1])
        if not cands: return None
        pc = lf[2]
        declared = [c for c in cands if c[2] is not None]
        if pc == "s" and declared:
            c = r.choice(declared)
        else:
            c = r.choice(cands)
        if c[2] is not None:
            return self.elem_for(c[2], depth, True)
        e = mk(c[0], c[1])
        if pc == "k" and r.chance(1, 2):
            e["kids"] = [mk(0, 78, text=1)]
            e["attrs"] = [(0, 79, 1)]
        return e

# ----------------------------------------------------------------------------------------------- UPA (Glushkov, unrolled)
class Glu:
    def __init__(self):
        self.pos = []          # position -> (orig leaf id, leaf term)
        self.follow = []
    def leaf(self, oid, term):
        self.pos.append((oid, term)); self.follow.append(set())
        i = len(self.pos) - 1
        return (False, {i}, {i})
    def cat(self, a, b):
        for l in a[2]:
            self.follow[l] |= b[1]
        return (a[0] and b[0], a[1] | b[1] if a[0] else set(a[1]), b[2] | a[2] if b[0] else set(b[2]))
    def alt(self, a, b):
        return (a[0] or b[0], a[1] | b[1], a[2] | b[2])
    def opt(self, a):
        return (True, a[1], a[2])
    def star(self, a):
        for l in a[2]:
            self.follow[l] |= a[1]
        return (True, a[1], a[2])
EPS = (True, set(), set())

def glu_rep(g, build, mn, mx):
    r = EPS
    for _ in range(mn):
        r = g.cat(r, build())
    if mx is None:
        r = g.cat(r, g.star(build()))
    else:
        tail = None
        for _ in range(mx - mn):
            b = build()
            tail = g.opt(b if tail is None else g.cat(b, tail))
        if tail is not None:
            r = g.cat(r, tail)
    return r

def upa_sets(g, r, overlap):
    for s in [r[1]] + g.follow:
        s = sorted(s)
        for i in range(len(s)):
            for j in range(i + 1, len(s)):
                a, b = g.pos[s[i]], g.pos[s[j]]
                if a[0] != b[0] and overlap(a[1], b[1]):
                    return False
    return True

def wild_allows(nsc, n):
    if nsc[0] == "a": return True
    if nsc[0] == "o": return n != 0 and n != nsc[1]
    return n in nsc[1]

def wild_meet(a, b):
    if a[0] == "a" or b[0] == "a": return True
    if a[0] == "o" and b[0] == "o": return True
    if a[0] == "l" and b[0] == "l": return bool(set(a[1]) & set(b[1]))
    l, o = (a, b) if a[0] == "l" else (b, a)
    return any(n != 0 and n != o[1] for n in l[1])

def doc_upa_ok(M, inst, p):
    """strict UPA for a document-tier particle (substitution groups taken into account)"""
    if p is None or p[0] == "Z": return True
    def names(l):
        lf = M.leaves[l]
        if lf[0] == "d":
            return {(M.decls[j]["ns"], M.decls[j]["name"]) for j in inst.members(lf[1])}
        return None
    def overlap(x, y):
        nx, ny = names(x), names(y)
        if nx is not None and ny is not None: return bool(nx & ny)
        if nx is None and ny is None: return wild_meet(M.leaves[x][1], M.leaves[y][1])
        ns_, w = (nx, M.leaves[y][1]) if nx is not None else (ny, M.leaves[x][1])
        return any(wild_allows(w, n) for n, _ in ns_)
    if p[0] == "A":
        ls = [l for l, _ in p[1]]
        return all(not overlap(ls[i], ls[j]) for i in range(len(ls)) for j in range(i + 1, len(ls)))
    g = Glu()
    ids = [0]
    def go(q):
        k = q[0]
        if k == "Z": return EPS
        if k == "L":
            oid = ids[0]; ids[0] += 1
            return glu_rep(g, lambda: g.leaf(oid, q[1]), q[2], q[3])
        if k == "A":
            return None
        base = ids[0]
        def build():
            ids[0] = base
            r = None
            for c in q[2]:
                x = go(c)
                if x is None: return None
                r = x if r is None else (g.cat(r, x) if q[1] == "s" else g.alt(r, x))
            return EPS if r is None else r
        return glu_rep(g, build, q[3], q[4])
    r = go(p)
    if r is None: return False
    return upa_sets(g, r, overlap)

def leaf_list(p, acc):
    if p is None: return acc
    if p[0] == "L": acc.append(p[1])
    elif p[0] == "A": acc += [l for l, _ in p[1]]
    elif p[0] == "G":
        for c in p[2]: leaf_list(c, acc)
    return acc

# ----------------------------------------------------------------------------------------------- model builder
OCCS = [(1, 1), (1, 1), (0, 1), (0, None), (1, None), (2, 2), (2, 3), (0, 2), (1, 2), (2, None), (3, 3)]
N = dict(e0=10, e1=11, e2=12, h=20, m1=21, m2=22, m3=23, hb=24, mb=25, hx=26, mx1=27, mx2=28, n0=30, n1=31, f0=40, f1=41)

def build_model(r, curated=None, fixed_attrs=None):
    """curated: callback giving (kind, particle) of the single tested type; fixed_attrs: (uses, wildcard) of that type —
       its restriction then prohibits every optional attribute without value constraint"""
    M = Model()
    M.form_qualified = r.chance(2, 3)
    lns = 1 if M.form_qualified else 0             # namespace of local elements
    # --- fixed pool of types
    TL = M.ctype(name=1, kind="E", uses_own=[use(1, "o", ("d", 7))])
    TB = M.ctype(name=2, kind="E", uses_own=[use(2, "o")], block=(1 if r.chance(1, 6) else 0, 0))
    TD = M.ctype(name=3, kind="E", base=TB, deriv="e", uses_own=[use(3, "o")], uses_eff=[use(2, "o"), use(3, "o")])
    BT = M.ctype(name=4, ns=2, doc="b", kind="S", uses_own=[use(1, "o")])
    # --- pool of global elements
    e1vc = r.choice([("d", 1), ("f", 1), ("n",)])
    M.decl(name=N["e0"])
    M.decl(name=N["e1"], vc=e1vc)
    M.decl(name=N["e2"], type=TL)
    M.decl(name=N["h"], type=TB, abstract=r.chance(1, 2))
    M.decl(name=N["m1"], type=TB, subst=(1, N["h"]))
    M.decl(name=N["m2"], type=TD, subst=(1, N["h"]))
    M.decl(name=N["m3"], type=TB, subst=(1, N["m1"]), abstract=r.chance(1, 5))
    M.decl(name=N["hb"], type=TB, block=(1, 0, 0))
    M.decl(name=N["mb"], type=TB, subst=(1, N["hb"]))
    M.decl(name=N["hx"], type=TB, block=(0, 1, 0))
    M.decl(name=N["mx1"], type=TB, subst=(1, N["hx"]))
    M.decl(name=N["mx2"], type=TD, subst=(1, N["hx"]))
    M.decl(name=N["n0"], nillable=True, vc=r.choice([("n",), ("n",), ("d", 2), ("f", 2)]))
    M.decl(name=N["n1"], type=TL, nillable=True)
    M.decl(name=N["f0"], ns=2, doc="b")
    M.decl(name=N["f1"], ns=2, doc="b", type=BT)
    M.gattrs.append(dict(ns=2, name=5, vc=r.choice([("n",), ("f", 9)])))
    inst = Inst(M, r)
    pool = ["e0", "e1", "e2", "h", "hb", "hx", "n0", "n1", "f0", "f1", "m1"]
    # --- generated types under test
    ntypes = 1 if curated else 2 + r.below(3)
    tested = []
    locals_made = [0]
    def rand_leaf(used):
        c = r.below(100)
        if c < 62:
            nm = r.choice(pool)
            if nm in used: return None
            used.add(nm)
            k = M.gdecl(2 if nm[0] == "f" else 1, N[nm])
            return ("L", M.dleaf(k), *(r.choice(OCCS) if r.chance(1, 2) else (1, 1)))
        if c < 80:
            locals_made[0] += 1
            nm = 50 + locals_made[0]
            # (a local element of an anonymous type could not be restated in a restriction: two anonymous types)
            t = r.choice([STRING, STRING, ST1, TL] + [x for x in tested[-1:] if M.ctypes[x]["name"] is not None])
            vc = r.choice([("n",), ("n",), ("d", 3), ("f", 3)]) if t in (STRING, ST1) else ("n",)
            k = M.decl(ns=lns, name=nm, glob=False, type=t, vc=vc)
            return ("L", M.dleaf(k), *(r.choice(OCCS) if r.chance(1, 2) else (1, 1)))
        tns = 1
        nsc = r.choice([("a",), ("o", tns), ("o", tns), ("l", [2]), ("l", [0]), ("l", [0, 2]), ("l", [tns]), ("l", [3, 2])])
        wl = M.leaf(("w", nsc, r.choice(["s", "l", "k"])))
        if ("w", wl) in used: return None          # the same wildcard term twice in one type: see the curated counting schema
        used.add(("w", wl))
        return ("L", wl, *(r.choice(OCCS) if r.chance(1, 2) else (1, 1)))
    def rand_p(depth, used):
        if depth == 0 or r.below(4) == 0:
            return rand_leaf(used)
        kids = [x for x in (rand_p(depth - 1, used) for _ in range(r.choice([1, 2, 2, 3]))) if x is not None]
        if not kids:
            return None            # empty groups: only in the curated "empty choice branch" schema (see c08.py)
        occ = r.choice(OCCS) if r.chance(1, 3) else (1, 1)
        return ("G", r.choice(["s", "s", "c"]), kids, *occ)
    def rand_uses():
        us = []
        if r.chance(1, 2): us.append(use(10, "r", r.choice([("n",), ("f", 3)])))
        if r.chance(1, 2): us.append(use(11, "o"))
        if r.chance(1, 2): us.append(use(12, "o", ("d", 2)))
        if r.chance(1, 3): us.append(use(13, "o", ("f", 3)))
        if r.chance(1, 4): us.append(use(5, r.choice(["o", "r"]), M.gattrs[0]["vc"], ns=2))
        wild = None
        if r.chance(2, 5):
            wild = (r.choice([("a",), ("o", 1), ("l", [2]), ("l", [0, 3]), ("l", [2, 3])]), r.choice(["s", "l", "k"]))
        return us, wild
    for ti in range(ntypes):
        for attempt in range(40):
            kindc = r.below(100)
            used = set()
            if curated is not None:
                kind, p = curated(M)
            elif kindc < 10:
                kind, p = "E", None
            elif kindc < 20:
                kind, p = "S", None
            elif kindc < 32:
                names = []
                for nm in ["e0", "e1", "e2", "h", "f0", "n0"]:
                    if r.chance(1, 2): names.append(nm)
                ms = [(M.dleaf(M.gdecl(2 if nm[0] == "f" else 1, N[nm])), r.chance(1, 2)) for nm in names] or [(M.dleaf(M.gdecl(1, N["e0"])), False)]
                kind, p = "O", ("A", ms, r.choice([1, 1, 0]))
            else:
                kind = "M" if kindc < 42 else "O"
                p = rand_p(1 + r.below(3), used)
                if p is None: continue
                if p[0] == "L": p = ("G", "s", [p], 1, 1)
            if p is not None and not doc_upa_ok(M, inst, p):
                continue
            break
        else:
            kind, p = "O", ("G", "s", [("L", M.dleaf(M.gdecl(1, N["e0"])), 1, 1)], 1, 1)
        us, wild = rand_uses()
        if fixed_attrs is not None:
            fa = fixed_attrs(M) if callable(fixed_attrs) else fixed_attrs
            us, wild = [dict(u) for u in fa[0]], fa[1]
        anon = r.chance(1, 4) and curated is None
        t = M.ctype(name=None if anon else 10 + ti, kind=kind, own=p, uses_own=us, wild_own=wild,
                    abstract=False,
                    block=(0, 0) if (anon or fixed_attrs is not None) else (1 if r.chance(1, 8) else 0, 1 if r.chance(1, 8) else 0),
                    doc="a2" if (not anon and r.chance(1, 4)) else "a")
        tested.append(t)
        rootk = M.decl(name=60 + ti, type=t, nillable=r.chance(1, 3),
                       block=(0, 0, 0) if fixed_attrs is not None else (0, 1 if r.chance(1, 6) else 0, 1 if r.chance(1, 6) else 0))
        M.ctypes[t]["root"] = rootk
        # derived types of a named tested type
        if not anon and kind in "OM" and p is not None and p[0] == "G":
            # extension: append an optional local element
            locals_made[0] += 1
            k = M.decl(ns=lns, name=50 + locals_made[0], glob=False, type=STRING)
            tail = ("G", "s", [("L", M.dleaf(k), r.choice([0, 1]), 1)], 1, 1)
            eff = ("G", "s", [p, tail], 1, 1)
            if doc_upa_ok(M, inst, eff):
                xu = [use(14, "o")]
                M.ctype(name=20 + ti, kind=kind, base=t, deriv="e", own=tail, eff=eff, uses_own=xu, uses_eff=us + xu,
                        wild_own=None, wild_eff=wild, abstract=r.chance(1, 8))
            # restriction: narrow the occurrence range of the leaves / group (still a valid restriction)
            rp = narrow(p, r)
            if rp is not None and doc_upa_ok(M, inst, rp):
                ru, reff = [], []
                for u in us:
                    if u["use"] == "o" and ((u["vc"][0] == "n" and r.chance(1, 2)) or
                                            (fixed_attrs is not None and (u["vc"][0] == "n" or u["ns"] != 0))):
                        nu = dict(u); nu["use"] = "p" if fixed_attrs is not None else r.choice(["p", "r"])
                        ru.append(nu); reff.append(nu)
                    else:
                        reff.append(u)
                M.ctype(name=30 + ti, kind=kind, base=t, deriv="r", own=rp, eff=rp, uses_own=ru, uses_eff=reff,
                        wild_own=wild, wild_eff=wild)
    return M, inst, tested

def narrow(p, r):
    """a particle that is a valid restriction of p by occurrence narrowing only (same structure)"""
    k = p[0]
    def nr(mn, mx):
        if mx is None:
            return r.choice([(mn, None), (mn + 1, None), (mn, mn + 1), (mn + 1, mn + 2)])
        if mx > mn:
            return r.choice([(mn, mx), (mn + 1, mx), (mn, mx - 1), (mx, mx)])
        return (mn, mx)
    if k == "L":
        mn, mx = nr(p[2], p[3])
        if mx == 0: return None
        return ("L", p[1], mn, mx)
    if k == "G":
        kids = []
        for c in p[2]:
            x = narrow(c, r)
            if x is None: return None
            kids.append(x)
        if p[1] == "c":
            return ("G", "c", kids, p[3], p[4])
        mn, mx = nr(p[3], p[4])
        if mx == 0: return None
        if (mn, mx) == (1, 1) and (p[3], p[4]) != (1, 1):
            # a group narrowed to {1,1} becomes a "pointless" particle; the structural restriction rules of
            # Structures 3.9.6 (Recurse) then no longer line up with the base group
            mn, mx = p[3], p[4]
        return ("G", "s", kids, mn, mx)
    return p

# ----------------------------------------------------------------------------------------------- substitution-group chains
BLOCK_DEFAULTS = [None, None, None, None, (0, 1, 0), (0, 0, 1), (1, 1, 1), (1, 0, 0), (0, 1, 1), (1, 1, 0)]

def build_subst_model(r, variant=0):
    """Substitution groups whose members have types derived from the head's type over 1-3 steps (extension /
       restriction per step), {prohibited substitutions} (block = extension / restriction / #all, explicit — also the
       overriding block="" — or inherited from blockDefault) independently on the head's type, every intermediate type
       and the member's own type, {disallowed substitutions} (substitution / extension / restriction / #all) on the
       head and on the members, members affiliated to the head directly or through another member, an optional
       abstract head.  Returns (M, inst, roots): roots = [(root declaration, exemplar declaration)] — root types are
       sequence(exemplar{1,2}); the cases put every member in the exemplar's place (c08.py: subst_cases)."""
    M = Model()
    M.form_qualified = True
    bd = r.choice(BLOCK_DEFAULTS) if variant != 1 else None
    M.block_default = bd
    def tblock(p=4):              # (variant 1: no blockDefault)
        if bd is not None and r.chance(1, 2):
            return dict(block=(bd[1], bd[2]), block_mode="inherit")
        b = (1 if r.chance(1, p) else 0, 1 if r.chance(1, p) else 0)
        return dict(block=b, block_mode="explicit" if bd is not None or r.chance(1, 4) else None)
    def eblock(p=5):
        if bd is not None and r.chance(1, 2):
            return dict(block=bd, block_mode="inherit")
        b = (1 if r.chance(1, 2 * p) else 0, 1 if r.chance(1, p) else 0, 1 if r.chance(1, p) else 0)
        return dict(block=b, block_mode="explicit" if bd is not None or r.chance(1, 4) else None)
    plain_t = dict(block=(bd[1], bd[2]), block_mode="inherit") if bd is not None else dict(block=(0, 0))
    plain_e = dict(block=bd, block_mode="inherit") if bd is not None else dict(block=(0, 0, 0))
    # --- the type chain T0 <- T1 <- ... <- Tn, plus a side branch off T0
    n = 1 + r.below(3)
    uses = [use(2, "o")]
    chain = [M.ctype(name=2, kind="E", uses_own=list(uses), **tblock())]
    for i in range(1, n + 1):
        deriv = r.choice("eer")
        own = [use(10 + i, "o")] if deriv == "e" else []
        uses = uses + own
        chain.append(M.ctype(name=2 + i, kind="E", base=chain[-1], deriv=deriv, uses_own=own, uses_eff=list(uses), **tblock()))
    side = None
    if r.chance(1, 2):
        deriv = r.choice("er")
        own = [use(19, "o")] if deriv == "e" else []
        side = M.ctype(name=9, kind="E", base=chain[0], deriv=deriv, uses_own=own, uses_eff=[use(2, "o")] + own, **tblock())
    # --- head and members
    h = M.decl(name=N["h"], type=chain[0], abstract=r.chance(1, 6), **eblock())
    members = []
    prev = h
    for i in range(0, n + 1):
        if i == 0 and not r.chance(1, 2):
            continue
        via = prev if (members and r.chance(1, 3)) else h          # affiliation: the head, or the previous member
        k = M.decl(name=30 + i, type=chain[i], subst=(1, M.decls[via]["name"]), **(eblock(6) if r.chance(1, 2) else plain_e))
        members.append(k); prev = k
    if side is not None:
        members.append(M.decl(name=39, type=side, subst=(1, N["h"]), **plain_e))
    inst = Inst(M, r)
    # --- roots: sequence(exemplar{1,2}) for the head and for one member that has members of its own
    roots = []
    exemplars = [h]
    for k in members:
        if any(M.decls[j]["subst"] == (1, M.decls[k]["name"]) for j in members):
            exemplars.append(k); break
    for ti, x in enumerate(exemplars):
        p = ("G", "s", [("L", M.dleaf(x), 1, 2)], 1, 1)
        t = M.ctype(name=40 + ti, kind="O", own=p, **plain_t)
        rootk = M.decl(name=60 + ti, type=t, **plain_e)
        M.ctypes[t]["root"] = rootk
        roots.append((rootk, x))
    return M, inst, roots

def subst_cases(M, inst, roots, r):
    """(kind, element): every global element of the model in the place of each exemplar, alone and after the exemplar"""
    out = []
    cands = [k for k, d in enumerate(M.decls) if d["glob"] and d["name"] < 60]
    for rootk, x in roots:
        rd = M.decls[rootk]
        for k in cands:
            kid = inst.elem_for(k, 1, False)
            out.append(("subst:n%d-for-n%d" % (M.decls[k]["name"], M.decls[x]["name"]), mk(rd["ns"], rd["name"], kids=[kid])))
        for k in cands:
            if r.chance(1, 2):
                a, b = inst.elem_for(r.choice(cands), 1, True), inst.elem_for(k, 1, True)
                out.append(("subst2:n%d-for-n%d" % (M.decls[k]["name"], M.decls[x]["name"]), mk(rd["ns"], rd["name"], kids=[a, b])))
    return out
