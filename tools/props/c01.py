"""C01 — arbitrary input never causes memory errors, UB, hangs or foreign exceptions.   (PARTIAL, see ASSUMPTIONS)

Proved (XV.Props.C01): the index / size / ownership arithmetic of code-shaped models whose constants are regenerated
from the C++ text (growth of XMLBuffer / ElemStack / WFElemStack / RangeToken / ValueVectorOf / BaseRefVectorOf /
DOMBuffer, the scanCharRef accumulator, emitError/loadMsg/replaceTokens lengths, the ReaderMgr ownership ledger, the
entity-expansion work bound, DOM heap sub-allocation, the UCS-4 BOM loop).

Checked dynamically (model validation and failing-input search, NOT a proof):
 (1) direct correspondence `xvdriver safety` vs harness/hx_safety.cpp on operation sequences crossing every growth
     threshold, character references at all four sites, replaceTokens, ReaderMgr histories (with a leak counter);
 (2) the facts the conditional theorems depend on (read off the regenerated constants), each confirmed or refuted by
     a concrete witness run on the real library;
 (4) reused parser: ONE parser object of each kind fed sequences of 2-6 documents (entities in content / attribute values,
     external subsets and parameter entities with and without text declarations, XInclude, hostile mutations) with
     between-document actions {nothing, resetDocumentPool, adoptDocument+release now / later, abandoned progressive parse}
     and feature flips; a failing sequence is minimised by dropping documents and actions; replay = the sequence.
     Backed by domParser_reset_complete: every AbstractDOMParser member that is a raw DOM-node pointer is nulled by reset().
 (3) the sanitizer search: harness/hx_parse.cpp parses generated and mutated documents in-process under
     {SAXParser, SAX2XMLReader, XercesDOMParser, DOMLSParser} x {IG, WF, DG, SG} x {never, auto, always} x feature bits;
     every ASan/UBSan report, crash, foreign exception, leak or watchdog time-out is a concrete violation with the case
     line as replay (minimised by ddmin)."""
import json, os, re, struct, subprocess, threading, time
import common

PID = "C01"
GEN = ["SafetyConsts", "SafetyMsgs", "DomParserFields"]
LEAN_MODULE = "XV.Props.C01"
THEOREMS = ["XV.Props.C01." + t for t in (
    # (a) growth
    "grow_strict_iff", "grow_stuck_below_four", "grow_strict", "quarter_append_in_bounds", "elemStack_append_in_bounds",
    "quarter_stuck_witness", "scale_exact_range",
    "xmlBuffer_grow_sufficient", "xmlBuffer_append_in_bounds", "xmlBuffer_no_wrap",
    "valueVector_grow_sufficient", "refVector_grow_sufficient", "vector_append_in_bounds",
    "valueVector_append_in_bounds", "refVector_append_in_bounds",
    "rangeToken_append_in_bounds", "rangeToken_first_ok", "rangeToken_no_wrap", "rangeToken_merge_capacity",
    "domBuffer_grow_sufficient", "domBuffer_append_in_bounds",
    # (b) character references
    "charref_no_wrap", "charref_value_exact", "charref_scan_exact", "charref_finish_exact", "charref_pair_wellformed",
    "charref_unguarded_wraps", "dtd_charref_exact_of_guarded", "dtd_charref_wraps_of_unguarded",
    # (c) message formatting
    "loadMsg_bounded", "replaceTokens_bounded", "replaceTokens_overrun_witness", "errText_sites_sized",
    "emitError_bounded", "replaceTokens_public_status",
    # (d) reader stack ledger
    "readerStack_balanced", "readerStack_balanced_reset", "readerStack_no_double_delete", "never_pop_below_base",
    "recursion_detected",
    # (e) expansion bound
    "expansion_work_bound",
    # DOM heap, BOM loop
    "domHeap_in_bounds", "domHeap_default_in_bounds", "domHeap_as_extracted", "domAllocate_oob_small_heap", "domAllocate_clamped_witness",
    "ucs4_bom_shift_status", "ucs4_bom_shift_as_extracted",
    # reused DOM parser: reset completeness over the generated member list
    "domParser_reset_complete", "domParser_reset_reached", "domParser_no_stale_pointer_after_reset", "domParser_reset_nonvacuous")] + [
    "XV.Lemmas.MsgTables.shipped_messages_safe", "XV.Lemmas.MsgTables.tables_dim"]
RULE = ("direct tier: op sequences of 5-400 ops per container with sizes drawn around every growth threshold (>= 10 growth "
        "steps), char refs of 1-40 digits incl. long zero runs and values around 0xD7FF/0xFFFD/0x10FFFF/2^32 at the 4 sites, "
        "replaceTokens texts with tokens/bare braces and replacement lengths around maxChars, ReaderMgr histories of 3-30 ops; "
        "parse tier: seeded corpus (DTD, entities, namespaces, XML 1.1, schemas, encodings, XInclude) x mutations (truncation at "
        "every offset, byte flips, splice, slice duplication, relabelled encodings, structural tokens, size generators) x random "
        "API/scanner/validation/feature configuration; reused-parser tier: every ordered pair of 18 state-leaving / state-reading pool documents (a third per seed, the entity x text-declaration pairs always) on XercesDOMParser and DOMLSParser with the first document released, plus random sequences of 2-6 documents on all four parser kinds; non-trivial = case reaching the scanner with >= 1 markup construct or an "
        "op sequence with >= 1 growth step; distinct by case text")
ASSUMPTIONS = [
    "PARTIAL: memory safety of the whole parser is not a theorem. Use-after-free / overflow outside the modelled functions is only searched for (ASan/UBSan harness), never proved absent",
    "compiler- and libc-level undefined behaviour, allocator exhaustion and stack depth are not modelled",
    "(XMLSize_t)(cap * 1.25) is modelled as floor(cap*5/4): exact while cap*5 < 2^53 (scale_exact_range states the range; IEEE-754 double exactness itself is assumed)",
    "sizes below 2^62 characters (XMLBuffer), 2^50 elements (ElemStack), 2^31 entries (RangeToken): the stated no-wrap bounds; beyond them the 64/32-bit arithmetic is not covered",
    "XMLBufferFullHandler contract: bufferFull only lowers fIndex (XMLScanner::bufferFull -> sendCharData resets the buffer)",
    "message texts: the in-memory loader of this build configuration (InMemMsgLoader + XercesMessages_en_US.hpp); ICU/iconv message catalogues are not covered",
    "continue-after-fatal (= exit-on-first-fatal off) is documented as undetermined behaviour: searched in a separate stream, findings listed in the evidence but not counted as violations",
    "the XMLReader byte/character windows (refreshRawBuffer / xcodeMoreChars / refreshCharBuffer) are modelled under C04, not here; only the UCS-4 BOM loop bound is stated here",
    "reused parser: domParser_reset_complete is textual and path-insensitive (member list, pointer classification by declared type DOM*\u2009*, assignments `= 0` in reset() and the same-object methods it calls); members of XercesDOMParser / DOMLSParserImpl themselves (filter state, fFilterDelayedTextNodes …), of the SAX parsers and of the scanners (C15 ScannerFields) are not in this list: for them the reused-parser sequences are search only",
    "the harness never opens files or sockets: default entity resolution is disabled, the net accessor is removed; file/URL accessors are therefore not exercised"]
TRUSTED = ["tools/translate_more.py gen_safety_consts / gen_safety_msgs (patterns over the C++ text; a pattern that no longer matches is a broken tie)",
           "harness/hx_safety.cpp, harness/hx_parse.cpp and the Python generators / classifier in this file",
           "ASan/UBSan (clang 14) as the detector of out-of-bounds accesses in the real library"]

ASAN = "detect_leaks=0:abort_on_error=0:allocator_may_return_null=1:hard_rss_limit_mb=3000:malloc_context_size=12:symbolize=1"
ENV = {"ASAN_OPTIONS": ASAN, "UBSAN_OPTIONS": "print_stacktrace=0:halt_on_error=0", "ASAN_SYMBOLIZER_PATH": "/usr/bin/llvm-symbolizer"}
NPROC = min(16, common.NCPU)

# ====================================================================== sharded, crash-resilient runner
def _run_shard(exe, args, lines, idxs, env, results, errs, crashes, wall_per_case):
    pos = 0
    restarts = 0
    while pos < len(idxs):
        chunk = idxs[pos:]
        data = ("\n".join(lines[i] for i in chunk) + "\n").encode()
        budget = 60 + wall_per_case * len(chunk)
        try:
            p = subprocess.run([exe] + list(args), input=data, env=env, stdout=subprocess.PIPE, stderr=subprocess.PIPE, timeout=budget)
            rc, out, err = p.returncode, p.stdout, p.stderr
        except subprocess.TimeoutExpired as e:
            rc, out, err = -9, e.stdout or b"", (e.stderr or b"") + b"\nWALL-TIMEOUT\n"
        got = out.decode(errors="replace").split("\n")
        if got and got[-1] == "":
            got.pop()
        err = err.decode(errors="replace")
        segs = re.split(r"^#C (\d+)\n", err, flags=re.M)      # [pre, n0, text0, n1, text1, ...]
        seg = {}
        for k in range(1, len(segs) - 1, 2):
            seg[int(segs[k])] = segs[k + 1]
        n_ok = min(len(got), len(chunk))
        for k in range(n_ok):
            results[chunk[k]] = got[k]
            if seg.get(k, "").strip():
                errs[chunk[k]] = seg[k]
        if n_ok < len(chunk):                 # died on case n_ok
            bad = chunk[n_ok]
            text = seg.get(n_ok, err[-4000:])
            results[bad] = "CRASH rc=%d" % rc
            errs[bad] = text
            crashes.append(bad)
            pos += n_ok + 1
            restarts += 1
            if restarts > 400:
                for i in idxs[pos:]:
                    results[i] = "NOT-RUN"
                return
        else:
            pos = len(idxs)

def run_sharded(harness, lines, args=(), nproc=NPROC, env=None, wall_per_case=6.0):
    """Returns (outputs, stderr text per case index, indices of cases the process died on)."""
    exe = common.build_harness(harness)
    e = dict(os.environ); e.update(ENV)
    if env:
        e.update(env)
    results = [None] * len(lines); errs = {}; crashes = []
    n = max(1, min(nproc, len(lines)))
    shards = [list(range(k, len(lines), n)) for k in range(n)]
    ts = [threading.Thread(target=_run_shard, args=(exe, args, lines, sh, e, results, errs, crashes, wall_per_case)) for sh in shards]
    for t in ts: t.start()
    for t in ts: t.join()
    return [r if r is not None else "NO-OUTPUT" for r in results], errs, sorted(crashes)

# ====================================================================== classification of sanitizer text
FRAME = re.compile(r"^\s*#\d+ 0x[0-9a-f]+ in (.+?) (/\S+?):(\d+)", re.M)
def asan_key(text):
    """asan:<kind>:<top xerces frame function>"""
    m = re.search(r"ERROR: AddressSanitizer: ([\w-]+)", text)
    kind = m.group(1) if m else None
    if kind is None:
        if "hard rss limit" in text or "out of memory" in text.lower() or "allocator is out of memory" in text:
            return "resource:memory"
        return None
    fns = []
    for f in FRAME.finditer(text):
        name, path = f.group(1), f.group(2)
        if "/src/xercesc/" in path:
            name = re.sub(r"\(.*$", "", name)
            name = re.sub(r"^xercesc_\d+_\d+::", "", name)
            name = re.sub(r"<.*>", "", name)
            fns.append(name)
    if not fns:
        return "asan:" + kind
    if kind == "stack-overflow":
        # unbounded recursion: the function that recurs is the most frequent frame; matchX helpers of the regex
        # engine are all reported as RegularExpression::match
        best = max(set(fns), key=fns.count)
        if best.startswith("RegularExpression::match"): best = "RegularExpression::match"
        return "asan:" + best
    return "asan:" + fns[0]

UB = re.compile(r"(/\S+?/src/xercesc/(\S+?)):(\d+):\d+: runtime error: ([^\n]*)")
def ubsan_keys(text):
    out = []
    for m in UB.finditer(text):
        out.append(("ubsan:%s:%s" % (os.path.basename(m.group(2)), m.group(3)), m.group(2) + ":" + m.group(3) + ": " + m.group(4)[:160]))
    return out

def asan_summary(err):
    for l in err.split("\n"):
        if "ERROR: AddressSanitizer" in l:
            m = re.search(r"SUMMARY: AddressSanitizer: ([^\n]*)", err)
            return (l.strip() + (" | " + m.group(1) if m else ""))[:400]
    return common.sanitizer_summary(err)

CALIBRATION_FAMILIES = {"laughs-nolimit"}     # unbounded by design (no limit set): slow, and not a violation

def leak_class(cfg):
    if cfg.startswith("SEQ "):
        api = cfg.split()[1].split(":")[0]
        for st in cfg.split(" ", 2)[2].split(" ## "):
            fl = int(st.split(" ", 1)[0].split(":")[2], 16)
            if (fl >> 8) & 1 and api in ("dom", "ls"): return "xinclude"
        return "reused-parser"
    api, sc, val, fl, lim = cfg.split(":"); fl = int(fl, 16)
    if (fl >> 8) & 1 and api in ("dom", "ls"): return "xinclude"
    if (fl >> 1) & 1: return "schema"
    return "dtd"

def classify(out, err, family, caf, cfg=None):
    """list of (key, summary) for one case observation"""
    res = []
    err = re.sub(r"==\d+==", "", err or "")
    for k, what in ubsan_keys(err or ""):
        res.append((k, what))
    if out.startswith("CRASH") or out in ("NO-OUTPUT",):
        if "WATCHDOG-TIMEOUT" in (err or "") or "WALL-TIMEOUT" in (err or ""):
            if family not in CALIBRATION_FAMILIES:
                res.append((("resource:" if family in RESOURCE_FAMILIES else "timeout:") + family, "watchdog: CPU-time budget (linear in the input size) exceeded"))
        else:
            k = asan_key(err or "")
            if k:
                if k.startswith("resource:"):
                    k = "resource:" + family
                res.append((k, asan_summary(err or "")))
            else:
                res.append(("crash:" + family, (out + " " + (err or "")[-300:]).strip()[:300]))
    elif out.startswith("FOREIGN-EXCEPTION"):
        res.append(("foreign:" + out.split(" ", 1)[1].strip(), out))
    if " LEAK " in out:
        res.append(("leak:" + (leak_class(cfg) if cfg else family), "allocations left behind after the parser was destroyed (twice in a row): " + out))
    if caf:
        res = [("caf:" + k, w) for k, w in res]
    return res

# ====================================================================== (1) direct tier generators
def sizes_around(r, base):
    return max(0, base + r.choice([-2, -1, 0, 0, 1, 2]))

def gen_xb(r):
    cap = r.choice([0, 1, 2, 3, 4, 7, 15, 16, 31, 64, 1023, 1023])
    full = r.choice([0, 0, 0, 1, 5, 8, 64, 100, 2000])
    h = r.choice(["H0", "H1", "H1"])
    ops = []; idx = 0; capn = cap
    for _ in range(3 + r.below(30)):
        c = r.below(100)
        if c < 35: ops.append("c")
        elif c < 80:
            k = r.choice([1, 2, 3, sizes_around(r, max(capn - idx, 1)), sizes_around(r, capn), sizes_around(r, 2 * capn + 1), r.below(3000)])
            k = min(k, 200000)          # sizes follow the doubling capacity: keep the total bounded
            ops.append("n%d" % k); capn = min(max(capn, 2 * (idx + k)), 400000); idx += k
        elif c < 88: ops.append("s%d" % r.choice([0, 1, sizes_around(r, capn), r.below(5000)]))
        elif c < 94: ops.append("r"); idx = 0
        else: ops.append("g")
    return "XB %d %d %s %s" % (cap, full, h, ",".join(ops))

def gen_stack(r, tag):
    ops = []; depth = 0
    target = r.choice([5, 33, 41, 52, 130, 700, 3000])
    while depth < target and len(ops) < 6000:
        c = r.below(100)
        if c < 80: ops.append("p"); depth += 1
        elif c < 88 and depth: ops.append("q"); depth -= 1
        elif c < 94 and depth: ops.append("x%d" % r.choice([1, 15, 16, 17, 20, 21, 40, 200]))
        elif c < 98 and depth and tag == "ES": ops.append("c%d" % r.choice([1, 31, 32, 33, 40, 41, 300]))
        elif c == 99 and r.chance(1, 10): ops.append("r"); depth = 0
    for _ in range(r.below(depth + 1)):
        ops.append("q")
    return "%s %s" % (tag, ",".join(ops))

def gen_vec(r, tag):
    ops = []; n = 0
    for _ in range(5 + r.below(300)):
        c = r.below(100)
        if c < 60: ops.append("a"); n += 1
        elif c < 75: ops.append("i%d" % r.below(n + 2)); n += 1
        elif c < 88 and n: ops.append("d%d" % r.below(n + 1)); n = max(0, n - 1)
        elif c < 90: ops.append("x"); n = 0
        else: ops.append("e%d" % r.choice([0, 1, 2, 7, 100]))
    return "%s %s" % (tag, ",".join(ops))

def gen_rt(r):
    ops = []
    n = r.choice([3, 9, 17, 40, 200])
    for _ in range(n):
        a = r.choice([r.below(0x80), r.below(0x3000), r.below(0x110000)])
        b = a + r.choice([0, 0, 1, 5, 100])
        ops.append("%x-%x" % (a, min(b, 0x10FFFF)))
    return "RT " + ",".join(ops)

def gen_db(r):
    cap = r.choice([1, 4, 31, 31, 127, 128, 200, 1000])
    ops = []
    for _ in range(2 + r.below(25)):
        c = r.below(100)
        if c < 70: ops.append("a%d" % r.choice([0, 1, 2, sizes_around(r, cap), r.below(600), r.below(5000)]))
        elif c < 85: ops.append("s%d" % r.choice([0, 1, sizes_around(r, cap), r.below(3000)]))
        elif c < 93: ops.append("r")
        else: ops.append("g")
    return "DB %d %s" % (cap, ",".join(ops))

def tk_text(r, bare_ok):
    parts = []
    for _ in range(1 + r.below(6)):
        c = r.below(100)
        if c < 45: parts += [0x61 + r.below(26) for _ in range(r.below(12))]
        elif c < 85: parts += [0x7B, 0x30 + r.below(4), 0x7D]
        elif bare_ok:
            parts += r.choice([[0x7B], [0x7B, 0x34, 0x7D], [0x7B, 0x30], [0x7B, 0x7B, 0x30, 0x7D], [0x7D], [0x7B, 0x41, 0x7D]])
    return parts

def has_token_then_bare(t):
    i = 0; seen = False
    while i < len(t):
        if t[i] != 0x7B: i += 1; continue
        if i + 2 < len(t) and 0x30 <= t[i + 1] <= 0x33 and t[i + 2] == 0x7D: seen = True; i += 3
        else:
            if seen: return True
            i += 1
    return False

def gen_tk(r):
    m = r.choice([4, 10, 16, 64, 1023, 2047])
    # texts with a bare brace after a token can overrun (replaceTokens_overrun_witness): they are exercised by the
    # facts tier only, so that one known overrun does not hide everything else behind a dead process
    t = tk_text(r, True)
    if has_token_then_bare(t):
        t = tk_text(r, False)
    ls = [r.choice([0, 1, 3, sizes_around(r, m), sizes_around(r, m // 2), 3 * m]) for _ in range(4)]
    return "TK %d %s %d %d %d %d" % (m, ".".join("%x" % c for c in t) if t else "-", ls[0], ls[1], ls[2], ls[3])

EDGE_VALUES = [0, 1, 8, 9, 0xA, 0xD, 0x1F, 0x20, 0x41, 0x7F, 0x85, 0xFF, 0xD7FF, 0xD800, 0xDFFF, 0xE000, 0xFFFD, 0xFFFE, 0xFFFF,
               0x10000, 0x10FFFF, 0x110000, 0xFFFFFFFF, 0x100000000, 0x100000041, 0x10000000A, 0x200000041, 0x1000000000000041]
def digits_of(n, radix):
    if n == 0: return [0]
    ds = []
    while n: ds.append(n % radix); n //= radix
    return ds[::-1]

def gen_cr(r):
    radix = r.choice([10, 16])
    c = r.below(100)
    if c < 40: n = r.choice(EDGE_VALUES) + r.choice([0, 0, 1, -1 if c % 2 else 0])
    elif c < 60: n = r.below(0x110000)
    elif c < 80: n = r.below(1 << 34)
    else: n = r.below(1 << 70)
    n = max(n, 0)
    ds = digits_of(n, radix)
    if r.chance(1, 4): ds = [0] * r.choice([1, 5, 30, 300]) + ds
    site = r.choice("cadt")
    return "CR %s %d %s" % (site, radix, ".".join("%x" % d for d in ds))

def xml_char_10(n):
    return n in (9, 10, 13) or 0x20 <= n <= 0xD7FF or 0xE000 <= n <= 0xFFFD or 0x10000 <= n <= 0x10FFFF

def spec_cr(line):
    """XML 1.0 section 4.1 + production [2]: what a conforming processor must deliver for the reference"""
    _, site, radix, ds = line.split()
    n = 0
    for d in ds.split("."): n = n * int(radix) + int(d, 16)
    if not xml_char_10(n): return "invalid"
    if site in "at" and n in (9, 10, 13):       # attribute-value normalisation does not apply to char refs; value is kept
        pass
    if n >= 0x10000:
        w = n - 0x10000
        return "pair %x %x" % (0xD800 + (w >> 10), 0xDC00 + (w & 0x3FF))
    return "single %x" % n

def gen_rm(r):
    ops = ["P-:0:1"]; pushed = 1
    for _ in range(2 + r.below(28)):
        c = r.below(100)
        if c < 45:
            ops.append("P%s:%d:%d" % (r.choice(["-", "1", "1", "2", "3", "4"]), r.below(2), 1 if r.chance(4, 5) else 0)); pushed += 1
        elif c < 80: ops.append("O%d" % r.below(2))
        elif c < 92: ops.append("C%d" % r.below(pushed + 2))
        else: ops.append("R")
    return "RM " + ",".join(ops)

def direct_cases(ctx):
    r = ctx.rng
    n = 10 if ctx.thorough() else 1
    lines = []
    fixed = ["XB 4 0 H0 n3,c,c,g", "XB 1023 8 H1 n8,c", "XB 1023 8 H0 n8,c", "XB 0 0 H0 c,c,c", "XB 3 0 H0 n3,c",
             "ES " + ",".join(["p"] * 200), "WS " + ",".join(["p", "x17"] * 60), "ES p," + ",".join(["x16", "c33"] * 12),
             "VV " + ",".join(["a"] * 120), "RV " + ",".join(["a"] * 120), "DB 31 a30,a5,s100", "DB 200 a300,a500,g",
             "TK 10 7b.30.7d.41.42 3 0 0 0", "TK 2047 65.20.7b.30.7d.20.7b.31.7d 100000 3 0 0", "TK 10 7b.30.7d.41 9 0 0 0",
             "CR c 16 1.0.f.f.f.f", "CR c 16 1.0.0.0.0.0.0.4.1", "CR a 16 1.0.0.0.0.0.0.4.1", "CR c 10 " + ".".join(["0"] * 400 + ["6", "5"]),
             "CR c 10 4.2.9.4.9.6.7.3.6.1", "CR a 10 4.2.9.4.9.6.7.3.6.1",
             "RM P-:0:1,P1:0:1,P2:1:1,P1:0:1,O0,O1,O0,O0,R", "RM P-:0:1,P1:1:0,O1,C1,C9,R,P-:0:1", "RM P-:0:1,P1:1:1,P1:1:1,P1:1:1,R"]
    lines += fixed
    for _ in range(180 * n): lines.append(gen_xb(r))
    for _ in range(30 * n): lines.append(gen_stack(r, "ES")); lines.append(gen_stack(r, "WS"))
    for _ in range(90 * n): lines.append(gen_vec(r, "VV")); lines.append(gen_vec(r, "RV"))
    for _ in range(60 * n): lines.append(gen_rt(r))
    for _ in range(120 * n): lines.append(gen_db(r))
    for _ in range(180 * n): lines.append(gen_tk(r))
    for _ in range(300 * n): lines.append(gen_cr(r))
    for _ in range(180 * n): lines.append(gen_rm(r))
    return lines

def spec_len(line):
    """independent length oracle for the plain containers (no handler): None when not applicable"""
    t = line.split()
    if t[0] == "XB" and t[2] == "0":
        n = 0
        for o in t[4].split(","):
            if o == "c": n += 1
            elif o[0] == "n": n += int(o[1:])
            elif o[0] == "s": n = int(o[1:])
            elif o == "r": n = 0
        return "len %d" % n
    if t[0] in ("VV", "RV"):
        n = 0
        for o in t[1].split(","):
            if o == "a": n += 1
            elif o[0] == "i":
                if int(o[1:]) <= n: n += 1
            elif o[0] == "d":
                if int(o[1:]) < n: n -= 1
            elif o == "x": n = 0
        return "len %d" % n
    if t[0] == "DB":
        n = 0
        for o in t[2].split(","):
            if o[0] == "a": n += int(o[1:])
            elif o[0] == "s": n = int(o[1:])
            elif o == "r": n = 0
        return "len %d" % n
    return None

def run_direct(ctx):
    lines = direct_cases(ctx)
    m = common.run_driver(["safety"], input=("\n".join(lines) + "\n").encode()).decode(errors="replace").split("\n")
    if m and m[-1] == "": m.pop()
    if len(m) != len(lines):
        raise common.InfraError("xvdriver safety: %d lines for %d cases" % (len(m), len(lines)))
    i, errs, crashes = run_sharded("hx_safety", lines, wall_per_case=1.0)
    hist = {}
    found = {}
    def add(key, what, line, concrete=True, extra=None):
        if key not in found or len(line) < len(found[key]["replay"]["line"]):
            found[key] = {"key": key, "concrete": concrete, "what": what,
                          "replay": dict({"tier": "direct", "harness": "hx_safety", "line": line}, **(extra or {}))}
    for k, line in enumerate(lines):
        tag = line.split()[0]
        hist[tag] = hist.get(tag, 0) + 1
        mo, io, err = m[k], i[k], errs.get(k, "")
        if mo == "bad-op":
            raise common.InfraError("model rejected generated case " + line[:200])
        if "MODEL-" in mo:
            add("model:" + tag, "the model itself reports %s on %s" % (mo, line[:200]), line, concrete=False)
        for key, what in classify(io, err, "direct-" + tag, False):
            add(key, "%s on direct case %s" % (what, line[:300]), line, extra={"impl": io, "model": mo})
        if tag == "CR" and not io.startswith("CRASH") and io != spec_cr(line):
            # judged by the Spec whether or not the model agrees with the implementation
            sp = spec_cr(line); site = line.split()[1]
            key = {"c": "charref-content", "a": "charref-attvalue", "d": "charref-dtd-entity-value", "t": "charref-dtd-attdefault"}[site]
            add(key + ("-wrap" if io.startswith(("single", "pair")) and sp == "invalid" else ""),
                "character reference %s (site %s): parser delivers '%s', XML 1.0 requires '%s'" % (line, site, io, sp), line,
                extra={"impl": io, "model": mo, "spec": sp})
            continue
        if io.startswith("CRASH") or io == mo:
            if tag == "RM" and not io.endswith("leak 0") and not io.startswith("CRASH"):
                add("leak:ReaderMgr", "ReaderMgr history leaves allocations behind after reset + destruction: %s -> %s" % (line, io), line, extra={"impl": io})
            continue
        # disagreement: judge the implementation by the Spec
        if tag == "CR":
            sp = spec_cr(line)
            # the model stops at the number; the XMLChar table test (C02's tables) is applied on top of it here
            mf = mo
            if mo.startswith("single ") and not xml_char_10(int(mo.split()[1], 16)): mf = "invalid"
            if io == sp and io == mf:
                continue
            if io != sp:
                site = line.split()[1]
                key = {"c": "charref-content", "a": "charref-attvalue", "d": "charref-dtd-entity-value", "t": "charref-dtd-attdefault"}[site]
                add(key + ("-wrap" if io.startswith(("single", "pair")) and sp == "invalid" else ""),
                    "character reference %s (site %s): parser delivers '%s', XML 1.0 requires '%s'" % (line, site, io, sp), line,
                    extra={"impl": io, "model": mo, "spec": sp})
            else:
                add("corr:safety-CR", "model of scanCharRef drifted: %s model=%s impl=%s" % (line, mo, io), line, concrete=False, extra={"impl": io, "model": mo})
        elif tag == "RM":
            if not io.endswith("leak 0"):
                add("leak:ReaderMgr", "ReaderMgr history leaves allocations behind: %s -> %s" % (line, io), line, extra={"impl": io, "model": mo})
            else:
                add("corr:safety-RM", "ReaderMgr model vs implementation: %s model=%s impl=%s" % (line, mo, io), line, concrete=False, extra={"impl": io, "model": mo})
        elif tag == "TK":
            mx = int(line.split()[1]); out = int(io.split()[1]) if io.startswith("out ") else -1
            if out > mx:
                add("replaceTokens-overrun", "XMLString::replaceTokens returned %d > maxChars %d: %s" % (out, mx, line), line, extra={"impl": io, "model": mo})
            else:
                add("corr:safety-TK", "replaceTokens model vs implementation: %s model=%s impl=%s" % (line, mo, io), line, concrete=False, extra={"impl": io, "model": mo})
        else:
            sp = spec_len(line)
            if sp is not None and not io.startswith(sp):
                add("container-length:" + tag, "%s: implementation reports '%s', appended/removed elements give '%s'" % (line[:300], io, sp), line, extra={"impl": io, "model": mo, "spec": sp})
            else:
                add("corr:safety-" + tag, "growth model vs implementation: %s model=%s impl=%s" % (line[:300], mo, io), line, concrete=False, extra={"impl": io, "model": mo})
    ctx.stats["direct_cases"] = len(lines)
    ctx.stats["direct_histogram"] = hist
    ctx.stats["direct_crashes"] = len(crashes)
    ctx.samples.append({"direct": lines[40], "model": m[40], "impl": i[40]})
    ctx.samples.append({"direct": lines[-5][:300], "model": m[-5][:200], "impl": i[-5][:200]})
    return lines, found

# ====================================================================== (2) facts
def ucs4_doc(nchars, bom=True, little=False, enc="UCS-4"):
    txt = '<?xml version="1.0" encoding="%s"?><a>' % enc + "x" * nchars + "</a>"
    fmt = "<I" if little else ">I"
    b = b"".join(struct.pack(fmt, ord(ch)) for ch in txt)
    if bom: b = (b"\xff\xfe\x00\x00" if little else b"\x00\x00\xfe\xff") + b
    return b

def hexs(b): return b.hex() if b else "-"

def run_facts(ctx, found):
    fl = common.run_driver(["safety"], input=b"facts\n").decode().strip()
    facts = dict(kv.split("=") for kv in fl.split())
    ctx.stats["facts"] = facts
    def add(key, what, replay, concrete=True):
        found.setdefault(key, {"key": key, "concrete": concrete, "what": what, "replay": replay})
    # character references in DTD literals
    line = "CR d 16 1.0.0.0.0.0.0.4.1"
    o, e, _ = run_sharded("hx_safety", [line], nproc=1)
    if o[0] != "invalid":
        add("charref-dtd-entity-value-wrap", "DTDScanner::scanCharRef has no overflow guard (dtdCharRefGuarded=%s, theorem dtd_charref_wraps_of_unguarded): "
            "<!ENTITY e \"&#x100000041;\"> is accepted and delivers '%s' instead of a fatal InvalidCharacterRef" % (facts.get("dtdCharRefGuarded"), o[0]),
            {"tier": "direct", "harness": "hx_safety", "line": line, "impl": o[0], "spec": "invalid",
             "document": "<!DOCTYPE a [<!ENTITY e \"&#x100000041;\">]><a>&e;</a>"})
    elif facts.get("dtdCharRefGuarded") != "1":
        add("fact:dtdCharRefGuarded", "extracted DTDScanner::scanCharRef shows no guard but the witness is rejected", {"facts": facts}, False)
    # UCS-4 BOM loop
    size = int(facts.get("rawBufSize", "49152"))
    doc = ucs4_doc(size // 4 + 100)
    pl = "dom:ig:never:1:0 " + hexs(doc)
    o, e, _ = run_sharded("hx_parse", [pl], nproc=1)
    ks = [k for k in classify(o[0], e.get(0, ""), "ucs4-bom", False)]
    if ks:
        for k, w in ks:
            add(k, "UCS-4 document with BOM of %d bytes (>= kRawBufSize): %s  [bomLoopSafe=%s, theorem ucs4_bom_shift_as_extracted]" % (len(doc), w, facts.get("bomLoopSafe")),
                {"tier": "parse", "harness": "hx_parse", "line": pl, "impl": o[0], "family": "ucs4-bom"})
    elif facts.get("bomLoopSafe") != "1":
        add("fact:bomLoopSafe", "extracted BOM loop has no slack but no sanitizer report on a full-buffer UCS-4 document", {"facts": facts, "line": pl}, False)
    # replaceTokens brace copy
    line = "TK 10 7b.30.7d.41.7b 9 0 0 0"
    o, e, _ = run_sharded("hx_safety", [line], nproc=1)
    ks = classify(o[0], e.get(0, ""), "direct-TK", False)
    if ks or (o[0].startswith("out ") and int(o[0].split()[1]) > 10):
        what = ks[0][1] if ks else o[0]
        add("replaceTokens-overrun", "XMLString::replaceTokens(errText[maxChars+1], maxChars=10, text1 of 9 chars) on \"{0}A{\" writes errText[maxChars+1] "
            "(public API; braceGuarded=%s, theorems replaceTokens_public_status / replaceTokens_overrun_witness; not reachable through the shipped message texts: emitError_bounded): %s"
            % (facts.get("braceGuarded"), what), {"tier": "direct", "harness": "hx_safety", "line": line, "impl": o[0]})
    elif facts.get("braceGuarded") != "1":
        add("fact:braceGuarded", "replaceTokens brace copy is unguarded but the witness did not overrun", {"facts": facts, "line": line}, False)
    # DOM heap with a small initial block
    sub = int(facts.get("domMaxSub", "256"))
    line = "DH %d,%d,8,8" % (sub, sub)
    o, e, _ = run_sharded("hx_safety", [line], args=("domheap", str(sub + 1), "524288", str(sub)), nproc=1)
    ks = classify(o[0], e.get(0, ""), "domheap", False)
    if ks:
        add("domheap-suballocation-overrun", "XMLPlatformUtils::Initialize(initialDOMHeapAllocSize=%d, maxDOMHeapAllocSize=524288, maxDOMSubAllocationSize=%d) then DOMDocumentImpl::allocate(%d): %s "
            "[domAllocClamped=%s, theorem domAllocate_oob_small_heap]" % (sub + 1, sub, sub, ks[0][1], facts.get("domAllocClamped")),
            {"tier": "direct", "harness": "hx_safety", "args": ["domheap", str(sub + 1), "524288", str(sub)], "line": line, "impl": o[0]})
    elif facts.get("domAllocClamped") != "1":
        add("fact:domAllocClamped", "allocate() neither clamps the block size nor routes misfits to the system allocator, but the small-heap witness ran clean", {"facts": facts, "line": line}, False)
    if facts.get("xmlCharRefGuarded") != "1":
        add("fact:xmlCharRefGuarded", "XMLScanner::scanCharRef overflow guard not found", {"facts": facts}, False)

# ====================================================================== (3) parse search: corpus
XSI = 'xmlns:xsi="http://www.w3.org/2001/XMLSchema-instance"'
XS = 'xmlns:xs="http://www.w3.org/2001/XMLSchema"'

def corpus():
    """list of (family, main bytes, {resource name: bytes}, needs flags)"""
    D = []
    def add(fam, main, res=None, flags=0):
        D.append((fam, main if isinstance(main, bytes) else main.encode("utf-8"), {k: (v if isinstance(v, bytes) else v.encode("utf-8")) for k, v in (res or {}).items()}, flags))
    add("basic", '<?xml version="1.0"?><a>text</a>')
    add("basic", '<?xml version="1.0" encoding="UTF-8" standalone="yes"?>\n<!-- c --><a b="1" c=\'2\'><b/><c>t<d>u</d>v</c><?pi data?><![CDATA[x<y]]>&lt;&amp;&#65;&#x1F600;</a><!-- e -->')
    add("namespaces", '<p:a xmlns:p="urn:p" xmlns="urn:d" xml:lang="en"><b p:x="1" y="2"/><p:c xmlns:p="urn:q"><p:d/></p:c><e xmlns=""/></p:a>')
    add("dtd-internal", '<!DOCTYPE a [<!ELEMENT a (b|c)*><!ELEMENT b EMPTY><!ELEMENT c (#PCDATA|b)*>'
        '<!ATTLIST b i ID #IMPLIED r IDREF #IMPLIED rs IDREFS #IMPLIED n NMTOKEN "x" ns NMTOKENS #IMPLIED e (p|q) "p" f CDATA #FIXED "k">'
        '<!ENTITY g "gen<b/>text"><!ENTITY % pe "<!ELEMENT z ANY>">%pe;<!NOTATION nt SYSTEM "nt-id"><!ENTITY u SYSTEM "u.bin" NDATA nt>'
        '<!ATTLIST c en ENTITY #IMPLIED ens ENTITIES #IMPLIED no NOTATION (nt) #IMPLIED>]>'
        '<a><b i="i1" e="q"/><c en="u">x&g;y<b r="i1" rs="i1 i1" ns="a b"/></c></a>')
    add("dtd-internal", '<!DOCTYPE a [<!ELEMENT a (b,c?,(d|e)+,f*)><!ELEMENT b (#PCDATA)><!ELEMENT c ANY><!ELEMENT d EMPTY><!ELEMENT e EMPTY><!ELEMENT f (b)>'
        '<!ATTLIST a x CDATA #REQUIRED>]><a x="&#60;&#38;"><b>t</b><d/><e/><d/><f><b/></f></a>')
    add("entities", '<!DOCTYPE a [<!ENTITY a1 "x"><!ENTITY a2 "&a1;&a1;"><!ENTITY a3 "&a2;<b>&a2;</b>"><!ENTITY lt2 "&#38;#60;">]><a t="&a2;">&a3;&lt2;</a>')
    add("dtd-external", '<?xml version="1.0"?><!DOCTYPE a SYSTEM "e.dtd" [<!ENTITY % loc "INCLUDE">]><a b="v">&ext;&int;</a>',
        {"e.dtd": '<?xml version="1.0" encoding="UTF-8"?><!ELEMENT a (#PCDATA|c)*><!ATTLIST a b CDATA "d" z CDATA "dz"><!ENTITY int "internal">'
                  '<!ENTITY ext SYSTEM "x.ent"><![%loc;[<!ELEMENT c EMPTY>]]><![IGNORE[<!ELEMENT q EMPTY><![INCLUDE[ x ]]>]]><!ENTITY % p2 SYSTEM "p.ent">%p2;',
         "x.ent": '<?xml version="1.0" encoding="UTF-8"?>ext<c/>text', "p.ent": '<!ATTLIST a pp CDATA "ppv">'}, flags=1 << 4)
    add("xml11", '<?xml version="1.1"?><a b="&#1;">x\u0085y z&#x7F;&#x9F;</a>')
    add("xml11", '<?xml version="1.1" encoding="UTF-8"?><!DOCTYPE él [<!ELEMENT él (#PCDATA)>]><él>\u0085</él>')
    xsd = ('<?xml version="1.0"?><xs:schema ' + XS + ' elementFormDefault="qualified">'
           '<xs:element name="r"><xs:complexType><xs:sequence><xs:element name="i" type="T" minOccurs="0" maxOccurs="unbounded"/>'
           '<xs:element ref="h" minOccurs="0"/><xs:any namespace="##other" processContents="lax" minOccurs="0"/></xs:sequence>'
           '<xs:attribute name="v" type="xs:int" use="required"/><xs:anyAttribute processContents="skip"/></xs:complexType>'
           '<xs:key name="k"><xs:selector xpath="i"/><xs:field xpath="@id"/></xs:key><xs:keyref name="kr" refer="k"><xs:selector xpath="i"/><xs:field xpath="@ref"/></xs:keyref>'
           '<xs:unique name="u"><xs:selector xpath=".//i"/><xs:field xpath="n"/></xs:unique></xs:element>'
           '<xs:element name="h" type="xs:string" abstract="false"/><xs:element name="h2" substitutionGroup="h" type="xs:string"/>'
           '<xs:complexType name="T"><xs:annotation><xs:documentation>doc</xs:documentation><xs:appinfo source="urn:s">ai</xs:appinfo></xs:annotation>'
           '<xs:choice><xs:element name="n" type="N" maxOccurs="3"/><xs:group ref="g"/></xs:choice><xs:attribute name="id" type="xs:ID"/><xs:attribute name="ref" type="xs:string"/></xs:complexType>'
           '<xs:group name="g"><xs:all><xs:element name="p" type="xs:date" minOccurs="0"/><xs:element name="q" type="L" minOccurs="0"/></xs:all></xs:group>'
           '<xs:simpleType name="N"><xs:restriction base="xs:string"><xs:pattern value="[a-z]{1,8}(-[0-9]+)?"/><xs:maxLength value="20"/></xs:restriction></xs:simpleType>'
           '<xs:simpleType name="L"><xs:list><xs:simpleType><xs:union memberTypes="xs:int xs:boolean"/></xs:simpleType></xs:list></xs:simpleType>'
           '<xs:complexType name="E"><xs:complexContent><xs:extension base="T"><xs:attribute name="x" type="xs:decimal" default="1.5"/></xs:extension></xs:complexContent></xs:complexType>'
           '</xs:schema>')
    add("schema", '<r ' + XSI + ' xsi:noNamespaceSchemaLocation="s.xsd" v="3"><i id="a"><n>abc-12</n></i><i id="b" ref="a" xsi:type="E" x="2"><p>2001-02-03</p><q>1 true 2</q></i><h2>s</h2></r>',
        {"s.xsd": xsd}, flags=3 | (1 << 6))
    xsd2 = ('<xs:schema ' + XS + ' targetNamespace="urn:t" xmlns:t="urn:t" xmlns:o="urn:o" elementFormDefault="qualified"><xs:import namespace="urn:o" schemaLocation="o.xsd"/><xs:include schemaLocation="i.xsd"/>'
            '<xs:element name="r"><xs:complexType><xs:sequence><xs:element ref="o:x" maxOccurs="2"/><xs:element name="y" type="t:Y"/></xs:sequence></xs:complexType></xs:element></xs:schema>')
    add("schema", '<t:r xmlns:t="urn:t" xmlns:o="urn:o" ' + XSI + ' xsi:schemaLocation="urn:t t.xsd urn:o o.xsd"><o:x>5</o:x><t:y>12.50</t:y></t:r>',
        {"t.xsd": xsd2, "o.xsd": '<xs:schema ' + XS + ' targetNamespace="urn:o"><xs:element name="x" type="xs:positiveInteger"/></xs:schema>',
         "i.xsd": '<xs:schema ' + XS + ' targetNamespace="urn:t"><xs:simpleType name="Y"><xs:restriction base="xs:decimal"><xs:totalDigits value="6"/><xs:fractionDigits value="2"/><xs:minInclusive value="0"/></xs:restriction></xs:simpleType></xs:schema>'},
        flags=3 | (1 << 17))
    add("dtd+schema", '<!DOCTYPE r [<!ENTITY e "7"><!ATTLIST r v CDATA "1">]><r ' + XSI + ' xsi:noNamespaceSchemaLocation="s.xsd">&e;</r>',
        {"s.xsd": '<xs:schema ' + XS + '><xs:element name="r"><xs:complexType><xs:simpleContent><xs:extension base="xs:int"><xs:attribute name="v" type="xs:int"/></xs:extension></xs:simpleContent></xs:complexType></xs:element></xs:schema>'}, flags=3)
    add("xinclude", '<a xmlns:xi="http://www.w3.org/2001/XInclude"><xi:include href="inc.xml"/><xi:include href="missing.xml"><xi:fallback><f/></xi:fallback></xi:include><xi:include href="t.txt" parse="text"/></a>',
        {"inc.xml": '<?xml version="1.0"?><inc xml:base="http://b/">i</inc>', "t.txt": "plain <text>"}, flags=1 | (1 << 8))
    # encodings
    base = '<a b="é">café €</a>'
    add("enc-utf8bom", b"\xef\xbb\xbf" + ('<?xml version="1.0" encoding="UTF-8"?>' + base).encode("utf-8"))
    add("enc-utf16", ('﻿<?xml version="1.0" encoding="UTF-16"?>' + base).encode("utf-16-le"))
    add("enc-utf16", b"\xfe\xff" + ('<?xml version="1.0" encoding="UTF-16"?>' + base + "\U0001F600").encode("utf-16-be"))
    add("enc-utf16", ('<?xml version="1.0" encoding="UTF-16LE"?>' + base).encode("utf-16-le"))
    add("enc-ucs4", ucs4_doc(10))
    add("enc-ucs4", ucs4_doc(10, little=True))
    add("enc-ucs4", ucs4_doc(10, bom=False, enc="UCS-4BE") if False else ucs4_doc(10, bom=False))
    add("enc-latin1", ('<?xml version="1.0" encoding="ISO-8859-1"?><a b="é">café</a>').encode("latin-1"))
    add("enc-win1252", ('<?xml version="1.0" encoding="windows-1252"?><a>€“</a>').encode("cp1252"))
    add("enc-ebcdic", ('<?xml version="1.0" encoding="ebcdic-cp-us"?><a b="1">text</a>').encode("cp037"))
    add("enc-ebcdic", ('<?xml version="1.0" encoding="IBM1140"?><a>x</a>').encode("cp1140"))
    add("enc-ascii", '<?xml version="1.0" encoding="US-ASCII"?><a>x</a>')
    return D

TOKENS = [b"<!", b"<?", b"]]>", b"&#", b"%", b"<![", b"<![CDATA[", b"-->", b"<!--", b"&", b";", b"<", b">", b"\"", b"'", b"<!DOCTYPE", b"<!ENTITY", b"&#x", b"\x00", b"\xff\xfe",
          b"\xef\xbb\xbf", b"xmlns:", b"[", b"]>", b"?>", b"&#xD800;", b"&#0;", b"\r", b"\x85", b"\xe2\x80\xa8", b"\xed\xa0\x80", b"\xf4\x90\x80\x80", b"<a", b"</", b"/>", b"=", b"%pe;", b"<![IGNORE[", b"<![INCLUDE["]
RELABEL = ["UTF-16", "UTF-16LE", "UTF-16BE", "UCS-4", "UCS-4LE", "ISO-8859-1", "ebcdic-cp-us", "IBM1140", "IBM1047", "windows-1252", "US-ASCII", "UTF-8", "ISO-10646-UCS-2", "bogus-enc", "ibm037", "UTF-32"]

def mutate(r, fam, main, res, allmains):
    """one mutated variant: (family, main, resources)"""
    c = r.below(100)
    target_res = res and r.chance(1, 3)
    name = r.choice(sorted(res)) if target_res else None
    data = res[name] if target_res else main
    def put(new):
        if target_res:
            nr = dict(res); nr[name] = new; return main, nr
        return new, res
    if c < 22 and data:
        k = 1 + r.below(4); b = bytearray(data)
        for _ in range(k):
            p = r.below(len(b)); m = r.below(3)
            if m == 0: b[p] ^= 1 << r.below(8)
            elif m == 1: b[p] = r.choice([0, 0x3C, 0x26, 0x25, 0x22, 0x3E, 0x5D, 0xFF, 0x80, 0xC0, 0xED, 0xF4, 0x0D, 0x09, 0x7F, 0x85])
            else: b[p] = r.below(256)
        m2, r2 = put(bytes(b)); return fam + "/flip", m2, r2
    if c < 36 and data:
        p = r.below(len(data) + 1); t = r.choice(TOKENS)
        m2, r2 = put(data[:p] + t + data[p:]); return fam + "/token", m2, r2
    if c < 46 and len(data) > 2:
        m2, r2 = put(data[:r.below(len(data))]); return fam + "/trunc", m2, r2
    if c < 56 and data:
        other = r.choice(allmains)
        a = r.below(len(data) + 1); b = r.below(len(other) + 1)
        m2, r2 = put(data[:a] + other[b:]); return fam + "/splice", m2, r2
    if c < 70 and len(data) > 4:
        a = r.below(len(data) - 1); l = 1 + r.below(min(40, len(data) - a)); k = r.choice([1, 2, 3, 5, 8, 10, 12])
        rep = data[a:a + l] * (2 ** k)
        if len(rep) > 300000: rep = rep[:300000]
        m2, r2 = put(data[:a] + rep + data[a + l:]); return fam + "/dup", m2, r2
    if c < 80:
        enc = r.choice(RELABEL)
        try: txt = data.decode("utf-8")
        except UnicodeDecodeError: txt = data.decode("latin-1")
        mdecl = re.match(r"<\?xml[^>]*\?>", txt)
        body = txt[mdecl.end():] if mdecl else txt
        newtxt = '<?xml version="1.0" encoding="%s"?>' % enc + body
        mode = r.below(3)
        if mode == 0: nb = newtxt.encode("utf-8")                       # label lies about UTF-8 bytes
        elif mode == 1:
            try: nb = newtxt.encode({"UTF-16": "utf-16", "UTF-16LE": "utf-16-le", "UTF-16BE": "utf-16-be", "ebcdic-cp-us": "cp037", "IBM1140": "cp1140", "ISO-8859-1": "latin-1",
                                     "windows-1252": "cp1252", "UCS-4": "utf-32-be", "UCS-4LE": "utf-32-le", "UTF-32": "utf-32"}.get(enc, "utf-8"), errors="replace")
            except LookupError: nb = newtxt.encode("utf-8")
        else: nb = data.decode("latin-1").encode("utf-16-le")           # bytes really are UTF-16, label says otherwise
        m2, r2 = put(nb); return fam + "/relabel", m2, r2
    if c < 90 and data:
        a = r.below(len(data)); l = 1 + r.below(min(30, len(data) - a))
        m2, r2 = put(data[:a] + data[a + l:]); return fam + "/delete", m2, r2
    b = bytearray(data)
    for _ in range(1 + r.below(3)):
        p = r.below(len(b) + 1); b[p:p] = bytes(r.below(256) for _ in range(1 + r.below(4)))
    m2, r2 = put(bytes(b)); return fam + "/insert", m2, r2

RESOURCE_FAMILIES = {"schema-occurs", "dtd-cm-bomb", "pe-bomb", "laughs-limit-caf", "regex-pattern"}

def size_cases(r, thorough):
    """(family, main, res, flags, limit) — large / adversarial shapes; sizes fixed so that run time is stable"""
    S = []
    def add(fam, main, res=None, flags=1, limit=0):
        S.append((fam, main if isinstance(main, bytes) else main.encode("utf-8"), {k: v.encode("utf-8") if isinstance(v, str) else v for k, v in (res or {}).items()}, flags, limit))
    depth = 20000
    add("deep-nesting", "<a>" * depth + "</a>" * depth)
    add("deep-nesting", "<a>" * depth)
    add("deep-nesting-ns", '<p:a xmlns:p="urn:p">' * 3000 + "</p:a>" * 3000)
    add("many-attrs", "<a " + " ".join('a%d="%d"' % (i, i) for i in range(5000)) + "/>")
    add("many-attrs-ns", "<a " + " ".join('xmlns:p%d="urn:%d" p%d:b="1"' % (i, i, i) for i in range(1500)) + "/>")
    add("many-children", "<a>" + "<b/>" * 30000 + "</a>")
    for n in ((16383, 16384, 16385, 49151, 49152, 49153) if thorough else (16384, 49152, 49153)):
        add("long-name", "<" + "n" * n + "/>")
        add("long-name", "<a " + "n" * n + '="1"/>')
    for n in ((16384 * 3 - 7, 16384 * 3 - 3, 16384 * 3 + 1) if thorough else (16384 * 3 - 3,)):
        add("long-name-mb", "<a>" + "é" * (n // 2) + "</a>")
        add("long-name-mb", "<" + "€" * (n // 3) + "/>")
    add("long-attr", '<a b="' + "v" * 100000 + '"/>')
    add("long-attr", '<a b="' + "&#65;" * 30000 + '"/>')
    add("long-text", "<a>" + "t" * 300000 + "</a>")
    add("long-cdata", "<a><![CDATA[" + "]" * 100000 + "]]></a>")
    add("long-comment", "<a><!--" + "- " * 60000 + "--></a>")
    add("long-pi", "<?p " + "d" * 100000 + "?><a/>")
    add("long-charref", "<a>&#" + "0" * 100000 + "65;</a>")
    add("long-charref", "<a>&#x" + "F" * 100000 + ";</a>")
    add("long-charref", '<!DOCTYPE a [<!ENTITY e "&#' + "9" * 50000 + ';">]><a>&e;</a>')
    add("long-entity-name", "<a>&" + "e" * 100000 + ";</a>")
    add("long-doctype", "<!DOCTYPE " + "d" * 50000 + " [<!ELEMENT a EMPTY>]><a/>")
    add("long-literal", '<!DOCTYPE a PUBLIC "' + "p" * 70000 + '" "' + "s" * 70000 + '"><a/>')
    for k in ((48 * 1024 // 4 - 20, 48 * 1024 // 4 + 100, 3 * 48 * 1024 // 4) if thorough else (48 * 1024 // 4 + 100,)):
        add("ucs4-bom", ucs4_doc(k)); add("ucs4-bom", ucs4_doc(k, little=True)); add("ucs4-nobom", ucs4_doc(k, bom=False))
    add("utf16-big", ('﻿<?xml version="1.0" encoding="UTF-16"?><a>' + "\U0001F600" * 20000 + "</a>").encode("utf-16-le"))
    add("ebcdic-big", ('<?xml version="1.0" encoding="ebcdic-cp-us"?><a>' + "x" * 100000 + "</a>").encode("cp037"))
    # DTD content-model bombs
    grp = "(a|b|c|d)*"
    add("dtd-cm-bomb", "<!DOCTYPE r [<!ELEMENT r (" + ",".join([grp] * 30) + ")><!ELEMENT a EMPTY><!ELEMENT b EMPTY><!ELEMENT c EMPTY><!ELEMENT d EMPTY>]><r>" + "<a/><b/>" * 40 + "</r>", flags=0)
    add("dtd-cm-bomb", "<!DOCTYPE r [<!ELEMENT r (" + ",".join(["a?"] * 30) + ")><!ELEMENT a EMPTY>]><r>" + "<a/>" * 29 + "</r>", flags=0)
    add("dtd-cm-bomb", "<!DOCTYPE r [<!ELEMENT r (" + ",".join(["(a|b)?"] * 30) + ",c)><!ELEMENT a EMPTY><!ELEMENT b EMPTY><!ELEMENT c EMPTY>]><r>" + "<a/><b/>" * 14 + "<c/></r>", flags=0)
    add("dtd-cm-deep", "<!DOCTYPE r [<!ELEMENT r " + "(" * 3000 + "a" + ")" * 3000 + "><!ELEMENT a EMPTY>]><r><a/></r>", flags=0)
    add("dtd-cm-wide", "<!DOCTYPE r [<!ELEMENT r (" + "|".join("e%d" % i for i in range(4000)) + ")*>]><r/>", flags=0)
    add("dtd-many-decls", "<!DOCTYPE r [" + "".join('<!ELEMENT e%d EMPTY><!ATTLIST e%d a CDATA "d%d"><!ENTITY g%d "v%d">' % (i, i, i, i, i) for i in range(3000)) + "]><r/>", flags=0)
    # entities
    def laughs(levels, fan):
        return "<!DOCTYPE a [<!ENTITY a0 \"" + "a" * 10 + "\">" + "".join('<!ENTITY a%d "%s">' % (i, ("&a%d;" % (i - 1)) * fan) for i in range(1, levels)) + "]><a>&a%d;</a>" % (levels - 1)
    add("laughs-limit", laughs(10, 10), flags=1 | (1 << 10), limit=1000)
    add("laughs-limit", laughs(10, 10).replace("<a>&a9;</a>", '<a b="&a9;"/>'), flags=1 | (1 << 10), limit=1000)
    add("laughs-limit", laughs(30, 2), flags=1 | (1 << 10), limit=100)
    add("laughs-limit-caf", laughs(8, 10), flags=1 | (1 << 10) | (1 << 3), limit=1000)
    if thorough: add("laughs-nolimit", laughs(6, 10), flags=1)       # calibration only (no limit set: slow by design)
    add("recursive-entity", '<!DOCTYPE a [<!ENTITY e "x&e;">]><a>&e;</a>')
    add("recursive-entity", '<!DOCTYPE a [<!ENTITY e "x&f;"><!ENTITY f "y&e;">]><a b="&e;">&f;</a>')
    add("recursive-entity", '<!DOCTYPE a SYSTEM "e.dtd"><a/>', {"e.dtd": '<!ENTITY % p SYSTEM "e.dtd">%p;'}, flags=1 | (1 << 4))
    add("recursive-entity", '<!DOCTYPE a [<!ENTITY e SYSTEM "x.ent">]><a>&e;</a>', {"x.ent": "t&e;"}, flags=1 | (1 << 4))
    add("pe-bomb", '<!DOCTYPE a SYSTEM "e.dtd"><a/>',
        {"e.dtd": '<!ENTITY % p0 "<!-- c -->">' + "".join('<!ENTITY %% p%d "%s">' % (i, ("&#37;p%d;" % (i - 1)) * 8) for i in range(1, 7)) + "%p6;"}, flags=1 | (1 << 4) | (1 << 10), limit=100)
    add("many-entity-refs", '<!DOCTYPE a [<!ENTITY e "v">]><a>' + "&e;" * 10000 + "</a>")
    add("many-entity-refs-limit", '<!DOCTYPE a [<!ENTITY e "v">]><a>' + "&e;" * 10000 + "</a>", flags=1 | (1 << 10), limit=100)
    # schema particles / regexes
    def occ(mx, nest):
        inner = '<xs:element name="x" type="xs:string" minOccurs="0" maxOccurs="%s"/>' % mx
        for _ in range(nest):
            inner = '<xs:sequence minOccurs="0" maxOccurs="%s">%s</xs:sequence>' % (mx, inner)
        return '<xs:schema ' + XS + '><xs:element name="r"><xs:complexType><xs:sequence>' + inner + '</xs:sequence></xs:complexType></xs:element></xs:schema>'
    inst = '<r ' + XSI + ' xsi:noNamespaceSchemaLocation="s.xsd"><x>1</x><x>2</x></r>'
    add("schema-occurs", inst, {"s.xsd": occ("3000", 1)}, flags=3)
    add("schema-occurs", inst, {"s.xsd": occ("4294967296", 0)}, flags=7)
    if thorough:
        add("schema-occurs", inst, {"s.xsd": occ("100000", 0)}, flags=7)
        add("schema-occurs", inst, {"s.xsd": occ("100000", 2)}, flags=7)
        add("schema-occurs", inst, {"s.xsd": occ("99999999999999999999", 1)}, flags=7)
    def pat(p, val):
        return ('<r ' + XSI + ' xsi:noNamespaceSchemaLocation="s.xsd">%s</r>' % val,
                {"s.xsd": '<xs:schema ' + XS + '><xs:element name="r"><xs:simpleType><xs:restriction base="xs:string"><xs:pattern value="%s"/></xs:restriction></xs:simpleType></xs:element></xs:schema>' % p})
    for p, v in [("(b*)*c", "b"), ("(a|aa)*b", "a" * 45), ("(a*)*", "a" * 30 + "!"), ("[a-z]{1,1000}{1,1000}", "x"), ("a{0,100000}", "aaa"), ("(((a?){30}){30})", "a" * 20),
                 ("\\p{L}*[\\i-[:]][\\c-[:]]*", "abc"), ("[\\s\\S]{65535}", "x"), ("(" * 2000 + "a" + ")" * 2000, "a"), ("a" * 50000, "a"), ("[" + "a-b" * 20000 + "]", "a"),
                 ("\\p{IsBasicLatin}+\\P{Nd}", "ab"), ("(a|b|c|d|e|f|g){1,64}h", "abcdefg" * 9)][:(99 if thorough else 1)] + \
                [("(a+)+b", "a" * 32), ("\\p{L}*[\\i-[:]][\\c-[:]]*", "abc"), ("(" * 2000 + "a" + ")" * 2000, "a")]:
        m, rs = pat(p.replace("&", "&amp;").replace("<", "&lt;"), v)
        add("regex-pattern", m, rs, flags=3)
    add("schema-deep-types", '<r ' + XSI + ' xsi:noNamespaceSchemaLocation="s.xsd"/>',
        {"s.xsd": '<xs:schema ' + XS + '><xs:element name="r" type="T2000"/><xs:complexType name="T0"/>' +
                  "".join('<xs:complexType name="T%d"><xs:complexContent><xs:extension base="T%d"/></xs:complexContent></xs:complexType>' % (i, i - 1) for i in range(1, 2001)) + "</xs:schema>"}, flags=7)
    add("schema-many-decls", '<r ' + XSI + ' xsi:noNamespaceSchemaLocation="s.xsd"/>',
        {"s.xsd": '<xs:schema ' + XS + '><xs:element name="r"/>' + "".join('<xs:element name="e%d" type="xs:int"/>' % i for i in range(5000)) + "</xs:schema>"}, flags=3)
    add("schema-recursive-import", '<r ' + XSI + ' xsi:noNamespaceSchemaLocation="s.xsd"/>',
        {"s.xsd": '<xs:schema ' + XS + '><xs:include schemaLocation="s.xsd"/><xs:include schemaLocation="t.xsd"/><xs:element name="r"/></xs:schema>',
         "t.xsd": '<xs:schema ' + XS + '><xs:include schemaLocation="s.xsd"/><xs:redefine schemaLocation="t.xsd"/></xs:schema>'}, flags=3)
    add("xinclude-recursive", '<a xmlns:xi="http://www.w3.org/2001/XInclude"><xi:include href="inc.xml"/></a>',
        {"inc.xml": '<b xmlns:xi="http://www.w3.org/2001/XInclude"><xi:include href="inc.xml"/><xi:include href="doc.xml"/></b>'}, flags=1 | (1 << 8))
    add("empty", b"")
    add("empty", b"\x00")
    add("empty", b"\xff\xfe")
    add("empty", b"\x00\x00\xfe\xff")
    add("empty", b"<")
    return S

APIS = ["sax", "sax2", "dom", "ls"]; SCANNERS = ["ig", "wf", "dg", "sg"]; VALS = ["never", "auto", "always"]
OPT_BITS = [6, 7, 9, 11, 12, 13, 14, 15, 17, 18, 19]
def pick_config(r, need_flags, caf_ok=False, limit=0):
    api = r.choice(APIS); sc = r.choice(SCANNERS); val = r.choice(VALS)
    f = need_flags
    if r.chance(1, 2): f |= 1
    if r.chance(1, 4): f |= 2
    if r.chance(1, 6): f |= 4
    if r.chance(1, 3): f |= 1 << 4
    for b in OPT_BITS:
        if r.chance(1, 8): f |= 1 << b
    if r.chance(1, 10) and api in ("dom", "ls"): f |= 1 << 8
    if r.chance(1, 8) and not (f >> 10) & 1:
        f |= 1 << 10; limit = r.choice([0, 1, 5, 100, 50000])
    if caf_ok: f |= 1 << 3
    else: f &= ~(1 << 3)
    return "%s:%s:%s:%x:%d" % (api, sc, val, f, limit)

def case_line(cfg, main, res):
    return cfg + " " + hexs(main) + ("" if not res else " | " + " ".join("%s=%s" % (k, hexs(v)) for k, v in sorted(res.items())))

def witnesses():
    """corpus/C01/*.json: minimised inputs of past findings and past false alarms, replayed first in every tier"""
    d = os.path.join(common.VERIF, "corpus", "C01")
    out = []
    for f in sorted(os.listdir(d)) if os.path.isdir(d) else []:
        if f.endswith(".json"):
            j = json.load(open(os.path.join(d, f)))
            out.append((j["line"], j.get("family", "witness"), False))
    return out

# shapes that leave DTDScanner::scanChildren / scanMixed / scanElementDecl / scanAttListDecl / scanEntityDecl early: an exception
# (end of input, PE reference) or an error return in the middle of a partly built declaration
DTD_EARLY_EXIT = ["(c%", "(a,b%", "(a|(b%", "((a%", "(a,b)%", "(a ?", "(a,%", "(a,b,(c|d)*,%", "(a|b|", "(a,(b,(c,(d%", "(a)*%", "(a,b)+ %x;", "(#PCDATA|a%",
                  "(#PCDATA|a|%", "(#PCDATA)*%", "(#PCDATA|a)%", "EMPTY%", "(a,b) >%", "(%", "(a%p;", "(a,%p;b)"]
def dtd_early_exit_cases(thorough=True):
    out = []
    for k, cm in enumerate(DTD_EARLY_EXIT):
        for pre in ("", '<!ENTITY % p "|z">'):
            docs = ["<!DOCTYPE a[%s<!ELEMENT a %s" % (pre, cm), "<!DOCTYPE a[%s<!ELEMENT a %s>]><a/>" % (pre, cm)]
            if thorough:
                docs.append('<!DOCTYPE a[%s<!ATTLIST a b (x|y%s' % (pre, cm[1:]))
                docs.append('<!DOCTYPE a[%s<!ATTLIST a b NOTATION (x|y%s' % (pre, cm[1:]))
            for j, d in enumerate(docs):
                api, sc = (("ls", "ig"), ("sax2", "dg"), ("dom", "ig"), ("sax", "dg"))[(k + j) % 4]
                out.append((case_line("%s:%s:always:%x:0" % (api, sc, (k + j) % 2 * 2), d.encode(), {}), "dtd-early-exit", False))
    return out

def parse_cases(ctx):
    """list of (line, family, caf)"""
    r = ctx.rng
    C = corpus()
    mains = [c[1] for c in C]
    out = witnesses() + dtd_early_exit_cases(ctx.thorough())
    # every corpus document under every api x scanner x validation (exit-on-first-fatal on) …
    for fam, main, res, fl in C:
        for api in APIS:
            for sc in SCANNERS:
                for val in VALS:
                    if not ctx.thorough() and r.below(100) >= 22:
                        continue
                    f = fl | (1 << 19) | (1 if r.chance(2, 3) else 0) | ((1 << 4) if res else 0)
                    out.append((case_line("%s:%s:%s:%x:0" % (api, sc, val, f), main, res), "corpus-" + fam, False))
    # … every optional feature bit on its own, on four small documents (a crash that needs one particular feature must
    # not depend on the luck of the random configurations)
    sweep = [c for c in C if c[0] in ("basic", "namespaces", "dtd-internal", "schema")][:5]
    for fam, main, res, fl in sweep:
        for b in OPT_BITS + [8, 10]:
            for api in ("dom", "sax2") if b not in (7, 8, 19) else ("dom", "ls"):
                for sc in (("ig", "sg", "dg") if ctx.thorough() else ("ig", "sg")):
                    f = fl | 1 | (1 << b) | ((1 << 4) if res else 0)
                    out.append((case_line("%s:%s:%s:%x:%d" % (api, sc, "auto", f, 3 if b == 10 else 0), main, res), "sweep-" + fam, False))
    # … truncation at every offset for the small documents
    for fam, main, res, fl in C:
        if len(main) <= (400 if ctx.thorough() else 100):
            for k in range(len(main)):
                out.append((case_line(pick_config(r, fl), main[:k], res), fam + "/trunc-all", False))
    for fam, main, res, fl in C:
        for nm, data in res.items():
            if len(data) <= (300 if ctx.thorough() else 0):
                for k in range(len(data)):
                    nr = dict(res); nr[nm] = data[:k]
                    out.append((case_line(pick_config(r, fl | (1 << 4)), main, nr), fam + "/trunc-res", False))
    # random mutations
    nmut = 140000 if ctx.thorough() else 1100
    for _ in range(nmut):
        fam, main, res, fl = r.choice(C)
        f2, m2, r2 = mutate(r, fam, main, res, mains)
        if r.chance(1, 5):
            f2, m2, r2 = mutate(r, f2, m2, r2, mains)
        out.append((case_line(pick_config(r, fl if r.chance(3, 4) else 0), m2, r2), f2.split("/")[0] + "/" + f2.split("/")[-1], False))
    # size / adversarial shapes under a few configurations each
    S = size_cases(r, ctx.thorough())
    for fam, main, res, fl, lim in S:
        reps = 6 if ctx.thorough() else 1
        for k in range(reps):
            api = APIS[(k + len(main)) % 4]; sc = r.choice(SCANNERS); val = r.choice(VALS)
            if fam.startswith(("schema", "regex")):
                sc = r.choice(["ig", "sg"]); val = r.choice(["auto", "always"])
                if api == "ls": val = "auto"      # DOMLSParser validates against the schema under validate-if-schema
            if fam.startswith("dtd-cm"): sc = r.choice(["ig", "dg"]); val = "always" if k % 2 == 0 else "auto"
            caf = bool((fl >> 3) & 1)
            out.append((case_line("%s:%s:%s:%x:%d" % (api, sc, val, fl | ((1 << 4) if res else 0), lim), main, res), fam, caf))
    # continue-after-fatal stream (documented as undetermined: reported separately)
    ncaf = 12000 if ctx.thorough() else 250
    for _ in range(ncaf):
        fam, main, res, fl = r.choice(C)
        f2, m2, r2 = mutate(r, fam, main, res, mains)
        out.append((case_line(pick_config(r, fl, caf_ok=True), m2, r2), f2.split("/")[0] + "/" + f2.split("/")[-1], True))
    return out

def nontrivial(line):
    h = line.split(" ", 2)[1]
    return "3c" in h or "003c" in h or "4c" in h     # a '<' in ASCII-family, UTF-16/UCS-4 or EBCDIC

# ---------------------------------------------------------------------- minimisation
def which_reproduce(cands, key, family, caf):
    """indices of the candidate lines on which the same finding key shows up again (all candidates run in parallel)"""
    o, e, _ = run_sharded("hx_parse", cands, nproc=min(NPROC, len(cands)))
    return [k for k in range(len(cands)) if any(kk == key for kk, _ in classify(o[k], e.get(k, ""), family, caf,
                                                                                  cands[k] if cands[k].startswith("SEQ ") else cands[k].split(" ", 1)[0]))]

def ddmin_line(line, key, family, caf, budget=30.0):
    """ddmin over the bytes of the main document, then of each resource, keeping the finding key"""
    t0 = time.time()
    cfg, rest = line.split(" ", 1)
    parts = rest.split(" | ")
    main = bytes.fromhex(parts[0]) if parts[0] != "-" else b""
    res = {}
    if len(parts) > 1:
        for kv in parts[1].split():
            k, v = kv.split("="); res[k] = bytes.fromhex(v) if v != "-" else b""
    def shrink(data, mk):
        n = 2
        while len(data) >= 2 and time.time() - t0 < budget:
            chunk = max(1, (len(data) + n - 1) // n)
            cands = [data[:s] + data[s + chunk:] for s in range(0, len(data), chunk)]
            cands = cands[:48]
            hit = which_reproduce([mk(c) for c in cands], key, family, caf)
            if hit:
                data = cands[hit[0]]; n = max(n - 1, 2)
            else:
                if chunk == 1: break
                n = min(len(data), n * 2)
        return data
    if len(main) <= 400000:
        main = shrink(main, lambda m: case_line(cfg, m, res))
    for k in sorted(res):
        if time.time() - t0 >= budget: break
        res[k] = shrink(res[k], lambda d, k=k: case_line(cfg, main, dict(res, **{k: d})))
    return case_line(cfg, main, res)

def known_open_keys():
    return {f["key"] for f in common.load_findings() if f.get("property") == PID and f.get("status") == "open"}

# ---------------------------------------------------------------------- confirmation of load-sensitive observations
def confirm_timeouts(ctx, hits, label):
    """hits: key -> list of (line, ...) tuples (shortest first).  A watchdog expiry is believed only if it happens again
    in a fresh process that runs alone with three times the budget (the harness additionally scales every budget by a
    load factor measured against a reference parse).  Returns the set of confirmed keys -> the confirming tuple."""
    confirmed = {}
    unconfirmed = 0
    known = known_open_keys()
    for key, cands in sorted(hits.items()):
        if key in known:                 # recorded finding: nothing to decide, spare the CPU
            confirmed[key] = cands[0]
            continue
        for cand in cands[:3]:
            o, e, _ = run_sharded("hx_parse", [cand[0]], nproc=1, env={"HX_TIME_SCALE": "3"})
            if "WATCHDOG-TIMEOUT" in e.get(0, "") or "WALL-TIMEOUT" in e.get(0, ""):
                confirmed[key] = cand
                break
            unconfirmed += 1
    ctx.stats[label + "_watchdog_unconfirmed"] = unconfirmed
    if unconfirmed:
        ctx.notes.append("%s: %d watchdog expiries were not reproduced alone with 3x budget (machine load) and are not reported" % (label, unconfirmed))
    return confirmed

LSAN_ENV = {"ASAN_OPTIONS": "detect_leaks=1:fast_unwind_on_malloc=0:malloc_context_size=20:symbolize=1:allocator_may_return_null=1"}
LEAK_SKIP = re.compile(r"^(operator new|malloc|CountingMM::|MemoryManager|MemoryManagerImpl::|XMemory::operator new)")
def leak_site(line):
    """name the leak by where it was allocated: first xerces function (not an allocator wrapper or a constructor) of the first
    'Direct leak' record LeakSanitizer prints for the case run alone; None if LeakSanitizer reports nothing"""
    exe = common.build_harness("hx_parse")
    e = dict(os.environ); e.update(ENV); e.update(LSAN_ENV)
    try:
        p = subprocess.run([exe], input=(line + "\n").encode(), env=e, stdout=subprocess.PIPE, stderr=subprocess.PIPE, timeout=300)
    except subprocess.TimeoutExpired:
        return None
    err = p.stderr.decode(errors="replace")
    if "XIncludeUtils::" in err and "LeakSanitizer" in err:
        return "xinclude"
    m = re.search(r"Direct leak of .*?\n((?:\s+#\d+ .*\n)+)", err)
    if not m:
        return None
    for f in re.finditer(r"#\d+ 0x[0-9a-f]+ in (.+?) (/\S+?):\d+", m.group(1)):
        name, path = f.group(1), f.group(2)
        if "/src/xercesc/" not in path:
            continue
        name = re.sub(r"\(.*$", "", re.sub(r"^xercesc_\d+_\d+::", "", name)); name = re.sub(r"<.*?>", "", name)
        if LEAK_SKIP.match(name):
            continue
        parts = name.split("::")
        if len(parts) >= 2 and parts[-1] == parts[-2]:      # a constructor: the interesting frame is its caller
            continue
        return name
    return None

PROVISIONAL = {}      # refined leak key -> the class key classify() gives (used to recognise the finding while minimising)
def refine_leak_keys(per_key):
    """leak:<config class> -> leak:<allocation site>; an entry whose site cannot be determined keeps its class key"""
    out = {}
    nsites = 0
    for key, val in sorted(per_key.items(), key=lambda kv: len(kv[1][0])):
        nk = key
        if key.startswith("leak:") or key.startswith("caf:leak:"):
            key = nk = key.split("#")[0]
            site = None
            if key not in known_open_keys() and nsites < 24:      # a recorded leak class needs no second look
                site = leak_site(val[0]); nsites += 1
            if site:
                nk = key[:key.index("leak:")] + "leak:" + site
        if nk not in out or len(val[0]) < len(out[nk][0]):
            out[nk] = val
            PROVISIONAL[nk] = key
    return out

def run_parse(ctx, found, cases=None, label="parse"):
    cases = cases if cases is not None else parse_cases(ctx)
    lines = [c[0] for c in cases]
    t0 = time.time()
    outs, errs, crashes = run_sharded("hx_parse", lines, wall_per_case=8.0)
    ctx.stats[label + "_wall_s"] = round(time.time() - t0, 1)
    hist = {}; fams = {}; caf_findings = {}
    per_key = {}; thits = {}
    for k, (line, fam, caf) in enumerate(cases):
        o = outs[k]
        tag = o.split()[0] if o else "?"
        if tag == "exc": tag = o.split(" LEAK")[0]
        hist[tag] = hist.get(tag, 0) + 1
        fams[fam.split("/")[0]] = fams.get(fam.split("/")[0], 0) + 1
        for key, what in classify(o, errs.get(k, ""), fam.split("/")[0], caf, line.split(" ", 1)[0]):
            if (key[4:] if key.startswith("caf:") else key).startswith(("timeout:", "resource:")):
                thits.setdefault(key, []).append((line, fam, caf, o, what))
                continue
            if "leak:" in key and " LEAK " in o:      # one representative per leak size: different sizes, different sites
                key = key + "#" + o.rsplit(" LEAK ", 1)[1].split()[0]
            cur = per_key.get(key)
            if cur is None or len(line) < len(cur[0]):
                per_key[key] = (line, fam, caf, o, what)
    for key in thits: thits[key].sort(key=lambda t: len(t[0]))
    per_key.update(confirm_timeouts(ctx, thits, label))
    per_key = refine_leak_keys(per_key)
    nmin = 0
    for key, (line, fam, caf, o, what) in sorted(per_key.items()):
        if key.startswith("caf:"):
            caf_findings[key] = {"what": what[:300], "line": line[:2000], "impl": o}
            continue
        small = line
        if nmin < (12 if ctx.thorough() else 5) and not key.startswith(("resource:", "timeout:")) and len(line) < 900000 and key not in known_open_keys():
            try:
                small = ddmin_line(line, PROVISIONAL.get(key, key), fam.split("/")[0], caf, budget=(40.0 if ctx.thorough() else 15.0))
                nmin += 1
            except Exception as e:      # minimisation trouble never hides the finding
                ctx.notes.append("ddmin failed for %s: %r" % (key, e))
        cfg = small.split(" ", 1)[0]
        doc = small.split(" ", 2)[1]
        found.setdefault(key, {"key": key, "concrete": True,
            "what": "%s  [config %s, family %s, observation %s; main document %d bytes%s]" % (what[:400], cfg, fam, o[:80], (len(doc) // 2 if doc != "-" else 0),
                    (": " + repr(bytes.fromhex(doc)[:200])) if doc != "-" and len(doc) <= 2000 else ""),
            "replay": {"tier": "parse", "harness": "hx_parse", "line": small, "family": fam.split("/")[0], "caf": caf, "impl": o, "unminimised_bytes": len(line)}})
    ctx.stats[label + "_cases"] = len(lines)
    ctx.stats[label + "_outcomes"] = dict(sorted(hist.items(), key=lambda kv: -kv[1])[:25])
    ctx.stats[label + "_families"] = fams
    ctx.stats[label + "_process_deaths"] = len(crashes)
    ctx.stats[label + "_nontrivial"] = sum(1 for l in set(lines) if nontrivial(l))
    ctx.stats["continue_after_fatal_findings"] = caf_findings
    if caf_findings:
        ctx.notes.append("continue-after-fatal stream (documented as undetermined, not counted as violations): " +
                         "; ".join("%s: %s" % (k, v["what"][:120]) for k, v in sorted(caf_findings.items())))
    mid = len(lines) // 3
    ctx.samples.append({"parse_case": lines[mid][:400], "family": cases[mid][1], "impl": outs[mid]})
    ctx.samples.append({"parse_case": lines[-1][:400], "family": cases[-1][1], "impl": outs[-1]})
    return len(lines)


# ====================================================================== (4) reused parser: one object, a sequence of documents
def seq_pool():
    """small documents that leave or consume state in the parser object: (tag, main, resources, needed flags)"""
    TD = '<?xml version="1.0" encoding="UTF-8"?>'
    P = []
    def add(tag, main, res=None, flags=1):
        P.append((tag, main.encode("utf-8") if isinstance(main, str) else main, {k: (v.encode("utf-8") if isinstance(v, str) else v) for k, v in (res or {}).items()}, flags))
    add("ent-content", '<!DOCTYPE a [<!ENTITY e "text<b/>more">]><a>&e;</a>')
    add("ent-fatal-inside", '<!DOCTYPE a [<!ENTITY e "<b>unclosed">]><a>&e;</a>')
    add("ent-nested", '<!DOCTYPE a [<!ENTITY i "in"><!ENTITY o "<c>&i;&i;</c>"><!ATTLIST a t CDATA "&i;">]><a u="&i;x">&o;<d>&o;</d></a>')
    add("ent-attr", '<!DOCTYPE a [<!ENTITY v "val"><!ATTLIST a d CDATA "def&v;">]><a b="x&v;y"/>')
    add("ext-subset-textdecl", '<!DOCTYPE a SYSTEM "e.dtd"><a>x</a>', {"e.dtd": TD + '<!ELEMENT a ANY><!ATTLIST a k CDATA "dk">'}, 1 | (1 << 4))
    add("ext-subset-plain", '<!DOCTYPE a SYSTEM "e.dtd"><a>x</a>', {"e.dtd": '<!ELEMENT a ANY><!ENTITY g "gv">'}, 1 | (1 << 4))
    add("ext-pe-textdecl", '<!DOCTYPE a [<!ENTITY % p SYSTEM "p.ent">%p;]><a/>', {"p.ent": TD + '<!ELEMENT a ANY>'}, 1 | (1 << 4))
    add("ext-pe-plain", '<!DOCTYPE a [<!ENTITY % p SYSTEM "p.ent">%p;]><a>&q;</a>', {"p.ent": '<!ENTITY q "from-pe">'}, 1 | (1 << 4))
    add("ext-general-textdecl", '<!DOCTYPE a [<!ENTITY x SYSTEM "x.ent">]><a>&x;</a>', {"x.ent": TD + 'ext<c/>text'}, 1 | (1 << 4))
    add("ext-general-fatal", '<!DOCTYPE a [<!ENTITY x SYSTEM "x.ent">]><a>&x;</a>', {"x.ent": TD + 'ext<c>'}, 1 | (1 << 4))
    add("ext-subset-ents", '<!DOCTYPE a SYSTEM "e.dtd" [<!ENTITY loc "l">]><a>&loc;&g;&x;</a>',
        {"e.dtd": TD + '<!ENTITY g "gv"><!ENTITY x SYSTEM "x.ent">', "x.ent": TD + "xv"}, 1 | (1 << 4))
    add("ext-missing", '<!DOCTYPE a SYSTEM "nowhere.dtd"><a>&u;</a>', None, 1 | (1 << 4))
    add("plain-ns", '<p:a xmlns:p="urn:p"><p:b c="1">t</p:b><!-- c --><?pi d?></p:a>')
    add("not-wf", '<a><b></a>')
    add("xinclude", '<a xmlns:xi="http://www.w3.org/2001/XInclude"><xi:include href="inc.xml"/></a>', {"inc.xml": '<!DOCTYPE i [<!ENTITY e "iv">]><i>&e;</i>'}, 1 | (1 << 8))
    add("xml11", '<?xml version="1.1"?><!DOCTYPE a [<!ENTITY e "&#1;">]><a>&e;</a>')
    add("utf16", '﻿<?xml version="1.0" encoding="UTF-16"?><!DOCTYPE a [<!ENTITY e "é">]><a>&e;</a>'.encode("utf-16-le"))
    add("schema", '<r ' + XSI + ' xsi:noNamespaceSchemaLocation="s.xsd">5</r>',
        {"s.xsd": '<xs:schema ' + XS + '><xs:element name="r" type="xs:int"/></xs:schema>'}, 3)
    return P

ACTS = ["n", "p", "a", "l", "g0", "g2", "g7"]
def seq_step(act, val, flags, limit, main, res):
    return "%s:%s:%x:%d %s" % (act, val, flags, limit, hexs(main)) + ("" if not res else " | " + " ".join("%s=%s" % (k, hexs(v)) for k, v in sorted(res.items())))

def seq_line(api, sc, steps):
    return "SEQ %s:%s " % (api, sc) + " ## ".join(steps)

def seq_cases(ctx):
    """list of (line, family, caf).  (i) every ordered pair of pool documents on each DOM parser kind with the first document
    released; (ii) random sequences of 2-6 documents (pool, corpus, mutated) with random between-document actions and feature
    flips on every parser kind."""
    r = ctx.rng
    P = seq_pool(); C = corpus(); mains = [c[1] for c in C]
    out = []
    k = 0
    for x in P:
        for y in P:
            for api in ("dom", "ls"):
                k += 1
                if not ctx.thorough() and k % 3 != (ctx.seed % 3):        # a third of the pairs per seed in the quick tier …
                    if not (x[0].startswith("ent-") and "textdecl" in y[0]):    # … but always the state-leaving x state-reading pairs
                        continue
                act = ("p", "a")[k % 2]
                f1 = x[3] | (1 << 4) | (1 << 19) | ((1 << 7) if k % 3 == 0 else 0)
                f2 = y[3] | (1 << 4) | (1 << 19) | ((1 << 7) if k % 5 == 0 else 0)
                out.append((seq_line(api, "ig", [seq_step(act, "never", f1, 0, x[1], x[2]), seq_step("n", "auto", f2, 0, y[1], y[2])]), "seq-pair", False))
    nseq = 9000 if ctx.thorough() else 220
    for _ in range(nseq):
        api = r.choice(APIS); sc = r.choice(["ig", "ig", "ig", "dg", "wf", "sg"])
        steps = []
        for _ in range(2 + r.below(5)):
            c = r.below(100)
            if c < 60:
                tag, main, res, fl = r.choice(P)
            elif c < 85:
                tag, main, res, fl = r.choice(C)
            else:
                tag, main, res, fl = r.choice(P if r.chance(1, 2) else C)
                tag, main, res = mutate(r, tag, main, res, mains)
            f = fl | (1 if r.chance(2, 3) else 0) | ((1 << 4) if r.chance(3, 4) else 0) | ((1 << 7) if r.chance(1, 3) else 0) | ((1 << 19) if r.chance(1, 2) else 0)
            for b in (6, 9, 11, 13, 15):
                if r.chance(1, 10): f |= 1 << b
            lim = 0
            if r.chance(1, 8): f |= 1 << 10; lim = r.choice([1, 5, 100])
            f &= ~(1 << 3)
            steps.append(seq_step(r.choice(ACTS), r.choice(VALS), f, lim, main, res))
        out.append((seq_line(api, sc, steps), "seq-" + api, False))
    return out

def seq_split(line):
    head, rest = line.split(" ", 2)[0:2], line.split(" ", 2)[2]
    return head[1], rest.split(" ## ")

def ddmin_seq(line, key, family, budget=40.0):
    """drop documents, then turn actions into `n`, while the same finding key reproduces"""
    t0 = time.time()
    hd, steps = seq_split(line)
    mk = lambda st: "SEQ %s %s" % (hd, " ## ".join(st))
    changed = True
    while changed and len(steps) > 1 and time.time() - t0 < budget:
        changed = False
        cands = [steps[:i] + steps[i + 1:] for i in range(len(steps))]
        hit = which_reproduce([mk(c) for c in cands], key, family, False)
        if hit:
            steps = cands[hit[0]]; changed = True
    cands = []
    for i, st in enumerate(steps):
        act, rest = st.split(":", 1)
        if act != "n":
            cands.append((i, steps[:i] + ["n:" + rest] + steps[i + 1:]))
    if cands and time.time() - t0 < budget:
        hit = which_reproduce([mk(c[1]) for c in cands], key, family, False)
        for h in hit:            # apply the simplifications one at a time, re-checking the combination
            i = cands[h][0]
            trial = steps[:i] + ["n:" + steps[i].split(":", 1)[1]] + steps[i + 1:]
            if which_reproduce([mk(trial)], key, family, False):
                steps = trial
    return mk(steps)

def describe_seq(line):
    hd, steps = seq_split(line)
    parts = []
    for st in steps:
        cfg, rest = st.split(" ", 1)
        bits = rest.split(" | ")
        doc = bytes.fromhex(bits[0]) if bits[0] != "-" else b""
        res = {}
        if len(bits) > 1:
            for kv in bits[1].split():
                k, v = kv.split("="); res[k] = bytes.fromhex(v) if v != "-" else b""
        parts.append("[%s] %r%s" % (cfg, doc[:160], "".join(" + %s=%r" % (k, v[:120]) for k, v in sorted(res.items()))))
    return "one %s parser: " % hd + "  THEN  ".join(parts)

def run_seq(ctx, found, cases=None, label="seq"):
    cases = cases if cases is not None else seq_cases(ctx)
    lines = [c[0] for c in cases]
    t0 = time.time()
    outs, errs, crashes = run_sharded("hx_parse", lines, wall_per_case=10.0)
    ctx.stats[label + "_wall_s"] = round(time.time() - t0, 1)
    hist = {}; per_key = {}; thits = {}
    for k, (line, fam, caf) in enumerate(cases):
        o = outs[k]
        for ob in (o.split("; ") if not o.startswith(("CRASH", "NO-OUTPUT")) else [o.split()[0]]):
            t = ob.split()[0] if ob else "?"
            hist[t] = hist.get(t, 0) + 1
        for key, what in classify(o, errs.get(k, ""), "reused-parser", caf, line):
            if key.startswith(("timeout:", "resource:")):
                thits.setdefault(key, []).append((line, fam, o, what))
                continue
            if "leak:" in key and " LEAK " in o:
                key = key + "#" + o.rsplit(" LEAK ", 1)[1].split()[0]
            cur = per_key.get(key)
            if cur is None or len(line) < len(cur[0]):
                per_key[key] = (line, fam, o, what)
    for key in thits: thits[key].sort(key=lambda t: len(t[0]))
    per_key.update(confirm_timeouts(ctx, thits, label))
    per_key = refine_leak_keys(per_key)
    nmin = 0
    for key, (line, fam, o, what) in sorted(per_key.items()):
        small = line
        if nmin < 6 and not key.startswith(("resource:", "timeout:")) and key not in known_open_keys():
            try:
                small = ddmin_seq(line, PROVISIONAL.get(key, key), "reused-parser", budget=(60.0 if ctx.thorough() else 25.0)); nmin += 1
            except Exception as e:
                ctx.notes.append("sequence minimisation failed for %s: %r" % (key, e))
        found.setdefault(key, {"key": key, "concrete": True,
            "what": "%s  [reused parser, %d document(s): %s]" % (what[:400], len(seq_split(small)[1]), describe_seq(small)[:1500]),
            "replay": {"tier": "seq", "harness": "hx_parse", "line": small, "family": "reused-parser", "caf": False, "impl": o,
                       "unminimised_documents": len(seq_split(line)[1])}})
    ctx.stats[label + "_cases"] = len(lines)
    ctx.stats[label + "_documents"] = sum(len(seq_split(l)[1]) for l in lines)
    ctx.stats[label + "_step_outcomes"] = dict(sorted(hist.items(), key=lambda kv: -kv[1])[:12])
    ctx.stats[label + "_process_deaths"] = len(crashes)
    mid = len(lines) // 2
    ctx.samples.append({"reused_parser_sequence": describe_seq(lines[mid])[:600], "impl": outs[mid]})
    return len(lines)

# ====================================================================== entry points
def correspondence(ctx):
    found = {}
    dl, dfound = run_direct(ctx)
    found.update(dfound)
    run_facts(ctx, found)
    n = run_parse(ctx, found)
    n += run_seq(ctx, found)
    for key in sorted(found):
        ctx.violations.append(found[key])
    ctx.stats["evaluations"] = len(dl) + n
    ctx.stats["distinct_nontrivial"] = len({l for l in dl if l.count(",") + l.count(".") >= 2}) + ctx.stats.get("parse_nontrivial", 0)
    ctx.stats["finding_keys"] = sorted(found)

def search(ctx, broken):
    """a theorem / the translator no longer checks: the direct tier, the facts and the parse search have already been
    judged (Spec / sanitizer) in correspondence(); if they found nothing, widen the parse search once."""
    if any(v.get("concrete") for v in ctx.violations):
        return None
    if getattr(ctx, "_c01_widened", False):
        return None
    ctx._c01_widened = True
    found = {}
    r = ctx.rng
    cases = []
    for fam, main, res, fl, lim in size_cases(r, True):
        for api in APIS:
            for sc in SCANNERS:
                cases.append((case_line("%s:%s:%s:%x:%d" % (api, sc, r.choice(VALS), fl | ((1 << 4) if res else 0), lim), main, res), fam, False))
    C = corpus(); mains = [c[1] for c in C]
    for _ in range(6000):
        fam, main, res, fl = r.choice(C)
        f2, m2, r2 = mutate(r, fam, main, res, mains)
        cases.append((case_line(pick_config(r, fl), m2, r2), f2.split("/")[0], False))
    run_parse(ctx, found, cases, label="widened")
    for key in sorted(found):
        if found[key].get("concrete"):
            return found[key]
    return None

def replay(ctx, path):
    rp = json.load(open(path))["replay"]
    line = rp.get("line")
    if not line:
        print(json.dumps(rp, indent=1)); return 0
    h = rp.get("harness", "hx_parse")
    o, e, _ = run_sharded(h, [line], args=tuple(rp.get("args", ())), nproc=1)
    print("case  :", line[:600] + ("…" if len(line) > 600 else ""))
    if line.startswith("SEQ "):
        print("steps :", describe_seq(line)[:3000])
    if h == "hx_safety" and not rp.get("args"):
        m = common.run_driver(["safety"], input=(line + "\n").encode()).decode().strip()
        print("model :", m)
        if line.startswith("CR "): print("spec  :", spec_cr(line))
        elif spec_len(line): print("spec  :", spec_len(line))
    elif rp.get("spec"):
        print("spec  :", rp["spec"])
    else:
        print("spec  : ok | fatal n | exc <documented type>, no sanitizer report, within the CPU-time budget, no leak")
    print("impl  :", o[0])
    if h == "hx_safety" and line.startswith("CR ") and not o[0].startswith("CRASH"):
        print("verdict:", "implementation agrees with the Spec" if o[0] == spec_cr(line) else "implementation CONTRADICTS the Spec (XML 1.0 4.1 / production [2])")
    txt = e.get(0, "").strip()
    if txt:
        print("stderr:", txt[:3000])
    print("keys  :", [k for k, _ in classify(o[0], e.get(0, ""), rp.get("family", "replay"), bool(rp.get("caf")))])
    return 0
