"""C03 — reported content equals the document's infoset; SAX, SAX2, DOM, DOMLSParser (with/without filter) and
progressive parse agree.

Theorems: XV.Props.C03 (see the Lean file): the code-shaped line-end normaliser of XMLReader (look-ahead across buffer
refills) = the §2.11 rule; the code-shaped IGXMLScanner::normalizeAttValue with its 0xFFFF escape marker = the §3.3.3
rule for every declared type; the infoset of a well-formed document is a balanced event word; the DOM adapter loses
nothing; SAX1 = SAX2 minus namespaces/lexical events; pull = push; DOMLSParserFilter reject/skip as tree surgery =
the same surgery on the event word; line numbers = 1 + normalised line ends before the end of the construct;
composition with C02's parse_render.

Tie.  The harness (harness/hx_info.cpp) prints ONE canonical dump per configuration of the real parsers
(api x scanner x namespaces x {entity-reference nodes, filter}); the Lean driver (`xvdriver infoset`) evaluates the
Spec `infoset` (through C02's reference `parse`) on the same bytes and prints the dump every adapter must deliver.
Judge = the Spec: a dump that differs is a concrete violation (replay = bytes + configuration).  Documents outside the
reference fragment (external subset, parameter entities) are judged by API-vs-API agreement alone.
Generator = C02's document generator (imported) extended with every normalisation trigger (see class G3)."""
import json, os, re, threading, glob, time
_T0 = time.time()
import common
from props import c02

PID = "C03"
GEN = ["NormConsts", "CharTables", "ErrCodes"]
LEAN_MODULE = "XV.Props.C03"
THEOREMS = ["XV.Props.C03." + t for t in (
    "eol_model_eq_spec", "eol_lines_model_eq_spec", "eol_idempotent", "eol_no_cr", "feed_init_line",
    "attnorm_model_eq_spec", "attnorm_raw_model_eq_spec", "attnorm_asis_deviates", "attnorm_idempotent_tokenized", "charref_units_spec",
    "events_wellnested", "dom_walk_build", "sax1_sax2_agree", "pull_eq_push", "pull_pieces_nonempty", "filter_spec",
    "line_numbers_spec", "line_of_start_tag", "line_of_comment", "line_of_pi", "render_split", "events_parse_render")]
RULE = ("evaluations = number of (document, configuration) dumps compared with the Spec's dump (or, for documents outside "
        "the reference fragment, with the other configurations); a document is non-trivial when the Spec's SAX2 dump has "
        "at least 3 tokens; distinct by document bytes")
ASSUMPTIONS = ["documents are UTF-8; other encodings are C05's", "no external entity/DTD access (load-external-dtd off); a DOCTYPE with an external "
               "identifier or parameter-entity references is outside the reference fragment: judged by API-vs-API agreement only",
               "validation off for the main matrix; the ignorable-white-space tier runs with validation on over documents whose DTD "
               "declares every element", "namespace URIs/prefix mappings are C06's: the dumps carry qualified names only",
               "DOM: xmlVersion null is read as 1.0 and xmlEncoding \"\" as unspecified (API conventions, not content); the DOM's TypeInfo is not compared "
               "(declared types are compared through SAX1/SAX2)", "DOMLSParserFilter: the fixed filters never reject/skip the document element and run with "
               "entity-reference nodes off"]
TRUSTED = ["XV.Spec.Infoset (XML 1.0/1.1 §2.11, §3.3.3, §3.3.2, §4.4-4.6, §2.10; SAX Locator convention for line numbers) as transcribed",
           "XV.Spec.Xml (C02: Doc, render, parse) and XV.Spec.Utf8 in front of it"]

hexbytes = c02.hexbytes
enc = c02.enc
show = c02.show

# ------------------------------------------------------------------ generator
POOL = ["a", "b", "c", "b1", "e", "x1"]

class G3(c02.G):
    """C02's generator plus every normalisation trigger; element names come from a small pool so that ATTLIST/ELEMENT
    declarations hit elements of the document and the fixed filters (names starting with 'b') hit some elements"""
    big = None
    def eol_seq(self):
        opts = ["\n", "\r\n", "\r", "\r\r\n", "\n\r"]
        if self.v11:
            opts += ["\u0085", " ", "\r\u0085", "\r ", "\u0085\n"]
        return self.pick("eol", opts)
    def ws(self, tag, allow_empty):
        n = self.pick(tag + ".len", ([0] if allow_empty else []) + [1, 1, 2])
        s = ""
        for _ in range(n):
            k = self.pick("S.kind", ["sp", "sp", "tab", "eol"])
            s += {"sp": " ", "tab": "\t"}.get(k) or self.pick("S.eol", ["\n", "\r\n", "\r", "\r\r\n"])
        return s
    def text_char(self, forbid):
        if self.r.chance(1, 7) and not any(c in forbid for c in "\r\n"):
            return self.eol_seq()
        return super().text_char(forbid)
    def charref(self, what):
        if self.r.chance(1, 2):
            cands = [0x9, 0xA, 0xD, 0x20] + ([0x85, 0x2028] if self.v11 or what == "text" else [])
            c = self.pick("cref.ws", cands)
            hexa = self.pick("cref.radix", ["hex", "dec"]) == "hex"
            return ("cref", hexa, ("%x" % c) if hexa else str(c))
        return super().charref(what)
    def pieces(self, q):
        out = super().pieces(q)
        for _ in range(self.pick("attval.wsruns", [0, 0, 1, 2, 3])):
            k = self.pick("attval.ws", ["sp", "sp2", "tab", "lf", "crlf", "cr", "lead", "trail", "cref32", "cref10", "cref13", "cref9", "word"])
            run = {"sp": [("ch", " ")], "sp2": [("ch", " "), ("ch", " ")], "tab": [("ch", "\t")], "lf": [("ch", "\n")], "crlf": [("ch", "\r\n")],
                   "cr": [("ch", "\r")], "cref32": [("cref", False, "32")], "cref10": [("cref", False, "10")], "cref13": [("cref", True, "D")],
                   "cref9": [("cref", False, "9")], "word": [("ch", "w"), ("ch", "1")]}.get(k)
            if k == "lead":
                out = [("ch", " ")] + out
            elif k == "trail":
                out = out + [("ch", " ")]
            else:
                pos = self.r.below(len(out) + 1)
                out[pos:pos] = run
        return out
    def cdata(self):
        k, s = super().cdata()
        for _ in range(self.pick("cdata.extra", [0, 0, 1, 2])):
            s += self.pick("cdata.special", ["]]", "]", ">", "&", "&amp;", "<", "\r\n", "\r", "\n", "]]&gt;", " "])
        s = s.replace("]]>", "]] >")
        return (k, s)
    def comment(self):
        k, s = super().comment()
        if self.r.chance(1, 3):
            pos = self.r.below(len(s) + 1)
            s = s[:pos] + self.eol_seq() + s[pos:]
            s = s.replace("--", "- -")
            if s.endswith("-"): s += " "
        return (k, s)
    def pi(self):
        p = super().pi()
        if p[2] and self.r.chance(1, 3):
            d = p[3] + self.eol_seq() + "z"
            return ("pi", p[1], p[2], d.replace("?>", "? >"))
        return p
    def name(self, nc=True):
        return super().name(nc)
    def element(self, depth, name=None):
        if name is None and self.r.chance(3, 4):
            name = self.r.choice(self.pool)
        return super().element(depth, name)
    # ---- DOCTYPE
    def attdefault(self, ents_order, ents, tokenized):
        q = self.pick("quote", ['"', "'"])
        ps = []
        words = self.pick("default.words", [0, 1, 2, 3])
        for i in range(words):
            ps += [("ch", c) for c in self.r.choice(["v", "w1", "x-y", "n0"])]
            if i + 1 < words:
                ps += self.r.choice([[("ch", " ")], [("ch", " "), ("ch", " ")], [("ch", "\t")], [("ch", "\n")], [("ch", "\r\n")], [("cref", False, "32")],
                                     [("cref", False, "10")], [("ch", " "), ("cref", False, "32")], [("cref", False, "9"), ("ch", " ")]])
        if self.r.chance(1, 2):
            ps = self.r.choice([[("ch", " ")], [("ch", " "), ("ch", " ")], [("cref", False, "32")], [("ch", "\n")], [("cref", False, "10")]]) + ps
        if self.r.chance(1, 2):
            ps = ps + self.r.choice([[("ch", " ")], [("ch", "\t"), ("ch", " ")], [("cref", False, "32")], [("cref", True, "d")]])
        safe = [n for n in ents_order if ents[n][2]]
        if safe and self.r.chance(1, 3):
            ps.insert(self.r.below(len(ps) + 1), ("eref", self.r.choice(safe))); self.hit("default.entityref")
        if self.r.chance(1, 4):
            ps.insert(self.r.below(len(ps) + 1), ("eref", self.pick("predef", ["lt", "gt", "amp", "apos", "quot"])))
        ps = [p for p in ps if not (p[0] == "ch" and p[1] == q)]
        return q + "".join(c02.r_piece(x) for x in ps) + q
    def doctype(self, rootname):
        r = self.r
        S = lambda tag: self.ws(tag, False)
        So = lambda tag: self.ws(tag, True)
        ents, order = {}, []
        nots = []
        out = "<!DOCTYPE" + S("doctype.s1") + (rootname if r.chance(5, 6) else self.name()) + So("doctype.s2")
        if self.pick("doctype.subset", ["none", "subset", "subset", "subset", "subset"]) == "subset":
            out += "["
            elnames = list(dict.fromkeys([rootname] + self.pool))
            for _ in range(self.pick("dtd.ndecl", [0, 1, 3, 6, 9])):
                k = self.pick("decl", ["ws", "comment", "pi", "element", "attlist", "attlist", "entity", "entity", "entity-ext", "notation", "dup"])
                if k == "ws":
                    out += self.pick("S.eol", ["\n", "\r\n", "\r", " ", "\t"])
                elif k == "comment":
                    out += c02.r_leaf(self.comment())
                elif k == "pi":
                    out += c02.r_leaf(self.pi())
                elif k == "element":
                    n = r.choice(elnames) if r.chance(4, 5) else self.name()
                    spec = self.pick("contentspec3", ["EMPTY", "ANY", "(#PCDATA)", "mixed", "children", "children"])
                    w = lambda: self.ws("cm.ws", True)
                    if spec == "mixed":
                        spec = "(" + w() + "#PCDATA" + "".join(w() + "|" + w() + x for x in r.choice([["a"], ["a", "b"], ["b1", "c", "e"]])) + w() + ")*"
                    elif spec == "children":
                        spec = r.choice(["(a|b|c|b1|e|x1)*", "(a,b)", "(a?,(b|c)*)", "(b1+)", "((a|b),c?)*", self.cspec()])
                    out += "<!ELEMENT" + S("decl.s") + n + S("decl.s") + spec + So("decl.end") + ">"
                elif k == "attlist":
                    n = r.choice(elnames) if r.chance(5, 6) else self.name()
                    out += "<!ATTLIST" + S("decl.s") + n
                    for _ in range(self.pick("attlist.n", [0, 1, 1, 2, 3])):
                        an = r.choice(["t", "i", "d", "k", "zz"]) if r.chance(3, 4) else self.name().replace(":", "_")
                        ty = self.atttype()
                        out += S("attdef.s") + an + S("attdef.s") + ty + S("attdef.s")
                        dk = self.pick("default", ["#REQUIRED", "#IMPLIED", "#FIXED", "value", "value"])
                        if dk in ("#REQUIRED", "#IMPLIED"):
                            out += dk
                        else:
                            out += ("#FIXED" + S("fixed.s") if dk == "#FIXED" else "") + self.attdefault(order, ents, ty != "CDATA")
                    out += So("decl.end") + ">"
                elif k in ("entity", "dup") and (k == "entity" or order):
                    dup = k == "dup"
                    n = r.choice(order) if dup else "e%d" % len(ents)
                    q = self.pick("quote", ['"', "'"])
                    oq = "'" if q == '"' else '"'
                    vk = self.pick("entity.value3", ["text", "ws", "charrefs", "wsrefs", "dblrefs", "nested", "element", "markup", "escaped-lt", "empty", "att-only", "nel"])
                    cs = as_ = True
                    if vk == "text":
                        val = "".join(self.text_char("<&%" + q) for _ in range(1 + r.below(4)))
                    elif vk == "ws":
                        val = r.choice([" ", "  ", "\t", "\n", "\r\n", "\r", " x ", "x \r\n y", "\r\r\n"])
                    elif vk == "charrefs":
                        val = "x&#65;&#x42;" + r.choice(["&#38;#38;", "&#38;lt;", "&#x26;#60;", ""])
                    elif vk == "wsrefs":      # the reference is expanded when the declaration is read: literal white space in the replacement text
                        val = r.choice(["&#10;", "&#13;", "&#9;", "&#32;", "a&#10;b", "&#13;&#10;", " &#32; ", "&#x20;x&#x20;"])
                    elif vk == "dblrefs":     # a character reference survives into the replacement text
                        val = r.choice(["&#38;#10;", "&#38;#13;", "&#38;#9;", "&#38;#32;", "a&#38;#10;b", "&#38;#13;&#38;#10;", "&#38;#x20; &#38;#x20;"])
                    elif vk == "nested":
                        cands = [m for m in order if ents[m][0] == "internal" and (ents[m][1] or ents[m][2])]
                        if cands and not dup:
                            m = r.choice(cands); val = r.choice(["[&%s;]", " &%s; ", "&%s;&%s;", "&%s;"]).replace("%s", m); cs, as_ = ents[m][1], ents[m][2]
                        else:
                            val = "n&amp;"
                    elif vk == "element":
                        val = r.choice(["<b>x</b>", "<b/>", "t<b t=%s 1  2 %s/>u" % (oq, oq), "<c>\r\n</c>", "<b1 i=%s&#10;v%s>&#10;</b1>" % (oq, oq), "<a><b/>x</a>y"]); as_ = False
                    elif vk == "markup":
                        val = r.choice(["<!--c--><?p d?>", "<![CDATA[<]]>", "<![CDATA[]]>", "x<![CDATA[y]]>z", "<!--\n-->", "<?p \n?>"]); as_ = False
                    elif vk == "escaped-lt":
                        val = r.choice(["&#60;b/>", "&#x3C;b>y&#60;/b>"]); as_ = False
                    elif vk == "empty":
                        val = ""
                    elif vk == "att-only":
                        val = r.choice(["a]]&gt;b", "a &#38;#38; b"])
                    else:
                        val = r.choice(["&#x85;", "&#x2028;", "a&#x85;b", "&#38;#x85;"])
                    if not dup:
                        ents[n] = ("internal", cs, as_); order.append(n)
                    out += "<!ENTITY" + S("decl.s") + n + S("decl.s") + q + val.replace(q, "") + q + So("decl.end") + ">"
                elif k == "entity-ext":
                    n = "x%d" % len(ents)
                    q = self.pick("quote", ['"', "'"])
                    sysid = r.choice(["u.ent", "a b", "", "http://h/p?q=1&#38;r", "é.xml"])
                    pub = r.choice(["-//p//", " a  b ", "p\nq", ""])
                    ident = ("SYSTEM" + S("extid.s") + q + sysid.replace("&#38;", "&") + q) if r.chance(1, 2) else ("PUBLIC" + S("extid.s") + q + pub + q + S("extid.s") + "'" + sysid.replace("&#38;", "&").replace("'", "") + "'")
                    nd = self.pick("ndata", ["no", "yes"]) == "yes"
                    ents[n] = ("unparsed" if nd else "external", False, False); order.append(n)
                    out += "<!ENTITY" + S("decl.s") + n + S("decl.s") + ident + ((S("ndata.s") + "NDATA" + S("ndata.s") + "n0") if nd else "") + So("decl.end") + ">"
                elif k == "notation":
                    q = self.pick("quote", ['"', "'"])
                    ident = self.pick("notation.id", ["SYSTEM", "PUBLIC", "PUBLIC2"])
                    it = {"SYSTEM": "SYSTEM" + S("extid.s") + q + "prog" + q, "PUBLIC": "PUBLIC" + S("extid.s") + q + "-//n//" + q,
                          "PUBLIC2": "PUBLIC" + S("extid.s") + q + "-//n//  x" + q + S("extid.s") + q + "prog 2" + q}[ident]
                    out += "<!NOTATION" + S("decl.s") + "n%d" % r.below(3) + S("decl.s") + it + So("decl.end") + ">"
            out += "]" + So("doctype.s3")
        out += ">"
        return {"text": out, "misc": self.misc("afterdoctype"), "ents": ents}
    def doc(self):
        self.pool = list(POOL)
        return super().doc()

def inflate(g, d, r):
    """push one construct of the document across the 16 K character buffer (and sometimes the 48 K raw buffer)"""
    n = r.choice([16383, 16384, 16385, 16500, 33000, 49200]) - r.below(3)
    k = g.pick("big", ["text", "text-crlf", "text-crlf1", "attr", "attr-ws", "cdata", "comment", "pi", "cr-run"])
    root = c02.as_pair(d["root"])
    kids = list(root[2])
    t = dict(root[1])
    def txt(s):
        return [("leaf", ("ch", s))]
    nel = g.v11 and r.chance(1, 2)
    if k == "text":
        kids[0:0] = txt("x" * n + "y")
    elif k == "text-crlf":
        kids[0:0] = txt("\r\n" * (n // 2 + 40))
    elif k == "text-crlf1":
        kids[0:0] = txt("x" + ("\r\u0085" if nel else "\r\n") * (n // 2 + 40))
    elif k == "cr-run":
        kids[0:0] = txt(("\r\r\n" * (n // 3 + 40)) if not nel else ("\u0085\r " * (n // 3 + 40)))
    elif k == "attr":
        t["atts"] = list(t["atts"]) + [{"pre": " ", "name": "big", "eq": ("", ""), "q": '"', "val": [("ch", "v" * n), ("cref", False, "10"), ("ch", "w")]}]
    elif k == "attr-ws":
        t["atts"] = list(t["atts"]) + [{"pre": "\r\n", "name": "t", "eq": ("", ""), "q": "'", "val": [("ch", " \r\n" * (n // 3 + 30)), ("ch", "v"), ("ch", "\t \n" * 20)]}]
    elif k == "cdata":
        kids[0:0] = [("leaf", ("ch", "p")), ("leaf", ("cdata", "]\r\n" * (n // 3 + 20) + "]]")), ("leaf", ("ch", "q"))]
    elif k == "comment":
        kids[0:0] = [("leaf", ("comment", "c\r\n" * (n // 3 + 20)))]
    else:
        kids[0:0] = [("leaf", ("pi", "p", " ", "d\r" * (n // 2 + 20)))]
    d = dict(d); d["root"] = ("elem", t, kids, root[3], root[4])
    return d

CURATED = [
    (b"<a/>", "minimal"),
    (b"<a>x\r\ny\rz\r\r\n</a>", "line ends in text"),
    (b"<a b='x\r\ny\tz\n'/>", "literal white space in an attribute value"),
    (b"<a b='&#13;&#10;&#9;&#32;'/>", "white-space character references in an attribute value"),
    (b"<!DOCTYPE a [<!ATTLIST a b NMTOKENS #IMPLIED>]><a b=' x  y '/>", "tokenized attribute: trim and collapse"),
    (b"<!DOCTYPE a [<!ATTLIST a b NMTOKENS #IMPLIED>]><a b='&#32;x&#32;&#32;y&#32;'/>", "tokenized attribute: referenced spaces collapse too"),
    (b"<!DOCTYPE a [<!ATTLIST a b NMTOKENS #IMPLIED>]><a b='&#10;x&#9;&#13;y'/>", "tokenized attribute: referenced TAB/LF/CR are not spaces (XML 1.0 3.3.3, last note)"),
    (b"<!DOCTYPE a [<!ATTLIST a b ID #IMPLIED>]><a b='&#xd;&#xd;A&#xa;&#xa;B&#xd;&#xa;'/>", "the example of XML 1.0 3.3.3 for a tokenized type"),
    (b"<!DOCTYPE a [<!ENTITY d '&#xD;'><!ENTITY a '&#xA;'><!ENTITY da '&#xD;&#xA;'>]><a b='\n\nxyz' c='&d;&d;A&a;&#x20;&a;B&da;' d='&#xd;&#xd;A&#xa;&#xa;B&#xd;&#xa;'/>", "the examples of XML 1.0 3.3.3, CDATA"),
    (b"<!DOCTYPE a [<!ATTLIST a b CDATA ' d  v ' c NMTOKENS ' d  v ' e (x|y) ' x '>]><a/>", "defaults of each kind"),
    (b"<!DOCTYPE a [<!ATTLIST a b CDATA 'first'><!ATTLIST a b CDATA 'second' c CDATA 'c1' c CDATA 'c2'>]><a/>", "first attribute definition binds"),
    (b"<!DOCTYPE a [<!ENTITY e 'one'><!ENTITY e 'two'>]><a>&e;</a>", "first entity declaration binds"),
    (b"<!DOCTYPE a [<!ENTITY e '<b>x</b>'>]><a>p&e;q</a>", "entity with markup"),
    (b"<!DOCTYPE a [<!ENTITY e ''>]><a>p&e;q</a>", "empty entity"),
    (b"<!DOCTYPE a [<!ENTITY e '&#60;b/>'>]><a>&e;</a>", "entity whose replacement text is markup made by a reference"),
    (b"<!DOCTYPE a [<!ENTITY i 'x'><!ENTITY e '[&i;]'>]><a b='&e;'>&e;</a>", "nested entities in content and attribute"),
    (b"<a><![CDATA[]]></a>", "empty CDATA section"),
    (b"<a>x<![CDATA[y]]>z<![CDATA[]]><![CDATA[w]]></a>", "CDATA adjacent to text and to CDATA"),
    (b"<a><![CDATA[a]]]]><![CDATA[>b&amp;<]]></a>", "CDATA with ]] > & <"),
    (b"<!--pre-->\n<?p1 d1?>\n<a/>\n<!--post-->\n<?p2?>\n", "comments and PIs around the root"),
    (b"<a\n b='1'\n>\n<b\n/>\n<!--\n-->\n<?p \n?>\n</a\n>", "constructs spanning lines"),
    (b"<?xml version='1.1'?><a>x\xc2\x85y\xe2\x80\xa8z\r\xc2\x85w</a>", "XML 1.1 NEL / LS / CR NEL in text"),
    (b"<?xml version='1.1'?><a b='x\xc2\x85y\xe2\x80\xa8z'/>", "XML 1.1 NEL / LS in an attribute value"),
    (b"<?xml version='1.1'?><a b='&#x85;&#x2028;'>&#x85;&#x2028;</a>", "XML 1.1 references to NEL / LS are not line ends"),
    (b"<?xml version='1.1'?><!DOCTYPE a [<!ENTITY e '&#x85;'><!ATTLIST a c NMTOKENS #IMPLIED>]><a b='&e;' c='x&e;y'>&e;</a>", "XML 1.1: NEL in replacement text is an ordinary character"),
    (b"<a>x\xc2\x85y\xe2\x80\xa8z</a>", "XML 1.0: NEL and LS are ordinary characters"),
    (b"<!DOCTYPE a><a/>", "DOCTYPE without internal subset"),
    (b"<!DOCTYPE a []><a/>", "DOCTYPE with empty internal subset"),
    (b"<!DOCTYPE a [<?p d?><!--c-->]><a/>", "PI and comment in the internal subset"),
    (b"<!DOCTYPE a [<!NOTATION n SYSTEM 's'><!NOTATION m PUBLIC 'p'><!NOTATION k PUBLIC 'p' 's'><!ENTITY u SYSTEM 'f' NDATA n><!ENTITY x PUBLIC 'p q' 'g'>]><a/>", "notations and external entities"),
    (b"<?xml version='1.0' encoding='UTF-8' standalone='yes'?><a/>", "XML declaration"),
    (b"<a>&lt;&gt;&amp;&apos;&quot;&#65;&#x10000;</a>", "predefined entities and character references"),
    (b"<a><b>x</b><b1>y<c/></b1><c>z</c></a>", "elements the fixed filters act on"),
    (b"<b><a/>x</b>", "root element the fixed filters act on"),
    (b"<a>x<b>y</b>z<b/>w</a>", "filtered elements between text"),
    (b"<!DOCTYPE a [<!ELEMENT a (b,c)><!ELEMENT b EMPTY><!ELEMENT c (#PCDATA)>]><a>\n <b/>\r\n <c> </c>\n</a>", "white space in element content"),
]

# documents outside the reference fragment: judged by API-vs-API agreement only
OUTSIDE = [
    b"<!DOCTYPE a SYSTEM 'nowhere.dtd'><a b=' x '> t </a>",
    b"<!DOCTYPE a PUBLIC '-//x//' 'nowhere.dtd' [<!ATTLIST a b NMTOKENS ' d '>]><a/>",
    b"<!DOCTYPE a [<!ENTITY % p '<!ATTLIST a b CDATA \"v\">'>%p;<!ENTITY e 'x'>]><a>&e;</a>",
    b"<!DOCTYPE a [<!ENTITY % p 'ignored'><!ATTLIST a b NMTOKENS ' q  r '>]><a c='&#10;'>\r\n</a>",
]

# ------------------------------------------------------------------ configurations
def spec_key(cfg):
    api, scanner, ns = cfg.split("/")[:3]
    opts = cfg.split("/")[3] if cfg.count("/") >= 3 else ""
    o = {"e": 1, "w": 1, "f": 0, "v": 0}
    for i in range(0, len(opts), 2):
        o[opts[i]] = int(opts[i + 1])
    if api in ("sax1", "psax1"):
        return "sax1/v%d" % o["v"]
    if api in ("sax2", "psax2"):
        return "sax2/v%d" % o["v"]
    f = {5: 1, 6: 2}.get(o["f"], o["f"])
    return "dom/e%dw%df%dv%d" % (o["e"], o["w"] if o["v"] else 1, f, o["v"])

def configs_for(idx, has_dtd, ns_ok, thorough):
    scanners = ["IG", "DG"] if has_dtd else ["IG", "DG", "WF", "SG"]
    out = []
    for si, s in enumerate(scanners):
        k = idx + si
        f = 1 + k % 6
        nss = ("0", "1") if ns_ok else ("0", "0")
        if s == "SG":
            nss = ("1", "1")          # "setting namespaces to off has no effect" on the schema-only scanner
            if not ns_ok:
                continue
        cs = ["sax1/%s/%s" % (s, nss[0]), "sax2/%s/%s" % (s, nss[1]), "dom/%s/%s/e1" % (s, nss[1]), "dom/%s/%s/e0" % (s, nss[0]),
              "ls/%s/%s/e1f0" % (s, nss[k % 2]), "ls/%s/%s/e0f%d" % (s, nss[(k + 1) % 2], f)]
        prog = ["psax1/%s/%s" % (s, nss[1]), "pdom/%s/%s/e%d" % (s, nss[0], k % 2), "psax2/%s/%s" % (s, nss[0])]
        cs += prog if thorough else [prog[k % 3], prog[(k + 1) % 3]]
        if thorough:
            # (filters run with entity-reference nodes off: DOM LS leaves open whether the read-only children of an
            #  EntityReference node are offered to the filter)
            cs += ["sax1/%s/%s" % (s, nss[1]), "sax2/%s/%s" % (s, nss[0]), "ls/%s/%s/e0f%d" % (s, nss[0], 1 + (k + 3) % 6)]
        out += cs
    return list(dict.fromkeys(out))

# ------------------------------------------------------------------ running both sides
def run_spec(cases):
    """cases: list of (bytes, [spec keys]) -> list of (head, {key: dump})"""
    lines = [",".join(sorted(set(keys))) + " " + hexbytes(b) if keys else "sax2/v0 " + hexbytes(b) for b, keys in cases]
    out = [None] * len(lines)
    for k, l in shard_run(lines, lambda chunk: c02.run_driver_lines("infoset", chunk), 40):
        f = l.split("\t")
        out[k] = (f[0], dict(x.split("=", 1) for x in f[1:]))
    return out

def shard_run(lines, fn, per_proc):
    """run fn over shards of the lines in parallel threads (one process each), balancing the shards by input size;
    yields (index, output line)"""
    n = len(lines)
    if not n:
        return []
    weight = [len(l) + 2000 for l in lines]
    nproc = min(common.NCPU, max(1, n // per_proc, sum(weight) // 400000))
    bins = [[] for _ in range(nproc)]
    load = [0] * nproc
    for k in sorted(range(n), key=lambda k: -weight[k]):
        b = load.index(min(load))
        bins[b].append(k); load[b] += weight[k]
    for b in bins:
        b.sort()
    res = [None] * nproc
    def work(j):
        res[j] = fn([lines[k] for k in bins[j]]) if bins[j] else []
    th = [threading.Thread(target=work, args=(j,)) for j in range(nproc)]
    for t in th: t.start()
    for t in th: t.join()
    out = []
    for j in range(nproc):
        r = res[j]
        if isinstance(r, tuple):          # (lines, crashes)
            out.append((bins[j], r[0], r[1]))
        else:
            out.append((bins[j], r, []))
    flat = []
    crashes = []
    for idxs, ls, cr in out:
        for k, l in zip(idxs, ls):
            flat.append((k, l))
        for pos, line, summ in cr:
            crashes.append((idxs[pos], line, summ))
    shard_run.last_crashes = crashes
    return flat

def run_impl(lines):
    if not lines:
        return [], []
    common.build_harness("hx_info")
    out = [None] * len(lines)
    for k, l in shard_run(lines, lambda chunk: common.run_lines_resilient("hx_info", chunk, timeout=3000), 30):
        out[k] = l
    return out, list(shard_run.last_crashes)

def parse_obs(line):
    d = {}
    for part in line.split("\t"):
        if "=" in part:
            c, o = part.split("=", 1)
            d[c] = o
    return d

# ------------------------------------------------------------------ judging
def toks(dump):
    return dump.split()

def unesc(s):
    return re.sub(r"%([0-9a-f]+);", lambda m: chr(int(m.group(1), 16)), s)

def esc(s):
    return "".join(c if 0x21 <= ord(c) <= 0x7E and c not in "%:@=~" else "%%%x;" % ord(c) for c in s)

def tok_kind(t):
    for p, k in (("F", None), ("EXC:", "exception"), ("X:", "xmldecl"), ("DT:", "doctype"), ("/DT", "doctype"), ("IE:", "entity-decl"), ("XE:", "entity-decl"),
                 ("UE:", "entity-decl"), ("NT:", "notation-decl"), ("DE:", "entity-decl"), ("DN:", "notation-decl"), ("<", "element"), (">", "element"),
                 ("@", "attribute"), ("T:", "text"), ("W:", "ignorable-ws"), ("[", "cdata"), ("]", "cdata"), ("K:", "comment"), ("P:", "pi"),
                 ("&", "entity-boundary"), (";", "entity-boundary"), ("ED", "end-document")):
        if t.startswith(p):
            if p == "F":
                return "fatal" if re.fullmatch(r"F\d+", t) else "?"
            return k
    return "?"

def first_diff(spec, impl):
    """-> (kind, detail) of the first differing token"""
    a, b = toks(spec), toks(impl)
    if b and re.fullmatch(r"F\d+", b[0]):
        return "rejected-wellformed:" + c02.code_name("fatal:" + b[0][1:]), "library reports a fatal error"
    if b and b[0].startswith("EXC:"):
        return "rejected-wellformed:" + b[0][4:], "exception"
    n = min(len(a), len(b))
    i = 0
    while i < n and a[i] == b[i]:
        i += 1
    sa = a[i] if i < len(a) else "(end)"
    sb = b[i] if i < len(b) else "(end)"
    ka, kb = tok_kind(sa) if sa != "(end)" else None, tok_kind(sb) if sb != "(end)" else None
    kind = ka or kb
    if ka and kb and ka == kb:
        # same kind: what differs
        if ka in ("element", "comment", "pi") and "@" in sa and "@" in sb and sa.rsplit("@", 1)[0] == sb.rsplit("@", 1)[0]:
            kind = "line-number:" + ka
        elif ka == "element" and sa[0] == sb[0]:
            # same bracket, another name: the same local part under another prefix = the qualified name of the tag was not reported
            na, nb = unesc(sa[1:].split("@")[0]), unesc(sb[1:].split("@")[0])
            if na != nb and na.split(":")[-1] == nb.split(":")[-1]:
                kind = "element-qname:prefix-not-the-one-written-in-the-tag"
        elif ka == "attribute":
            na, nb = sa.split("=", 1)[0], sb.split("=", 1)[0]
            if na != nb:
                kind = "attribute-set"
            else:
                fa, fb = sa.split("=", 1)[1].split(":"), sb.split("=", 1)[1].split(":")
                if fa[0] != fb[0]: kind = "attribute-value"
                elif fa[-1] != fb[-1] and fa[-1] in "SD": kind = "attribute-specified"
                else: kind = "attribute-type"
        elif ka == "entity-decl" and sa.startswith("DE:") and sa.split(":")[1] == sb.split(":")[1]:
            kind = "entity-decl:dom-entities-map-holds-another-declaration"
    elif ka and kb:
        kind = "structure:%s-vs-%s" % (ka, kb)
    elif ka or kb:
        kind = "structure:%s-%s" % (ka or kb, "missing" if ka else "extra")
    return kind, "expected %s, got %s (token %d)" % (sa[:80], sb[:80], i)

# known deviation shapes: each maps the Spec's dump to what the unrepaired code is expected to deliver; a difference is
# attributed to them only if the transformed dump equals the implementation's dump EXACTLY
def ex_dtd_pi(spec, cfg, sax2_spec):
    """PIs of the internal subset are not passed to the SAX handlers"""
    api = cfg.split("/")[0].lstrip("p")
    if not api.startswith("sax") or not sax2_spec:
        return None
    inside, dtd_pis = False, []
    for t in toks(sax2_spec):
        if t.startswith("DT:"): inside = True
        elif t == "/DT": inside = False
        elif inside and t.startswith("P:"): dtd_pis.append(t)
    if not dtd_pis:
        return None
    out = []
    for t in toks(spec):
        if dtd_pis and t == dtd_pis[0] and not any(x.startswith("<") for x in out):
            dtd_pis.pop(0)
            continue
        out.append(t)
    return " " + " ".join(out)

def collapse_ws(v, ws):
    s = unesc(v)
    t = "".join(" " if c in ws else c for c in s)
    return esc(" ".join(x for x in t.split(" ") if x))

def ex_tokenized(spec, ws):
    """tokenized attribute types: the characters `ws` are trimmed/collapsed like spaces"""
    a, hit, out = toks(spec), False, []
    for t in a:
        if t.startswith("@"):
            name, rest = t.split("=", 1)
            f = rest.split(":")
            if len(f) >= 2 and f[1] not in ("CDATA", "S", "D", "~"):
                nv = collapse_ws(f[0], ws)
                if nv != f[0]:
                    hit = True
                    t = name + "=" + ":".join([nv] + f[1:])
        out.append(t)
    return " " + " ".join(out) if hit else None

EXPLAINERS = []     # filled below: (key, fn(spec_dump, cfg, ctx) -> transformed dump or None)

def strip_types(dump):
    """the DOM dump does not carry the declared types (they are compared through SAX): '@n=v:TYPE:S' -> '@n=v:S'"""
    out = []
    for t in toks(dump):
        if t.startswith("@"):
            name, rest = t.split("=", 1)
            f = rest.split(":")
            if len(f) == 3:
                t = name + "=" + f[0] + ":" + f[2]
        out.append(t)
    return out

def strip_lines(ts):
    return [re.sub(r"@\d+$", "", t) if t[:1] in "<KP" else t for t in ts]

FILTER_NAMES = {1: "acceptNode-reject-element", 2: "acceptNode-skip-element", 3: "reject-comment-pi-cdata", 4: "reject-text",
                5: "startElement-reject", 6: "startElement-skip"}

def cfg_opts(cfg):
    o = {"e": 1, "w": 1, "f": 0, "v": 0}
    f = cfg.split("/")
    if len(f) > 3:
        for i in range(0, len(f[3]), 2):
            o[f[3][i]] = int(f[3][i + 1])
    return o

def line_key(ctx, kind):
    b = ctx.get("bytes", b"")
    if re.match(br"^(\xef\xbb\xbf)?<\?xml[\r\n]", b):
        return "line-number:line-end-right-after-<?xml-not-counted"
    if ctx.get("v11") and b"\xe2\x80\xa8" in b:
        return "line-number:xml11-LS-in-skipped-white-space-not-counted"
    return kind

def judge_one(spec_dump, impl_dump, cfg, ctx):
    """-> [] if equal, else list of (key, detail)"""
    import itertools
    api = cfg.split("/")[0]
    norm = strip_types if api in ("dom", "pdom", "ls") else toks
    A, B = norm(spec_dump), toks(impl_dump)
    if A == B:
        return []
    variants = []
    for n in range(1, len(EXPLAINERS) + 1):
        for combo in itertools.combinations(EXPLAINERS, n):
            cur, used = spec_dump, []
            for key, fn in combo:
                nxt = fn(cur, cfg, ctx)
                if nxt is not None:
                    cur = nxt; used.append(key)
            if len(used) == n:
                variants.append((used, norm(cur)))
    for used, V in variants:
        if V == B:
            return [(k, "difference fully accounted for by the known deviation shape") for k in used]
    if B and (re.fullmatch(r"F\d+", B[0]) or B[0].startswith("EXC:")):
        return [first_diff(" ".join(A), " ".join(B))]
    A0, B0 = strip_lines(A), strip_lines(B)
    kind, detail = first_diff(" ".join(A), " ".join(B))
    if A0 == B0:
        return [(line_key(ctx, kind), detail)]
    for used, V in variants:
        if strip_lines(V) == B0:
            k2, d2 = first_diff(" ".join(V), " ".join(B))
            return [(k, "difference (apart from line numbers) fully accounted for by the known deviation shape") for k in used] + [(line_key(ctx, k2), d2)]
    res = []
    if kind.startswith("line-number"):
        res.append((line_key(ctx, kind), detail))
        kind, detail = first_diff(" ".join(A0), " ".join(B0))
    res.append((kind, detail))
    return res

def unbalanced(dump):
    """every event stream must be well nested (the Spec's is: theorem events_wellnested) -> None or what is wrong"""
    st = []
    for t in toks(dump):
        if re.fullmatch(r"F\d+", t) or t.startswith("EXC:"):
            return None
        if t.startswith("DT:"): st.append(("/DT", "doctype"))
        elif t == "[": st.append(("]", "cdata"))
        elif t.startswith("&"): st.append((";" + t[1:], "entity"))
        elif t.startswith("<"): st.append((">" + t[1:].split("@")[0], "element"))
        elif t == "/DT" or t == "]" or t.startswith(";") or t.startswith(">"):
            if not st or st[-1][0] != t:
                return "%s without matching start" % t[:40]
            st.pop()
    return ("%s not closed" % st[-1][1]) if st else None

def common_view(dump):
    """what every API delivers: elements, attributes (name, value), merged character data, PIs outside the DOCTYPE"""
    out, txt, inside = [], "", False
    def flush():
        nonlocal txt
        if txt:
            out.append("T:" + txt)
        txt = ""
    for t in toks(dump):
        if re.fullmatch(r"F\d+", t) or t.startswith("EXC:"):
            flush(); out.append(t)
        elif t.startswith("DT:"): inside = True
        elif t == "/DT": inside = False
        elif inside and t[:3] in ("IE:", "XE:", "UE:", "NT:", "DE:", "DN:", "K:", "P:") and not t.startswith("P:") or (inside and t.startswith("P:") and False): pass
        elif inside and (t.startswith("K:") or t.startswith("P:")): pass
        elif t.startswith("T:") or t.startswith("W:"): txt += t[2:]
        elif t.startswith("<"): flush(); out.append(t.split("@")[0])
        elif t.startswith(">"): flush(); out.append(t)
        elif t.startswith("@"):
            name, rest = t.split("=", 1)
            out.append(name + "=" + rest.split(":")[0])
        elif t.startswith("P:"): flush(); out.append(t.rsplit("@", 1)[0] if re.search(r"@\d+$", t) else t)
        elif t == "ED": pass
        # comments, CDATA and entity boundaries are not delivered by SAX1
    flush()
    return " ".join(out)

# ------------------------------------------------------------------ correspondence
def gen_documents(ctx, n_random, n_big):
    g = G3(ctx.rng)
    cases = [{"bytes": b, "kind": "curated:" + w} for b, w in CURATED]
    for _ in range(n_random):
        d = g.doc()
        if ctx.rng.chance(1, 4):
            d = c02.decorate_ns(d, g)
        elif ctx.rng.chance(1, 3):
            d = decorate_alias(d, g)
        b = enc(c02.r_doc(d))
        if ctx.rng.chance(1, 15):
            b = b"\xef\xbb\xbf" + b; g.hit("bom")
        cases.append({"bytes": b, "kind": "random"})
    for _ in range(n_big):
        d = g.doc()
        d = inflate(g, d, ctx.rng)
        cases.append({"bytes": enc(c02.r_doc(d)), "kind": "big"})
    return cases, g.cov

def eol_documents(thorough):
    """ALL short line-end strings in every construct"""
    import itertools
    out = []
    for v11 in (False, True):
        alpha = ["\r", "\n", "x"] + (["\u0085", " "] if v11 else [])
        decl = "<?xml version='1.1'?>" if v11 else ""
        for ln in range(1, (5 if thorough else 4) + (0 if v11 else 1)):
            for p in itertools.product(alpha, repeat=ln):
                s = "".join(p)
                if "\r" not in s and "\n" not in s and "\u0085" not in s and " " not in s:
                    continue
                out.append(decl + "<a b='%s'>%s<!--%s--><![CDATA[%s]]><?p y%s?><c\n/></a>" % (s, s, s, s, s))
    return [{"bytes": enc(s), "kind": "eol-exhaustive"} for s in out]

def attnorm_documents(thorough):
    """ALL short attribute values over white-space triggers, for an undeclared, a CDATA and a tokenized attribute"""
    import itertools
    alpha = [" ", "x", "&#32;", "&#10;", "\n", "&#9;", "\t", "&#13;", "&e;", "&f;"]
    out = []
    dtd = "<!DOCTYPE a [<!ENTITY e ' '><!ENTITY f '&#38;#10;'><!ATTLIST a c CDATA #IMPLIED t NMTOKENS #IMPLIED n (x|y) #IMPLIED>]>"
    for ln in range(0, 5 if thorough else 4):
        for p in itertools.product(alpha, repeat=ln):
            if ln == (4 if thorough else 3) and p[0] not in (" ", "&#10;", "x"):
                continue
            v = "".join(p)
            out.append(dtd + '<a u="%s" c="%s" t="%s" n="%s"/>' % (v, v, v, v))
    # every declared type x every white-space shape, as default (plain and #FIXED) and as specified value
    types = ["CDATA", "ID", "IDREF", "IDREFS", "ENTITY", "ENTITIES", "NMTOKEN", "NMTOKENS", "(x|y)", "NOTATION (n)"]
    shapes = [" x  y ", "x\ty", "x\ny", "x\r\ny", " &#32;x&#32; ", "&#9;x&#10;y&#13;", "&e;x&e;&e;y&e;", "x&f;y", "x", "", "  ", "\r\n x", "x&#32;&#32;y"]
    ent = "<!ENTITY e ' '><!ENTITY f '&#38;#10;'><!NOTATION n SYSTEM 's'>"
    for ty in types:
        for v in shapes:
            out.append("<!DOCTYPE a [%s<!ATTLIST a x %s '%s'>]><a/>" % (ent, ty, v))
            out.append("<!DOCTYPE a [%s<!ATTLIST a x %s #FIXED\n\"%s\" y CDATA #IMPLIED>]><a y='1'>\n<a/></a>" % (ent, ty, v))
            out.append("<!DOCTYPE a [%s<!ATTLIST a x %s #IMPLIED>]><a x='%s'/>" % (ent, ty, v))
    return [{"bytes": enc(s), "kind": "attnorm-exhaustive"} for s in out]

# ------------------------------------------------------------------ one expanded name, several prefixes
NS_URIS = ["urn:u", "urn:v"]

def ns_alias_documents(rng, n):
    """DOCTYPE-free documents in which the same expanded name is written with two or more prefixes (and with the default
    namespace), and the same prefix is re-bound to another namespace name, at sibling and nested positions, on start,
    end and empty-element tags and on attributes.  The qualified name an API reports must be the one written in the tag
    (scanners that pool element declarations by expanded name remember the prefix of the first occurrence only)."""
    out = []
    for _ in range(n):
        def ws():
            return rng.choice(["", "", " ", "\n", "\r\n "])
        def element(depth, scope, budget):
            """scope: prefix -> uri ('' = default namespace, absent/'' uri = none)"""
            scope = dict(scope)
            decls = []
            for _ in range(rng.choice([0, 0, 1, 1, 2])):
                k = rng.below(5)
                if k == 0:      # a new alias of a namespace name already in scope
                    pfx, uri = rng.choice(["d", "e2", "a"]), rng.choice(NS_URIS)
                elif k == 1:    # re-bind a prefix in scope to the other namespace name
                    cands = [q for q in scope if q]
                    pfx = rng.choice(cands) if cands else "a"
                    uri = NS_URIS[1] if scope.get(pfx) == NS_URIS[0] else NS_URIS[0]
                elif k == 2:    # default namespace on / changed
                    pfx, uri = "", rng.choice(NS_URIS)
                elif k == 3:    # default namespace off
                    pfx, uri = "", ""
                else:
                    pfx, uri = rng.choice(["b", "c"]), rng.choice(NS_URIS)
                if any(d[0] == pfx for d in decls):
                    continue
                decls.append((pfx, uri)); scope[pfx] = uri
            pfxs = [q for q in scope if q and scope[q]] + [""]
            pfx = rng.choice(pfxs)
            local = rng.choice(["x", "x", "x", "y"])
            qn = (pfx + ":" if pfx else "") + local
            atts, used = [], set()
            for d in decls:
                atts.append(("xmlns:" + d[0] if d[0] else "xmlns", d[1]))
            for _ in range(rng.choice([0, 0, 1, 2, 3])):
                ap = rng.choice(pfxs)
                al = rng.choice(["k", "k", "m"])
                key = (scope.get(ap, "") if ap else None, al)       # unprefixed attributes are in no namespace
                if key in used:
                    continue
                used.add(key)
                atts.append(((ap + ":" if ap else "") + al, rng.choice(["1", " v ", "p:q", "&#10;"])))
            rng_atts = list(atts)
            for i in range(len(rng_atts) - 1, 0, -1):        # attribute order is free
                j = rng.below(i + 1); rng_atts[i], rng_atts[j] = rng_atts[j], rng_atts[i]
            tag = "<" + qn + "".join("%s%s=%s" % (rng.choice([" ", "\n", "  "]), a, "'%s'" % v if rng.chance(1, 2) else '"%s"' % v) for a, v in rng_atts) + ws()
            nkids = 0 if depth >= 4 or budget[0] <= 0 else rng.choice([0, 1, 2, 2, 3, 4])
            if nkids == 0 and rng.chance(1, 2):
                return tag + "/>"
            body = ""
            for _ in range(nkids):
                budget[0] -= 1
                body += rng.choice(["", "", "t", "\n ", "&amp;", "<!--c-->", "<?p d?>", "<![CDATA[z]]>"]) + element(depth + 1, scope, budget)
            body += rng.choice(["", "u", "\n"])
            return tag + ">" + body + "</" + qn + ws() + ">"
        root_scope = {"a": "urn:u", "b": "urn:u", "c": "urn:v"}
        if rng.chance(1, 2):
            root_scope[""] = rng.choice(NS_URIS)
        # the root declares what it uses: render it by hand so that its own name may use any of the prefixes
        budget = [12]
        rp = rng.choice(["a", "b", "c", ""] if "" in root_scope else ["a", "b", "c"])
        rq = (rp + ":" if rp else "") + "x"
        decl = "".join(" xmlns%s='%s'" % (":" + q if q else "", u) for q, u in sorted(root_scope.items(), key=lambda kv: rng.below(100)))
        body = ""
        for _ in range(rng.choice([2, 3, 4, 5])):
            body += rng.choice(["", "", "t", "\n"]) + element(1, root_scope, budget)
        doc = rng.choice(["", "", "<?xml version='1.0'?>", "<?xml version='1.1'?>"]) + "<" + rq + decl + ">" + body + "</" + rq + ">" + rng.choice(["", "\n", "<!--e-->"])
        out.append({"bytes": enc(doc), "kind": "ns-alias"})
    return out

NS_ALIAS_CURATED = [
    (b"<r xmlns:a='urn:u' xmlns:b='urn:u'><a:x/><b:x/></r>", "two prefixes, one namespace name: siblings"),
    (b"<a:x xmlns:a='urn:u'><b:x xmlns:b='urn:u'><a:x/>t</b:x></a:x>", "two prefixes, one namespace name: nested, start and end tags"),
    (b"<r xmlns:a='urn:u'><a:x/><x xmlns='urn:u'/><a:x xmlns:a='urn:v'/><a:x/></r>", "default namespace and a re-bound prefix"),
    (b"<r xmlns:a='urn:u' xmlns:b='urn:u'><x a:k='1'/><x b:k='2'/><b:x a:k='3' k='4'/><a:x b:k='5'/></r>", "attributes: two prefixes, one expanded name"),
    (b"<a:x xmlns:a='urn:u' xmlns:b='urn:u'><b:y><a:y><b:x></b:x></a:y></b:y><a:y/></a:x>", "alternating prefixes, two local names"),
]

def ns_alias_configs(i, has_dtd, ns_ok):
    """every API on every scanner with namespaces on; IG also with a schema grammar in use (s1)"""
    out = []
    for s in ("IG", "DG", "WF", "SG"):
        out += ["sax2/%s/1" % s, "sax1/%s/1" % s, "dom/%s/1/e1" % s]
    out += ["psax2/SG/1", "ls/SG/1/e1f0", "psax1/SG/1", "pdom/SG/1/e0",
            "sax2/IG/1/s1", "psax2/IG/1/s1", "sax1/IG/1/s1", "dom/IG/1/e1s1", "pdom/IG/1/e1s1",
            "sax2/IG/0"]
    return out

def decorate_alias(d, g):
    """give some elements of a generated document the same expanded name under different prefixes"""
    r = g.r
    root = c02.as_pair(d["root"])
    n_el = len(c02.all_elems(root, [])) - 1
    if n_el <= 0:
        return d
    mk = lambda n, v: {"pre": " ", "name": n, "eq": ("", ""), "q": '"', "val": [("ch", c) for c in v]}
    chosen = {1 + r.below(n_el) for _ in range(2 + r.below(3))}
    counter = [0, 0]
    def rewrite(n, top):
        if n[0] not in ("elem", "empty"):
            return n
        idx = counter[0]; counter[0] += 1
        t = dict(n[1])
        name = None
        if top:
            t["atts"] = list(t["atts"]) + [mk("xmlns:n1", "urn:u"), mk("xmlns:n2", "urn:u")]
        elif idx in chosen:
            name = ["n1:x", "n2:x", "n3:x", "n1:x"][counter[1] % 4]; counter[1] += 1
            t["name"] = name
            if name.startswith("n3"):
                t["atts"] = list(t["atts"]) + [mk("xmlns:n3", "urn:u")]
        if n[0] == "empty":
            return ("empty", t)
        return ("elem", t, [rewrite(k, False) for k in n[2]], name or n[3], n[4])
    d = dict(d); d["root"] = rewrite(root, True)
    g.hit("ns.alias")
    return d

def valid_documents(rng, n):
    """VALID documents (every element declared, content matching) for the validating configurations: white space in
    element content must be reported as ignorable, and dropped by the DOM when include-ignorable-whitespace is off"""
    out = []
    for _ in range(n):
        v11 = rng.chance(1, 5)
        def ws(allow_empty=True):
            k = rng.below(6 if allow_empty else 5)
            opts = [" ", "\n", "\r\n", "\t \r", "  \n  "] + (["\u0085", "\u2028 "] if v11 else [])
            return "" if k == 5 else rng.choice(opts)
        def misc():
            r = rng.below(8)
            return "<!--c%s-->" % ws() if r == 0 else ("<?p d%s?>" % ws() if r == 1 else "")
        def c(): return "<c%s/>" % ws() if rng.chance(1, 2) else "<c%s></c>" % rng.choice(["", " ", " i='x'"])
        def b(depth=0):
            body = ""
            for _ in range(rng.below(4)):
                body += rng.choice(["t", " x ", "\r\n", "&amp;", "&#32;", "<![CDATA[ ]]>", " ", "&w;", "&t;"]) if rng.chance(2, 3) else c()
            return "<b%s>%s</b>" % (rng.choice(["", " t=' p  q '", " k='&#10;v'"]), body)
        def e(): return "<e>%s%s%s%s%s</e>" % (ws(), c(), ws(), b() if rng.chance(1, 2) else "", ws())
        def a_content():
            s = ws()
            for _ in range(rng.below(6)):
                s += rng.choice([b, c, e])() + ws() + misc() + ws()
            return s
        dtd = ("<!DOCTYPE a [%s<!ELEMENT a (b|c|e)*>%s<!ELEMENT b (#PCDATA|c)*><!ELEMENT c EMPTY><!ELEMENT e (c,b?)>"
               "<!ATTLIST a t NMTOKENS #IMPLIED d CDATA ' d  v '><!ATTLIST b t NMTOKENS #IMPLIED k CDATA #IMPLIED><!ATTLIST c i ID #IMPLIED>"
               "<!ENTITY w ' '><!ENTITY t 'text'>]>" % (ws(), ws()))
        decl = "<?xml version='1.1'?>" if v11 else rng.choice(["", "<?xml version='1.0'?>", "<?xml version='1.0' standalone='no'?>"])
        doc = decl + misc() + dtd + ws() + "<a%s>%s</a>" % (rng.choice(["", " t='x'", " t=' x  y '"]), a_content()) + ws() + misc()
        out.append({"bytes": enc(doc), "kind": "valid"})
    return out

VALID_CURATED = [
    b"<!DOCTYPE a [<!ELEMENT a (b,c)><!ELEMENT b EMPTY><!ELEMENT c (#PCDATA)>]><a>\n <b/>\r\n <c> </c>\n</a>",
    b"<!DOCTYPE a [<!ELEMENT a (b)*><!ELEMENT b ANY>]><a> <b> <b/> </b> </a>",
    b"<!DOCTYPE a [<!ELEMENT a (b)*><!ELEMENT b (#PCDATA)>]><a><!--c--> <?p?> <b/> <!--d--></a>",
]

def explain_ctx(case_bytes, dumps=None):
    head = case_bytes[:80]
    return {"v11": head.lstrip(b"\xef\xbb\xbf").startswith(b"<?xml") and b"1.1" in head.split(b"?>")[0], "sax2": (dumps or {}).get("sax2/v0"), "bytes": case_bytes}

def _ex_tok(spec, cfg, ctx):
    """white space that came from character references (&#9; &#10; &#13;) is trimmed/collapsed like literal white space"""
    return ex_tokenized(spec, " \t\n\r")
def _ex_nel(spec, cfg, ctx):
    """XML 1.1: NEL/LS characters (they can only come from references: directly, or through entity replacement text) are
    trimmed/collapsed like spaces"""
    return ex_tokenized(spec, " \u0085\u2028") if ctx.get("v11") else None
def _ex_pi(spec, cfg, ctx):
    return ex_dtd_pi(spec, cfg, ctx.get("sax2"))
def _ex_dt(spec, cfg, ctx):
    """SAX2: a DOCTYPE declaration without internal subset is not reported (no startDTD/endDTD)"""
    if not cfg.split("/")[0].lstrip("p") == "sax2":
        return None
    a = toks(spec)
    for i in range(len(a) - 1):
        if a[i].startswith("DT:") and a[i + 1] == "/DT" and ctx.get("bytes") is not None and not re.search(br"<!DOCTYPE[^>\[]*\[", ctx["bytes"]):
            return " " + " ".join(a[:i] + a[i + 2:])
    return None
def _ex_emptyid(spec, cfg, ctx):
    """an empty public/system identifier literal is reported as absent"""
    out, hit = [], False
    for t in toks(spec):
        if t[:3] in ("XE:", "UE:", "NT:", "DE:", "DN:"):
            f = t.split(":")
            g = f[:2] + [x if x != "" else "~" for x in f[2:]]
            if g != f:
                hit = True; t = ":".join(g)
        out.append(t)
    return " " + " ".join(out) if hit else None
EXPLAINERS[:] = [("empty-identifier-literal-reported-as-absent", _ex_emptyid), ("dtd-pi-not-passed-to-sax-handlers", _ex_pi), ("tokenized-attribute:referenced-whitespace-collapsed", _ex_tok),
                 ("tokenized-attribute:xml11-nel-ls-collapsed", _ex_nel),
                 ("sax2-doctype-without-internal-subset-not-reported", _ex_dt)]

def run_tier(ctx, cases, best, stats, tier, cfg_fn):
    """judge a list of cases; returns number of evaluations"""
    th = ctx.thorough()
    # which configurations / spec views (the view a configuration is compared with does not depend on the namespace setting)
    want = [cfg_fn(i, b"<!DOCTYPE" in c["bytes"], True) for i, c in enumerate(cases)]
    spec = run_spec([(c["bytes"], [spec_key(x) for x in w] + ["sax2/v0"]) for c, w in zip(cases, want)])
    plan = []
    for i, (c, (head, _)) in enumerate(zip(cases, spec)):
        if head.startswith("fatal") or head == "bad-op":
            stats.setdefault("generator_rejects", {}).setdefault(head[:60], 0)
            stats["generator_rejects"][head[:60]] += 1
            plan.append(None); continue
        plan.append(want[i] if head != "okns" else cfg_fn(i, b"<!DOCTYPE" in c["bytes"], False))
    lines, idx = [], []
    for i, (c, p) in enumerate(zip(cases, plan)):
        if p:
            lines.append(",".join(p) + " " + hexbytes(c["bytes"])); idx.append(i)
    obs, crashes = run_impl(lines)
    evals = 0
    hist = stats.setdefault("reference_verdicts", {})
    for (pos, line, summ) in crashes[:3]:
        best.setdefault("crash", {"case": cases[idx[pos]], "what": "harness crashed/hung: " + summ, "cfgs": ["?"], "detail": summ})
    for j, i in enumerate(idx):
        c, p = cases[i], plan[i]
        head, dumps = spec[i]
        cls = head.split(":")[0]
        hist[cls] = hist.get(cls, 0) + 1
        o = obs[j]
        if o is None or o.startswith("CRASH") or o in ("NO-OUTPUT", "bad-op"):
            best.setdefault("crash", {"case": c, "what": "harness died / no output: " + str(o)[:200], "cfgs": ["?"], "detail": ""})
            continue
        impl = parse_obs(o)
        ectx = explain_ctx(c["bytes"], dumps)
        if cls in ("ok", "okns"):
            plain_keys = set()
            order = sorted(p, key=lambda x: (cfg_opts(x)["f"] != 0, p.index(x)))       # unfiltered configurations first
            for cfg in order:
                if cfg not in impl:
                    continue
                evals += 1
                sd = dumps.get(spec_key(cfg))
                if sd is None:
                    raise common.InfraError("driver did not print view %s" % spec_key(cfg))
                fo = cfg_opts(cfg)["f"]
                for key, detail in judge_one(sd, impl[cfg], cfg, ectx):
                    explained = any(key == k for k, _ in EXPLAINERS)
                    if not fo:
                        plain_keys.add(key)
                    elif not explained and key not in plain_keys:
                        key = key + ":lsfilter-" + FILTER_NAMES[fo]       # only seen with the filter installed
                    api, scanner, ns = cfg.split("/")[:3]
                    rec = best.get(key)
                    if rec is None or len(c["bytes"]) < len(rec["case"]["bytes"]):
                        rec = {"case": c, "what": detail, "cfgs": [], "spec": sd, "impl": impl[cfg], "first_cfg": cfg,
                               "seen": (rec or {}).get("seen", set())}
                        best[key] = rec
                    rec["seen"].add(scanner + "/" + ns + ":" + api)
                    if c is rec["case"] and cfg not in rec["cfgs"]:
                        rec["cfgs"].append(cfg)
        elif cls == "unsupported":
            # API vs API (configurations without filter)
            views = {cfg: common_view(impl[cfg]) for cfg in p if cfg in impl and not cfg_opts(cfg)["f"]}
            evals += len(views)
            ref_cfg = sorted(views)[0] if views else None
            for cfg, v in views.items():
                if v != views[ref_cfg]:
                    kind, detail = first_diff(" " + views[ref_cfg], " " + v)
                    key = "api-disagree:" + kind
                    rec = best.get(key)
                    if rec is None or len(c["bytes"]) < len(rec["case"]["bytes"]):
                        best[key] = {"case": c, "what": "%s delivers differently from %s: %s" % (cfg, ref_cfg, detail), "cfgs": [ref_cfg, cfg],
                                     "spec": "(outside the reference fragment) " + views[ref_cfg], "impl": v, "first_cfg": cfg, "seen": set()}
        # every delivered stream must be well nested, whatever the Spec says
        for cfg in p:
            if cfg in impl:
                u = unbalanced(impl[cfg])
                if u:
                    key = "unbalanced-events:" + (u.split()[0] + "-not-closed" if u.endswith("closed") else "end-without-start") + ":" + cfg.split("/")[0].lstrip("p")
                    rec = best.get(key)
                    if rec is None or len(c["bytes"]) < len(rec["case"]["bytes"]):
                        best[key] = {"case": c, "what": "the delivered events are not well nested: " + u, "cfgs": [cfg], "spec": dumps.get(spec_key(cfg), "(outside the reference fragment)"),
                                     "impl": impl[cfg], "first_cfg": cfg, "seen": (rec or {}).get("seen", set())}
                    best[key]["seen"].add(cfg.split("/")[1] + "/" + cfg.split("/")[2] + ":" + cfg.split("/")[0])
    stats.setdefault("tiers", {})[tier] = {"documents": len(cases), "judged": len(idx), "evaluations": evals}
    common.log("C03 tier %s: %d documents, %d evaluations (t+%.0fs)" % (tier, len(cases), evals, time.time() - _T0))
    return evals, spec

def flush(ctx, best):
    for key, v in best.items():
        c = v["case"]
        seen = sorted(v.get("seen") or [])
        ctx.violations.append({"key": key, "concrete": True,
            "what": "%s: %s on document %r under %s%s" % (key, v["what"], show(c["bytes"]), ",".join(v["cfgs"][:6]),
                                                       (" (seen for: %s)" % " ".join(seen[:12])) if seen else ""),
            "replay": {"tier": "doc", "bytes": hexbytes(c["bytes"]), "configs": ",".join(v["cfgs"]) if v["cfgs"] != ["?"] else "",
                       "kind": c.get("kind", ""), "spec": (v.get("spec") or "")[:3000], "impl": (v.get("impl") or "")[:3000]}})

def norm_tier(ctx):
    """model vs spec for the code-shaped normalisers, compiled driver, exhaustive small domains (the theorems say they agree;
    this checks the compiled definitions the rest of the run relies on, and the as-is variant against the deviation shape)"""
    import itertools
    lines = []
    th = ctx.thorough()
    for nel in ("0", "1"):
        alpha = [0xD, 0xA, 0x78] + ([0x85, 0x2028] if nel == "1" else [])
        for ln in range(0, (6 if th else 5) - (1 if nel == "1" else 0)):
            for p in itertools.product(alpha, repeat=ln):
                hx = ".".join("%x" % x for x in p) or "-"
                for sizes in ("-", "1", "1,1", "2", "1,2", "3", "2,1,1", "1,1,1,1,1,1"):
                    lines.append("E %s %s %s" % (nel, sizes, hx))
    n_e = len(lines)
    units = [[0x20], [0x78], [0x9], [0xA], [0xD], [0xFFFF, 0x20], [0xFFFF, 0x9], [0xFFFF, 0xA], [0xFFFF, 0xD], [0xFFFF, 0x78], [0x85], [0xFFFF, 0x85]]
    for ln in range(0, 5 if th else 4):
        for p in itertools.product(units, repeat=ln):
            hx = ".".join("%x" % x for u in p for x in u) or "-"
            for ty in ("0", "7", "9", "10"):
                lines.append("A 1 0 %s %s" % (ty, hx))
    out = c02.run_driver_lines("infonorm", lines)
    bad = None
    for l, o in zip(lines, out):
        f = o.split()
        if l.startswith("E"):
            ok = len(f) == 4 and f[0] == f[1] and f[2] == f[3]
        else:
            ok = len(f) == 3 and f[0] == f[1] and (l.split()[3] not in ("0", "10") or f[2] == f[1])
        if not ok and bad is None:
            bad = (l, o)
    ctx.stats["normaliser_model_vs_spec"] = {"reader_cases": n_e, "attvalue_cases": len(lines) - n_e, "disagreements": 0 if bad is None else 1}
    if bad:
        ctx.violations.append({"key": "corr:normaliser-model", "concrete": False,
                               "what": "compiled code-shaped normaliser and Spec disagree on %s -> %s" % bad, "replay": {"tier": "norm", "line": bad[0], "out": bad[1]}})
    return len(lines)

def correspondence(ctx):
    th = ctx.thorough()
    for f in glob.glob(os.path.join(common.WORK, "replay", "C03-*.json")):
        try: os.unlink(f)
        except OSError: pass
    stats = ctx.stats
    best = {}
    evals = norm_tier(ctx)
    common.log("C03 normaliser tier done (t+%.0fs)" % (time.time() - _T0))
    n_random, n_big = (4000, 150) if th else (270, 24)
    cases, cov = gen_documents(ctx, n_random, n_big)
    e1, spec = run_tier(ctx, cases, best, stats, "generated", lambda i, dtd, nsok: configs_for(i, dtd, nsok, th))
    common.log("C03 generated tier done (%d documents)" % len(cases))
    distinct = set()
    for c, (head, dumps) in zip(cases, spec):
        if head.split(":")[0] in ("ok", "okns"):
            d = dumps.get("sax2/v0") or next(iter(dumps.values()), "")
            if len(d.split()) >= 3:
                distinct.add(c["bytes"])
    ecases = eol_documents(th)
    e2, _ = run_tier(ctx, ecases, best, stats, "eol-exhaustive",
                     lambda i, dtd, nsok: ["sax2/IG/1", "sax1/DG/0", "dom/WF/1/e1", "sax2/SG/1", "psax1/WF/0", "ls/DG/1/e0f0"] if i % 7 else configs_for(i, dtd, nsok, False))
    acases = attnorm_documents(th)
    e3, _ = run_tier(ctx, acases, best, stats, "attnorm-exhaustive", lambda i, dtd, nsok: ["sax2/IG/1", "sax1/IG/0", "dom/DG/1/e1", "sax2/DG/0", "ls/IG/0/e0f0"])
    vcases = [{"bytes": b, "kind": "valid-curated"} for b in VALID_CURATED] + valid_documents(ctx.rng, 400 if th else 70)
    VCFG = ["sax1/IG/0/v1", "sax2/DG/1/v1", "dom/IG/1/e1w1v1", "dom/DG/0/e1w0v1", "ls/IG/1/e0w0f0v1", "ls/DG/1/e0w1f3v1", "pdom/IG/0/e0w0v1",
            "psax2/IG/1/v1", "dom/DG/1/e0w1v1", "ls/IG/0/e0w0f2v1", "sax2/IG/0", "dom/DG/1/e1"]
    e5, _ = run_tier(ctx, vcases, best, stats, "validating", lambda i, dtd, nsok: VCFG)
    ncases = [{"bytes": b, "kind": "ns-alias-curated:" + w} for b, w in NS_ALIAS_CURATED] + ns_alias_documents(ctx.rng, 600 if th else 40)
    e6, _ = run_tier(ctx, ncases, best, stats, "ns-alias", ns_alias_configs)
    ocases = [{"bytes": b, "kind": "outside-fragment"} for b in OUTSIDE]
    e4, _ = run_tier(ctx, ocases, best, stats, "api-vs-api", lambda i, dtd, nsok: configs_for(i, dtd, True, True))
    flush(ctx, best)
    stats["evaluations"] = evals + e1 + e2 + e3 + e4 + e5 + e6
    stats["distinct_nontrivial"] = len(distinct) + len(ecases) + len(acases)
    stats["generated_documents"] = len(cases)
    stats["constructor_coverage"] = dict(sorted(cov.items()))
    stats["document_sizes"] = {"max": max(len(c["bytes"]) for c in cases), "over_16k": sum(1 for c in cases if len(c["bytes"]) > 16384),
                               "over_48k": sum(1 for c in cases if len(c["bytes"]) > 49152)}
    for k in (0, 5, len(CURATED) + 1, len(CURATED) + 2, len(CURATED) + 3):
        if k < len(cases):
            head, dumps = spec[k]
            ctx.samples.append({"doc": show(cases[k]["bytes"]), "kind": cases[k]["kind"], "reference": head, "sax2": (dumps.get("sax2/v0") or "")[:200]})

_search_done = {}
def search(ctx, broken):
    if "x" in _search_done:
        return None
    _search_done["x"] = True
    best = {}
    cases, _ = gen_documents(ctx, 300, 10)
    run_tier(ctx, cases + eol_documents(False) + attnorm_documents(False), best, {}, "search", lambda i, dtd, nsok: configs_for(i, dtd, nsok, False))
    run_tier(ctx, ns_alias_documents(ctx.rng, 40), best, {}, "search-ns-alias", ns_alias_configs)
    known = {f["key"] for f in common.load_findings() if f.get("property") == PID and f.get("status") == "open"}
    for key, v in best.items():
        if key in known:
            continue
        c = v["case"]
        return {"key": key, "concrete": True, "what": "%s: %s on document %r under %s [search after broken %s %s]" % (
                    key, v["what"], show(c["bytes"]), ",".join(v["cfgs"][:6]), broken["kind"], broken["name"]),
                "replay": {"tier": "doc", "bytes": hexbytes(c["bytes"]), "configs": ",".join(v["cfgs"]), "spec": (v.get("spec") or "")[:3000], "impl": (v.get("impl") or "")[:3000]}}
    return None

def replay(ctx, path):
    r = json.load(open(path))["replay"]
    if r.get("tier") != "doc":
        print(json.dumps(r, indent=1)); return 0
    h = r["bytes"]
    b = bytes(int(x, 16) for x in h.split(".")) if h != "-" else b""
    cfgs = [c for c in (r.get("configs") or "").split(",") if c] or configs_for(0, b"<!DOCTYPE" in b, True, False)
    (head, dumps), = run_spec([(b, [spec_key(c) for c in cfgs] + ["sax2/v0"])])
    obs, _ = run_impl([",".join(cfgs) + " " + h])
    impl = parse_obs(obs[0] or "")
    print("document :", repr(b)[:2000])
    print("reference:", head)
    for c in cfgs:
        sd = dumps.get(spec_key(c), "(not judged)")
        print("config   :", c)
        print("  spec   :", sd[:1500])
        print("  impl   :", impl.get(c, obs[0])[:1500])
        if head.split(":")[0] in ("ok", "okns") and c in impl and spec_key(c) in dumps:
            for key, detail in judge_one(sd, impl[c], c, explain_ctx(b, dumps)):
                print("  differs:", key, "-", detail)
    return 0
