#!/usr/bin/env python3
"""Regenerates MANIFEST.json from the table below (kept valid at all times)."""
import json, os
V = os.path.dirname(os.path.dirname(os.path.abspath(__file__)))
props = [json.loads(l) for l in open(os.path.join(V, "properties.jsonl"))]

CLAIMED = {
 "C05": dict(
  text="Lean 4 theorems over a code-shaped model of XMLUTF8Transcoder (tables regenerated from the source each run): "
       "every Table 3-7 sequence decodes to its code point, nothing else is ever decoded or skipped, encoding is exact, "
       "decode(encode)=id for all scalar strings, unbounded. Tied to the code by exhaustive/structured correspondence on the real transcoder. "
       "US-ASCII (XMLASCIITranscoder): block semantics incl. the deferred error after 32 characters, and the whole-input stream of repeated "
       "transcodeFrom calls delivers exactly the legal prefix and raises at the first byte >= 0x80 for every block size (no byte skipped); "
       "tied by every byte value at every position 0..80 as streams/single calls and by US-ASCII documents around the reader's block boundaries.",
  note="Trusted: Lean kernel + propext/Classical.choice/Quot.sound; Spec (Unicode tables) as transcribed; translator; harness/generators. "
       "UTF-16/UCS-4/single-byte tables/encoding sniffing: see DESIGN status table; ICU encodings not modelled.",
  technique="Lean 4 proof over translator-generated tables + model/implementation correspondence",
  ref="4/C05"),
 "C11": dict(
  text="Lean 4 theorems: every RangeToken operation (addRange, sort/compact, merge, subtract, intersect, complement, match) of a "
       "code-shaped model equals its set operation for all tokens satisfying the stated invariant (unbounded); Brzozowski-derivative matcher "
       "= language semantics for all expressions and strings; XSD quantifier semantics. The real RangeToken is tied by operation-history "
       "correspondence (judged by set algebra), the real engine by comparison with the proved matcher on all short strings. Long-subject family (257-600 characters around the explicit-stack threshold of the matcher) and a syntax family judged by an independent "
       "recursive-descent oracle for Datatypes Appendix F (tools/props/c11_xsd.py; self-tested against 34 hand-stated verdicts every run): malformed "
       "expressions must raise ParseException, well-formed ones are judged by language.",
  note="Trusted: Lean kernel + std axioms; Spec (Matches) as transcribed; Python renderer of regex ASTs to XSD syntax; harness. The backtracking "
       "engine itself, options i/s/m/x, tokenize/replace, category tables are not modelled (correspondence only) - partial.",
  technique="Lean 4 proof (range algebra refinement, derivative matcher) + model/implementation correspondence",
  ref="4/C11"),
 "C07": dict(
  text="Lean 4 theorems, unbounded over all content specs and all child sequences: the executable judge derivMatch equals the declarative "
       "regular language (deriv_iff); code-shaped models of SimpleContentModel, MixedContentModel, the selection logic "
       "(makeContentModel/createChildModel, select_total) and DFAContentModel (followpos construction, subset construction with its "
       "state table, table walk, termination) accept exactly that language (simple_iff, mixed_iff, dfa_iff, checkContent_iff), "
       "non-deterministic models included. Tied to the code by running the real DTDValidator::checkContent on every child sequence of "
       "length <=5 for every generated spec (verdict judged by the Spec; model also compared incl. model class and failing index), and by "
       "a document tier: generated DTD+instance documents parsed validating/non-validating vs the executable Lean spec validDoc.",
  note="PARTIAL at document level: attribute/ID/IDREF/REQUIRED/FIXED/enumeration/root/DTD-level VCs are checked by correspondence against "
       "validDoc only (validate_iff_partial proves validDoc => declared + children in Lang + text rule); ENTITY/NOTATION types, standalone VCs, "
       "standalone-declaration VCs and external/split subsets are in validDoc and the document tier; PE-nesting VCs and ENTITY/NOTATION types not modelled. No Gen tables: the tie is correspondence, not translation. Trusted: Lean kernel + "
       "propext/Classical.choice/Quot.sound; XV.Spec.ContentModel and XV.Spec.DtdValid as transcribed; harness, generators and the Python XML renderer.",
  technique="Lean 4 proof over code-shaped models + exhaustive model/implementation/Spec correspondence",
  ref="4/C07"),
 "C06": dict(
  text="Lean 4 theorems over code-shaped models of ElemStack/WFElemStack (capacities and reserved names regenerated from the source each run), "
       "XMLScanner::resolvePrefix, the two-pass start tag, SAX2XMLReaderImpl's prefix stacks and DOMNodeImpl's lookupNamespaceURI/lookupPrefix/"
       "isDefaultNamespace: for every operation history mapPrefixToURI = the Spec's inScope (pop restores, map/stack growth, attribute order "
       "irrelevant), start/endPrefixMapping events of any document are well nested and scoped at the matching endElement, for namespace-well-formed "
       "documents the whole modelled SAX2 event sequence equals the Spec, DOM lookups on parsed trees answer by inScope, collision detection iff two "
       "attributes share an expanded name, illegal xml/xmlns bindings rejected. Tied to the code by op-history correspondence on the exported "
       "ElemStack/WFElemStack and by parse-level comparison (4 scanners x SAX2 on/off, SAX1, DOM with the three lookups on every node) judged by the Spec.",
  note="Partial: the scanners are modelled for the namespace part only (attribute values, DTD defaults, entities, schema validation are not modelled); the duplicate-attribute registry is an abstract key set (hashing/rehash covered by C02's threshold correspondence); lookupPrefix completeness is for declared, non-reserved prefixes; the error-detection theorems assume no tag repeats a declaration (plain well-formedness). Model <-> Spec is now proved for SAX2 events, DOM node names (build_names), DOM lookups (sound and complete: lookupPrefix_complete, lookupPrefix_complete_any_tree) and error detection (start_tag_error_iff, scan_errors_iff_not_wellformed, dup_check_threshold_independent, collision_detected_iff_spec); model <-> code remains by correspondence. Trusted: Lean kernel + propext/Classical.choice/Quot.sound; Spec/Namespace.lean; translator; harness/generators.",
  technique="Lean 4 proof over translator-generated constants + model/implementation correspondence (direct class + parse level)",
  ref="4/C06"),
 "C09": dict(
  text="Lean 4 theorems (37, all strings/octet lists, unbounded) over code-shaped models of XMLBigDecimal::parseDecimal/toCompare/"
       "getCanonicalRepresentation, XMLBigInteger, HexBin, Base64 (tables regenerated from the sources each run), XMLString::replaceWS/"
       "collapseWS, BooleanDatatypeValidator, and XMLDateTime validateDateTime/normalize/compareOrder/compare: "
       "decimal accepted iff lexical after white-space processing; compare = order of the values (reflexive, antisymmetric, transitive, "
       "lexical-form independent); canonical form valid, canonical, value-preserving, idempotent; compare EQUAL iff same canonical form; "
       "totalDigits/fractionDigits both directions; integer likewise; hex/base64 valid iff lexical, decode(encode)=id, accepted strings are exactly "
       "the encoding of the returned octets modulo white space; collapse = XSD 4.3.6, idempotent; boolean; date/time: validateDateTime = field validity, "
       "normalize preserves the instant, compareOrder = time-line order. Tied to the code by correspondence through XMLBigDecimal/XMLBigInteger/HexBin/"
       "Base64/XMLString/XMLDateTime directly, the built-in validators, and XSValue; the Spec judges all three routes and validator/XSValue must agree. "
       "Facet tier: code-shaped model of AbstractNumericFacetValidator::inspectFacet/inspectFacetBase/inheritFacet, boundsCheck, Decimal digits/enumeration, "
       "AbstractStringValidator length facets, List/Union checkContent; for restriction chains of ANY length the inherited facet set accepts iff base and every "
       "step accept (inherit_eq_conjunction), bounds = XSD 4.3 (bounds_spec), derived subset of base (restriction_monotone), list_iff, union_iff; tied by real "
       "schema documents validated in-parse and through the grammar's DatatypeValidator, with model-independent monotonicity and loosening-derivation checks.",
  note="PARTIAL: date/time theorems are *_partial (field level; order theorems for values in normal range with equal zonedness; the 14-hour rule by "
       "correspondence + witness; xs:duration: Spec (lexical space, (months, seconds), partial order through the four reference dateTimes of XSD 3.2.6.2) and code-shaped model of parseDuration/addDuration/compareResult/compare(strict); compare = common value of the four reference comparisons or INDETERMINATE outside the raw-field shortcut (duration_indeterminate_iff), strict partial order (fractionless), model = Spec kernel-checked on the month-length boundary family and the lexical recogniser on all strings of length <= 4 over the duration alphabet; other durations, fractional seconds and duration facets by correspondence only (3 open duration findings)). float/double: lexical recogniser + validator/XSValue agreement only. In-parse validation is "
       "represented by validator(white-space-normalised string). Facet tier partial: value space abstract (order laws instantiated for decimal and integers/time-line instants); fixed attribute, pattern facet not modelled. Trusted: Lean kernel + "
       "propext/Classical.choice/Quot.sound; Specs as transcribed; translator; harness/generators.",
  technique="Lean 4 proof over translator-generated tables + model/implementation correspondence, Spec-judged on three API routes",
  ref="4/C09"),
 "C10": dict(
  text="Lean 4 theorems, unbounded in the tree, the path and the number of tuples: the code-shaped incremental XPathMatcher "
       "(per-path step stack, fNoMatchDepth, fMatched) calls matched() exactly for the elements ./t1/.../tn selects and is back in its "
       "initial state (matcher_eq_path); for .//t its match flag is XP_MATCHED_D exactly on the selected elements, nested ones included "
       "(matcher_desc_eq_path); kernel-checked witnesses that outside these classes the matcher is NOT XPath (matcher_deviations). "
       "ValueStore startValueScope/addValue/endValueScope composed per selected node: a duplicate is reported iff two complete tuples at "
       "i<j are equal, a key scope is silent iff every field is present and tuples are pairwise distinct, IC_KeyNotFound iff some complete "
       "reference equals no complete key, and the set of classes is invariant under permutation of the selected nodes and under the "
       "interleaving of keys and references (dup_iff, key_iff, keyref_iff, perm_invariant, keyorder_invariant), with tuple equality = "
       "equality of the denoted values (tupleEquals_value, isDuplicateOf_value: common-ancestor rule; decimal_eq_value: 1.0 = 1.00 = +1). "
       "The executable judge icCheck reports nothing iff the declarative ICValid (cvc-identity-constraint 3/4 with the node tables of "
       "3.11.5) holds (icCheck_iff_ICValid). XMLValid IC_* codes regenerated from XMLValidityCodes.hpp (ic_codes_are_errors). Tied to the "
       "code by validating generated (schema, instance) pairs with the real XercesDOMParser (IGXMLScanner + SGXMLScanner, two schema-loading "
       "routes, up to 3000 tuples) judged by icCheck and compared count-for-count with the code-shaped model of the handler, and by "
       "driving the real XercesXPath/XPathMatcher directly, judged by pathMatches.",
  note="PARTIAL: nested scopes are covered by the executable Spec (table) and the handler model by correspondence only "
       "(table_single_scope proved; table_sibling_scopes_partial is a witness); the composition matcher+store+cache = icCheck is tied by "
       "correspondence, not proved; attribute-target paths, unions and .// followed by several steps are outside the proved matcher classes "
       "(the real matcher deviates there: recorded findings). The model follows the code as it is after the five C10 fix: commits in /repo (sibling-scope value "
       "stores, overlapping selector unions, keyref without references, unprefixed QName values, 'p:*' first step); a zone of cases is "
       "excluded from the count-for-count model comparison only while its fixed witness still deviates from the Spec (none on the current "
       "tree: evidence key zones_not_compared_with_model; the Spec judgement is never suspended). xsi:type, union/list typed fields, "
       "default element values, XSD 1.1 not modelled. Trusted: Lean kernel + propext/Classical.choice/Quot.sound; XV.Spec.Identity as transcribed "
       "(nilled element value taken as equal to itself only); DatatypeValidator::compare = value equality (C09); translator; harness, generators "
       "and the Python renderer.",
  technique="Lean 4 proof over code-shaped models + Spec-judged model/implementation correspondence (document level and direct XPathMatcher drive)",
  ref="4/C10"),
 "C17": dict(
  text="PARTIAL. Lean 4 theorems about the synchronisation LOGIC, for all traces / all schedules and any number of threads: "
       "(1) lockset_implies_drf (+ mutual_exclusion, hb_lt): in every well-formed lock trace in which each marked access happens while its "
       "thread holds the mutex guarding the resource, any two conflicting accesses are ordered by happens-before (program order + "
       "release->later acquire); (2) checkTrace_sound_complete / checkInitOnce_sound_complete / accepted_trace_race_free: the executable "
       "checker that judges the traces recorded from the real library accepts exactly the traces satisfying the declarative discipline; "
       "(3) init_once / init_no_deadlock: the check / lock / re-check / build / publish / unlock protocol (RangeTokenMap::getRange, "
       "DOMImplementationRegistry) completes at most one initialisation, every finishing thread sees the initialised value, some thread can "
       "always move - the three mutations (no re-check, no exclusion, flag before data) are shown to break it; (4) code-shaped model of "
       "XMLSynchronizedStringPool: ids_stable, getId_denotes, linearizable (every interleaving of the unlocked const-pool phase and the locked "
       "overflow phase equals the single-threaded execution in completion order, program order preserved), getId_asIs_not_stable (witness of "
       "the defect in the code as written); (5) all_guarded_resources_have_site / all_markers_guarded / all_guarded_site_counts over Gen/LockSites (every XMLMutexLock "
       "site and hook marker of this build configuration, regenerated from the sources each run): deleting the lock of a modelled access "
       "point, with or without its marker (per-function site counts), breaks a theorem, adding locks does not. Tie to the code: hook H2 (XERCES_VERIF_ACCESS/INIT/YIELD markers + a delegating, "
       "recording XMLMutexMgr): the recorded trace of every run goes through the verified checker; per-thread result digests of N in "
       "{2,4,8,16} concurrent seeded workloads (no warm-up, seeded yields; private SAX2/DOM parsers with DTD/schema validation, parsers "
       "sharing one locked grammar pool, DOM build/serialise, regexes with category escapes, transcoders, owner-less doctypes, registry) must "
       "equal the single-threaded digests; recorded operation histories of a shared synchronized string pool are replayed on the Lean model "
       "in linearization order; a ThreadSanitizer build runs the same workloads as search support; a watchdog reports hangs.",
  note="PARTIAL: the theorems speak about event traces and transition systems with atomic, sequentially consistent steps. Hardware/compiler "
       "memory-model effects, code that carries no access marker (function-local statics, lazily completed parts of cached grammars) and "
       "ICU/libc internals are outside the model; races there can only be FOUND by the TSan search, not excluded. Recursive re-acquisitions "
       "are collapsed by the recorder; the recorded order is one linearisation consistent with the real lock order. Deadlock freedom is "
       "proved for the lazy-init protocol only (watchdog otherwise). Trusted: Lean kernel + propext/Classical.choice/Quot.sound; "
       "XV.Spec.Trace as transcribed; placement of the hook markers (tied to lock sites by all_markers_guarded); translator; harness recorder; "
       "clang-14 ThreadSanitizer as race oracle.",
  technique="Lean 4 proof (lockset => DRF, verified trace checker, lazy-init transition system, linearizable string pool) + translator-generated "
            "lock-site table + recorded-trace checking, digest comparison and ThreadSanitizer search on the real library",
  ref="4/C17"),
 "C19": dict(
  text="Lean 4 theorems, unbounded: for EVERY entity table (cyclic or not) expansion halts within reader-stack depth 2|table|+1 "
       "(the skipped top-of-stack test in pushReader is accounted for); a reachable self-referential entity is always reported; "
       "with limit L at most L+1 expansions are performed and the fatal error is raised iff the document needs more than L; "
       "documents within the limit are unaffected. Fetch gating: a code-shaped interpreter of createReader / external-subset / "
       "schemaLocation / import-include-redefine logic whose log type proves every fetch is at a site permitted by the Spec's switch table, "
       "is offered to the resolver first with base = URI of the containing entity, and uses a supplied source instead of the default; "
       "nothing is opened when default resolution is disabled. RFC 2396 5.2: XMLURL::conglomerateWithBase / XMLUri::initialize "
       "equal the Spec on stated domains, dot-segment removal idempotent. Tied to the code by hx_ext (recording fgFileMgr/fgNetAccessor, "
       "recording resolvers): generated file trees x configurations (exact ordered trace predicted, property text is the judge), entity documents "
       "at L-1/L/L+1, cycles 1..6 at 5 sites, exponential tables, and XMLURL/XMLUri on RFC 2396 appendix C + random pairs.",
  note="PARTIAL: character-level XMLURL::parse, empty inner path segments, backslashes, standard-URI-conformant mode, grammar caching, "
       "externalSchemaLocation, handleMultipleImports, exitOnFirstFatal=false not modelled; GE/PE names assumed disjoint; driver's string-level "
       "defaultSource is correspondence-only. Trusted: Lean kernel + std axioms; Spec.Entity/ExtGate/Uri; Python renderers and judge.",
  technique="Lean 4 proof (simulation, well-founded measure, correct-by-construction log type) + model/implementation/Spec correspondence",
  ref="4/C19"),
 "C20": dict(
  text="Lean 4 theorems, unbounded over all finite file maps (cyclic or not), document shapes and relative references, about a "
       "code-shaped model of XIncludeUtils (parseDOMNodeDoingXInclude / doDOMNodeXInclude / doXIncludeXMLFileDOM / "
       "doXIncludeTEXTFileDOM, inclusion-history stack, fallback rules, XIncludeLocation::prependPath base fix-ups; XMLErrs codes "
       "and severity bounds regenerated from XMLErrorCodes.hpp each run): process_total (the budget files+1 is never exhausted and any "
       "larger budget gives the same result: termination on every map, bounded by the history stack), acyclic_eq_subst (no reachable "
       "loop => resulting tree incl. the resolved base URI of every element = the declarative substitution, error classes = the Spec's), "
       "cycle_reported / self_include_reported (a loop reachable through live includes => a fatal circular-inclusion error), "
       "fallback_spec, invalid_usage_reported, resolve_prependPath + base_fixup_preserves_targets (RFC 2396 composition law: included "
       "content and fallback children keep their base URI, so relative references resolve to the same targets). Tied to the code by "
       "generated file maps materialised on disk and parsed by the real XercesDOMParser and DOMLSParser (namespaces + XInclude on): DOM "
       "dump with resolved bases + reported error codes vs the model; the executable Spec judges (tree equality on acyclic maps, "
       "error class + termination on cyclic ones; crash/hang/sanitizer report = violation).",
  note="The model states what the property demands; where the pinned code differs (six recorded findings, fixes/c20-*.diff) a second, "
       "unproved as-is model (XV.Model.XIncludeAsIs) reproduces the code exactly so that every disagreement is attributed or flagged. "
       "PARTIAL: DOM surgery is modelled as list substitution; encodings/BOMs are exercised at byte level by the harness only (model sees "
       "characters); DTD notation/entity clash checks, entity resolvers, accept attributes, xpointer, non-well-formed targets, absolute "
       "xml:base not modelled/generated; invalid usages are pre-classified by the generator (one fault per include); the executable "
       "cyclicity test of the driver is cross-checked against the proved theorems at run time, not proved. Trusted: Lean kernel + "
       "propext/Classical.choice/Quot.sound; XV.Spec.XInclude as transcribed; translator; harness, generator and XML renderer.",
  technique="Lean 4 proof over a code-shaped model + Spec-judged model/implementation correspondence on generated file maps",
  ref="4/C20"),
 "C18": dict(
  text="Lean 4 theorems, unbounded: (1) the streaming ledger monitor over alloc/free traces accepts exactly the traces in which every "
       "release matches one earlier live allocation of the SAME manager and nothing is live at the end (monitor_iff, address re-use "
       "handled), and when it rejects it reports the first breach with the right kind - foreign pointer, double free, wrong manager, "
       "block handed out twice, leak with the leaked ids (monitor_first_violation); (2) XMLPlatformUtils::Initialize/Terminate as a "
       "code-shaped counter machine: every balanced nesting returns to the initial state, the manager is deleted iff the library "
       "created it, nested calls only move the counter, extra Terminate is harmless (LONG_MAX saturation included); (3) "
       "DOMDocumentImpl::allocate/release/setMemoryAllocationBlockSize arena: live sub-allocations are pairwise disjoint and inside owned "
       "blocks under exactly `alignDown(maxSub)=0 or alignDown(maxSub)+header <= initial` (necessity proved; constants and the statement "
       "skeleton of allocate() regenerated from the sources each run). Tie: recording MemoryManagers around SAXParser / SAX2XMLReader / "
       "XercesDOMParser / DOMLSParser / grammar pool / global manager for generated documents x every ending (completion, fatal error, "
       "handler exception at EVERY callback k, progressive parse abandoned at every step, adopt/release/reuse orders); every recorded "
       "trace is judged by the verified monitor; Initialize/Terminate sequences and arena histories compared with the models and judged "
       "by independent Specs; LeakSanitizer for allocations that bypass the managers.",
  note="PARTIAL: that the C++ parsers emit disciplined traces is EXPLORED, not proved (verified oracle over recorded runs; the "
       "Janitor/catch structure is not modelled). Arena arithmetic in Nat (no 64-bit wrap); XMemory header model not tied by the translator. "
       "Trusted: Lean kernel + propext/Classical.choice/Quot.sound; XV.Spec.Ledger, XV.Spec.Arena; harness recording managers and trace "
       "printer; Python lifecycle oracle; translator (DomHeap).",
  technique="Lean 4 proof (trace monitor = declarative discipline; counter machine; arena invariant) + recorded-run exploration judged by the proved monitor + model/implementation correspondence",
  ref="4/C18"),
 "C13": dict(
  text="Lean 4 theorems over an executable reference DOM (store of node records; 29 DOM Core operation kinds with the legality checks "
       "in the order of the C++; hierarchy table regenerated from DOMDocumentImpl::isKidOK each run): every operation with arbitrary "
       "operands preserves well-formedness (single parent, consistent child/parent links, duplicate-free child lists, acyclic, uniform "
       "ownerDocument, sorted back-linked attribute maps) for all stores and histories of any length; raising operations change nothing; "
       "insertBefore succeeds iff DOM Core permits it; CharacterData arithmetic exact. Tied to the code by exhaustive (<=2 / <=3 ops over "
       "a 5-node universe) and random (200 / 1000 ops) histories executed on the real DOM with a full structural dump through public "
       "getters after every operation; a model-independent DOM Core judge checks WF, forbidden-op-must-raise, exception-changes-nothing, "
       "CharacterData, tree-surgery and normalize semantics directly on the implementation's dumps.",
  note="Not modelled: DocumentType/Entity/Notation, NS methods, user data, release(), Document.cloneNode, code-shaped sibling-pointer layer "
       "(checked dynamically only: three child enumerations must agree). isXMLName is ASCII-only in the model. Trusted: Lean kernel + 3 axioms, "
       "Spec/Dom.lean, the Python judge, translator, harness/generators.",
  technique="Lean 4 proof over reference model + translator-generated table + model/implementation correspondence with spec judge",
  ref="4/C13"),
 "C02": dict(
  text="Lean 4 theorems (20). Tables: every entry of both 65536-entry character tables carries exactly the flags of the XML productions for all 8 "
       "masks (charTable10_eq_spec, charTable11_eq_spec; XML 1.0 5th-edition name classes, 1.0 [2][3], 1.1 [2][2a]), kernel-checked over the regenerated "
       "pages. Error codes: severity partition of the generated XMLErrs enum and all 88 fatal codes raised for WF/NS violations lie in the fatal range. "
       "Reference processor XV.Spec.Xml (Doc CST with one field per lexical freedom, render, WF, parse): parse_render (WF c -> parse (render c) = ok c) and "
       "parse_sound (parse s = ok c -> WF c and render c = s) at full strength, unbounded size and depth, for the fragment: XMLDecl, Misc, elements, attributes, "
       "character data, char/entity refs, CDATA, comments, PIs, optional DOCTYPE with internal general ENTITY declarations (entity declared / no recursion / "
       "no '<' through entities inside the theorems); per-constraint corollaries. Tied to the code by table read-back through the public XMLChar API (131072 "
       "units), verdict correspondence on generated trees, 40 single-violation mutation kinds, truncation at every offset, exhaustive short strings; "
       "4 APIs x 4 scanners x namespaces on/off, judged by the Lean reference.",
  note="PARTIAL: ELEMENT/ATTLIST/NOTATION/external-ENTITY declarations are recognised and judged by correspondence but lie outside parse_render/parse_sound "
       "(parse_sound_dtd_partial); PE references, conditional sections, external subsets, non-UTF-8 declarations answer 'unsupported' and are not judged; namespace "
       "constraints inside entity replacement text not modelled. Trusted: Lean kernel + propext/Classical.choice/Quot.sound; XV.Spec.XmlChar and XV.Spec.Xml as "
       "transcribed; XV.Spec.Utf8 in front; translator, harness, Python generator/renderer (its disagreements with the reference are reported as corr:xmlwf-generator).",
  technique="Lean 4 proof over translator-generated tables and a verified reference recogniser + spec-judged model/implementation correspondence",
  ref="4/C02"),
 "C16": dict(
  text="Lean 4 theorems over a code-shaped model of XSerializeEngine (tags, sizes, default buffer size, level and one "
       "descriptor per operator<</>>/writeX/readX regenerated from the source each run): every list of typed primitives, "
       "raw blocks and strings (all encodings incl. null) written by a storing engine is read back identically, for all "
       "lists, every buffer size >= the minimum and every buffer address; for buffer sizes that are multiples of 8 the "
       "stream equals a declarative layout and hence does not depend on the buffer size (proved counterexample for the "
       "unaligned writeSize/writeInt64); arbitrary object graphs incl. sharing and cycles are restored as the same graph "
       "up to an injective pointer->pool-index renaming; a stream with another level is rejected. Store/load operation "
       "lists of all 79 serialize methods, 5 helper pairs and 28 XTemplateSerializer pairs are regenerated from the source "
       "and proved symmetric by decide; symmetric straight-line lists are proved to round-trip. DatatypeValidator::storeDV/loadDV: the 'is a built-in' decision is the identity test as extracted from the source, and for every registry state a stored reference is "
       "restored as the shared built-in iff it IS that built-in - a user type whose local name equals a built-in's comes back as its own copy "
       "(dv_reference_identity; dv_name_test_unsound is the witness for the name test).",
  note="PARTIAL: the pool round trip (grammar/XSModel dumps, verdicts, error-code multisets, defaulted attributes, type "
       "names for generated DTD/XSD + instances on original vs restored vs re-restored pool, level-field corruption) relates "
       "two runs of the implementation and has no model. Symmetry is about extracted op lists (translator trusted, "
       "normalisations N1-N4 in tools/translate_serops.py; same-kind swaps are only caught behaviourally); derived state "
       "(content models, regex) not modelled. Assumes same buffer size and mod-8-congruent buffers on both sides, "
       "strLen<bufferLen for strings with buffer length, < fgMaxObjectCount objects.",
  technique="Lean 4 proof over translator-generated constants/op lists + model/implementation byte correspondence + implementation-vs-implementation round trip",
  ref="4/C16"),
 "C12": dict(
  text="Lean 4 theorems, unbounded over all UTF-16 strings and every transcoder meeting a stated contract (proved for UTF-8, UTF-16, "
       "ISO-8859-1, US-ASCII and the four generated table transcoders): a code-shaped model of XMLFormatter (formatBuf / specialFormat / "
       "handleUnEscapedChars / writeCharRef, escape rows, standard references and XML 1.1 classes regenerated from the sources each run) "
       "writes exactly the reference escaping (formatBuf_writes); character data written with CharEscapes and attribute values written with "
       "AttrEscapes are read back unchanged by an executable XML 1.0 reader (escape_sufficient_text/attr), the rows are minimal "
       "(escape_rows_exact, escape_minimal), every unit handed to the transcoder is representable and an unrepresentable character or "
       "surrogate pair becomes one &#xH; with its scalar value (unrep_as_charref), the formatter terminates on well-formed UTF-16 "
       "(formatter_terminates); the repaired CDATA splitter keeps the text and leaves no ']]>' in a piece (cdata_split_preserves); "
       "ensureValidString accepts exactly the legal XML 1.0 strings and the generated XMLChar tables are the Char productions "
       "(ensureValid_iff_legal); an element with attributes and text serialises to a form whose values re-parse to the originals, "
       "re-serialises identically, and ill-formed strings are refused (serialize_content_reparses / _idempotent / _refuses_illformed). "
       "Namespace fix-up (XV.Model.NsFixup, API-built trees): isNamespaceBindingActive = innermost-declaration resolution of "
       "Namespaces in XML (nsfixup_innermost_wins), after the fix-up of an element every prefix it uses resolves to the namespace it "
       "was built with, for every enclosing scope stack, i.e. every shadowing pattern (nsfixup_binds_all), nothing in force is "
       "re-declared (nsfixup_no_redundant_declaration). Negations proved with witnesses for the current code: xml11_eol_not_escaped (F9), cdata_asis_loses_terminator (F8), "
       "formatter_hangs_on_trailing_high_surrogate (F14), bestfit_breaks_wellformedness, serializer_emits_illformed. Tied to the code by "
       "(a) XMLFormatter vs model on every escape mode x unrep mode x 8 encodings x XML 1.0/1.1, (b) DOMLSSerializer vs tree model, and "
       "(c) the property itself judged without the model: API-built and parsed trees x 11 encodings x feature sets x versions are "
       "serialised, re-parsed, compared, re-serialised and decoded with spec codecs.",
  note="reparse_equal_tree: for every document element with arbitrarily nested elements, attributes, text, CDATA sections, comments and "
       "PIs (XML 1.0 and 1.1, UTF-8 / UTF-16) the serializer model reports no error, its output is character for character the "
       "rendering of a concrete syntax tree that is well-formed (C02 WF), C02's reference parser reads exactly that tree back "
       "(composition with parse_render), and C03's infoset of it, seen as a DOM (XV.Spec.DomView: attributes in order with normalised "
       "values, character data coalesced across Text/CDATA boundaries), is the content of the original tree. Side conditions (okNode / "
       "okDocCfg): DOM invariants (names are Names, distinct attribute names, PI target not xml), the serializer's own checks, and the "
       "recorded inexpressible cases (CR/NEL/LSEP inside CDATA, comment, PI; leading white space of PI data; sharpness witness "
       "reparse_cr_in_comment_lost); an XML 1.1 document is written with its declaration. PARTIAL: no doctype / entity references / "
       "document-level comments and PIs in that theorem; namespaces / "
       "fix-up, doctype, entity references, BOM, pretty printing, filters, file and string targets are covered by the model-free round "
       "trip only; the transcoder is modelled at UTF-16 unit level (byte level is C05); ICU encodings are judged by Python codecs. The "
       "models mirror the code AS IT IS, with switches for four proposed repairs (fixes/c12-*.diff, tools/props/c12.py FIXED). Trusted: "
       "Lean kernel + propext/Classical.choice/Quot.sound; XV.Spec.Unescape as transcribed; translator; harness equality (character data "
       "coalesced, fix-up xmlns attributes tolerated); generators. 19 open findings recorded in known_findings.json.",
  technique="Lean 4 proof over code-shaped models with translator-generated tables + model/implementation correspondence + model-free round trip",
  ref="4/C12"),
 "C01": dict(
  text="PARTIAL. Lean 4 theorems, unbounded over all sizes / operation sequences, about code-shaped models whose constants are regenerated "
       "from the C++ text on every run: (a) growth arithmetic of XMLBuffer (incl. the full-handler branch), ElemStack/WFElemStack/NamespaceScope "
       "stacks, prefix maps and child arrays ((XMLSize_t)(cap*1.25): strict growth exactly from 4, real precondition = generated initial "
       "capacities 8/16/32, stuck case exhibited), RangeToken, ValueVectorOf, BaseRefVectorOf, DOMBuffer: grow_sufficient, every access of every "
       "append sequence inside its block, stated no-wrap bounds; (b) the scanCharRef accumulator on 32-bit arithmetic: no intermediate wrap and "
       "result = numeral iff <= 0x10FFFF for digit strings of any length (XMLScanner; DTDScanner conditional on its guard, negative witness "
       "proved); (c) loadMsg + replaceTokens lengths: every errText call site x every shipped message x arbitrary replacement lengths stays "
       "inside the buffer (tables checked by the kernel), replaceTokens overrun for other texts exhibited; (d) ReaderMgr ownership ledger: "
       "every created reader / adopted entity deleted exactly once after reset+destroy for all op sequences, never popped below the base "
       "reader, recursion refused; (e) entity-expansion work bound |doc| + L*maxLen with termination; DOM heap sub-allocation and the UCS-4 BOM "
       "loop as conditional theorems with negative witnesses; (f) AbstractDOMParser: every member that is a raw pointer into the document under "
       "construction (fCurrentParent, fCurrentNode, fCurrentEntity, fDocument, fDocumentType - member list and assignments regenerated from the "
       "source, Gen/DomParserFields) is nulled in the call closure of reset(), reset() is reached from resetDocument()/parseReset() and every "
       "scanner's scanReset, hence no such member points into a released document after reset (domParser_reset_complete, _reached, "
       "_no_stale_pointer_after_reset, _nonvacuous; textual and path-insensitive). Tied to the code by the translator, by direct correspondence on the exported "
       "classes (XMLBuffer, ElemStack, ValueVectorOf, RangeToken, DOMBuffer, XMLString::replaceTokens, ReaderMgr with an allocation counter, "
       "character references through real parses judged by XML 1.0) and by witness runs for every fact a conditional theorem depends on.",
  note="NOT proved: memory safety of the parser as a whole. Use-after-free / overflow outside the modelled functions is only searched for: "
       "ASan+UBSan harness over {SAXParser, SAX2XMLReader, XercesDOMParser, DOMLSParser} x {IG,WF,DG,SG} x {never,auto,always} x feature bits on "
       "a seeded corpus (DTD, entities, namespaces, XML 1.1, schemas, encodings, XInclude) x mutations and size generators, with a CPU-time "
       "watchdog linear in the input, a catch-all for foreign exceptions and an allocation counter; findings are classified by stable keys "
       "(asan:<function>, ubsan:<file>:<line>, timeout:/resource:<family>, foreign:<type>, leak:<class>) and minimised. Compiler/libc-level UB, "
       "allocator exhaustion, stack depth, IEEE-754 exactness of cap*1.25 (assumed below 2^50), sizes beyond the stated no-wrap bounds, ICU/iconv "
       "message catalogues, file/network accessors and the XMLReader byte/char windows (C04) are not covered. continue-after-fatal is searched in a "
       "separate stream and only listed. Trusted: Lean kernel + propext/Classical.choice/Quot.sound; translator patterns; harnesses, generators, "
       "classifier; ASan/UBSan as detector. Reused-parser tier: one parser object of each kind over sequences of 2-6 documents (entities, external "
       "subsets/PEs with and without text declarations, XInclude, 1.1, UTF-16, schema) with between-document actions {nothing, resetDocumentPool, "
       "adopt+release now/later, feature flips, abandoned progressive parse}, minimised by delta debugging.",
  technique="Lean 4 proof over translator-generated constants and code-shaped models + direct correspondence + sanitizer search (model validation / failing-input search)",
  ref="4/C01"),
 "C08": dict(
  text="Lean 4 theorems, unbounded over all particles / ContentSpecNode trees / member lists / declarations and all child sequences: "
       "the executable judge pMatch (derivatives with occurrence counters and all-groups) equals the declarative particle language "
       "(ranges as bounded repetition, all = permutations of a selection) (pMatch_iff); the code-shaped ComplexTypeInfo::expandContentModel / "
       "convertContentSpecTree with the compact-syntax condition useRepeatingLeafNodes && !hasRepeatedLeaf preserve that language for every "
       "Particle-Correct range, compact Loop syntax included (expand_preserves, convert_preserves), and chain to the C07 DFA model "
       "(expand_dfa_iff); the schema-mode DFAContentModel model with counting states (fCountingStates / handleRepetitions) accepts exactly "
       "the particle language for EVERY Particle-Correct tree without an all-group, Loop (repeating-leaf) conversion included "
       "(counting_eq_unrolled: validateTree s pi = ok <-> PLang s pi; all-groups go to AllContentModel, all_iff_permutation); AllContentModel (ctor + validateContent) accepts exactly the permutations "
       "(all_iff_permutation, all_ctor); the wildcard namespace tests equal Structures 3.10.4 (wildcard_spec); "
       "SubstitutionGroupComparator::isEquivalentTo equals 3.3.6 (substitution_closure_spec); the schema part of buildAttList (repaired: a "
       "prohibited use admitted by the wildcard is no use) equals the attribute-use rules for every use set with distinct names "
       "(attr_uses_iff, no further proviso). Tied to the code by (1) the real ComplexTypeInfo::getContentModel()+validateContent on EVERY child "
       "sequence of length <=4 for ~1000 generated particles per run (Spec-judged; the code-shaped model incl. DFA counting states agrees with "
       "the library on every evaluation) and (2) a document tier: typed component models rendered to XSD (two namespaces, import/include, groups, "
       "attribute groups, extension/restriction, substitution groups, wildcards, xsi:type, xsi:nil), instances (exhaustive child sequences, "
       "valid-by-construction, single-rule mutations) validated under {IG,SG}x{DOM,SAX2}x{full checking on/off}; verdict, PSVI type names, "
       "defaulted attributes and element defaults judged by the executable Lean Spec; schemas violating component constraints must be reported at load.",
  note="PARTIAL: validElem_iff is replaced by validElem_iff_partial / "
       "validDoc_root (meaning of an empty violation list of the executable Spec) - scanStartTag / validateElement / checkContent have no "
       "code-shaped model and are covered by the document-tier correspondence only; UPA and particle-derivation checking: decision table for the "
       "generated families in tools/props/c08*.py; TraverseSchema not modelled (component model + renderXsd trusted); simple types opaque (C09). "
       "5 fixes committed (compact Loop with repeated leaf, xsi:nil state, SGXMLScanner skip attDef, SGXMLScanner PSVI without grammar, prohibited "
       "use vs wildcard); 6 open known findings (nilled element with children after a validated child, strict wildcard vs local declaration, prohibited ref to a global attribute with a value constraint, "
       "xsi:type user simple type for complex declared type, xsi:type of an unassessed element leaks, empty sequence as choice branch). "
       "Trusted: Lean kernel + propext/Classical.choice/Quot.sound; XV.Spec.Particle, XV.Spec.XsdValid as transcribed; harness and generators.",
  technique="Lean 4 proof over code-shaped models + exhaustive model/implementation/Spec correspondence",
  ref="4/C08"),
 "C03": dict(
  text="Lean 4 theorems (22), all unbounded. Spec XV.Spec.Infoset over C02's Doc: infoset : Doc -> List Event with the 2.11 line ends, 3.3.3 "
       "attribute-value normalisation, reference expansion, internal-subset defaults, DTD declarations, ignorable white space and Locator line "
       "numbers. eol_model_eq_spec / eol_lines_model_eq_spec: the code-shaped XMLReader::getNextChar/handleEOL with refills and its line counter "
       "equal the 2.11 rule (CR at a refill boundary, CR CR LF, CR at the very end, XML 1.1 NEL/LS); eol_idempotent, eol_no_cr; "
       "attnorm_model_eq_spec: IGXMLScanner::normalizeAttValue with the 0xFFFF escape marker equals 3.3.3 for every AttTypes value and every "
       "value; attnorm_raw_model_eq_spec, attnorm_idempotent_tokenized, charref_units_spec; events_wellnested, dom_walk_build "
       "(domWalk (buildDom e) = e), sax1_sax2_agree, pull_eq_push, pull_pieces_nonempty, filter_spec; line_numbers_spec, line_of_start_tag, "
       "line_of_comment, line_of_pi, feed_init_line, render_split; events_parse_render: WF c -> (parse (render c)).map infoset = ok (infoset c) "
       "(composed with C02's parse_render). Tie: one canonical dump per configuration of the real parsers (SAXParser, SAX2XMLReader with "
       "Lexical/Decl/DTD handlers, XercesDOMParser, DOMLSParser with 6 filters, parseFirst/parseNext for all three; x scanners IG/DG/WF/SG x "
       "namespaces x entity-reference nodes x include-ignorable-whitespace x validation) against the Spec evaluated on the same bytes; exhaustive "
       "tiers: line-end strings in every construct, 10 attribute types x 13 white-space shapes as default, #FIXED and specified value; constants "
       "(AttTypes enum, chCR/chLF/chNEL/chLineSeparator, the 0xFFFF marker, kCharBufSize) regenerated from source (Gen/NormConsts; raises when the "
       "branch shapes of normalizeAttValue / handleEOL change).",
  note="PARTIAL: events_wellnested and events_parse_render carry the hypotheses WF and entOnlyDoc (as C02; false for an arbitrary Doc: a "
       "mismatched end-tag name unbalances the word); attnorm_model_eq_spec assumes literal characters are not the marker and, under 1.1, not "
       "NEL/LS (open finding tokenized-attribute:xml11-nel-ls-collapsed); the DOCTYPE is C02's fragment (no external identifier, no parameter "
       "entities) - such documents are judged only by API-vs-API agreement and a well-nestedness check on the delivered stream; DOM TypeInfo not "
       "compared (declared types compared through SAX); filters never act on the document element and run with entity-reference nodes off (DOM LS "
       "leaves text inside EntityReference nodes open); namespace URIs are C06's; not modelled: elementDecl/attributeDecl callbacks, the DOM "
       "internalSubset string, Entity node children. 7 fixes committed (8 keys), 3 open known findings (XML 1.1 NEL/LS collapsed in tokenized "
       "attributes, empty identifier literal reported as absent, SAX2 startDTD without endDTD when the external subset is not loaded). "
       "Trusted: Lean kernel + propext/Classical.choice/Quot.sound; XV.Spec.Infoset, XV.Spec.Xml.* as transcribed; harness dumps and generators.",
  technique="Lean 4 proof over code-shaped models + Spec-judged event-dump correspondence across all APIs/scanners",
  ref="4/C03"),
 "C04": dict(
  text="Lean 4 theorems over a code-shaped model of XMLReader's byte->character pipeline (refreshRawBuffer, the xcodeMoreChars "
       "needMore/low-water loop, refreshCharBuffer, getNextChar/peekNextChar with handleEOL, skipped*/peekString, both constructors incl. "
       "basicEncodingProbe/doInitDecode, setEncoding) composed with the C05 UTF-8 transcoder model (and ISO-8859-1/US-ASCII/UTF-16): for EVERY "
       "partition of the byte stream into reads, every buffer geometry (charBuf>=2, rawBuf>=6, any low-water mark; instantiated with the "
       "constants regenerated from XMLReader.hpp) the characters delivered by repeated getNextChar are the end-of-line-normalised whole-input "
       "reading of the bytes (delivered_spec, refill_position_invariant, chars_chunk_invariant, eol_across_refill, wellformed_utf8_delivered = "
       "composition with the C05 Spec), positions are a function of the delivered characters, xcodeMoreChars terminates, and the index "
       "invariant holds in every reachable state for every modelled operation and constructor (reader_inv_reachable, shared with C01). "
       "Tied to the code by (a) the real XMLReader driven directly over a chunked BinInputStream under 3-17 partitions per input vs the model "
       "and vs the one-shot run, constructs slid across the offsets around the 16K-character / 48K-byte / low-water boundaries (quick tier: partitions and source types sampled per input, a quarter of the constructs - rotating with the seed - swept over every offset in [-8,+8], about 3 CPU-minutes; thorough: every construct, +-64), and (b) SAX2 "
       "parses of the same bytes through MemBuf/LocalFile/StdIn/chunked sources in document, external DTD and external entity.",
  note="PARTIAL where the code itself is chunk-dependent (each proved as a negative witness in Lean, reproduced on the library, recorded as OPEN known findings - decode-error position, BOM/auto-sensing from the first read - with the proposed patches kept in fixes/; two further defects found by this check, the long-name end tag at the buffer edge and getName on a lone high surrogate at end of entity, are repaired in /repo as de202f4 and af0c157 and stay in the generators): "
       "for undecodable input only 'same exception, one delivered list a prefix of the other' holds (error_offset_depends_on_chunking); byte-order "
       "mark and auto-sensing depend on the FIRST read (bom_depends_on_first_read, sniff_depends_on_first_read; sniff_partial proves independence "
       "given equal first reads, bom_of_four given >=4 bytes). Not proved: look-ahead operations (skippedString/peekString/getName) deliver-equivalence "
       "(index safety only; behaviour tied by correspondence), PE leading/trailing space in the delivery theorems, UCS-4/EBCDIC sensing, ICU transcoders, "
       "the scanners above the reader (parse level is correspondence only: source types/partitions against each other and well-formed-by-construction "
       "expectations). A truncated final sequence is Trans_BadSrcSeq in code, model and spec (DESIGN F1 as repaired in /repo). Trusted: Lean kernel + "
       "propext/Classical.choice/Quot.sound; XV.Spec.Reader as transcribed; translator (ReaderConsts); harness hx_reader, generators, Python reference reading.",
  technique="Lean 4 proof over a code-shaped reader model with translator-generated constants + model/implementation/partition correspondence",
  ref="4/C04"),
 "C15": dict(
  text="Lean 4 theorems over a parser object as a state machine (configuration, per-parse state, GrammarResolver+pool, progressive-scan "
       "tokens, DOM documents; what a scan does is an abstract World). For ALL operation histories h (setFeature/setProperty incl. "
       "SecurityManager, parse, parse aborted by a handler exception, parseFirst/parseNext/parseReset, loadGrammar, resetDocumentPool, "
       "resetCachedGrammarPool, adoptDocument, lock/unlock, useScanner) and every document d: parse d after h delivers what a freshly "
       "constructed parser configured with the last-writer-wins cfgOf h and the pool poolOf h delivers (history_independent, _throw, _first, "
       "real_eq_reference), given ResetComplete. ResetComplete holds for every scanner class AS GENERATED (classes_reset_complete), derived "
       "from statements DECIDED over data regenerated each run from the clang AST of XML/IG/WF/DG/SGXMLScanner: every member classified "
       "(all_classified), every per-parse member - fEntityExpansionCount/Limit, fReaderMgr, fXMLVersion, ID tables, ... - re-initialised in "
       "scanReset's call closure (reset_complete, no exceptions left), scanReset assigns no configuration member from object state "
       "(reset_touches_no_config), configuration written only by setters/constructors (config_justified), exception lists exact "
       "(exceptions_exact), every scan entry bumps fSequenceId; the same decided statements for ALL data members of the parser classes "
       "AbstractDOMParser/XercesDOMParser/DOMLSParserImpl/SAXParser/SAX2XMLReaderImpl against their reset events resetDocument()/resetDocType() "
       "(Parsers.parser_all_classified, parser_reset_complete, parser_config_justified, parser_exceptions_exact, parser_classes_reset_complete: "
       "fInternalSubset, fCurrentParent, fWithinElement, fDocumentAdoptedByUser, fElemDepth, fPrefixes, ...). Stale progressive-scan tokens are rejected within 2^32 scans; adopted "
       "documents are never released by the parser; a locked XMLGrammarPoolImpl is frozen under every operation except unlock, also through "
       "GrammarResolver and the whole parser; cache/retrieve/orphan/clear contracts and the resolver's lookup order. Tied to the code by the "
       "translator (field/assignment sets), op-sequence correspondence of the real XMLGrammarPoolImpl and GrammarResolver with the code-shaped "
       "model (dictionary oracle), and differential testing of the 4 parser classes x 4 scanners against freshly constructed parsers configured "
       "by the model: random histories, two-parse histories, witnesses of all repaired/open findings, entity-expansion budgets near the limit, "
       "configuration read-back, token acceptance, locked-pool invariance, adopted documents, parses aborted inside the internal subset / an entity / "
       "the prolog followed by documents with an internal subset (DOM dump incl. DocumentType internalSubset text, entities, notations), and the "
       "grammar-transparency matrix validation {never,auto,always} x {inline, preloaded, cached from a parse} x 4 parser kinds + SGXMLScanner over "
       "valid and invalid instances with errors in root attributes / first child / after the first child / deep (full error lists, defaults, PSVI).",
  note="PARTIAL: the effect of a scan is an abstract parameter (World.scan/next/load), so cached-grammar transparency (same verdicts/defaults/"
       "types) and the parser classes' own members are covered by the differential correspondence only; reset_complete is path-insensitive and "
       "relies on the hand-reviewed classification tools/c15_fields.json (3 reviewed exceptions: fSequenceId, the undeclared-element caches, "
       "DG fElemCount); token staleness only within 2^32 scans. f11_history_dependent / f11_not_reset_complete are facts about the shape "
       "scanReset had before /repo 3eb9a2e. Trusted: Lean kernel + propext/Classical.choice/Quot.sound; tools/scanner_ast.py (clang AST "
       "extraction) + c15_fields.json; the harness's canonical dump and the generators. 9 findings repaired in /repo, 10 open "
       "(fixes/c15-known-findings.json): operations during a live progressive scan and pool resets under a PSVI handler are generated only "
       "as fixed witnesses because they kill the process.",
  technique="Lean 4 proof (state-machine model; decided statements over translator-generated field sets) + model-guided differential testing of the implementation against itself",
  ref="4/C15"),
 "C14": dict(
  text="Lean 4 theorems over executable models of NodeIterator, TreeWalker, getElementsByTagName lists (with the C++ change-counter "
       "cache) and Range on top of the C13 reference DOM store (imported, not copied): (iterator_next/prev/remove_spec, "
       "iterator_remove_outside, iterator_in_subtree, iterator_remove_leaves_subtree, iterator_total) nextNode/previousNode return "
       "exactly the successor/predecessor of the (reference, before/after) position in the filtered document order of the root's "
       "subtree, the removal fix-up is the DOM Traversal 1.1.1 rule, and the pointer walks terminate with the stated fuel on every "
       "well-formed store; (walker_next_spec, walker_eq_filter, walker_child_sibling_parent_spec, walker_std_of_rule/_of_code) "
       "TreeWalker firstChild/nextSibling/parentNode/nextNode compute the logical view (REJECT hides subtrees, SKIP is transparent) "
       "and the nextNode sequence from the root is the filtered document order, for every walker whose acceptNode gives the DOM "
       "Traversal 1.2 verdicts; (deeplist_item_spec, deeplist_length_spec, deeplist_step, deeplist_cache_transparent) item/length "
       "with the cached (node, index, change counter) equal the uncached list of matching elements after ANY interleaving of "
       "mutations and queries; (range_fixup_spec, bounds_*, range_valid_preserved_partial) the boundary-point fix-ups of the code "
       "are the DOM Range 2.12 functions and keep offsets within their containers; (compareBoundaryPoints_order) "
       "compareBoundaryPoints is the comparison of a document-order linearisation of boundary points; (clone_pure) cloneContents "
       "leaves every existing node record unchanged. Tied to the code by the C13 history protocol extended with view operations: "
       "exhaustive histories of <=2 operations over a prefix with 3 walkers, 2 stepped iterators, 2 lists, 2 ranges, and random "
       "histories of 150 / 800 operations on the real DOM with EVERY live view dumped after EVERY operation; a third prefix iterator is "
       "walked to the end and one step back (backward removal fix-up at the end of the root's subtree); a geometry tier runs "
       "compareBoundaryPoints (4 CompareHow values), setStart and setEnd over ALL 400 ordered pairs of boundary points of the prefix "
       "trees every run; fixed scenarios cover parentless Text and attribute values; the code-shaped model must agree line by line; "
       "the judge also reads a sample of whole histories independently of any model; a model-independent Python judge checks list contents, iterator successor, walker logical view, "
       "range validity, 2.12 fix-ups, setters, selectNode, toString, compare and content operations on the implementation's dumps.",
  note="PARTIAL: range_valid_preserved is proved for offset bounds only (same root and start<=end after every operation: full statement "
       "in a comment, checked dynamically after every operation; FALSE for splitText in the code as it is, witness "
       "split_code_breaks_validity); extract_eq_clone_then_delete and toString_spec are proved for the single-container / structural "
       "cases (_partial) and otherwise correspondence-only; TreeWalker backward methods and traverseContents agreement are "
       "correspondence-only; deeplist_cache_transparent has the side condition OpOK (counter-bumping operations target the lists' "
       "document); compareBoundaryPoints_order assumes TextLeaves; for the walker that mirrors the code the theorems need the side "
       "condition NoHiddenReject (walker_eq_filter_code_partial; deviation proved: walker_code_deviates). 9 defects found: 7 repaired "
       "in the code (95ba029 iterator removal before first step, 90eff9f insertData start offset, c2d2e71 previousNode deepest, 22dcaa6 "
       "selectNode, 97e9b79 toString, 96874bb renameNode invalidates lists, 9e67458 content operations use deleteData); 2 OPEN known "
       "findings that the library's pinned test-suite encodes (Traversal.cpp:534-536 filter consulted for nodes hidden by whatToShow; "
       "RangeTest.cpp:678-813 offsets after insertNode's splitText: a range can start after it ends / span two trees): the "
       "code-shaped model mirrors them, the judge reports them (an invalid range counts as the known finding only when it had a "
       "boundary point directly after the split Text node; every other cause has a key of its own). 2 further OPEN findings with "
       "proposed repairs (fixes/c14_range_splitText_detached_node.diff: splitText of a parentless Text moves boundary points into "
       "the unlinked new node, range spans two trees; fixes/c14_range_insertNode_checks_before_split.diff: insertNode raises "
       "HIERARCHY_REQUEST_ERR after having split the text when the parent is an Attr), mirrored by the cfgCode flags "
       "splitDetachedStays / insertNodeChecksFirst, witnesses split_detached_code_breaks_validity, insertNode_code_raises_after_split. Not exercised: content operations on ranges whose root container is "
       "not Document/DocumentFragment/Attr or whose common ancestor holds an EntityReference; surroundContents with a newParent that "
       "cannot be inserted (the library raises after extracting); insertNode/surroundContents with Comment/PI start container; "
       "selectNode(Contents) of another document's node (no WRONG_DOCUMENT_ERR); getElementsByTagNameNS/getElementById/XPath. "
       "Trusted: Lean kernel + 3 axioms, Spec/Views.lean, Spec/Dom.lean, the Python judge, translator (KidOK), harness/generators.",
  technique="Lean 4 proof over reference model (imports C13) + code-shaped and Spec-rule model runs + model/implementation correspondence with spec judge, every view dumped after every operation",
  ref="4/C14"),
}

def main():
    checks, na = [], []
    for p in props:
        pid = p["id"]
        if pid in CLAIMED:
            c = CLAIMED[pid]
            checks.append({
                "property_id": pid,
                "quick_cmd": "python3 tools/check.py %s --tier quick" % pid,
                "thorough_cmd": "python3 tools/check.py %s --tier thorough" % pid,
                "evidence_file": "evidence/%s.json" % pid,
                "replay_cmd_template": "python3 tools/check.py %s --replay {path}" % pid,
                "engine": "xv",
                "level_claimed": {"category": "proof", "text": c["text"], "design_ref": "DESIGN.md " + c["ref"]},
                "level_note": c["note"],
                "technique": c["technique"]})
        else:
            na.append({"property_id": pid, "reason": "check not built yet in this round (planned in DESIGN.md section 4; nothing is claimed for it)"})
    m = {"version": 1, "setup_cmd": "python3 tools/setup.py",
         "hooks": {"guard": "XERCES_VERIF_HOOKS",
                   "enable": "out-of-tree build: cmake -S /repo -B /verif/.work/build-hooks -DCMAKE_CXX_FLAGS='-O1 -g1 -fsanitize=address,undefined -DXERCES_VERIF_HOOKS' (tools/common.py build_lib)",
                   "baseline_off_cmd": "cmake --build /repo/_build && ctest --test-dir /repo/_build -j8 --timeout 900",
                   "source_commits": ["c739003"], "add_only": True},
         "engines": [{"name": "xv", "path": "tools/check.py", "serves_properties": sorted(CLAIMED),
                      "kind_free_text": "Lean 4 theorems (lean/XV/Props) over models tied to /repo by translator (tools/translate.py) and correspondence harnesses (harness/)"}],
         "checks": checks,
         "notes": "Every check: build /repo working tree (hooks+ASan/UBSan) -> regenerate Gen/*.lean -> lake build theorems -> #print axioms audit -> model-vs-implementation correspondence -> spec-judged search on any break. See DESIGN.md.",
         "not_applicable": na}
    json.dump(m, open(os.path.join(V, "MANIFEST.json"), "w"), indent=1)
    print("claimed:", sorted(CLAIMED))

if __name__ == "__main__":
    main()
