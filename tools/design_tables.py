#!/usr/bin/env python3
"""design_tables.py : regenerate the generated blocks of DESIGN.md (between <!-- GEN:name --> and <!-- /GEN:name -->)
 findings : one row per entry of known_findings.json
 seeded   : one row per archived seeded change (seeded/*/meta.json)"""
import json, os, re, glob
V = os.path.dirname(os.path.dirname(os.path.abspath(__file__)))
def esc(s): return (s or "").replace("|", "\\|").replace("\n", " ")
def findings():
    kf = json.load(open(os.path.join(V, "known_findings.json")))["findings"]
    rows = ["| property | key | disposition | what |", "|---|---|---|---|"]
    for f in sorted(kf, key=lambda f: (f["property"], f.get("status") != "fixed", f["key"])):
        disp = ("fix " + str(f.get("commit"))) if f.get("status") == "fixed" else "OPEN known finding"
        rows.append("| %s | `%s` | %s | %s |" % (f["property"], esc(f["key"]), disp, esc(f["what"])[:260]))
    n_open = sum(1 for f in kf if f.get("status") != "fixed")
    return "%d entries: %d repaired by `fix:` commits in /repo, %d open.\n\n" % (len(kf), len(kf) - n_open, n_open) + "\n".join(rows)
def seeded():
    rows = ["| seeded change | caught | route |", "|---|---|---|"]
    for d in sorted(glob.glob(os.path.join(V, "seeded", "*", "meta.json"))):
        m = json.load(open(d)); cr = m["check_result"]
        rows.append("| %s | %s | %s |" % (os.path.basename(os.path.dirname(d)), "yes" if cr["caught"] else "NO", esc(cr["route"])[:400]))
    return "\n".join(rows)
def status():
    import importlib, sys
    sys.path.insert(0, os.path.join(V, "tools")); sys.path.insert(0, os.path.join(V, "tools", "props"))
    man = json.load(open(os.path.join(V, "MANIFEST.json")))
    kf = json.load(open(os.path.join(V, "known_findings.json")))["findings"]
    rows = ["| property | level claimed | theorems audited | quick-tier cases (last committed evidence) | fixes / open findings | seeded caught |", "|---|---|---|---|---|---|"]
    for c in man["checks"]:
        pid = c["property_id"]
        try:
            mod = importlib.import_module("props." + pid.lower()); nth = len(mod.THEOREMS)
        except Exception:
            nth = "?"
        try:
            ev = json.load(open(os.path.join(V, "evidence", pid + ".json")))["coverage"]; evs = "%s (%s distinct non-trivial)" % (ev.get("evaluations"), ev.get("distinct_nontrivial"))
        except Exception:
            evs = "-"
        nfix = sum(1 for f in kf if f["property"] == pid and f.get("status") == "fixed")
        nopen = sum(1 for f in kf if f["property"] == pid and f.get("status") != "fixed")
        sd = [json.load(open(d))["check_result"]["caught"] for d in glob.glob(os.path.join(V, "seeded", pid + "-*", "meta.json"))]
        rows.append("| %s | %s | %s | %s | %d / %d | %d of %d |" % (pid, (c["level_claimed"]["category"] + (" (partial)" if "PARTIAL" in json.dumps(c["level_claimed"]) + c.get("level_note","") else "")) if isinstance(c["level_claimed"], dict) else c["level_claimed"], nth, evs, nfix, nopen, sum(sd), len(sd)))
    na = man.get("not_applicable", [])
    return "\n".join(rows) + "\n\nNot claimed: " + (", ".join("%s (%s)" % (n.get("property_id"), n.get("reason", "")[:160]) for n in na) if na else "none")
def main():
    p = os.path.join(V, "DESIGN.md"); s = open(p).read()
    for name, fn in (("findings", findings), ("seeded", seeded), ("status", status)):
        a, b = "<!-- GEN:%s -->" % name, "<!-- /GEN:%s -->" % name
        if a in s:
            i = s.index(a) + len(a); j = s.index(b)
            s = s[:i] + "\n" + fn() + "\n" + s[j:]
    open(p, "w").write(s)
if __name__ == "__main__":
    main()
