#!/bin/bash
# run_all.sh [tier] : every claimed check in sequence on /repo as it is; summary lines only (full logs in .work/logs)
cd "$(dirname "$0")/.." || exit 2
TIER=${1:-quick}
mkdir -p .work/logs
rc=0
PIDS=${PIDS:-$(python3 -c "import json;print(' '.join(c['property_id'] for c in json.load(open('MANIFEST.json'))['checks']))")}
for p in $PIDS; do
  python3 tools/check.py $p --tier $TIER > .work/logs/$p.$TIER.log 2>&1; r=$?
  [ $r -ne 0 ] && rc=1
  echo "$p rc=$r $(grep -c '^KNOWN-FINDING' .work/logs/$p.$TIER.log) known; $(grep "$p $TIER:" .work/logs/$p.$TIER.log)"
  grep "^VIOLATION\|violation:" .work/logs/$p.$TIER.log | cut -c1-300
done
exit $rc
