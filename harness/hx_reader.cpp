// C04 harness: the real XMLReader / the real parsers fed through chunked streams.
//
//  R enc=<utf8|latin1|ascii|utf16le|utf16be|auto> nel=<0|1> ext=<0|1> pe=<0|1> lw=<n> ops=<script>
//    part=<full|kN|lA,B,..|cA,B,..|pSEED,MAX> set=<K:name|-> v=<0|1> data=<rle hex>
//      -> XMLReader constructed directly over a ChunkStream; ops cycled until `g` reports the end.
//         (same protocol as lean/XV/Driver/Reader.lean; extra op N = getName, implementation only)
//  P kind=<doc|dtd|ent> src=<mem|file|stdin|chunk> part=<spec> enc=<forced encoding name|-> ns=<0|1>
//    val=<0|1> data=<rle hex> [main=<rle hex>]
//      -> SAX2 parse; `data` is the entity under test (document, external DTD subset "x.dtd" or external
//         parsed entity "e.ent" of the document `main`), delivered through the named source type.
//  hx_reader --stdin-child <ns> <val> <enc|->     (internal: parse standard input, print the dump)
//  hx_reader --scratch <dir>                      (where src=file writes its scratch documents)
#include "hx_common.hpp"
#include <memory>
#include <map>
#include <unistd.h>
#include <sys/wait.h>
#include <xercesc/util/BinInputStream.hpp>
#include <xercesc/util/TransService.hpp>
#include <xercesc/util/TranscodingException.hpp>
#include <xercesc/util/UTFDataFormatException.hpp>
#include <xercesc/util/RuntimeException.hpp>
#include <xercesc/util/OutOfMemoryException.hpp>
#include <xercesc/internal/XMLReader.hpp>
#include <xercesc/framework/XMLBuffer.hpp>
#include <xercesc/framework/MemBufInputSource.hpp>
#include <xercesc/framework/LocalFileInputSource.hpp>
#include <xercesc/framework/StdInInputSource.hpp>
#include <xercesc/sax/InputSource.hpp>
#include <xercesc/sax/SAXParseException.hpp>
#include <xercesc/sax/SAXException.hpp>
#include <xercesc/sax2/SAX2XMLReader.hpp>
#include <xercesc/sax2/XMLReaderFactory.hpp>
#include <xercesc/sax2/DefaultHandler.hpp>
#include <xercesc/sax2/Attributes.hpp>
#include <xercesc/sax2/DeclHandler.hpp>
#include <xercesc/util/XMLUni.hpp>

typedef std::vector<XMLByte> Bytes;

// ---------------------------------------------------------------- rle + partitions
static bool parseRle(const std::string& s, Bytes& out) {
    out.clear();
    if (s == "-" || s.empty()) return true;
    for (const std::string& t : hx::split(s, '.')) {
        std::string h = t; size_t cnt = 1;
        size_t star = t.find('*');
        if (star != std::string::npos) { h = t.substr(0, star); cnt = std::stoul(t.substr(star + 1)); }
        if (h.size() % 2) return false;
        Bytes b;
        for (size_t i = 0; i < h.size(); i += 2) {
            int x = hx::hexv(h[i]), y = hx::hexv(h[i + 1]);
            if (x < 0 || y < 0) return false;
            b.push_back((XMLByte)(x * 16 + y));
        }
        for (size_t k = 0; k < cnt; k++) out.insert(out.end(), b.begin(), b.end());
    }
    return true;
}

struct Partition {
    char kind = 'f'; std::vector<size_t> sizes; size_t idx = 0; hx::Rng rng{0}; size_t mx = 1;
    bool parse(const std::string& s) {
        if (s == "full") { kind = 'f'; return true; }
        if (s.empty()) return false;
        kind = s[0];
        std::vector<std::string> parts = hx::split(s.substr(1), ',');
        std::vector<size_t> v;
        for (auto& p : parts) { if (p.empty()) return false; v.push_back(std::stoul(p)); }
        if (kind == 'k') { if (v.size() != 1 || v[0] == 0) return false; sizes = v; return true; }
        if (kind == 'l') { sizes = v; return true; }
        if (kind == 'c') { if (v.empty()) return false; sizes = v; return true; }
        if (kind == 'p') { if (v.size() != 2 || v[1] == 0) return false; rng = hx::Rng(v[0]); mx = v[1]; return true; }
        return false;
    }
    // size of the next chunk (remaining = bytes not yet handed out)
    size_t next(size_t remaining) {
        switch (kind) {
            case 'f': return remaining;
            case 'k': return sizes[0];
            case 'l': { if (idx < sizes.size()) { size_t k = sizes[idx++]; return k ? k : 1; } return remaining; }
            case 'c': { size_t k = sizes[idx++ % sizes.size()]; return k ? k : 1; }
            case 'p': return 1 + (size_t)(rng.next() % mx);
        }
        return remaining;
    }
};

class ChunkStream : public BinInputStream {
public:
    ChunkStream(std::shared_ptr<const Bytes> d, const Partition& p) : fData(d), fPart(p), fPos(0), fLeft(0) {}
    XMLFilePos curPos() const override { return fPos; }
    XMLSize_t readBytes(XMLByte* const toFill, const XMLSize_t maxToRead) override {
        const size_t size = fData->size();
        if (fPos >= size) return 0;
        if (fLeft == 0) fLeft = fPart.next(size - fPos);
        size_t n = fLeft; if (n > maxToRead) n = maxToRead; if (n > size - fPos) n = size - fPos;
        if (n) memcpy(toFill, fData->data() + fPos, n);
        fPos += n; fLeft -= n;
        if (fPos >= size) fLeft = 0;
        return n;
    }
    const XMLCh* getContentType() const override { return 0; }
private:
    std::shared_ptr<const Bytes> fData; Partition fPart; size_t fPos; size_t fLeft;
};

class ChunkInputSource : public InputSource {
public:
    ChunkInputSource(std::shared_ptr<const Bytes> d, const Partition& p, const XMLCh* sysId) : InputSource(sysId), fData(d), fPart(p) {}
    BinInputStream* makeStream() const override { return new ChunkStream(fData, fPart); }
private:
    std::shared_ptr<const Bytes> fData; Partition fPart;
};

// ---------------------------------------------------------------- exceptions
static std::string excName(const XMLException& e) {
    switch (e.getCode()) {
        case XMLExcepts::UTF8_FormatError: return "UTF8_FormatError";
        case XMLExcepts::UTF8_Invalid_3BytesSeq: return "UTF8_Invalid_3BytesSeq";
        case XMLExcepts::UTF8_Irregular_3BytesSeq: return "UTF8_Irregular_3BytesSeq";
        case XMLExcepts::UTF8_Invalid_4BytesSeq: return "UTF8_Invalid_4BytesSeq";
        case XMLExcepts::UTF8_Exceeds_BytesLimit: return "UTF8_Exceeds_BytesLimit";
        case XMLExcepts::Trans_BadSrcSeq: return "Trans_BadSrcSeq";
        case XMLExcepts::Trans_Unrepresentable: return "Trans_Unrepresentable";
        case XMLExcepts::Reader_CouldNotDecodeFirstLine: return "Reader_CouldNotDecodeFirstLine";
        case XMLExcepts::Reader_NelLsepinDecl: return "Reader_NelLsepinDecl";
        case XMLExcepts::Reader_EncodingStrRequired: return "Reader_EncodingStrRequired";
        case XMLExcepts::Trans_CantCreateCvtrFor: return "Trans_CantCreateCvtrFor";
        case XMLExcepts::Str_StartIndexPastEnd: return "Str_StartIndexPastEnd";
        default: return "OTHER" + std::to_string((int)e.getCode());
    }
}

static std::map<std::string, std::string> parseKV(const std::vector<std::string>& f) {
    std::map<std::string, std::string> kv;
    for (size_t i = 1; i < f.size(); i++) {
        size_t eq = f[i].find('=');
        if (eq != std::string::npos) kv[f[i].substr(0, eq)] = f[i].substr(eq + 1);
    }
    return kv;
}

static const char* encLong(const std::string& s) {
    if (s == "utf8") return "UTF-8";
    if (s == "latin1") return "ISO-8859-1";
    if (s == "ascii") return "US-ASCII";
    if (s == "utf16") return "UTF-16";
    if (s == "utf16le") return "UTF-16LE";
    if (s == "utf16be") return "UTF-16BE";
    return 0;
}

struct XStr {
    XMLCh* p;
    explicit XStr(const char* s) : p(XMLString::transcode(s)) {}
    ~XStr() { XMLString::release(&p); }
    operator const XMLCh*() const { return p; }
};

// ---------------------------------------------------------------- mode R
static const XMLCh kCommentStart[] = { 0x3C, 0x21, 0x2D, 0x2D, 0 };
static const XMLCh kCDEnd[] = { 0x5D, 0x5D, 0x3E, 0 };
static const XMLCh kCharRef[] = { 0x26, 0x23, 0x78, 0 };

static std::string hexs(unsigned long long v) { char b[32]; snprintf(b, sizeof b, "%llx", v); return b; }

static std::string runReader(std::map<std::string, std::string>& kv) {
    for (const char* k : {"enc", "nel", "ext", "pe", "lw", "ops", "part", "data"})
        if (!kv.count(k)) return "bad-op";
    auto data = std::make_shared<Bytes>();
    if (!parseRle(kv["data"], *data)) return "bad-op";
    Partition part;
    if (!part.parse(kv["part"])) return "bad-op";
    const std::string ops = kv["ops"];
    if (ops.empty() || ops.find('g') == std::string::npos) return "bad-op";
    const bool verbose = kv.count("v") && kv["v"] == "1";
    const bool isAuto = kv["enc"] == "auto";
    if (!isAuto && !encLong(kv["enc"])) return "bad-op";
    long setAt = -1; std::string setName;
    if (kv.count("set") && kv["set"] != "-") {
        auto sp = hx::split(kv["set"], ':');
        if (sp.size() != 2 || !encLong(sp[1])) return "bad-op";
        setAt = std::stol(sp[0]); setName = sp[1];
    }
    const XMLReader::Types type = kv["pe"] == "1" ? XMLReader::Type_PE : XMLReader::Type_General;
    const XMLReader::RefFrom from = kv["pe"] == "1" ? XMLReader::RefFrom_NonLiteral : XMLReader::RefFrom_Literal;
    const XMLReader::Sources source = kv["ext"] == "1" ? XMLReader::Source_External : XMLReader::Source_Internal;
    const XMLReader::XMLVersion ver = kv["nel"] == "1" ? XMLReader::XMLV1_1 : XMLReader::XMLV1_0;
    const XMLSize_t lw = std::stoul(kv["lw"]);
    const bool isPE = kv["pe"] == "1";
    XStr sysId("mem:case");
    XMLReader* rd = 0;
    BinInputStream* strm = new ChunkStream(data, part);
    try {
        if (isAuto)
            rd = new XMLReader(0, sysId, strm, from, type, source, false, true, lw, ver);
        else {
            XStr enc(encLong(kv["enc"]));
            rd = new XMLReader(0, sysId, strm, (const XMLCh*)enc, from, type, source, false, true, lw, ver);
        }
    } catch (const XMLException& e) {
        return "ctor=exc_" + excName(e);          // (the stream is leaked on purpose: ownership is unclear here)
    }
    // One observation = operation code, its result, line / column / source offset after it, hashed as five 64-bit
    // words (same mixing as lean/XV/Driver/Reader.lean); the text form is only built for v=1 replays.
    uint64_t h = 1469598103934665603ULL;
    auto mix = [&](uint64_t x) { h = (h ^ x) * 1099511628211ULL; };
    const uint64_t noChar = 0xFFFFFFFFULL;
    size_t nops = 0, nchars = 0;
    std::vector<uint32_t> head; uint32_t ring[8] = {0};
    std::string trace, ending;
    auto push = [&](char opc, uint64_t val) {
        // (source offsets are left out for PE readers: the injected spaces carry stale fCharSizeBuf entries)
        const uint64_t ofs = isPE ? 0xFFFFFFFFFFFFFFFFULL : (uint64_t)rd->getSrcOffset();
        mix((unsigned char)opc); mix(val); mix(rd->getLineNumber()); mix(rd->getColumnNumber()); mix(ofs);
        nops++;
        if (verbose) {
            trace += std::string(1, opc) + (val == noChar ? std::string("E") : hexs(val)) + "@" + std::to_string(rd->getLineNumber()) + ":"
                   + std::to_string(rd->getColumnNumber()) + ":" + (isPE ? std::string("-") : std::to_string((unsigned long long)ofs)) + ",";
        }
    };
    auto note = [&](XMLCh c) {
        if (head.size() < 12) head.push_back(c);
        ring[nchars % 8] = c;
        nchars++;
    };
    auto doSet = [&]() {
        XStr nm(encLong(setName));
        bool b = rd->setEncoding(nm);
        mix(0x53); mix(b ? 1 : 0);
    };
    // every cycle of the script holds a `g`, which consumes a character or ends the run: this bound is never reached
    // by a terminating reader (`end=cap` = a reader that does not advance)
    const size_t cap = ops.size() * (data->size() + 16);
    XMLBuffer nameBuf;
    try {
        if (setAt == 0) doSet();
        for (size_t i = 0; ending.empty(); i++) {
            if (nops >= cap) { ending = "cap"; break; }
            if (setAt > 0 && (long)nops == setAt) { doSet(); setAt = -1; }
            const char op = ops[i % ops.size()];
            XMLCh c = 0;
            switch (op) {
                case 'g': if (rd->getNextChar(c)) { push('g', c); note(c); } else { push('g', noChar); ending = "eof"; } break;
                case 'p': if (rd->peekNextChar(c)) push('p', c); else push('p', noChar); break;
                case 'n': if (rd->getNextCharIfNot(0x3C, c)) { push('n', c); note(c); } else push('n', noChar); break;
                case 's': push('s', rd->skippedSpace() ? 1 : 0); break;
                case '<': push('<', rd->skippedChar(0x3C) ? 1 : 0); break;
                case 'x': push('x', rd->skippedChar(0x78) ? 1 : 0); break;
                case 'k': push('k', rd->skippedString(kCommentStart) ? 1 : 0); break;
                case 'K': push('K', rd->peekString(kCDEnd) ? 1 : 0); break;
                case 'e': push('e', rd->skippedString(kCharRef) ? 1 : 0); break;
                case 'N': {
                    nameBuf.reset();
                    bool ok = rd->getName(nameBuf, false);
                    hx::Fnv nh; std::string nm;
                    for (XMLSize_t k = 0; k < nameBuf.getLen(); k++) nm += hexs(nameBuf.getRawBuffer()[k]) + ".";
                    nh.add(nm);
                    push('N', (nh.h ^ (uint64_t)nameBuf.getLen() * 1315423911ULL) * 2 + (ok ? 1 : 0));
                    break;
                }
                case 'Q': {
                    nameBuf.reset();
                    bool ok = rd->getNCName(nameBuf);
                    hx::Fnv nh; std::string nm;
                    for (XMLSize_t k = 0; k < nameBuf.getLen(); k++) nm += hexs(nameBuf.getRawBuffer()[k]) + ".";
                    nh.add(nm);
                    push('Q', (nh.h ^ (uint64_t)nameBuf.getLen() * 1315423911ULL) * 2 + (ok ? 1 : 0));
                    break;
                }
                default: ending = "bad-op";
            }
        }
    } catch (const XMLException& e) {
        ending = "exc_" + excName(e);
    }
    std::string out = "ctor=ok n=" + std::to_string(nops) + " h=" + hexs(h) + " end=" + ending
        + " line=" + std::to_string(rd->getLineNumber()) + " col=" + std::to_string(rd->getColumnNumber());
    // after an exception the offset bookkeeping is half-updated (fSrcOfsBase already advanced): not an observation
    std::string ofs = "-";
    if (!isPE && ending == "eof") { try { ofs = std::to_string((unsigned long long)rd->getSrcOffset()); } catch (...) {} }
    std::vector<uint32_t> tail;
    for (size_t k = (nchars > 8 ? nchars - 8 : 0); k < nchars; k++) tail.push_back(ring[k % 8]);
    out += " ofs=" + ofs + " chars=" + std::to_string(nchars) + " head=" + hx::hexList(head) + " tail=" + hx::hexList(tail);
    if (verbose) out += " trace=" + trace;
    delete rd;
    return out;
}

// ---------------------------------------------------------------- mode P
struct Dump : public DefaultHandler {
    hx::Fnv ev, text;
    size_t nText = 0, nElems = 0, nEvents = 0;
    std::string pendingKind; std::string pending;
    std::vector<std::string> errors;
    std::string trace; bool verbose = false;
    const Locator* loc = 0;

    static std::string u(const XMLCh* s, XMLSize_t n) {
        std::string r; char b[12];
        for (XMLSize_t i = 0; i < n; i++) { snprintf(b, sizeof b, "%x.", (unsigned)s[i]); r += b; }
        return r;
    }
    static std::string u(const XMLCh* s) { return s ? u(s, XMLString::stringLen(s)) : std::string("~"); }
    void flush() {
        if (pendingKind.empty()) return;
        emit(pendingKind + ":" + pending);
        pendingKind.clear(); pending.clear();
    }
    void emit(const std::string& e) { ev.add(e); ev.addc('\n'); nEvents++; if (verbose) { trace += e; trace += '|'; } }
    void merged(const char* kind, const XMLCh* s, XMLSize_t n) {
        if (pendingKind != kind) { flush(); pendingKind = kind; }
        pending += u(s, n);
    }
    void setDocumentLocator(const Locator* const l) override { loc = l; }
    void startElement(const XMLCh* const uri, const XMLCh* const local, const XMLCh* const q, const Attributes& a) override {
        flush(); nElems++;
        std::string e = "SE:" + u(uri) + "/" + u(local) + "/" + u(q);
        for (XMLSize_t i = 0; i < a.getLength(); i++)
            e += " " + u(a.getQName(i)) + "=" + u(a.getValue(i));
        emit(e);
    }
    void endElement(const XMLCh* const, const XMLCh* const, const XMLCh* const q) override { flush(); emit("EE:" + u(q)); }
    void characters(const XMLCh* const c, const XMLSize_t n) override {
        merged("T", c, n); nText += n;
        for (XMLSize_t i = 0; i < n; i++) { text.addc((unsigned char)(c[i] & 0xFF)); text.addc((unsigned char)(c[i] >> 8)); }
    }
    void ignorableWhitespace(const XMLCh* const c, const XMLSize_t n) override { merged("W", c, n); }
    void processingInstruction(const XMLCh* const t, const XMLCh* const d) override { flush(); emit("PI:" + u(t) + " " + u(d)); }
    void comment(const XMLCh* const c, const XMLSize_t n) override { flush(); emit("C:" + u(c, n)); }
    void startCDATA() override { flush(); emit("CD["); }
    void endCDATA() override { flush(); emit("]CD"); }
    void startDTD(const XMLCh* const n, const XMLCh* const p, const XMLCh* const s) override { flush(); emit("DTD:" + u(n) + " " + u(p) + " " + u(s)); }
    void endDTD() override { flush(); emit("/DTD"); }
    void startEntity(const XMLCh* const n) override { flush(); emit("ENT:" + u(n)); }
    void endEntity(const XMLCh* const n) override { flush(); emit("/ENT:" + u(n)); }
    void elementDecl(const XMLCh* const n, const XMLCh* const m) override { flush(); emit("ED:" + u(n) + " " + u(m)); }
    void attributeDecl(const XMLCh* const e, const XMLCh* const a, const XMLCh* const t, const XMLCh* const m, const XMLCh* const v) override {
        flush(); emit("AD:" + u(e) + " " + u(a) + " " + u(t) + " " + u(m) + " " + u(v)); }
    void internalEntityDecl(const XMLCh* const n, const XMLCh* const v) override { flush(); emit("IED:" + u(n) + " " + u(v)); }
    void externalEntityDecl(const XMLCh* const n, const XMLCh* const p, const XMLCh* const s) override { flush(); emit("XED:" + u(n) + " " + u(p) + " " + u(s)); }
    void notationDecl(const XMLCh* const n, const XMLCh* const p, const XMLCh* const s) override { flush(); emit("ND:" + u(n) + " " + u(p) + " " + u(s)); }
    void unparsedEntityDecl(const XMLCh* const n, const XMLCh* const p, const XMLCh* const s, const XMLCh* const nn) override {
        flush(); emit("UED:" + u(n) + " " + u(p) + " " + u(s) + " " + u(nn)); }
    void err(const char* sev, const SAXParseException& e) {
        flush();
        hx::Fnv mh; mh.add(u(e.getMessage()));
        // which entity: last path component of the system id
        std::string sys = hx::narrow(e.getSystemId());
        size_t sl = sys.find_last_of('/'); if (sl != std::string::npos) sys = sys.substr(sl + 1);
        if (sys.rfind("hx_c04_", 0) == 0 || sys.empty() || sys == "stdin") sys = "doc";   // scratch file / stdin / mem ids name the same entity
        std::string s = std::string(sev) + ":" + hexs(mh.h) + "@" + sys + ":" + std::to_string(e.getLineNumber()) + ":" + std::to_string(e.getColumnNumber());
        errors.push_back(s);
        emit("ERR:" + s);
        if (firstMsg.empty()) firstMsg = hx::narrow(e.getMessage());
    }
    std::string firstMsg;
    void warning(const SAXParseException& e) override { err("W", e); }
    void error(const SAXParseException& e) override { err("E", e); }
    void fatalError(const SAXParseException& e) override { err("F", e); }
    void resetErrors() override {}
};

struct Resolver : public EntityResolver {
    std::shared_ptr<const Bytes> data; Partition part; std::string srcKind; std::string want; std::string scratchFile;
    InputSource* resolveEntity(const XMLCh* const, const XMLCh* const systemId) override {
        std::string s = hx::narrow(systemId);
        if (s.size() < want.size() || s.compare(s.size() - want.size(), want.size(), want) != 0) return 0;
        if (srcKind == "chunk") return new ChunkInputSource(data, part, systemId);
        if (srcKind == "file") { XStr p(scratchFile.c_str()); LocalFileInputSource* f = new LocalFileInputSource(p); return f; }
        return new MemBufInputSource(data->data(), data->size(), systemId, false);
    }
};

static std::string gScratch = "/tmp";
static std::string gSelf;

static std::string dumpLine(Dump& d, const std::string& status) {
    d.flush();
    std::string out = "st=" + status + " ev=" + hexs(d.ev.h) + " n=" + std::to_string(d.nEvents) + " elems=" + std::to_string(d.nElems)
        + " ntext=" + std::to_string(d.nText) + " text=" + hexs(d.text.h) + " nerr=" + std::to_string(d.errors.size()) + " errs=";
    if (d.errors.empty()) out += "-";
    for (size_t i = 0; i < d.errors.size() && i < 4; i++) out += (i ? ";" : "") + d.errors[i];
    std::string m = d.firstMsg.substr(0, 90);
    for (char& c : m) if (c == ' ') c = '_';
    out += " msg=" + (m.empty() ? std::string("-") : m);
    if (d.verbose) out += " trace=" + d.trace;
    return out;
}

static std::string parseWith(InputSource& src, bool ns, bool val, EntityResolver* res, bool verbose) {
    Dump d; d.verbose = verbose;
    std::string status = "ok";
    SAX2XMLReader* p = XMLReaderFactory::createXMLReader();
    try {
        p->setFeature(XMLUni::fgSAX2CoreNameSpaces, ns);
        p->setFeature(XMLUni::fgSAX2CoreNameSpacePrefixes, true);
        p->setFeature(XMLUni::fgSAX2CoreValidation, val);
        p->setFeature(XMLUni::fgXercesDynamic, false);
        p->setFeature(XMLUni::fgXercesSchema, false);
        p->setFeature(XMLUni::fgXercesLoadExternalDTD, true);
        p->setContentHandler(&d); p->setErrorHandler(&d); p->setLexicalHandler(&d); p->setDeclarationHandler(&d);
        p->setDTDHandler(&d);
        if (res) p->setEntityResolver(res);
        p->parse(src);
    } catch (const OutOfMemoryException&) { status = "exc_OutOfMemory";
    } catch (const XMLException& e) { status = "exc_XML_" + excName(e);
    } catch (const SAXParseException& e) { status = "exc_SAXParse";
    } catch (const SAXException& e) { status = "exc_SAX";
    } catch (...) { status = "FOREIGN-EXCEPTION"; }
    std::string out = dumpLine(d, status);
    delete p;
    return out;
}

static std::string runStdinChild(const Bytes& data, bool ns, bool val, const std::string& enc, bool verbose) {
    int in[2], outp[2];
    if (pipe(in) || pipe(outp)) return "infra-pipe";
    pid_t pid = fork();
    if (pid < 0) return "infra-fork";
    if (pid == 0) {
        dup2(in[0], 0); dup2(outp[1], 1);
        close(in[0]); close(in[1]); close(outp[0]); close(outp[1]);
        execl(gSelf.c_str(), gSelf.c_str(), "--stdin-child", ns ? "1" : "0", val ? "1" : "0", enc.c_str(), verbose ? "1" : "0", (char*)0);
        _exit(127);
    }
    close(in[0]); close(outp[1]);
    // writer in a second child so that a full pipe cannot dead-lock us
    pid_t wp = fork();
    if (wp == 0) {
        close(outp[0]);
        size_t off = 0;
        while (off < data.size()) { ssize_t w = write(in[1], data.data() + off, data.size() - off); if (w <= 0) break; off += (size_t)w; }
        close(in[1]); _exit(0);
    }
    close(in[1]);
    std::string got; char buf[4096]; ssize_t n;
    while ((n = read(outp[0], buf, sizeof buf)) > 0) got.append(buf, (size_t)n);
    close(outp[0]);
    int st; waitpid(pid, &st, 0); if (wp > 0) waitpid(wp, &st, 0);
    while (!got.empty() && (got.back() == '\n' || got.back() == '\r')) got.pop_back();
    size_t nl = got.find_last_of('\n');
    if (nl != std::string::npos) got = got.substr(nl + 1);
    return got.empty() ? "infra-child-no-output" : got;
}

static std::string runParse(std::map<std::string, std::string>& kv) {
    for (const char* k : {"kind", "src", "part", "data"}) if (!kv.count(k)) return "bad-op";
    auto data = std::make_shared<Bytes>();
    if (!parseRle(kv["data"], *data)) return "bad-op";
    Partition part;
    if (!part.parse(kv["part"])) return "bad-op";
    const bool ns = !kv.count("ns") || kv["ns"] == "1";
    const bool val = kv.count("val") && kv["val"] == "1";
    const bool verbose = kv.count("v") && kv["v"] == "1";
    const std::string enc = kv.count("enc") ? kv["enc"] : "-";
    const std::string kind = kv["kind"], srcKind = kv["src"];
    std::string scratchFile = gScratch + "/hx_c04_" + std::to_string((long)getpid()) + ".xml";
    auto writeScratch = [&]() {
        FILE* f = fopen(scratchFile.c_str(), "wb");
        if (!f) return false;
        if (!data->empty()) fwrite(data->data(), 1, data->size(), f);
        fclose(f); return true;
    };
    std::string out;
    if (kind == "doc") {
        XStr sysId("doc");
        if (srcKind == "mem") {
            MemBufInputSource src(data->data(), data->size(), sysId, false);
            if (enc != "-") { XStr e(enc.c_str()); src.setEncoding(e); }
            out = parseWith(src, ns, val, 0, verbose);
        } else if (srcKind == "chunk") {
            ChunkInputSource src(data, part, sysId);
            if (enc != "-") { XStr e(enc.c_str()); src.setEncoding(e); }
            out = parseWith(src, ns, val, 0, verbose);
        } else if (srcKind == "file") {
            if (!writeScratch()) return "infra-scratch";
            XStr p(scratchFile.c_str());
            LocalFileInputSource src(p);
            if (enc != "-") { XStr e(enc.c_str()); src.setEncoding(e); }
            out = parseWith(src, ns, val, 0, verbose);
            unlink(scratchFile.c_str());
        } else if (srcKind == "stdin") {
            out = runStdinChild(*data, ns, val, enc, verbose);
        } else return "bad-op";
        return out;
    }
    if (kind == "dtd" || kind == "ent") {
        if (!kv.count("main")) return "bad-op";
        Bytes mainDoc;
        if (!parseRle(kv["main"], mainDoc)) return "bad-op";
        Resolver res; res.data = data; res.part = part; res.srcKind = srcKind; res.scratchFile = scratchFile;
        res.want = kind == "dtd" ? "x.dtd" : "e.ent";
        if (srcKind == "file" && !writeScratch()) return "infra-scratch";
        if (srcKind == "stdin") return "bad-op";
        XStr sysId("doc");
        MemBufInputSource src(mainDoc.data(), mainDoc.size(), sysId, false);
        out = parseWith(src, ns, val, &res, verbose);
        if (srcKind == "file") unlink(scratchFile.c_str());
        return out;
    }
    return "bad-op";
}

int main(int argc, char** argv) {
    gSelf = argv[0];
    {   char buf[4096]; ssize_t n = readlink("/proc/self/exe", buf, sizeof buf - 1); if (n > 0) { buf[n] = 0; gSelf = buf; } }
    XMLPlatformUtils::Initialize();
    if (argc >= 6 && std::string(argv[1]) == "--stdin-child") {
        {
            StdInInputSource src;
            if (std::string(argv[4]) != "-") { XStr e(argv[4]); src.setEncoding(e); }
            puts(parseWith(src, argv[2][0] == '1', argv[3][0] == '1', 0, argv[5][0] == '1').c_str());
            fflush(stdout);
        }
        XMLPlatformUtils::Terminate();
        return 0;
    }
    for (int i = 1; i + 1 < argc; i++) if (std::string(argv[i]) == "--scratch") gScratch = argv[i + 1];
    std::string line;
    while (std::getline(std::cin, line)) {
        if (line.empty()) continue;
        auto f = hx::split(line);
        auto kv = parseKV(f);
        std::string out;
        try {
            if (f[0] == "R") out = runReader(kv);
            else if (f[0] == "P") out = runParse(kv);
            else out = "bad-op";
        } catch (const std::exception& e) { out = std::string("bad-op ") + e.what(); }
        catch (...) { out = "FOREIGN-EXCEPTION"; }
        puts(out.c_str());
        fflush(stdout);
    }
    XMLPlatformUtils::Terminate();
    return 0;
}
