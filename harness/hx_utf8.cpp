// C05 harness: drives the real XMLUTF8Transcoder obtained from the transcoding service.
//   stdin lines:  F <maxChars> <hex bytes>          -> transcodeFrom
//                 T <maxBytes> <throw 0|1> <hex units>  -> transcodeTo
//                 C <hex codepoint>                 -> canTranscodeTo
//                 GF/GT/GC <enc> ...                 -> the same on the named intrinsic transcoder
//                 GS <enc> <blk> <maxChars> <hex bytes>  -> repeated transcodeFrom over the whole input (see doStream)
//   enumeration:  hx_utf8 enum <space> [digest]   (see tools/props/c05.py)
#include "hx_common.hpp"
#include <map>
#include <algorithm>
#include <xercesc/util/TransService.hpp>
#include <xercesc/util/XMLUTF8Transcoder.hpp>
#include <xercesc/util/UTFDataFormatException.hpp>
#include <xercesc/util/TranscodingException.hpp>
#include <xercesc/framework/XMLRecognizer.hpp>
#include <xercesc/framework/MemBufInputSource.hpp>
#include <xercesc/sax2/SAX2XMLReader.hpp>
#include <xercesc/sax2/XMLReaderFactory.hpp>
#include <xercesc/sax2/DefaultHandler.hpp>
#include <xercesc/sax2/Attributes.hpp>
#include <xercesc/sax/SAXParseException.hpp>
#include <xercesc/util/XMLUni.hpp>
#include <xercesc/util/OutOfMemoryException.hpp>

static XMLTranscoder* gT = 0;

// document level: D <hex bytes>  ->  ok <content as hex code units> w=<warnings> e=<errors>  |  fatal <msg-code-less text>
struct DocH : public DefaultHandler {
    std::vector<uint32_t> out; int warnings = 0, errors = 0, fatals = 0;
    void put(const XMLCh* s) { for (; s && *s; ++s) out.push_back(*s); out.push_back(0x7C); }
    void startElement(const XMLCh* const, const XMLCh* const, const XMLCh* const q, const Attributes& a) override {
        out.push_back(0x3C); put(q);
        for (XMLSize_t i = 0; i < a.getLength(); i++) { put(a.getQName(i)); put(a.getValue(i)); }
    }
    void endElement(const XMLCh* const, const XMLCh* const, const XMLCh* const) override { out.push_back(0x3E); }
    void characters(const XMLCh* const c, const XMLSize_t n) override { for (XMLSize_t i = 0; i < n; i++) out.push_back(c[i]); }
    void warning(const SAXParseException&) override { warnings++; }
    void error(const SAXParseException&) override { errors++; }
    void fatalError(const SAXParseException&) override { fatals++; }
};
static std::string doDoc(const std::vector<uint32_t>& bytes) {
    std::vector<XMLByte> raw(bytes.size() + 1);
    for (size_t i = 0; i < bytes.size(); i++) raw[i] = (XMLByte)bytes[i];
    DocH h;
    try {
        SAX2XMLReader* p = XMLReaderFactory::createXMLReader();
        p->setContentHandler(&h); p->setErrorHandler(&h);
        p->setFeature(XMLUni::fgXercesLoadExternalDTD, false);
        p->setFeature(XMLUni::fgXercesDisableDefaultEntityResolution, true);
        MemBufInputSource src(raw.data(), bytes.size(), "doc", false);
        try { p->parse(src); } catch (const OutOfMemoryException&) { delete p; return "exc OutOfMemory"; }
        catch (const XMLException& e) { delete p; return std::string("exc ") + hx::narrow(e.getType()); }
        catch (const SAXException&) { delete p; return "exc SAXException"; }
        delete p;
    } catch (...) { return "FOREIGN-EXCEPTION"; }
    if (h.fatals) return "fatal";
    return "ok " + hx::hexList(h.out) + " w=" + std::to_string(h.warnings) + " e=" + std::to_string(h.errors);
}

static const char* excName(const XMLException& e) {
    switch (e.getCode()) {
        case XMLExcepts::UTF8_FormatError: return "UTF8_FormatError";
        case XMLExcepts::UTF8_Invalid_3BytesSeq: return "UTF8_Invalid_3BytesSeq";
        case XMLExcepts::UTF8_Irregular_3BytesSeq: return "UTF8_Irregular_3BytesSeq";
        case XMLExcepts::UTF8_Invalid_4BytesSeq: return "UTF8_Invalid_4BytesSeq";
        case XMLExcepts::UTF8_Exceeds_BytesLimit: return "UTF8_Exceeds_BytesLimit";
        case XMLExcepts::Trans_BadSrcSeq: return "Trans_BadSrcSeq";
        case XMLExcepts::Trans_Unrepresentable: return "Trans_Unrepresentable";
        case XMLExcepts::Trans_BadTrailingSurrogate: return "Trans_BadTrailingSurrogate";
        default: return "OTHER";
    }
}

static std::map<std::string, XMLTranscoder*> gByName;
static XMLTranscoder* tcFor(const std::string& enc) {
    auto it = gByName.find(enc);
    if (it != gByName.end()) return it->second;
    // the model names the byte order explicitly; map to the names the service knows
    std::string real = enc;
    if (enc == "UCS-4LE") real = "UCS-4 (LE)"; else if (enc == "UCS-4BE") real = "UCS-4 (BE)";
    else if (enc == "UTF-16LE") real = "UTF-16 (LE)"; else if (enc == "UTF-16BE") real = "UTF-16 (BE)";
    XMLTransService::Codes rc;
    XMLTranscoder* t = XMLPlatformUtils::fgTransService->makeNewTranscoderFor(real.c_str(), rc, 16 * 1024);
    gByName[enc] = t;
    return t;
}

static std::string doFrom(const std::vector<uint32_t>& bytes, size_t maxChars) {
    std::vector<XMLByte> src(bytes.size() + 8, 0xEE);   // guard bytes after the end
    for (size_t i = 0; i < bytes.size(); i++) src[i] = (XMLByte)bytes[i];
    std::vector<XMLCh> out(maxChars + 4, 0x5A5A);
    std::vector<unsigned char> sizes(maxChars + 4, 0x77);
    XMLSize_t eaten = 0;
    try {
        XMLSize_t n = gT->transcodeFrom(src.data(), bytes.size(), out.data(), maxChars, eaten, sizes.data());
        if (n > maxChars) return "OVERRUN";
        if (out[maxChars] != 0x5A5A) return "OVERRUN";
        std::vector<uint32_t> c(out.begin(), out.begin() + n), s(sizes.begin(), sizes.begin() + n);
        return "ok " + hx::hexList(c) + " " + hx::hexList(s) + " " + std::to_string(eaten);
    } catch (const XMLException& e) {
        return std::string("exc ") + excName(e);
    }
}

static std::string doTo(const std::vector<uint32_t>& units, size_t maxBytes, bool thr) {
    std::vector<XMLCh> src(units.size() + 4, 0);
    for (size_t i = 0; i < units.size(); i++) src[i] = (XMLCh)units[i];
    std::vector<XMLByte> out(maxBytes + 8, 0xA5);
    XMLSize_t eaten = 0;
    try {
        XMLSize_t n = gT->transcodeTo(src.data(), units.size(), out.data(), maxBytes, eaten,
                                      thr ? XMLTranscoder::UnRep_Throw : XMLTranscoder::UnRep_RepChar);
        if (n > maxBytes || out[maxBytes] != 0xA5) return "OVERRUN";
        std::vector<uint32_t> b(out.begin(), out.begin() + n);
        return "ok " + hx::hexList(b) + " " + std::to_string(eaten);
    } catch (const XMLException& e) {
        return std::string("exc ") + excName(e);
    }
}

// whole-input decoding the way a consumer (XMLReader::xcodeMoreChars) does it: hand the transcoder at most
// <blk> unconsumed bytes and room for <maxChars> characters, append what it delivers, advance by bytesEaten.
//   GS <enc> <blk> <maxChars> <hex bytes> -> done <units> | exc <name> <units delivered before> <offset of the throwing call>
//                                            | stalled <units> <offset>
static std::string doStream(XMLTranscoder* t, const std::vector<uint32_t>& bytes, size_t blk, size_t maxChars) {
    std::vector<uint32_t> delivered;
    size_t pos = 0;
    std::string note;                                     // first call whose charSizes do not add up to bytesEaten
    static std::vector<XMLCh> out; static std::vector<unsigned char> sizes;
    if (out.size() < maxChars + 4) { out.resize(maxChars + 4); sizes.resize(maxChars + 4); }
    for (size_t calls = 0; pos < bytes.size(); calls++) {
        size_t n = std::min(blk, bytes.size() - pos);
        if (calls > bytes.size() + 1) return "stalled " + hx::hexList(delivered) + " " + std::to_string(pos);
        XMLByte* src = new XMLByte[n ? n : 1];            // exact size: an over-read is an ASan report
        for (size_t i = 0; i < n; i++) src[i] = (XMLByte)bytes[pos + i];
        size_t lim = std::min(n * 2, maxChars);           // no transcoder makes more than 2 units per byte
        std::fill(out.begin(), out.begin() + lim + 1, 0x5A5A); std::fill(sizes.begin(), sizes.begin() + lim + 1, 0x77);
        out[maxChars] = 0x5A5A;
        XMLSize_t eaten = 0, got = 0;
        try {
            got = t->transcodeFrom(src, n, out.data(), maxChars, eaten, sizes.data());
        } catch (const XMLException& e) {
            delete[] src;
            return std::string("exc ") + excName(e) + " " + hx::hexList(delivered) + " " + std::to_string(pos) + note;
        }
        delete[] src;
        if (got > maxChars || out[maxChars] != 0x5A5A || eaten > n) return "OVERRUN";
        size_t sum = 0;
        for (size_t i = 0; i < got; i++) { delivered.push_back(out[i]); sum += sizes[i]; }
        if (sum != eaten && note.empty()) note = " charsizes-sum=" + std::to_string(sum) + "-eaten=" + std::to_string(eaten) + "-call-at=" + std::to_string(pos);
        if (eaten == 0) return "stalled " + hx::hexList(delivered) + " " + std::to_string(pos) + note;
        pos += eaten;
    }
    return "done " + hx::hexList(delivered) + note;
}

int main(int argc, char** argv) {
    XMLPlatformUtils::Initialize();
    XMLTransService::Codes rc;
    gT = XMLPlatformUtils::fgTransService->makeNewTranscoderFor("UTF-8", rc, 16 * 1024);
    if (!gT) { fprintf(stderr, "no transcoder\n"); return 2; }
    std::string line;
    while (std::getline(std::cin, line)) {
        if (line.empty()) continue;
        auto f = hx::split(line);
        if (f[0] == "F" && f.size() == 3) {
            puts(doFrom(hx::parseHexList(f[2]), std::stoul(f[1])).c_str());
        } else if (f[0] == "T" && f.size() == 4) {
            puts(doTo(hx::parseHexList(f[3]), std::stoul(f[1]), f[2] == "1").c_str());
        } else if (f[0] == "GF" && f.size() == 4) {
            XMLTranscoder* save = gT; gT = tcFor(f[1]);
            puts(gT ? doFrom(hx::parseHexList(f[3]), std::stoul(f[2])).c_str() : "no-transcoder");
            gT = save;
        } else if (f[0] == "GS" && f.size() == 5) {
            XMLTranscoder* t = tcFor(f[1]);
            puts(t ? doStream(t, hx::parseHexList(f[4]), std::stoul(f[2]), std::stoul(f[3])).c_str() : "no-transcoder");
        } else if (f[0] == "GT" && f.size() == 5) {
            XMLTranscoder* save = gT; gT = tcFor(f[1]);
            puts(gT ? doTo(hx::parseHexList(f[4]), std::stoul(f[2]), f[3] == "1").c_str() : "no-transcoder");
            gT = save;
        } else if (f[0] == "GC" && f.size() == 3) {
            XMLTranscoder* t = tcFor(f[1]);
            puts(!t ? "no-transcoder" : t->canTranscodeTo((unsigned)std::stoul(f[2], 0, 16)) ? "1" : "0");
        } else if (f[0] == "D" && f.size() == 2) {
            puts(doDoc(hx::parseHexList(f[1])).c_str());
        } else if (f[0] == "P" && f.size() == 2) {
            auto bs = hx::parseHexList(f[1]);
            std::vector<XMLByte> raw(bs.size() + 32, 0xEE);
            for (size_t i = 0; i < bs.size(); i++) raw[i] = (XMLByte)bs[i];
            static const char* names[] = {"EBCDIC", "UCS_4B", "UCS_4L", "US_ASCII", "UTF_8", "UTF_16B", "UTF_16L", "XERCES_XMLCH"};
            int e = (int)XMLRecognizer::basicEncodingProbe(raw.data(), bs.size());
            puts(e >= 0 && e < 8 ? names[e] : "OTHER");
        } else if (f[0] == "C" && f.size() == 2) {
            puts(gT->canTranscodeTo((unsigned)std::stoul(f[1], 0, 16)) ? "1" : "0");
        } else puts("bad-op");
    }
    delete gT;
    XMLPlatformUtils::Terminate();
    return 0;
}
