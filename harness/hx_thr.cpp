// C17 harness: N threads, each running an independent seeded workload on DISTINCT xerces objects.
//
//   hx_thr conc|seq <seed> <nthreads> <items> <flags> [timeout_s]
//     conc : the N workloads run concurrently (worker threads start together, no warm-up on the main thread)
//     seq  : the same N workloads run one after another on the main thread (single-threaded reference)
//     flags: 1 = prepare ONE locked grammar pool on the main thread and let workers share it
//            2 = record the event trace (recording XMLMutexMgr + hook-H2 markers) and pool-operation history
//            4 = seeded yields at lock / marker / yield sites
//            8 = "first DOM operation" run: every thread starts with a private DOM build (F16 probe)
//           16 = every thread starts with a parse on the shared locked pool (first use of the cached grammar contended)
//           64 = burst: the first shared-pool parse of every thread introduces ceil(160/N) namespace URIs never seen before
//           32 = every thread starts by compiling the regular expressions whose category complements are created lazily
//   output:
//     D <tid> <h1>,<h2>,...      per-thread, per-item result digests (must equal those of `seq`)
//     TRACE T ...                the recorded trace in the `xvdriver trace` line protocol
//     LEGEND ...                 names of resources / sites / mutexes used in the trace
//     CONST ... / POOL ...       const pool strings and the pool-operation history in linearization order
//     GUARDCONFLICT ...          a marker named another mutex for a resource than an earlier marker did
//     STAT ...                   counters;   HANG ... when the watchdog fired (exit code 4)
//
// Built twice: against the ASan/UBSan hooks library (digests + trace) and against the TSan library (race search).
// Under TSan nothing is recorded (the recorder's own lock would create happens-before edges and hide races).
#include "hx_common.hpp"
#include <atomic>
#include <chrono>
#include <condition_variable>
#include <map>
#include <mutex>
#include <thread>
#include <algorithm>
#include <sched.h>
#include <clocale>
#include <dlfcn.h>
#include <unicode/ucnv.h>
#include <xercesc/framework/psvi/PSVIHandler.hpp>
#include <unistd.h>
#include <xercesc/util/XercesVerif.hpp>
#include <xercesc/util/Mutexes.hpp>
#include <xercesc/util/XMLMutexMgr.hpp>
#include <xercesc/util/TransService.hpp>
#include <xercesc/util/XMLUri.hpp>
#include <xercesc/util/XMLStringTokenizer.hpp>
#include <xercesc/util/OutOfMemoryException.hpp>
#include <xercesc/util/regx/RegularExpression.hpp>
#include <xercesc/util/StringPool.hpp>
#include <xercesc/sax2/SAX2XMLReader.hpp>
#include <xercesc/sax2/XMLReaderFactory.hpp>
#include <xercesc/parsers/SAX2XMLReaderImpl.hpp>
#include <xercesc/sax2/DefaultHandler.hpp>
#include <xercesc/sax2/Attributes.hpp>
#include <xercesc/sax/SAXParseException.hpp>
#include <xercesc/sax/SAXException.hpp>
#include <xercesc/framework/MemBufInputSource.hpp>
#include <xercesc/framework/MemBufFormatTarget.hpp>
#include <xercesc/framework/XMLGrammarPoolImpl.hpp>
#include <xercesc/parsers/XercesDOMParser.hpp>
#include <xercesc/dom/DOM.hpp>
#include <xercesc/validators/common/Grammar.hpp>

#if defined(__has_feature)
#  if __has_feature(thread_sanitizer)
#    define HX_TSAN 1
#  endif
#endif

static int gFlags = 0;
static uint64_t gSeed = 1;

// ------------------------------------------------------------------ seeded yields
static thread_local int tlTid = 0;
static thread_local hx::Rng* tlYield = nullptr;
static void maybeYield() {
    if (!(gFlags & 4) || !tlYield) return;
    uint64_t r = tlYield->below(10);
    if (r < 2) sched_yield();
    else if (r == 2) usleep((useconds_t)tlYield->below(200));
}

// ------------------------------------------------------------------ recorder (not under TSan)
struct Ev { char k; int t; int x; };
static std::mutex gRecMx;
static std::vector<Ev> gEvents;
static std::map<const void*, int> gMutexId;
static std::map<std::pair<std::string, const void*>, int> gResId, gSiteId;
static std::vector<std::string> gResName, gSiteName;
static std::map<int, int> gResGuard, gSiteGuard;
static std::vector<std::string> gGuardConflicts;
static long gReentrant = 0;
static bool gRecording = false;
static thread_local long tlLastSeq = -1;
static thread_local std::map<const void*, int>* tlDepth = nullptr;

static int mutexIdLocked(const void* h) {
    auto it = gMutexId.find(h);
    if (it != gMutexId.end()) return it->second;
    int id = (int)gMutexId.size() + 1;          // 0 is "no mutex"
    gMutexId[h] = id;
    return id;
}

class RecordingMutexMgr : public XMLMutexMgr {
public:
    XMLMutexMgr* inner;
    explicit RecordingMutexMgr(XMLMutexMgr* i) : inner(i) {}
    XMLMutexHandle create(MemoryManager* const m) override { return inner->create(m); }
    void destroy(XMLMutexHandle h, MemoryManager* const m) override { inner->destroy(h, m); }
    void lock(XMLMutexHandle h) override {
        maybeYield();
        inner->lock(h);
        if (gRecording) {
            if (!tlDepth) tlDepth = new std::map<const void*, int>();
            int d = ++(*tlDepth)[h];
            std::lock_guard<std::mutex> g(gRecMx);
            if (d == 1) gEvents.push_back({'a', tlTid, mutexIdLocked(h)}); else gReentrant++;
        }
        maybeYield();
    }
    void unlock(XMLMutexHandle h) override {
        if (gRecording) {
            int d = tlDepth ? --(*tlDepth)[h] : 0;
            std::lock_guard<std::mutex> g(gRecMx);
            if (d == 0) gEvents.push_back({'r', tlTid, mutexIdLocked(h)});
        }
        inner->unlock(h);
        maybeYield();
    }
};

static void onEvent(int kind, const char* name, const void* inst, const void* mutexObj) {
    if (kind == XercesVerif::Yield) { maybeYield(); return; }
    if (gRecording) {
        const void* h = mutexObj ? ((const XMLMutex*)mutexObj)->verifHandle() : nullptr;
        std::lock_guard<std::mutex> g(gRecMx);
        int mid = h ? mutexIdLocked(h) : 0;
        bool isInit = (kind == XercesVerif::InitBegin || kind == XercesVerif::InitEnd);
        auto& ids = isInit ? gSiteId : gResId;
        auto& names = isInit ? gSiteName : gResName;
        auto& guards = isInit ? gSiteGuard : gResGuard;
        auto key = std::make_pair(std::string(name), inst);
        int id;
        auto it = ids.find(key);
        if (it == ids.end()) {
            id = (int)ids.size() + 1; ids[key] = id;
            char b[64]; snprintf(b, sizeof b, "@%p", inst);
            names.push_back(std::string(name) + (inst ? b : ""));
            guards[id] = mid;
        } else {
            id = it->second;
            if (guards[id] != mid) {
                char b[160]; snprintf(b, sizeof b, "%s guard m%d then m%d", name, guards[id], mid);
                gGuardConflicts.push_back(b);
            }
        }
        char k = kind == XercesVerif::Read ? 'R' : kind == XercesVerif::Write ? 'W' : kind == XercesVerif::InitBegin ? 'b' : 'e';
        tlLastSeq = (long)gEvents.size();
        gEvents.push_back({k, tlTid, id});
    }
    maybeYield();
}

// ------------------------------------------------------------------ ICU boundary (interposition)
// The process-wide local-code-page converter is used through ucnv_fromUChars / ucnv_toUChars only.  The harness
// interposes these two entry points (the executable's definition wins over libicuuc's for calls made by
// libxerces-c) and treats every call as a write access to the resource "ICU.UConverter@<converter>", whether or
// not the calling xerces code carries a hook marker.  Recording flavour: an access event whose guard is inferred
// Eraser-style (the mutex held in most accesses; none => mutex 0, which nobody holds); a converter used by one
// thread only is dropped from the trace.  TSan flavour: a plain write to a shadow cell, so that two calls not
// ordered by happens-before are reported by ThreadSanitizer with the xerces caller in the stack.
#define HX_STR2(x) #x
#define HX_STR(x) HX_STR2(x)
static std::map<int, std::map<int, long>> gIcuHeldHist;     // resource id -> mutex id -> number of accesses holding it
static std::map<int, std::map<int, long>> gIcuThreads;      // resource id -> thread -> accesses
static volatile char gIcuShadow[64];

static void converterAccess(const void* cnv) {
#ifdef HX_TSAN
    gIcuShadow[((uintptr_t)cnv >> 6) & 63] = (char)tlTid;
#else
    if (gRecording) {
        std::lock_guard<std::mutex> g(gRecMx);
        auto key = std::make_pair(std::string("ICU.UConverter"), cnv);
        int id;
        auto it = gResId.find(key);
        if (it == gResId.end()) {
            id = (int)gResId.size() + 1; gResId[key] = id;
            char b[64]; snprintf(b, sizeof b, "@%p", cnv);
            gResName.push_back(std::string("ICU.UConverter") + b);
            gResGuard[id] = 0;
        } else id = it->second;
        gIcuThreads[id][tlTid]++;
        bool any = false;
        if (tlDepth) for (auto& d : *tlDepth) if (d.second > 0) { gIcuHeldHist[id][mutexIdLocked(d.first)]++; any = true; }
        if (!any) gIcuHeldHist[id][0]++;
        gEvents.push_back({'W', tlTid, id});
    }
#endif
    maybeYield();
}

extern "C" int32_t ucnv_fromUChars(UConverter* cnv, char* dest, int32_t destCapacity, const UChar* src, int32_t srcLength, UErrorCode* pErrorCode) {
    typedef int32_t (*Fn)(UConverter*, char*, int32_t, const UChar*, int32_t, UErrorCode*);
    static Fn real = (Fn)dlsym(RTLD_NEXT, HX_STR(ucnv_fromUChars));
    converterAccess(cnv);
    return real(cnv, dest, destCapacity, src, srcLength, pErrorCode);
}
extern "C" int32_t ucnv_toUChars(UConverter* cnv, UChar* dest, int32_t destCapacity, const char* src, int32_t srcLength, UErrorCode* pErrorCode) {
    typedef int32_t (*Fn)(UConverter*, UChar*, int32_t, const char*, int32_t, UErrorCode*);
    static Fn real = (Fn)dlsym(RTLD_NEXT, HX_STR(ucnv_toUChars));
    converterAccess(cnv);
    return real(cnv, dest, destCapacity, src, srcLength, pErrorCode);
}

// resolve the inferred guards of interposed resources; returns ids of resources to drop (single-threaded use)
static std::vector<int> resolveIcuGuards() {
    std::vector<int> drop;
    for (auto& r : gIcuThreads) {
        if (r.second.size() < 2) { drop.push_back(r.first); continue; }
        int best = 0; long bestN = -1;
        for (auto& h : gIcuHeldHist[r.first]) if (h.first != 0 && h.second > bestN) { best = h.first; bestN = h.second; }
        gResGuard[r.first] = best;
    }
    return drop;
}

// ------------------------------------------------------------------ small helpers
static std::string utf8(const XMLCh* s) {
    std::string r; if (!s) return "(null)";
    for (; *s; ++s) {
        unsigned c = *s;
        if (c < 0x80) r += (char)c;
        else if (c < 0x800) { r += (char)(0xC0 | (c >> 6)); r += (char)(0x80 | (c & 0x3F)); }
        else { r += (char)(0xE0 | (c >> 12)); r += (char)(0x80 | ((c >> 6) & 0x3F)); r += (char)(0x80 | (c & 0x3F)); }
    }
    return r;
}
static std::basic_string<XMLCh> wide(const std::string& s) {
    std::basic_string<XMLCh> r; for (unsigned char c : s) r += (XMLCh)c; return r;
}
static std::string hex64(uint64_t v) { char b[20]; snprintf(b, sizeof b, "%016llx", (unsigned long long)v); return b; }
static std::string digest(const std::string& s) { hx::Fnv f; f.add(s); return hex64(f.h); }

// ------------------------------------------------------------------ documents
static const char* kSchema =
    "<xs:schema xmlns:xs='http://www.w3.org/2001/XMLSchema' targetNamespace='urn:root' xmlns='urn:root' "
    "elementFormDefault='qualified'>"
    "<xs:element name='r'><xs:complexType><xs:sequence>"
    "<xs:element name='n' type='xs:integer' minOccurs='0' maxOccurs='unbounded'/>"
    "<xs:element name='s' minOccurs='0' maxOccurs='unbounded'><xs:simpleType><xs:restriction base='xs:string'>"
    "<xs:pattern value='\\p{Lu}\\w*\\d?'/></xs:restriction></xs:simpleType></xs:element>"
    "<xs:element name='t' minOccurs='0' maxOccurs='unbounded'><xs:simpleType><xs:restriction base='xs:token'>"
    "<xs:pattern value='[\\P{L}-[\\s]]+'/></xs:restriction></xs:simpleType></xs:element>"
    "<xs:any namespace='##other' processContents='lax' minOccurs='0' maxOccurs='unbounded'/>"
    "</xs:sequence><xs:attribute name='d' type='xs:date'/></xs:complexType></xs:element>"
    "</xs:schema>";

static std::string genSchemaDoc(hx::Rng& r, int tid) {
    std::string d = "<r xmlns='urn:root'";
    if (r.below(2)) d += r.below(5) ? " d='2020-02-29'" : " d='2021-02-29'";
    d += ">";
    for (uint64_t i = r.below(4); i > 0; i--) d += r.below(6) ? "<n>" + std::to_string(r.below(100000)) + "</n>" : "<n>x1</n>";
    for (uint64_t i = r.below(3); i > 0; i--) d += r.below(5) ? "<s>Abc" + std::to_string(r.below(10)) + "</s>" : "<s>abc</s>";
    for (uint64_t i = r.below(3); i > 0; i--) d += r.below(5) ? "<t>12-34</t>" : "<t>1a</t>";
    for (uint64_t i = 1 + r.below(4); i > 0; i--) {
        // new namespace URIs: some private to the thread, some common to all threads
        std::string uri = r.below(2) ? "urn:t" + std::to_string(tid) + ":n" + std::to_string(r.below(50))
                                     : "urn:common:n" + std::to_string(r.below(12));
        d += "<x:e xmlns:x='" + uri + "' x:a='1'><x:f>v</x:f><y:g xmlns:y='" + uri + ":sub'/></x:e>";
    }
    d += "</r>";
    return d;
}

static std::string genDtdDoc(hx::Rng& r) {
    std::string d = "<?xml version='1.0'?>\n<!DOCTYPE r [\n<!ELEMENT r (a|b)*>\n<!ELEMENT a (#PCDATA|b)*>\n<!ELEMENT b EMPTY>\n"
                    "<!ATTLIST a id ID #IMPLIED k CDATA 'dflt'>\n<!ATTLIST b v (x|y|z) 'x'>\n<!ENTITY e 'ent-text'>\n]>\n<r>";
    int ids = 0;
    for (uint64_t i = r.below(7); i > 0; i--) {
        uint64_t c = r.below(12);
        if (c < 5) {
            d += "<a"; if (r.below(2)) d += " id='i" + std::to_string(r.below(3) ? ids++ : 0) + "'";
            if (r.below(3) == 0) d += " k='v" + std::to_string(r.below(9)) + "'";
            d += ">t" + std::to_string(r.below(99)); if (r.below(3) == 0) d += "&e;"; if (r.below(3) == 0) d += "<b/>";
            d += "</a>";
        } else if (c < 9) { d += r.below(6) ? "<b v='y'/>" : "<b v='q'/>"; }
        else if (c == 9) d += "<c/>";
        else if (c == 10) d += "<!-- c --><?pi x?>";
        else d += r.below(3) ? "<a>&e;</a>" : "<a>&nope;</a>";
    }
    d += r.below(15) ? "</r>" : "</q>";
    return d;
}

class Rec : public DefaultHandler {
public:
    std::string out, chars; int errs = 0;
    void flush() { if (!chars.empty()) { out += "T(" + chars + ")"; chars.clear(); } }
    void startElement(const XMLCh* const uri, const XMLCh* const local, const XMLCh* const qn, const Attributes& a) override {
        flush(); out += "S(" + utf8(uri) + "|" + utf8(local) + "|" + utf8(qn);
        for (XMLSize_t i = 0; i < a.getLength(); i++) out += " " + utf8(a.getQName(i)) + "=" + utf8(a.getValue(i)) + ":" + utf8(a.getType(i));
        out += ")";
    }
    void endElement(const XMLCh* const, const XMLCh* const, const XMLCh* const qn) override { flush(); out += "E(" + utf8(qn) + ")"; }
    void characters(const XMLCh* const c, const XMLSize_t n) override { std::basic_string<XMLCh> s(c, n); chars += utf8(s.c_str()); }
    void ignorableWhitespace(const XMLCh* const, const XMLSize_t n) override { flush(); out += "W" + std::to_string(n); }
    void processingInstruction(const XMLCh* const t, const XMLCh* const d) override { flush(); out += "P(" + utf8(t) + " " + utf8(d) + ")"; }
    void startPrefixMapping(const XMLCh* const p, const XMLCh* const u) override { flush(); out += "N(" + utf8(p) + "=" + utf8(u) + ")"; }
    void rep(const char* k, const SAXParseException& e) {
        flush(); errs++;
        out += std::string(k) + "(" + std::to_string((long)e.getLineNumber()) + ":" + std::to_string((long)e.getColumnNumber()) + " " + utf8(e.getMessage()) + ")";
    }
    void warning(const SAXParseException& e) override { rep("WARN", e); }
    void error(const SAXParseException& e) override { rep("ERR", e); }
    void fatalError(const SAXParseException& e) override { rep("FATAL", e); }
};

// reads the namespace URI the scanner hands to the PSVI callbacks (XMLStringPool::getValueForId on the URI pool)
class PsviRec : public PSVIHandler {
public:
    std::string out;
    void handleElementPSVI(const XMLCh* const local, const XMLCh* const uri, PSVIElement*) override { out += "pe(" + utf8(uri) + "|" + utf8(local) + ")"; }
    void handlePartialElementPSVI(const XMLCh* const local, const XMLCh* const uri, PSVIElement*) override { out += "pp(" + utf8(uri) + "|" + utf8(local) + ")"; }
    void handleAttributesPSVI(const XMLCh* const local, const XMLCh* const uri, PSVIAttributeList*) override { out += "pa(" + utf8(uri) + "|" + utf8(local) + ")"; }
};

// ------------------------------------------------------------------ the shared, locked grammar pool
static XMLGrammarPool* gPool = nullptr;      // shared by the parsers of all threads
static XMLGrammarPool* gPool2 = nullptr;     // its synchronized string pool is driven directly (complete operation history)
static std::vector<std::string> gConstStrings;

struct PoolOp { long seq; int tie; int tid; std::string op; std::string res; };
static std::vector<PoolOp> gPoolLog;
static std::atomic<int> gTie{0};

static XMLGrammarPool* makeLockedPool(bool dumpConst) {
    MemoryManager* mm = XMLPlatformUtils::fgMemoryManager;
    XMLGrammarPool* pool = new XMLGrammarPoolImpl(mm);
    SAX2XMLReader* ld = XMLReaderFactory::createXMLReader(mm, pool);
    MemBufInputSource src((const XMLByte*)kSchema, strlen(kSchema), "mem:schema");
    ld->loadGrammar(src, Grammar::SchemaGrammarType, true);
    delete ld;
    if (dumpConst) {
        XMLStringPool* sp = pool->getURIStringPool();
        for (unsigned i = 1; i <= sp->getStringCount(); i++) gConstStrings.push_back(utf8(sp->getValueForId(i)));
    }
    pool->lockPool();
    return pool;
}
static void preparePool() {
    gPool = makeLockedPool(false);
    gPool2 = makeLockedPool(true);
}

// ------------------------------------------------------------------ workload items
template <class F> static std::string guarded(F f) {
    try { return f(); }
    catch (const OutOfMemoryException&) { return "exc OutOfMemory"; }
    catch (const XMLException& e) { return "exc " + utf8(e.getType()) + " " + utf8(e.getMessage()); }
    catch (const DOMException& e) { return "exc DOMException " + std::to_string((int)e.code) + " " + utf8(e.getMessage()); }
    catch (const SAXException& e) { return "exc SAXException " + utf8(e.getMessage()); }
    catch (const std::exception& e) { return std::string("exc std ") + e.what(); }
    catch (...) { return "FOREIGN-EXCEPTION"; }
}

static std::string itemSaxDtd(hx::Rng& r) {
    std::string doc = genDtdDoc(r);
    int scheme = (int)r.below(3);
    return guarded([&] {
        SAX2XMLReader* p = XMLReaderFactory::createXMLReader();
        Rec h; p->setContentHandler(&h); p->setErrorHandler(&h);
        p->setFeature(XMLUni::fgSAX2CoreNameSpaces, r.below(2) != 0);
        p->setFeature(XMLUni::fgSAX2CoreValidation, scheme != 0);
        p->setFeature(XMLUni::fgXercesDynamic, scheme == 1);
        std::string res;
        try {
            for (int k = 0; k < 2; k++) {          // parse twice with the same parser (history independence is C15's business)
                MemBufInputSource src((const XMLByte*)doc.data(), doc.size(), "mem:dtd");
                p->parse(src); h.flush(); res += h.out + "#"; h.out.clear();
            }
        } catch (...) { delete p; throw; }
        delete p;
        return "sax" + std::to_string(scheme) + ":" + res;
    });
}

static void configSchema(SAX2XMLReader* p, int scheme) {
    p->setFeature(XMLUni::fgSAX2CoreNameSpaces, true);
    p->setFeature(XMLUni::fgXercesSchema, true);
    p->setFeature(XMLUni::fgSAX2CoreValidation, scheme != 0);
    p->setFeature(XMLUni::fgXercesDynamic, scheme == 1);
    p->setFeature(XMLUni::fgXercesUseCachedGrammarInParse, true);
}

static thread_local bool tlBurstDone = false;
static int gThreads = 1;
static std::string itemSaxSchema(hx::Rng& r, int tid, bool shared) {
    int scheme = (int)r.below(3);
    std::vector<std::string> docs; for (uint64_t i = 1 + r.below(3); i > 0; i--) docs.push_back(genSchemaDoc(r, tid));
    if (shared && (gFlags & 64) && !tlBurstDone) {
        // burst: namespace URIs no thread has used before, enough across the threads to make the synchronized pool's
        // id index grow several times (capacity 64, 96, 144, ...) while other threads look ids up
        tlBurstDone = true;
        scheme = 2;
        int k = (160 + gThreads - 1) / gThreads;
        std::string d = "<r xmlns='urn:root'>";
        for (int i = 0; i < k; i++) {
            std::string uri = "urn:burst:t" + std::to_string(tid) + ":" + std::to_string(i);
            d += "<x:e xmlns:x='" + uri + "' x:a='1'><x:f>v</x:f></x:e>";
        }
        d += "</r>";
        docs.insert(docs.begin(), d);
    }
    return guarded([&] {
        MemoryManager* mm = XMLPlatformUtils::fgMemoryManager;
        SAX2XMLReader* p = shared ? XMLReaderFactory::createXMLReader(mm, gPool) : XMLReaderFactory::createXMLReader();
        Rec h; p->setContentHandler(&h); p->setErrorHandler(&h);
        PsviRec ph; static_cast<SAX2XMLReaderImpl*>(p)->setPSVIHandler(&ph);
        std::string res;
        try {
            configSchema(p, scheme);
            if (!shared) {
                MemBufInputSource s((const XMLByte*)kSchema, strlen(kSchema), "mem:schema");
                p->loadGrammar(s, Grammar::SchemaGrammarType, true);
            }
            for (auto& d : docs) {
                MemBufInputSource src((const XMLByte*)d.data(), d.size(), "mem:doc");
                p->parse(src); h.flush(); res += h.out + "#" + digest(ph.out) + "#"; h.out.clear(); ph.out.clear();
            }
        } catch (...) { delete p; throw; }
        delete p;
        return std::string(shared ? "pool" : "xsd") + std::to_string(scheme) + ":" + res;
    });
}

static std::string serialize(DOMImplementation* impl, DOMNode* n) {
    DOMLSSerializer* ser = ((DOMImplementationLS*)impl)->createLSSerializer();
    DOMLSOutput* out = ((DOMImplementationLS*)impl)->createLSOutput();
    MemBufFormatTarget tgt;
    out->setByteStream(&tgt);
    static const XMLCh u8[] = { 'U', 'T', 'F', '-', '8', 0 };
    out->setEncoding(u8);
    std::string res;
    try { ser->write(n, out); res.assign((const char*)tgt.getRawBuffer(), tgt.getLen()); }
    catch (...) { out->release(); ser->release(); throw; }
    out->release(); ser->release();
    return res;
}

static std::string itemDomParseSchema(hx::Rng& r, int tid) {
    std::string doc = genSchemaDoc(r, tid);
    int scheme = (int)r.below(3);
    return guarded([&] {
        XercesDOMParser p;
        Rec h; p.setErrorHandler(&h);
        p.setDoNamespaces(true); p.setDoSchema(true);
        p.setValidationScheme(scheme == 0 ? XercesDOMParser::Val_Never : scheme == 1 ? XercesDOMParser::Val_Auto : XercesDOMParser::Val_Always);
        p.useCachedGrammarInParse(true);
        MemBufInputSource s((const XMLByte*)kSchema, strlen(kSchema), "mem:schema");
        p.loadGrammar(s, Grammar::SchemaGrammarType, true);
        MemBufInputSource src((const XMLByte*)doc.data(), doc.size(), "mem:doc");
        p.parse(src);
        std::string res = "dom" + std::to_string(scheme) + ":" + h.out + "|";
        DOMDocument* d = p.getDocument();
        static const XMLCh ls[] = { 'L', 'S', 0 };
        if (d && d->getDocumentElement()) res += serialize(DOMImplementationRegistry::getDOMImplementation(ls), d);
        return res;
    });
}

static std::string itemDomBuild(hx::Rng& r, bool registry) {
    // all random choices are drawn up front into a script so that an exception cannot change later draws
    return guarded([&] {
        static const XMLCh ls[] = { 'L', 'S', 0 };
        static const XMLCh core[] = { 'C', 'o', 'r', 'e', 0 };
        DOMImplementation* impl = registry ? DOMImplementationRegistry::getDOMImplementation(r.below(2) ? ls : core)
                                           : DOMImplementation::getImplementation();
        std::string res = "build:";
        DOMDocumentType* dt = nullptr;
        uint64_t dtMode = r.below(4);      // 0: none, 1: owner-less doctype adopted by the document, 2: created and released, 3: + internal setters
        if (dtMode) {
            auto q = wide("q" + std::to_string(r.below(5)));
            auto pub = wide("-//pub//" + std::to_string(r.below(1000)));
            auto sys = wide("sys" + std::to_string(r.below(1000)) + ".dtd");
            dt = impl->createDocumentType(q.c_str(), pub.c_str(), sys.c_str());
            res += "dt(" + utf8(dt->getName()) + "," + utf8(dt->getPublicId()) + "," + utf8(dt->getSystemId()) + ")";
            if (dtMode == 2) { dt->release(); dt = nullptr; }
        }
        auto rootName = dt ? std::basic_string<XMLCh>(dt->getName()) : wide("root");
        DOMDocument* doc = impl->createDocument(nullptr, rootName.c_str(), dt);
        try {
            DOMElement* root = doc->getDocumentElement();
            std::vector<DOMElement*> els{root};
            for (uint64_t i = 4 + r.below(20); i > 0; i--) {
                DOMElement* parent = els[r.below(els.size())];
                uint64_t c = r.below(10);
                if (c < 4) { DOMElement* e = doc->createElement(wide("e" + std::to_string(r.below(6))).c_str()); parent->appendChild(e); els.push_back(e); }
                else if (c < 6) parent->appendChild(doc->createTextNode(wide("text" + std::to_string(r.below(100)) + "<&>").c_str()));
                else if (c == 6) parent->setAttribute(wide("a" + std::to_string(r.below(4))).c_str(), wide("v\"" + std::to_string(r.below(50))).c_str());
                else if (c == 7) parent->appendChild(doc->createComment(wide("c" + std::to_string(r.below(9))).c_str()));
                else if (c == 8) parent->appendChild(doc->createCDATASection(wide("cd" + std::to_string(r.below(9))).c_str()));
                else parent->appendChild(doc->createProcessingInstruction(wide("pi").c_str(), wide("d" + std::to_string(r.below(9))).c_str()));
            }
            for (uint64_t i = r.below(6); i > 0; i--) {
                DOMElement* e = els[r.below(els.size())];
                uint64_t c = r.below(5);
                try {
                    if (c == 0 && e->getFirstChild()) e->removeChild(e->getFirstChild());
                    else if (c == 1 && e->getFirstChild()) e->insertBefore(doc->createTextNode(wide("ins").c_str()), e->getFirstChild());
                    else if (c == 2 && e != root && e->getParentNode()) e->getParentNode()->appendChild(e->cloneNode(true));
                    else if (c == 3) { DOMNode* t = doc->createTextNode(wide("x").c_str()); root->appendChild(t); root->appendChild(doc->createTextNode(wide("y").c_str())); root->normalize(); }
                    else if (c == 4) doc->appendChild(doc->createElement(wide("second").c_str()));   // must throw HIERARCHY_REQUEST_ERR
                } catch (const DOMException& ex) { res += "dx" + std::to_string((int)ex.code); }
            }
            res += serialize(DOMImplementation::getImplementation(), doc);
        } catch (...) { doc->release(); throw; }
        doc->release();
        return res;
    });
}

static const char16_t* kPatterns[] = { u"\\p{L}+", u"\\d{2,4}", u"\\w+\\s\\w+", u"\\P{Lu}*", u"[\\p{Nd}-[5]]+", u"\\S+@\\S+",
    u"\\p{IsGreek}+", u"\\i\\c*", u"[^\\d]+", u"\\D\\W?", u"\\P{IsBasicLatin}+", u"[\\P{L}-[\\s]]+", u"\\I+", u"\\C\\C", u"\\p{Ll}\\P{Ll}" };
static const char16_t* kStrings[] = { u"abc", u"12", u"123456", u"ab cd", u"A", u"a@b", u"αβ", u"x:y", u"", u"5", u"34", u"a1", u" ", u"-", u"aB", u"été" };

// categories whose complement is NOT built at Initialize: first use goes through the locked lazy path of
// RangeTokenMap::getRange
static const char16_t* kLazyPatterns[] = { u"\\P{IsAlpha}+", u"\\P{IsAlnum}", u"\\P{ASSIGNED}*", u"x\\P{ALL}?", u"[\\P{IsAlpha}-[\\d]]+" };

static std::string itemRegex(hx::Rng& r) {
    std::string res = "re:";
    for (uint64_t i = 2 + r.below(4); i > 0; i--) {
        const XMLCh* pat = r.below(3) == 0 ? (const XMLCh*)kLazyPatterns[r.below(sizeof kLazyPatterns / sizeof *kLazyPatterns)]
                                           : (const XMLCh*)kPatterns[r.below(sizeof kPatterns / sizeof *kPatterns)];
        bool xsd = r.below(3) != 0;
        res += guarded([&] {
            static const XMLCh X[] = { 'X', 0 };
            RegularExpression re(pat, xsd ? X : XMLUni::fgZeroLenString);
            std::string v;
            for (auto s : kStrings) v += re.matches((const XMLCh*)s) ? '1' : '0';
            return utf8(pat) + "=" + v + ";";
        });
    }
    return res;
}

// first use of every lazily complemented category, in a seeded order (flag 32: contended lazy initialisation)
static std::string itemRegexLazy(hx::Rng& r) {
    std::string res = "relazy:";
    const size_t n = sizeof kLazyPatterns / sizeof *kLazyPatterns;
    size_t start = (size_t)r.below(n);
    for (size_t i = 0; i < n; i++) {
        const XMLCh* pat = (const XMLCh*)kLazyPatterns[(start + i) % n];
        res += guarded([&] {
            static const XMLCh X[] = { 'X', 0 };
            RegularExpression re(pat, X);
            std::string v;
            for (auto s : kStrings) v += re.matches((const XMLCh*)s) ? '1' : '0';
            return utf8(pat) + "=" + v + ";";
        });
    }
    return res;
}

static std::string itemTranscode(hx::Rng& r) {
    return guarded([&] {
        std::string res = "tc:";
        for (uint64_t i = 1 + r.below(4); i > 0; i--) {
            std::string s = "plain text " + std::to_string(r.below(100000));
            if (r.below(3) == 0) s += "\xc3\xa9\xe2\x82\xac";
            XMLCh* w = XMLString::transcode(s.c_str());
            char* back = XMLString::transcode(w);
            res += utf8(w) + "/" + back + ";";
            XMLString::release(&w); XMLString::release(&back);
        }
        static const char* encs[] = { "ISO-8859-1", "UTF-8", "UTF-16LE", "windows-1252", "EBCDIC-CP-US", "Shift_JIS", "KOI8-R", "US-ASCII", "no-such-encoding" };
        for (uint64_t i = 1 + r.below(3); i > 0; i--) {
            const char* enc = encs[r.below(sizeof encs / sizeof *encs)];
            XMLTransService::Codes rc;
            XMLTranscoder* t = XMLPlatformUtils::fgTransService->makeNewTranscoderFor(enc, rc, 1024, XMLPlatformUtils::fgMemoryManager);
            if (!t) { res += std::string(enc) + ":none" + std::to_string((int)rc) + ";"; continue; }
            XMLByte in[64]; XMLSize_t n = 8 + r.below(40);
            for (XMLSize_t k = 0; k < n; k++) in[k] = (XMLByte)(0x20 + r.below(0x5f));
            if (!strcmp(enc, "UTF-16LE")) n &= ~(XMLSize_t)1;
            XMLCh outc[128]; unsigned char sizes[128]; XMLSize_t eaten = 0;
            std::string part;
            try {
                XMLSize_t got = t->transcodeFrom(in, n, outc, 100, eaten, sizes);
                outc[got] = 0;
                XMLByte bytes[512]; XMLSize_t eaten2 = 0;
                XMLSize_t nb = t->transcodeTo(outc, got, bytes, 500, eaten2, XMLTranscoder::UnRep_RepChar);
                part = std::to_string(got) + "," + std::to_string(eaten) + "," + digest(utf8(outc)) + "," + digest(std::string((const char*)bytes, nb));
            } catch (...) { delete t; throw; }
            delete t;
            res += std::string(enc) + ":" + part + ";";
        }
        return res;
    });
}

// XMLString::transcode in both directions on CJK / supplementary / Latin-1 text long enough that, with a multi-byte
// local code page, the 1.25 x length first estimate overflows and the retry path is taken
static std::string miniTranscode(hx::Rng& r) {
    return guarded([&] {
        std::basic_string<XMLCh> w;
        size_t n = 24 + (size_t)r.below(120);
        uint64_t kind = r.below(4);
        for (size_t i = 0; i < n; i++) {
            uint64_t k = kind == 3 ? r.below(3) : kind;
            if (k == 0) w += (XMLCh)(0x4E00 + r.below(0x5000));                                   // CJK: 3 bytes each
            else if (k == 1) { uint32_t c = 0x10000 + (uint32_t)r.below(0x30000);                 // supplementary: 4 bytes per pair
                               w += (XMLCh)(0xD800 + ((c - 0x10000) >> 10)); w += (XMLCh)(0xDC00 + ((c - 0x10000) & 0x3FF)); }
            else w += (XMLCh)(0xA1 + r.below(0x5E));                                              // Latin-1: 2 bytes each
        }
        char* bytes = XMLString::transcode(w.c_str());
        std::string b(bytes ? bytes : "(null)");
        XMLCh* back = bytes ? XMLString::transcode(bytes) : nullptr;
        std::string res = "mt:" + std::to_string(n) + ":" + digest(b) + ":" + std::to_string(b.size()) + ":"
                        + (back ? (std::basic_string<XMLCh>(back) == w ? "rt" : "DIFF" + digest(utf8(back))) : "null");
        if (bytes) XMLString::release(&bytes);
        if (back) XMLString::release(&back);
        return res;
    });
}

static std::string itemMessages(hx::Rng& r) {
    std::string res = "msg:";
    static const char* bad[] = { "::bad", "http://[", "1ab:x", "http://a b/", "" };
    for (uint64_t i = 1 + r.below(3); i > 0; i--) {
        const char* u = bad[r.below(5)];
        res += guarded([&] { XMLUri uri(wide(u).c_str()); return std::string("ok ") + utf8(uri.getUriText()); }) + ";";
    }
    return res;
}

static std::string itemPoolOps(hx::Rng& r, int tid) {
    // direct operations on the locked pool's synchronized URI string pool; results depend on the interleaving, so
    // they are not part of the digest: they are logged and replayed on the Lean model in linearization order.
    XMLStringPool* sp = gPool2->getURIStringPool();
    unsigned n = 0;
    for (uint64_t i = 4 + r.below(10); i > 0; i--) {
        uint64_t c = r.below(12);
        std::string arg, op, res;
        tlLastSeq = -1;
        long startSeq = 0;
        if (gRecording) { std::lock_guard<std::mutex> g(gRecMx); startSeq = (long)gEvents.size(); }
        if (c < 5) { arg = r.below(3) ? "urn:common:n" + std::to_string(r.below(12)) : "urn:t" + std::to_string(tid) + ":p" + std::to_string(r.below(6));
                     op = "A:" + arg; res = "i" + std::to_string(sp->addOrFind(wide(arg).c_str())); }
        else if (c < 7) { arg = r.below(2) ? "urn:common:n" + std::to_string(r.below(12)) : (r.below(2) ? "urn:absent:" + std::to_string(r.below(5)) : "urn:root");
                     op = "G:" + arg; res = "i" + std::to_string(sp->getId(wide(arg).c_str())); }
        else if (c < 9) { unsigned id = (unsigned)r.below(gConstStrings.size() + 14);
                     op = "V:" + std::to_string(id);
                     try { res = "s" + utf8(sp->getValueForId(id)); } catch (const XMLException&) { res = "ill"; } }
        else if (c == 9) { arg = r.below(2) ? "urn:common:n" + std::to_string(r.below(12)) : "urn:absent:" + std::to_string(r.below(5));
                     op = "X:" + arg; res = sp->exists(wide(arg).c_str()) ? "b1" : "b0"; }
        else if (c == 10) { unsigned id = (unsigned)r.below(gConstStrings.size() + 14); op = "I:" + std::to_string(id); res = sp->exists(id) ? "b1" : "b0"; }
        else { op = "C"; res = "i" + std::to_string(sp->getStringCount()); }
        if (gRecording) {
            std::lock_guard<std::mutex> g(gRecMx);
            gPoolLog.push_back({tlLastSeq >= 0 ? tlLastSeq : startSeq, gTie++, tid, op, res});
        }
        n++;
    }
    return "poolops:" + std::to_string(n);
}

// ------------------------------------------------------------------ one thread's workload
static std::vector<std::string> runWorkload(int tid, int items) {
    hx::Rng r(gSeed * 7919 + (uint64_t)tid * 104729 + 13);
    std::vector<std::string> hs;
    tlBurstDone = false;
    bool shared = (gFlags & 1) != 0;
    for (int i = 0; i < items; i++) {
        std::string res;
        uint64_t c = r.below(shared ? 12 : 9);
        if ((gFlags & 8) && i == 0) c = 3;
        if ((gFlags & 16) && shared && i == 0) c = 9;
        hx::Rng ir(r.next());
        if ((gFlags & 32) && i == 0) c = 100;
        switch (c) {
            case 100: res = itemRegexLazy(ir); break;
            case 0: res = itemSaxDtd(ir); break;
            case 1: res = itemSaxSchema(ir, tid, false); break;
            case 2: res = itemDomParseSchema(ir, tid); break;
            case 3: res = itemDomBuild(ir, (gFlags & 8) ? false : true); break;
            case 4: res = itemDomBuild(ir, true); break;
            case 5: res = itemRegex(ir); break;
            case 6: res = itemTranscode(ir); break;
            case 7: res = itemMessages(ir); break;
            case 8: res = itemRegex(ir); break;
            case 9: case 10: res = itemSaxSchema(ir, tid, true); break;
            default: res = itemPoolOps(ir, tid); break;
        }
        res += "|" + miniTranscode(ir);
        if (getenv("HX_THR_VERBOSE")) fprintf(stderr, "t%d i%d %s\n", tid, i, res.c_str());
        hs.push_back(digest(res));
    }
    return hs;
}

int main(int argc, char** argv) {
    if (argc < 6) { fprintf(stderr, "usage: hx_thr conc|seq seed nthreads items flags [timeout_s]\n"); return 2; }
    std::string mode = argv[1];
    gSeed = strtoull(argv[2], 0, 10);
    int n = atoi(argv[3]), items = atoi(argv[4]);
    gThreads = n > 0 ? n : 1;
    gFlags = atoi(argv[5]);
    int timeoutS = argc > 6 ? atoi(argv[6]) : 120;
#ifdef HX_TSAN
    gFlags &= ~2;
#endif
    // a multi-byte local code page: XMLString::transcode of non-ASCII text then overflows its first size estimate
    // and takes the retry path of ICULCPTranscoder::transcode
    if (!setlocale(LC_ALL, "C.UTF-8") && !setlocale(LC_ALL, "C.utf8")) fprintf(stderr, "hx_thr: no UTF-8 locale\n");
    XMLPlatformUtils::Initialize();
    RecordingMutexMgr* rec = nullptr;
    XMLMutexMgr* orig = XMLPlatformUtils::fgMutexMgr;
    if (mode == "conc") {
        XercesVerif::fgEvent = onEvent;
#ifndef HX_TSAN
        rec = new RecordingMutexMgr(orig);
        XMLPlatformUtils::fgMutexMgr = rec;
        gRecording = (gFlags & 2) != 0;
#endif
    }
    hx::Rng mainYield(gSeed * 31 + 7);
    tlYield = &mainYield;
    if (gFlags & 1) preparePool();

    std::vector<std::vector<std::string>> results(n + 1);
    if (mode == "seq") {
        for (int t = 1; t <= n; t++) results[t] = runWorkload(t, items);
    } else {
        std::atomic<bool> go{false};
        std::atomic<int> done{0};
        std::mutex mx; std::condition_variable cv;
        std::vector<std::thread> ths;
        std::vector<char> finished(n + 1, 0);
        for (int t = 1; t <= n; t++) {
            ths.emplace_back([&, t] {
                tlTid = t;
                hx::Rng y(gSeed * 1000003 + (uint64_t)t);
                tlYield = &y;
                while (!go.load(std::memory_order_acquire)) { }
                results[t] = runWorkload(t, items);
                tlYield = nullptr;
                { std::lock_guard<std::mutex> g(mx); finished[t] = 1; done++; }
                cv.notify_all();
            });
        }
        go.store(true, std::memory_order_release);
        {
            std::unique_lock<std::mutex> lk(mx);
            if (!cv.wait_for(lk, std::chrono::seconds(timeoutS), [&] { return done.load() == n; })) {
                printf("HANG after %ds, threads not finished:", timeoutS);
                for (int t = 1; t <= n; t++) if (!finished[t]) printf(" %d", t);
                printf("\n"); fflush(stdout);
                _exit(4);
            }
        }
        for (auto& th : ths) th.join();
    }
    gRecording = false;
    for (int t = 1; t <= n; t++) {
        printf("D %d ", t);
        for (size_t i = 0; i < results[t].size(); i++) printf(i ? ",%s" : "%s", results[t][i].c_str());
        printf("\n");
    }
    if (mode == "conc" && (gFlags & 2)) {
        std::vector<int> drop = resolveIcuGuards();
        auto dropped = [&](int id) { return std::find(drop.begin(), drop.end(), id) != drop.end(); };
        std::string line = "TRACE T";
        for (auto& g : gResGuard) if (!dropped(g.first)) line += " " + std::to_string(g.first) + "=" + std::to_string(g.second);
        line += " |";
        for (auto& g : gSiteGuard) line += " " + std::to_string(g.first) + "=" + std::to_string(g.second);
        line += " |";
        for (auto& e : gEvents) {
            if ((e.k == 'R' || e.k == 'W') && dropped(e.x)) continue;
            char b[48]; snprintf(b, sizeof b, " %c.%d.%d", e.k, e.t, e.x); line += b;
        }
        printf("%s\n", line.c_str());
        printf("LEGEND");
        for (size_t i = 0; i < gResName.size(); i++) printf(" r%zu=%s", i + 1, gResName[i].c_str());
        for (size_t i = 0; i < gSiteName.size(); i++) printf(" s%zu=%s", i + 1, gSiteName[i].c_str());
        printf("\n");
        for (auto& c : gGuardConflicts) printf("GUARDCONFLICT %s\n", c.c_str());
        if (gFlags & 1) {
            printf("CONST ");
            for (size_t i = 0; i < gConstStrings.size(); i++) printf(i ? "\x1f%s" : "%s", gConstStrings[i].c_str());   // 0x1f-separated (strings may contain commas)
            printf("\n");
            std::sort(gPoolLog.begin(), gPoolLog.end(), [](const PoolOp& a, const PoolOp& b) { return a.seq != b.seq ? a.seq < b.seq : a.tie < b.tie; });
            printf("POOL");
            for (auto& p : gPoolLog) printf(" %d/%s=%s", p.tid, p.op.c_str(), p.res.c_str());
            printf("\n");
        }
        printf("STAT events=%zu reentrant=%ld mutexes=%zu\n", gEvents.size(), gReentrant, gMutexId.size());
    }
    fflush(stdout);
    tlYield = nullptr;
    if (gPool) { gPool->unlockPool(); delete gPool; }
    if (gPool2) { gPool2->unlockPool(); delete gPool2; }
    XercesVerif::fgEvent = nullptr;
    if (rec) { XMLPlatformUtils::fgMutexMgr = orig; }
    XMLPlatformUtils::Terminate();
    return 0;
}
