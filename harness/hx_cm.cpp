// C07 harness: DTD content models and DTD validation on the REAL library.
//
// Content-model tier.  A ContentSpecNode tree is built exactly as DTDScanner::scanChildren/scanMixed
// would (binary Sequence/Choice nodes, unary ?,*,+, PCDATA leaf for mixed), put into a real
// DTDElementDecl, and the real DTDValidator::checkContent (attached to a real scanner) is called; it
// selects Simple/Mixed/DFAContentModel through DTDElementDecl::getContentModel() as a parse would.
//
//   spec syntax (one token):  E | A | M<digits> | N | K<cm>        (see lean/XV/Driver/ContentModel.lean)
//   V <spec> <digits|->          -> "<route> ok" | "<route> fail <i>" | "<route> exc <name>"
//   A <spec> <nsyms> <maxlen>    -> "<route> <one char per sequence in DFS pre-order>"
// Document tier: see runAllModes below (M / MV lines).
#include "hx_common.hpp"
#include <algorithm>
#include <map>
#include <xercesc/util/QName.hpp>
#include <xercesc/util/RuntimeException.hpp>
#include <xercesc/util/OutOfMemoryException.hpp>
#include <xercesc/framework/XMLValidator.hpp>
#include <xercesc/framework/MemBufInputSource.hpp>
#include <xercesc/framework/XMLValidityCodes.hpp>
#include <xercesc/parsers/XercesDOMParser.hpp>
#include <xercesc/parsers/SAXParser.hpp>
#include <xercesc/sax/HandlerBase.hpp>
#include <xercesc/sax/EntityResolver.hpp>
#include <xercesc/sax/AttributeList.hpp>
#include <xercesc/util/XMLUni.hpp>
#include <xercesc/sax/ErrorHandler.hpp>
#include <xercesc/sax/SAXParseException.hpp>
#include <xercesc/dom/DOM.hpp>
#include <xercesc/validators/DTD/DTDValidator.hpp>
#include <xercesc/validators/DTD/DTDElementDecl.hpp>
#include <xercesc/validators/common/ContentSpecNode.hpp>
#include <xercesc/validators/common/DFAContentModel.hpp>
#include <xercesc/validators/common/SimpleContentModel.hpp>
#include <xercesc/validators/common/MixedContentModel.hpp>
#include <xercesc/internal/XMLScanner.hpp>

static MemoryManager* gMM = 0;
static unsigned int gEmptyNs = 0;

struct ScannerAccess : public XercesDOMParser {
    explicit ScannerAccess(XMLValidator* v) : XercesDOMParser(v) {}
    XMLScanner* sc() const { return getScanner(); }
};

static QName* mkName(unsigned id) {
    XMLCh buf[8]; buf[0] = 'e'; buf[1] = (XMLCh)('0' + id); buf[2] = 0;
    return new (gMM) QName(buf, gEmptyNs, gMM);
}

static ContentSpecNode* leafNode(unsigned id) {
    QName* q = mkName(id);
    ContentSpecNode* n = new (gMM) ContentSpecNode(q, gMM);   // copies the QName
    delete q;
    return n;
}

static ContentSpecNode* pcdataLeaf() {
    static const XMLCh empty[] = { 0 };
    return new (gMM) ContentSpecNode(new (gMM) QName(empty, empty, XMLElementDecl::fgPCDataElemId, gMM), false, gMM);
}

static ContentSpecNode* mk(ContentSpecNode::NodeTypes t, ContentSpecNode* a, ContentSpecNode* b) {
    return new (gMM) ContentSpecNode(t, a, b, true, true, gMM);
}

// Polish notation
static ContentSpecNode* parseCM(const std::string& s, size_t& pos) {
    if (pos >= s.size()) return 0;
    char c = s[pos++];
    if (c >= '0' && c <= '9') return leafNode(c - '0');
    if (c == 's' || c == 'c') {
        ContentSpecNode* a = parseCM(s, pos); if (!a) return 0;
        ContentSpecNode* b = parseCM(s, pos); if (!b) { delete a; return 0; }
        return mk(c == 's' ? ContentSpecNode::Sequence : ContentSpecNode::Choice, a, b);
    }
    if (c == '?' || c == '*' || c == '+') {
        ContentSpecNode* a = parseCM(s, pos); if (!a) return 0;
        return mk(c == '?' ? ContentSpecNode::ZeroOrOne : c == '*' ? ContentSpecNode::ZeroOrMore : ContentSpecNode::OneOrMore, a, 0);
    }
    return 0;
}

// fills the element decl as DTDScanner::scanContentSpec would; false on syntax error
static bool fillDecl(DTDElementDecl& decl, const std::string& spec) {
    if (spec == "E") { decl.setModelType(DTDElementDecl::Empty); return true; }
    if (spec == "A") { decl.setModelType(DTDElementDecl::Any); return true; }
    if (spec == "N") {
        decl.setModelType(DTDElementDecl::Mixed_Simple);
        decl.setContentSpec(mk(ContentSpecNode::ZeroOrMore, pcdataLeaf(), 0));
        return true;
    }
    if (spec[0] == 'M') {
        decl.setModelType(DTDElementDecl::Mixed_Simple);
        for (size_t i = 1; i < spec.size(); i++) if (spec[i] < '0' || spec[i] > '9') return false;
        if (spec.size() == 1) { decl.setContentSpec(pcdataLeaf()); return true; }
        // scanMixed: Choice(PCDATA, a) ; then the right node is replaced by Choice(oldRight, next)
        ContentSpecNode* cur = mk(ContentSpecNode::Choice, pcdataLeaf(), leafNode(spec[1] - '0'));
        ContentSpecNode* head = cur;
        for (size_t i = 2; i < spec.size(); i++) {
            ContentSpecNode* oldRight = cur->orphanSecond();
            cur->setSecond(mk(ContentSpecNode::Choice, oldRight, leafNode(spec[i] - '0')));
            cur = cur->getSecond();
        }
        decl.setContentSpec(mk(ContentSpecNode::ZeroOrMore, head, 0));
        return true;
    }
    if (spec[0] == 'K') {
        size_t pos = 1;
        ContentSpecNode* n = parseCM(spec, pos);
        if (!n) return false;
        if (pos != spec.size()) { delete n; return false; }
        decl.setModelType(DTDElementDecl::Children);
        decl.setContentSpec(n);
        return true;
    }
    return false;
}

static std::string routeOf(DTDElementDecl& decl) {
    switch (decl.getModelType()) {
        case DTDElementDecl::Empty: return "empty";
        case DTDElementDecl::Any: return "any";
        default: break;
    }
    try {
        XMLContentModel* cm = decl.getContentModel();
        if (dynamic_cast<SimpleContentModel*>(cm)) return "simple";
        if (dynamic_cast<MixedContentModel*>(cm)) return "mixed";
        if (dynamic_cast<DFAContentModel*>(cm)) return "dfa";
        return "other";
    } catch (const XMLException& e) {
        return std::string("exc:") + hx::narrow(e.getType());
    }
}

// the child QNames are what ElemStack::addChild hands out: element QNames with the empty-namespace URI;
// one shared object per name (the content models only read them)
static QName* gPool[10];

// 0 = ok, 1 = fail(idx), 2 = exception
static int runCheck(DTDValidator* val, DTDElementDecl& decl, const std::vector<unsigned>& ids, XMLSize_t& idx, std::string& exc) {
    std::vector<QName*> ch;
    for (unsigned id : ids) ch.push_back(gPool[id]);
    QName* none = 0;
    idx = 0xFFFF;
    try {
        bool ok = val->checkContent(&decl, ch.empty() ? &none : ch.data(), ch.size(), &idx);
        return ok ? 0 : 1;
    } catch (const OutOfMemoryException&) { exc = "OutOfMemory"; return 2;
    } catch (const XMLException& e) { exc = hx::narrow(e.getType()); return 2;
    } catch (...) { exc = "FOREIGN-EXCEPTION"; return 2; }
}

static void enumDfs(DTDValidator* val, DTDElementDecl& decl, unsigned nsyms, unsigned left, std::vector<unsigned>& pre, std::string& out) {
    XMLSize_t idx; std::string exc;
    int r = runCheck(val, decl, pre, idx, exc);
    out += r == 0 ? '.' : r == 2 ? 'x' : (idx < 10 ? (char)('0' + idx) : '#');
    if (!left) return;
    for (unsigned s = 0; s < nsyms; s++) {
        pre.push_back(s);
        enumDfs(val, decl, nsyms, left - 1, pre, out);
        pre.pop_back();
    }
}

// ------------------------------------------------------------------------------------------------
// document tier
//   M  <hex document> <hex external subset | -> {<sysid suffix>=<hex>}    all 16 modes: {dom,sax} x {ig,dg} x {ns0,ns1} x {v1,v0}
//   MV <hex document> <hex external subset | ->     same, with the first messages of every mode (replay)
//   -> "<mode> v=<#error()> f=<#fatalError()> exc=<name|-> dump=<elements> ## <mode> ..."
//   dump: per element in document order  <name,attr=value[!]...|n>   (! = supplied by default, DOM only;
//         n = number of non-white-space characters directly in the element, entity references expanded)
//   The external subset is the system id "ext.dtd", served from memory by an entity resolver.
struct Counter : public ErrorHandler {
    int warn = 0, err = 0, fatal = 0;
    std::vector<std::string> msgs;
    void warning(const SAXParseException&) override { warn++; }
    void error(const SAXParseException& e) override { err++; if (msgs.size() < 6) msgs.push_back(hx::narrow(e.getMessage())); }
    void fatalError(const SAXParseException& e) override { fatal++; if (msgs.size() < 6) msgs.push_back("FATAL:" + hx::narrow(e.getMessage())); }
    void resetErrors() override {}
};

struct MemResolver : public EntityResolver {
    const std::vector<XMLByte>* ext = 0;
    const std::vector<std::pair<std::string, std::vector<XMLByte> > >* extra = 0;   // external parameter entities "<name>"
    int asked = 0;
    InputSource* resolveEntity(const XMLCh* const, const XMLCh* const systemId) override {
        std::string sid = hx::narrow(systemId);
        static const XMLByte nothing[1] = { 0 };
        if (extra) for (auto& kv : *extra) {
            const std::string& n = kv.first;
            if (sid.size() >= n.size() && sid.compare(sid.size() - n.size(), n.size(), n) == 0)
                return new MemBufInputSource(kv.second.empty() ? nothing : kv.second.data(), kv.second.size(), systemId, false);
        }
        if (ext && sid.size() >= 7 && sid.compare(sid.size() - 7, 7, "ext.dtd") == 0) {
            asked++;
            static const XMLByte none[1] = { 0 };
            return new MemBufInputSource(ext->empty() ? none : ext->data(), ext->size(), systemId, false);
        }
        return 0;
    }
};

static unsigned nonWs(const XMLCh* s) {
    unsigned n = 0;
    for (; s && *s; ++s) if (*s != 0x20 && *s != 0x9 && *s != 0xA && *s != 0xD) n++;
    return n;
}

static void dumpDom(DOMNode* n, std::string& out) {
    for (; n; n = n->getNextSibling()) {
        if (n->getNodeType() != DOMNode::ELEMENT_NODE) continue;
        out += "<" + hx::narrow(n->getNodeName());
        DOMNamedNodeMap* m = n->getAttributes();
        std::vector<std::string> as;
        for (XMLSize_t i = 0; m && i < m->getLength(); i++) {
            DOMAttr* a = (DOMAttr*)m->item(i);
            as.push_back(hx::narrow(a->getName()) + "=" + hx::narrow(a->getValue()) + (a->getSpecified() ? "" : "!"));
        }
        std::sort(as.begin(), as.end());
        for (auto& s : as) out += "," + s;
        unsigned txt = 0;
        for (DOMNode* c = n->getFirstChild(); c; c = c->getNextSibling())
            if (c->getNodeType() == DOMNode::TEXT_NODE || c->getNodeType() == DOMNode::CDATA_SECTION_NODE) txt += nonWs(c->getNodeValue());
        out += "|" + std::to_string(txt) + ">";
        dumpDom(n->getFirstChild(), out);
    }
}

struct SaxDump : public HandlerBase {
    std::vector<std::string> recs;          // "<name,attrs"
    std::vector<unsigned> txt;
    std::vector<size_t> stack;
    Counter* c;
    explicit SaxDump(Counter* cc) : c(cc) {}
    void startElement(const XMLCh* const name, AttributeList& attrs) override {
        std::string r = "<" + hx::narrow(name);
        std::vector<std::string> as;
        for (XMLSize_t i = 0; i < attrs.getLength(); i++) as.push_back(hx::narrow(attrs.getName(i)) + "=" + hx::narrow(attrs.getValue(i)));
        std::sort(as.begin(), as.end());
        for (auto& s : as) r += "," + s;
        stack.push_back(recs.size()); recs.push_back(r); txt.push_back(0);
    }
    void endElement(const XMLCh* const) override { if (!stack.empty()) stack.pop_back(); }
    void characters(const XMLCh* const chars, const XMLSize_t length) override {
        if (stack.empty()) return;
        for (XMLSize_t i = 0; i < length; i++) { XMLCh ch = chars[i]; if (ch != 0x20 && ch != 0x9 && ch != 0xA && ch != 0xD) txt[stack.back()]++; }
    }
    void warning(const SAXParseException& e) override { c->warning(e); }
    void error(const SAXParseException& e) override { c->error(e); }
    void fatalError(const SAXParseException& e) override { c->fatalError(e); }
    std::string dump() const { std::string o; for (size_t i = 0; i < recs.size(); i++) o += recs[i] + "|" + std::to_string(txt[i]) + ">"; return o; }
};

// The 8 parser objects ({dom,sax} x {ig,dg} x {ns0,ns1}) are created once and reused for every document, as an
// application would; validation is switched per parse.
struct ParserSet {
    XercesDOMParser* dom[2][2];
    SAXParser* sax[2][2];
    ParserSet() {
        for (int dg = 0; dg < 2; dg++) for (int ns = 0; ns < 2; ns++) {
            const XMLCh* scanner = dg ? XMLUni::fgDGXMLScanner : XMLUni::fgIGXMLScanner;
            XercesDOMParser* d = new XercesDOMParser();
            d->useScanner(scanner); d->setDoNamespaces(ns); d->setDoSchema(false); d->setLoadExternalDTD(true);
            d->setCreateEntityReferenceNodes(false);
            dom[dg][ns] = d;
            SAXParser* s = new SAXParser();
            s->useScanner(scanner); s->setDoNamespaces(ns); s->setDoSchema(false); s->setLoadExternalDTD(true);
            sax[dg][ns] = s;
        }
    }
    ~ParserSet() { for (int dg = 0; dg < 2; dg++) for (int ns = 0; ns < 2; ns++) { delete dom[dg][ns]; delete sax[dg][ns]; } }
};
static ParserSet* gParsers = 0;

static const std::vector<std::pair<std::string, std::vector<XMLByte> > >* gExtra = 0;

static std::string runMode(const std::vector<XMLByte>& doc, const std::vector<XMLByte>* ext, bool sax, bool dg, bool ns, bool validate, bool verbose) {
    Counter c;
    MemResolver res; res.ext = ext; res.extra = gExtra;
    std::string exc = "-", dump;
    try {
        MemBufInputSource src(doc.data(), doc.size(), "doc", false);
        if (sax) {
            SAXParser& p = *gParsers->sax[dg][ns];
            SaxDump h(&c);
            p.setDocumentHandler(&h);
            p.setErrorHandler(&h);
            p.setEntityResolver(&res);
            p.setValidationScheme(validate ? SAXParser::Val_Always : SAXParser::Val_Never);
            try { p.parse(src); }
            catch (const OutOfMemoryException&) { exc = "OutOfMemory"; }
            catch (const XMLException& e) { exc = "XMLException:" + hx::narrow(e.getType()); }
            catch (const SAXException&) { exc = "SAXException"; }
            catch (...) { exc = "FOREIGN-EXCEPTION"; }
            if (c.fatal == 0 && exc == "-") dump = h.dump();
            p.setDocumentHandler(0); p.setErrorHandler(0); p.setEntityResolver(0);
        } else {
            XercesDOMParser& p = *gParsers->dom[dg][ns];
            p.setErrorHandler(&c);
            p.setEntityResolver(&res);
            p.setValidationScheme(validate ? XercesDOMParser::Val_Always : XercesDOMParser::Val_Never);
            try { p.parse(src); }
            catch (const OutOfMemoryException&) { exc = "OutOfMemory"; }
            catch (const XMLException& e) { exc = "XMLException:" + hx::narrow(e.getType()); }
            catch (const DOMException& e) { exc = "DOMException:" + std::to_string((int)e.code); }
            catch (const SAXException&) { exc = "SAXException"; }
            catch (...) { exc = "FOREIGN-EXCEPTION"; }
            if (c.fatal == 0 && exc == "-" && p.getDocument()) dumpDom(p.getDocument()->getFirstChild(), dump);
            p.setErrorHandler(0); p.setEntityResolver(0);
            p.resetDocumentPool();
        }
    } catch (...) { exc = "FOREIGN-EXCEPTION-OUTER"; }
    std::string out = std::string(sax ? "sax" : "dom") + (dg ? "-dg" : "-ig") + (ns ? "-ns1" : "-ns0") + (validate ? "-v1" : "-v0")
        + " v=" + std::to_string(c.err) + " f=" + std::to_string(c.fatal) + " exc=" + exc + " dump=" + (dump.empty() ? "-" : dump);
    if (verbose) for (auto& m : c.msgs) out += " | " + m;
    return out;
}

static std::string runAllModes(const std::vector<uint32_t>& d, const std::string& extHex, bool verbose,
                               const std::vector<std::pair<std::string, std::vector<XMLByte> > >& extra) {
    gExtra = &extra;
    if (!gParsers) gParsers = new ParserSet();
    std::vector<XMLByte> doc(d.begin(), d.end());
    std::vector<XMLByte> ext;
    bool haveExt = extHex != "-";
    if (haveExt && extHex != "0") { auto e = hx::parseHexList(extHex); ext.assign(e.begin(), e.end()); }
    std::string out;
    for (int sax = 0; sax < 2; sax++) for (int dg = 0; dg < 2; dg++) for (int ns = 0; ns < 2; ns++) for (int v = 1; v >= 0; v--) {
        if (!out.empty()) out += " ## ";
        out += runMode(doc, haveExt ? &ext : 0, sax, dg, ns, v, verbose);
    }
    return out;
}

int main() {
    XMLPlatformUtils::Initialize();
    gMM = XMLPlatformUtils::fgMemoryManager;
    {
        DTDValidator* val = new DTDValidator();
        ScannerAccess parser(val);                 // the scanner adopts the validator and sets its scanner info
        gEmptyNs = parser.sc()->getEmptyNamespaceId();
        static const XMLCh rName[] = { 'r', 0 };
        for (unsigned k = 0; k < 10; k++) gPool[k] = mkName(k);
        std::string line;
        while (std::getline(std::cin, line)) {
            if (line.empty()) continue;
            auto f = hx::split(line);
            if ((f[0] == "V" && f.size() == 3) || (f[0] == "A" && f.size() == 4)) {
                DTDElementDecl decl(rName, gEmptyNs, DTDElementDecl::Any, gMM);
                if (f[1].empty() || !fillDecl(decl, f[1])) { puts("bad-op"); continue; }
                std::string route = routeOf(decl);
                if (f[0] == "V") {
                    std::vector<unsigned> ids;
                    bool bad = false;
                    if (f[2] != "-") for (char c : f[2]) { if (c < '0' || c > '9') bad = true; ids.push_back(c - '0'); }
                    if (bad) { puts("bad-op"); continue; }
                    XMLSize_t idx; std::string exc;
                    int r = runCheck(val, decl, ids, idx, exc);
                    std::string o = route + (r == 0 ? " ok" : r == 1 ? " fail " + std::to_string(idx) : " exc " + exc);
                    puts(o.c_str());
                } else {
                    unsigned nsyms = (unsigned)std::stoul(f[2]), maxlen = (unsigned)std::stoul(f[3]);
                    std::string out; std::vector<unsigned> pre;
                    enumDfs(val, decl, nsyms, maxlen, pre, out);
                    puts((route + " " + out).c_str());
                }
            } else if ((f[0] == "M" || f[0] == "MV") && f.size() >= 3) {
                // further fields: <system id suffix>=<hex>  (external parameter entities served from memory)
                std::vector<std::pair<std::string, std::vector<XMLByte> > > extra;
                for (size_t k = 3; k < f.size(); k++) {
                    size_t eq = f[k].find('=');
                    if (eq == std::string::npos) continue;
                    auto b = hx::parseHexList(f[k].substr(eq + 1) == "0" ? "-" : f[k].substr(eq + 1));
                    extra.push_back(std::make_pair(f[k].substr(0, eq), std::vector<XMLByte>(b.begin(), b.end())));
                }
                puts(runAllModes(hx::parseHexList(f[1]), f[2], f[0] == "MV", extra).c_str());
            } else puts("bad-op");
            fflush(stdout);
        }
        for (unsigned k = 0; k < 10; k++) delete gPool[k];
        delete gParsers; gParsers = 0;
    }
    XMLPlatformUtils::Terminate();
    return 0;
}
