// C08 harness: XML Schema content models and schema loading / instance validation on the REAL library.
//
// TIER 1 -- content models driven directly.  A schema style ContentSpecNode tree is built the way
// TraverseSchema::traverseAny / traverseChoiceSequence / traverseAll / checkMinMax build it (Leaf / Any* nodes,
// binary Sequence / Choice / All nodes, setMinOccurs / setMaxOccurs on the particle's node), put into a real
// ComplexTypeInfo (content type Children, the type adopts the node) and the real ComplexTypeInfo::getContentModel()
// is called (makeContentModel -> convertContentSpecTree -> expandContentModel -> Simple / All / DFA selection);
// then XMLContentModel::validateContent is called on child QName arrays.
//
//   spec (one token, prefix notation):
//     particle := occ? term               occ := '{' min ',' (max | 'u') '}'       (absent = {1,1}; u = unbounded = -1)
//     term := [efgh]<digit>               element leaf, local name "e3"; e -> urn:a, f -> urn:b, g -> no namespace, h -> urn:c
//           | 'w' 'a' <pc>                ##any                (Any / Any_Lax / Any_Skip, uri = empty namespace id)
//           | 'w' 'o' <ns> <pc>           ##other = not <ns>   (Any_Other*, uri = id of <ns>)
//           | 'w' 'n' <ns> <pc>           one namespace        (Any_NS*, uri = id of <ns>)
//           | 's' p p | 'c' p p | 'a' p p binary Sequence / Choice / All
//           | 'S' p | 'C' p | 'L' p       Sequence / Choice / All with a single child (second == null)
//           | 'q' p p | 'd' p p           (extension) binary ModelGroupSequence / ModelGroupChoice, the type TraverseSchema
//           | 'Q' p   | 'D' p                         gives to the OUTERMOST node of an xs:sequence / xs:choice
//     <ns> := a | b | c | g               <pc> := s (strict) | l (lax) | k (skip)
//   V <spec> <syms|->                -> "<route> ok" | "<route> fail <i>" | "<route> exc <name>"       syms = "e0,f1,g0"
//   A <spec> <alphabet> <maxlen>     -> "<route> <one char per sequence, DFS pre-order: '.' ok, digit/# failing index, x exception>"
//   route = simple | all | dfa | mixed | other | none | exc:<type>
//
// TIER 2 -- schema loading and instance validation under 8 configurations
//   c = bit0 scanner (0 IGXMLScanner, 1 SGXMLScanner) | bit1 API (0 XercesDOMParser, 1 SAX2XMLReaderImpl) | bit2 full checking
//   S <n> <sysid_1>=<hex_1> ... <sysid_n>=<hex_n>   -> "S c0=w<W>,e<E>,f<F>:<codes> c1=... c7=..."   (or c<k>=exc:<name>)
//   SV ...                                         -> same + " || c0: <msgs> || c4: <msgs>"
//   I <hex>                                        -> "I c0=e<E>,f<F>:<codes> D=<dump> | c1== | ..."
//   IV <hex>                                       -> same + " || " + first 6 messages of configuration 0
//                                                     (+ " || c<k>: " + messages of the first configuration that differs from c0)
//   IU <hex>                                       -> as I, without the "skip:nomodel" guard (see cmdI)
//   codes: sorted '+'-joined distinct ids of error()/fatalError() reports: V<code> validity domain, E<code> XML error
//   domain, X<code> exception domain, O<code> other; '-' if none.
#include "hx_common.hpp"
#include <algorithm>
#include <map>
#include <set>
#include <memory>
#include <xercesc/util/QName.hpp>
#include <xercesc/util/XMLUni.hpp>
#include <xercesc/util/RuntimeException.hpp>
#include <xercesc/util/OutOfMemoryException.hpp>
#include <xercesc/util/XMLEntityResolver.hpp>
#include <xercesc/util/XMLResourceIdentifier.hpp>
#include <xercesc/framework/XMLValidator.hpp>
#include <xercesc/framework/XMLContentModel.hpp>
#include <xercesc/framework/XMLGrammarPoolImpl.hpp>
#include <xercesc/framework/MemBufInputSource.hpp>
#include <xercesc/framework/XMLErrorReporter.hpp>
#include <xercesc/framework/psvi/PSVIHandler.hpp>
#include <xercesc/framework/psvi/PSVIElement.hpp>
#include <xercesc/framework/psvi/PSVIItem.hpp>
#include <xercesc/framework/psvi/XSTypeDefinition.hpp>
#include <xercesc/framework/psvi/XSSimpleTypeDefinition.hpp>
#include <xercesc/parsers/XercesDOMParser.hpp>
#include <xercesc/parsers/SAX2XMLReaderImpl.hpp>
#include <xercesc/sax/ErrorHandler.hpp>
#include <xercesc/sax/SAXParseException.hpp>
#include <xercesc/sax2/DefaultHandler.hpp>
#include <xercesc/sax2/Attributes.hpp>
#include <xercesc/dom/DOM.hpp>
#include <xercesc/dom/DOMPSVITypeInfo.hpp>
#include <xercesc/validators/common/Grammar.hpp>
#include <xercesc/validators/common/ContentSpecNode.hpp>
#include <xercesc/validators/common/DFAContentModel.hpp>
#include <xercesc/validators/common/SimpleContentModel.hpp>
#include <xercesc/validators/common/MixedContentModel.hpp>
#include <xercesc/validators/common/AllContentModel.hpp>
#include <xercesc/validators/schema/SchemaValidator.hpp>
#include <xercesc/validators/schema/SchemaElementDecl.hpp>
#include <xercesc/validators/schema/SchemaSymbols.hpp>
#include <xercesc/validators/schema/ComplexTypeInfo.hpp>
#include <xercesc/validators/schema/SchemaGrammar.hpp>
#include <xercesc/validators/schema/SubstitutionGroupComparator.hpp>
#include <xercesc/validators/common/GrammarResolver.hpp>
#include <xercesc/framework/XMLSchemaDescription.hpp>
#include <xercesc/internal/XMLScanner.hpp>

static MemoryManager* gMM = 0;

// ================================================================================================
// TIER 1
// ================================================================================================
static unsigned int gEmptyNs = 0, gNsA = 0, gNsB = 0, gNsC = 0;

struct ScannerAccess : public XercesDOMParser {
    explicit ScannerAccess(XMLValidator* v) : XercesDOMParser(v) {}
    XMLScanner* sc() const { return getScanner(); }
};

// element letter -> namespace id
static bool letterNs(char c, unsigned int& id) {
    switch (c) {
        case 'e': id = gNsA; return true;
        case 'f': id = gNsB; return true;
        case 'g': id = gEmptyNs; return true;
        case 'h': id = gNsC; return true;
        default: return false;
    }
}
// <ns> of a wildcard
static bool wildNs(char c, unsigned int& id) {
    switch (c) {
        case 'a': id = gNsA; return true;
        case 'b': id = gNsB; return true;
        case 'c': id = gNsC; return true;
        case 'g': id = gEmptyNs; return true;
        default: return false;
    }
}

static QName* mkName(char letter, unsigned digit) {
    unsigned int uri = 0;
    letterNs(letter, uri);
    XMLCh local[3] = { (XMLCh)letter, (XMLCh)('0' + digit), 0 };
    return new (gMM) QName(XMLUni::fgZeroLenString, local, uri, gMM);
}

static ContentSpecNode* leafNode(char letter, unsigned digit) {
    // the state ContentSpecNode(SchemaElementDecl*) produces: a copy of the declaration's QName, Leaf, {1,1}
    QName* q = mkName(letter, digit);
    ContentSpecNode* n = new (gMM) ContentSpecNode(q, gMM);   // copies the QName
    delete q;
    return n;
}

static ContentSpecNode* wildNode(ContentSpecNode::NodeTypes t, unsigned int uri) {
    // exactly as TraverseSchema::traverseAny
    ContentSpecNode* n = new (gMM) ContentSpecNode(
        new (gMM) QName(XMLUni::fgZeroLenString, XMLUni::fgZeroLenString, uri, gMM), false, gMM);
    n->setType(t);
    return n;
}

static ContentSpecNode* parseParticle(const std::string& s, size_t& pos, int depth) {
    if (depth > 400 || pos >= s.size()) return 0;
    bool hasOcc = false; int mn = 1, mx = 1;
    if (s[pos] == '{') {
        pos++;
        size_t st = pos; long v = 0;
        while (pos < s.size() && s[pos] >= '0' && s[pos] <= '9' && pos - st < 9) v = v * 10 + (s[pos++] - '0');
        if (pos == st || pos >= s.size() || s[pos] != ',') return 0;
        mn = (int)v; pos++;
        if (pos < s.size() && s[pos] == 'u') { mx = SchemaSymbols::XSD_UNBOUNDED; pos++; }
        else {
            st = pos; v = 0;
            while (pos < s.size() && s[pos] >= '0' && s[pos] <= '9' && pos - st < 9) v = v * 10 + (s[pos++] - '0');
            if (pos == st) return 0;
            mx = (int)v;
        }
        if (pos >= s.size() || s[pos] != '}') return 0;
        pos++;
        hasOcc = true;
        if (pos >= s.size()) return 0;
    }
    char c = s[pos++];
    ContentSpecNode* n = 0;
    unsigned int uri = 0;
    if (letterNs(c, uri)) {
        if (pos >= s.size() || s[pos] < '0' || s[pos] > '9') return 0;
        n = leafNode(c, (unsigned)(s[pos++] - '0'));
    }
    else if (c == 'w') {
        if (pos >= s.size()) return 0;
        char kind = s[pos++];
        int base;
        if (kind == 'a') { base = ContentSpecNode::Any; uri = gEmptyNs; }
        else if (kind == 'o' || kind == 'n') {
            base = kind == 'o' ? ContentSpecNode::Any_Other : ContentSpecNode::Any_NS;
            if (pos >= s.size() || !wildNs(s[pos++], uri)) return 0;
        }
        else return 0;
        if (pos >= s.size()) return 0;
        char pc = s[pos++];
        int add = pc == 's' ? 0 : pc == 'l' ? 16 : pc == 'k' ? 32 : -1;   // Any_Lax = 16 + Any, Any_Skip = 32 + Any ...
        if (add < 0) return 0;
        n = wildNode((ContentSpecNode::NodeTypes)(base + add), uri);
    }
    else if (c == 's' || c == 'c' || c == 'a' || c == 'q' || c == 'd') {
        ContentSpecNode* a = parseParticle(s, pos, depth + 1); if (!a) return 0;
        ContentSpecNode* b = parseParticle(s, pos, depth + 1); if (!b) { delete a; return 0; }
        ContentSpecNode::NodeTypes t = c == 's' ? ContentSpecNode::Sequence : c == 'c' ? ContentSpecNode::Choice
            : c == 'a' ? ContentSpecNode::All : c == 'q' ? ContentSpecNode::ModelGroupSequence : ContentSpecNode::ModelGroupChoice;
        n = new (gMM) ContentSpecNode(t, a, b, true, true, gMM);
    }
    else if (c == 'S' || c == 'C' || c == 'L' || c == 'Q' || c == 'D') {
        ContentSpecNode* a = parseParticle(s, pos, depth + 1); if (!a) return 0;
        ContentSpecNode::NodeTypes t = c == 'S' ? ContentSpecNode::Sequence : c == 'C' ? ContentSpecNode::Choice
            : c == 'L' ? ContentSpecNode::All : c == 'Q' ? ContentSpecNode::ModelGroupSequence : ContentSpecNode::ModelGroupChoice;
        n = new (gMM) ContentSpecNode(t, a, 0, true, true, gMM);
    }
    else return 0;
    if (hasOcc) { n->setMinOccurs(mn); n->setMaxOccurs(mx); }   // TraverseSchema::checkMinMax
    return n;
}

struct Sym { char letter; unsigned digit; };
static QName* gPool[4][10];
static int letterIdx(char c) { return c == 'e' ? 0 : c == 'f' ? 1 : c == 'g' ? 2 : c == 'h' ? 3 : -1; }

static bool parseSyms(const std::string& s, std::vector<Sym>& out, bool allowEmpty) {
    if (s == "-") return allowEmpty;
    if (s.empty()) return false;
    for (auto& t : hx::split(s, ',')) {
        if (t.size() != 2 || letterIdx(t[0]) < 0 || t[1] < '0' || t[1] > '9') return false;
        out.push_back(Sym{ t[0], (unsigned)(t[1] - '0') });
    }
    return true;
}

// 0 = ok, 1 = fail(idx), 2 = exception
static int runCheck(XMLContentModel* cm, const std::vector<Sym>& syms, XMLSize_t& idx, std::string& exc) {
    if (!cm) { exc = "NoContentModel"; return 2; }
    std::vector<QName*> ch;
    for (auto& s : syms) ch.push_back(gPool[letterIdx(s.letter)][s.digit]);
    QName* none = 0;
    idx = 0xFFFF;
    try {
        bool ok = cm->validateContent(ch.empty() ? &none : ch.data(), ch.size(), gEmptyNs, &idx, gMM);
        return ok ? 0 : 1;
    } catch (const OutOfMemoryException&) { exc = "OutOfMemory"; return 2;
    } catch (const XMLException& e) { exc = hx::narrow(e.getType()); return 2;
    } catch (...) { exc = "FOREIGN-EXCEPTION"; return 2; }
}

static void enumDfs(XMLContentModel* cm, const std::vector<Sym>& alpha, unsigned left, std::vector<Sym>& pre, std::string& out) {
    XMLSize_t idx; std::string exc;
    int r = runCheck(cm, pre, idx, exc);
    out += r == 0 ? '.' : r == 2 ? 'x' : (idx < 10 ? (char)('0' + idx) : '#');
    if (!left) return;
    for (auto& s : alpha) {
        pre.push_back(s);
        enumDfs(cm, alpha, left - 1, pre, out);
        pre.pop_back();
    }
}

static std::string tier1(const std::vector<std::string>& f) {
    size_t pos = 0;
    if (f[1].empty()) return "bad-op";
    std::vector<Sym> syms;
    unsigned maxlen = 0;
    if (f[0] == "V") { if (!parseSyms(f[2], syms, true)) return "bad-op"; }
    else {
        if (!parseSyms(f[2], syms, false)) return "bad-op";
        if (f[3].empty() || f[3].size() > 2) return "bad-op";
        for (char c : f[3]) { if (c < '0' || c > '9') return "bad-op"; maxlen = maxlen * 10 + (c - '0'); }
        // bound the enumeration
        double total = 0, p = 1;
        for (unsigned i = 0; i <= maxlen; i++) { total += p; p *= (double)syms.size(); }
        if (total > 5e6) return "bad-op";
    }
    ContentSpecNode* n = parseParticle(f[1], pos, 0);
    if (!n) return "bad-op";
    if (pos != f[1].size()) { delete n; return "bad-op"; }

    ComplexTypeInfo* cti = new (gMM) ComplexTypeInfo(gMM);
    cti->setContentType(SchemaElementDecl::Children);
    cti->setAdoptContentSpec(true);
    cti->setContentSpec(n);                                  // adopted
    std::string route;
    XMLContentModel* cm = 0;
    try {
        cm = cti->getContentModel();
        if (!cm) route = "none";
        else if (dynamic_cast<SimpleContentModel*>(cm)) route = "simple";
        else if (dynamic_cast<AllContentModel*>(cm)) route = "all";
        else if (dynamic_cast<DFAContentModel*>(cm)) route = "dfa";
        else if (dynamic_cast<MixedContentModel*>(cm)) route = "mixed";
        else route = "other";
    } catch (const OutOfMemoryException&) { route = "exc:OutOfMemory"; cm = 0;
    } catch (const XMLException& e) { route = "exc:" + hx::narrow(e.getType()); cm = 0;
    } catch (...) { route = "exc:FOREIGN-EXCEPTION"; cm = 0; }

    std::string out;
    if (f[0] == "V") {
        XMLSize_t idx; std::string exc;
        int r = runCheck(cm, syms, idx, exc);
        if (!cm && route.compare(0, 4, "exc:") == 0) exc = route.substr(4);
        out = route + (r == 0 ? " ok" : r == 1 ? " fail " + std::to_string(idx) : " exc " + exc);
    } else {
        std::string res; std::vector<Sym> pre;
        enumDfs(cm, syms, maxlen, pre, res);
        out = route + " " + res;
    }
    delete cti;
    return out;
}

// ================================================================================================
// TIER 1b -- SubstitutionGroupComparator::isEquivalentTo on declared components
// ================================================================================================
//   Q <nT> <type>*nT <nE> <elem>*nE
//     <type> := <base index|->:<e|r>:<xy>                 derivedBy, block = extension restriction (0/1)
//     <elem> := <ns 1|2>:<type index>:<head index|->:<xyz> block = substitution extension restriction (0/1)
//   Real SchemaGrammars (urn:a, urn:b) in a real GrammarResolver hold real global SchemaElementDecls "q<k>" with real
//   ComplexTypeInfo chains (setBaseComplexTypeInfo / setDerivedBy / setBlockSet, setSubstitutionGroupElem) -- the state
//   TraverseSchema leaves behind -- and the real comparator is asked for every ordered pair (member, exemplar).
//   -> one char per pair, row-major in the member: '1' equivalent, '0' not, 'x' exception
static std::vector<std::string> splitColon(const std::string& s) {
    std::vector<std::string> out; std::string cur;
    for (char c : s) { if (c == ':') { out.push_back(cur); cur.clear(); } else cur += c; }
    out.push_back(cur);
    return out;
}
static bool toIdx(const std::string& s, long& v) {
    if (s == "-") { v = -1; return true; }
    if (s.empty() || s.size() > 3) return false;
    v = 0;
    for (char c : s) { if (c < '0' || c > '9') return false; v = v * 10 + (c - '0'); }
    return true;
}
static std::string cmdQ(const std::vector<std::string>& f) {
    size_t p = 1;
    long nT, nE;
    if (p >= f.size() || !toIdx(f[p++], nT) || nT < 0 || nT > 40) return "bad-op";
    if (p + nT >= f.size()) return "bad-op";
    struct TD { long base; int deriv; int block; };
    struct ED { long ns, type, head; int block; };
    std::vector<TD> tds; std::vector<ED> eds;
    for (long i = 0; i < nT; i++) {
        auto w = splitColon(f[p++]);
        TD t;
        if (w.size() != 3 || !toIdx(w[0], t.base) || t.base >= i || w[2].size() != 2) return "bad-op";   // acyclic
        if (w[1] == "e") t.deriv = SchemaSymbols::XSD_EXTENSION; else if (w[1] == "r") t.deriv = SchemaSymbols::XSD_RESTRICTION; else return "bad-op";
        t.block = (w[2][0] == '1' ? SchemaSymbols::XSD_EXTENSION : 0) | (w[2][1] == '1' ? SchemaSymbols::XSD_RESTRICTION : 0);
        tds.push_back(t);
    }
    if (!toIdx(f[p++], nE) || nE < 0 || nE > 40 || p + nE != f.size()) return "bad-op";
    for (long k = 0; k < nE; k++) {
        auto w = splitColon(f[p++]);
        ED e;
        if (w.size() != 4 || !toIdx(w[0], e.ns) || (e.ns != 1 && e.ns != 2) || !toIdx(w[1], e.type) || e.type < 0 || e.type >= nT
            || !toIdx(w[2], e.head) || e.head >= k || w[3].size() != 3) return "bad-op";                    // acyclic
        e.block = (w[3][0] == '1' ? SchemaSymbols::XSD_SUBSTITUTION : 0) | (w[3][1] == '1' ? SchemaSymbols::XSD_EXTENSION : 0)
                | (w[3][2] == '1' ? SchemaSymbols::XSD_RESTRICTION : 0);
        eds.push_back(e);
    }
    static const XMLCh uA[] = { 'u','r','n',':','a',0 };
    static const XMLCh uB[] = { 'u','r','n',':','b',0 };
    std::string out;
    std::vector<ComplexTypeInfo*> ctis;
    {
        GrammarResolver resolver(0, gMM);
        XMLStringPool* pool = resolver.getStringPool();
        const XMLCh* uris[3] = { 0, uA, uB };
        unsigned int ids[3] = { 0, pool->addOrFind(uA), pool->addOrFind(uB) };
        SchemaGrammar* gr[3] = { 0, 0, 0 };
        for (int n = 1; n <= 2; n++) {
            gr[n] = new (gMM) SchemaGrammar(gMM);
            gr[n]->setTargetNamespace(uris[n]);
            ((XMLSchemaDescription*)gr[n]->getGrammarDescription())->setTargetNamespace(uris[n]);
            resolver.putGrammar(gr[n]);                      // adopted (grammar bucket)
        }
        for (long i = 0; i < nT; i++) {
            ComplexTypeInfo* c = new (gMM) ComplexTypeInfo(gMM);
            c->setDerivedBy(tds[i].deriv);
            c->setBlockSet(tds[i].block);
            ctis.push_back(c);
        }
        for (long i = 0; i < nT; i++) if (tds[i].base >= 0) ctis[i]->setBaseComplexTypeInfo(ctis[tds[i].base]);
        std::vector<SchemaElementDecl*> decls;
        std::vector<QName*> names;
        for (long k = 0; k < nE; k++) {
            std::string local = "q" + std::to_string(k);
            std::basic_string<XMLCh> l16(local.begin(), local.end());
            SchemaElementDecl* d = (SchemaElementDecl*)gr[eds[k].ns]->putElemDecl(ids[eds[k].ns], l16.c_str(), XMLUni::fgZeroLenString,
                                                                                    l16.c_str(), Grammar::TOP_LEVEL_SCOPE);
            d->setComplexTypeInfo(ctis[eds[k].type]);
            d->setBlockSet(eds[k].block);
            d->setModelType(SchemaElementDecl::Children);
            decls.push_back(d);
            names.push_back(new (gMM) QName(XMLUni::fgZeroLenString, l16.c_str(), ids[eds[k].ns], gMM));
        }
        for (long k = 0; k < nE; k++) if (eds[k].head >= 0) decls[k]->setSubstitutionGroupElem(decls[eds[k].head]);
        SubstitutionGroupComparator cmp(&resolver, pool);
        for (long d = 0; d < nE; d++)
            for (long c = 0; c < nE; c++) {
                char r;
                try { r = cmp.isEquivalentTo(names[d], names[c]) ? '1' : '0'; } catch (...) { r = 'x'; }
                out += r;
            }
        for (QName* q : names) delete q;
    }
    for (ComplexTypeInfo* c : ctis) delete c;
    return out.empty() ? "-" : out;
}

// ================================================================================================
// TIER 2
// ================================================================================================
struct Rec {
    int warn = 0, err = 0, fatal = 0;
    std::set<std::string> codes;
    std::vector<std::string> msgs;
    void reset() { warn = err = fatal = 0; codes.clear(); msgs.clear(); }
    void add(unsigned int code, const XMLCh* dom, XMLErrorReporter::ErrTypes type, const XMLCh* text) {
        if (type == XMLErrorReporter::ErrType_Warning) { warn++; return; }
        bool isFatal = type >= XMLErrorReporter::ErrType_Fatal;
        if (isFatal) fatal++; else err++;
        char k = XMLString::equals(dom, XMLUni::fgValidityDomain) ? 'V'
               : XMLString::equals(dom, XMLUni::fgXMLErrDomain) ? 'E'
               : XMLString::equals(dom, XMLUni::fgExceptDomain) ? 'X' : 'O';
        codes.insert(std::string(1, k) + std::to_string(code));
        if (msgs.size() < 6) {
            std::string m = hx::narrow(text);
            for (char& c : m) if (c == '\n' || c == '\r' || c == '\t') c = ' ';
            msgs.push_back((isFatal ? "FATAL:" : "") + m);
        }
    }
    std::string codeStr() const {
        if (codes.empty()) return "-";
        std::string s;
        for (auto& c : codes) { if (!s.empty()) s += "+"; s += c; }
        return s;
    }
    std::string msgStr() const {
        std::string s;
        for (size_t i = 0; i < msgs.size(); i++) { if (i) s += " | "; s += msgs[i]; }
        return s.empty() ? "-" : s;
    }
};

struct NullEH : public ErrorHandler {
    void warning(const SAXParseException&) override {}
    void error(const SAXParseException&) override {}
    void fatalError(const SAXParseException&) override {}
    void resetErrors() override {}
};
static NullEH gNullEH;

struct DomP : public XercesDOMParser {
    Rec rec;
    DomP(MemoryManager* mm, XMLGrammarPool* pool) : XercesDOMParser(0, mm, pool) {}
    void error(const unsigned int errCode, const XMLCh* const errDomain, const XMLErrorReporter::ErrTypes type,
               const XMLCh* const errorText, const XMLCh* const systemId, const XMLCh* const publicId,
               const XMLFileLoc lineNum, const XMLFileLoc colNum) override {
        rec.add(errCode, errDomain, type, errorText);
        XercesDOMParser::error(errCode, errDomain, type, errorText, systemId, publicId, lineNum, colNum);
    }
};

struct SaxP : public SAX2XMLReaderImpl {
    Rec rec;
    SaxP(MemoryManager* mm, XMLGrammarPool* pool) : SAX2XMLReaderImpl(mm, pool) {}
    void error(const unsigned int errCode, const XMLCh* const errDomain, const XMLErrorReporter::ErrTypes type,
               const XMLCh* const errorText, const XMLCh* const systemId, const XMLCh* const publicId,
               const XMLFileLoc lineNum, const XMLFileLoc colNum) override {
        rec.add(errCode, errDomain, type, errorText);
        SAX2XMLReaderImpl::error(errCode, errDomain, type, errorText, systemId, publicId, lineNum, colNum);
    }
};

// ---- schema set served from memory --------------------------------------------------------------
struct SchemaDoc { std::string sysid; std::vector<XMLByte> bytes; };
static std::vector<SchemaDoc> gSchemas;

static std::string lastSeg(const std::string& s) {
    size_t p = s.find_last_of('/');
    return p == std::string::npos ? s : s.substr(p + 1);
}

static const XMLByte gEmptyBuf[1] = { 0 };

struct Resolver : public XMLEntityResolver {
    InputSource* resolveEntity(XMLResourceIdentifier* ri) override {
        if (!ri || !ri->getSystemId()) return 0;
        std::string want = hx::narrow(ri->getSystemId());
        const SchemaDoc* hit = 0;
        for (auto& d : gSchemas) if (d.sysid == want) { hit = &d; break; }
        if (!hit) {
            std::string seg = lastSeg(want);
            if (!seg.empty())
                for (auto& d : gSchemas) if (d.sysid == seg || lastSeg(d.sysid) == seg) { hit = &d; break; }
        }
        if (!hit) return 0;
        return new (gMM) MemBufInputSource(hit->bytes.empty() ? gEmptyBuf : hit->bytes.data(), hit->bytes.size(),
                                           hit->sysid.c_str(), false, gMM);
    }
};
static Resolver gResolver;

// ---- dump helpers --------------------------------------------------------------------------------
static const char* XSI_NS = "http://www.w3.org/2001/XMLSchema-instance";

static bool isWs(char c) { return c == ' ' || c == '\t' || c == '\n' || c == '\r'; }

// escape so that the observation stays on one line
static std::string escAttr(const std::string& s) {
    std::string r;
    for (char c : s) { if (c == '\n') r += "\\n"; else if (c == '\r') r += "\\r"; else if (c == '\t') r += "\\t"; else r += c; }
    return r;
}
// character data arrives as UTF-16; trim XML whitespace, inner newlines -> spaces
static std::string normText(const std::basic_string<XMLCh>& t) {
    size_t a = 0, b = t.size();
    while (a < b && t[a] < 0x80 && isWs((char)t[a])) a++;
    while (b > a && t[b - 1] < 0x80 && isWs((char)t[b - 1])) b--;
    std::basic_string<XMLCh> m = t.substr(a, b - a);
    std::string r;
    XMLCh one[2] = { 0, 0 };
    for (XMLCh c : m) {
        if (c == '\n' || c == '\r') r += ' ';
        else if (c == '\t') r += "\\t";
        else { one[0] = c; r += hx::narrow(one); }
    }
    return r;
}

static std::string typeStr(const XMLCh* ns, const XMLCh* name, bool anon) {
    return " T={" + hx::narrow(ns) + "}" + (anon ? std::string("#anon") : hx::narrow(name));
}

// ---- SAX2 side ----------------------------------------------------------------------------------
struct SaxDump : public DefaultHandler, public PSVIHandler {
    struct Frame { size_t piece; std::string head; std::string attrs; std::string type; std::basic_string<XMLCh> text; };
    std::vector<std::string> pieces;
    std::vector<Frame> stack;

    void reset() { pieces.clear(); stack.clear(); }
    std::string result() const { std::string s; for (auto& p : pieces) s += p; return s; }

    void startElement(const XMLCh* const uri, const XMLCh* const localname, const XMLCh* const, const Attributes& attrs) override {
        Frame fr;
        fr.piece = pieces.size();
        pieces.push_back("");
        fr.head = "<{" + hx::narrow(uri) + "}" + hx::narrow(localname);
        fr.type = " T={}-";
        std::vector<std::string> as;
        for (XMLSize_t i = 0; i < attrs.getLength(); i++) {
            std::string q = hx::narrow(attrs.getQName(i));
            if (q == "xmlns" || q.compare(0, 6, "xmlns:") == 0) continue;
            std::string ns = hx::narrow(attrs.getURI(i));
            if (ns == XSI_NS) continue;
            as.push_back(" {" + ns + "}" + hx::narrow(attrs.getLocalName(i)) + "=" + escAttr(hx::narrow(attrs.getValue(i))));
        }
        std::sort(as.begin(), as.end());
        std::string tail;
        for (auto& a : as) tail += a;
        fr.attrs = tail;
        stack.push_back(fr);
    }
    void endElement(const XMLCh* const, const XMLCh* const, const XMLCh* const) override {
        if (stack.empty()) return;
        Frame& fr = stack.back();
        std::string h = fr.head + fr.type + fr.attrs + " #" + normText(fr.text) + ">";
        pieces[fr.piece] = h;
        pieces.push_back("</>");
        stack.pop_back();
    }
    void characters(const XMLCh* const chars, const XMLSize_t length) override {
        if (!stack.empty()) stack.back().text.append(chars, length);
    }
    void ignorableWhitespace(const XMLCh* const, const XMLSize_t) override {}

    // PSVIHandler: mirrors what AbstractDOMParser::handleElementPSVI + DOMTypeInfoImpl::getTypeName deliver
    void handleElementPSVI(const XMLCh* const, const XMLCh* const, PSVIElement* info) override {
        if (stack.empty() || !info) return;
        Frame& fr = stack.back();
        XSTypeDefinition* t = info->getTypeDefinition();
        XSSimpleTypeDefinition* mt = info->getMemberTypeDefinition();
        int validity = (int)info->getValidity();
        if (validity != PSVIItem::VALIDITY_NOTKNOWN && mt && mt->getName())
            fr.type = typeStr(mt->getNamespace(), mt->getName(), mt->getAnonymous());
        else if (t) {
            if (t->getName()) fr.type = typeStr(t->getNamespace(), t->getName(), t->getAnonymous());
            else if (t->getAnonymous()) fr.type = typeStr(t->getNamespace(), 0, true);
        }
        else if (validity == PSVIItem::VALIDITY_VALID)
            fr.type = typeStr(SchemaSymbols::fgURI_SCHEMAFORSCHEMA, SchemaSymbols::fgATTVAL_ANYTYPE, false);
    }
    void handleAttributesPSVI(const XMLCh* const, const XMLCh* const, PSVIAttributeList*) override {}
};

// ---- DOM side -----------------------------------------------------------------------------------
static std::string domHead(DOMElement* el) {
    std::string h = "<{" + hx::narrow(el->getNamespaceURI()) + "}" + hx::narrow(el->getLocalName() ? el->getLocalName() : el->getNodeName());
    std::string type = " T={}-";
    const DOMTypeInfo* ti = el->getSchemaTypeInfo();
    if (ti && ti->getTypeName()) {
        bool anon = false;
        DOMPSVITypeInfo* pi = (DOMPSVITypeInfo*)el->getFeature(XMLUni::fgXercescInterfacePSVITypeInfo, 0);
        if (pi) {
            bool useMember = pi->getNumericProperty(DOMPSVITypeInfo::PSVI_Validity) != 0
                          && pi->getStringProperty(DOMPSVITypeInfo::PSVI_Member_Type_Definition_Name) != 0;
            anon = pi->getNumericProperty(useMember ? DOMPSVITypeInfo::PSVI_Member_Type_Definition_Anonymous
                                                    : DOMPSVITypeInfo::PSVI_Type_Definition_Anonymous) != 0;
        }
        type = typeStr(ti->getTypeNamespace(), ti->getTypeName(), anon);
    }
    h += type;
    std::vector<std::string> as;
    DOMNamedNodeMap* m = el->getAttributes();
    for (XMLSize_t i = 0; m && i < m->getLength(); i++) {
        DOMAttr* a = (DOMAttr*)m->item(i);
        std::string q = hx::narrow(a->getName());
        if (q == "xmlns" || q.compare(0, 6, "xmlns:") == 0) continue;
        std::string ns = hx::narrow(a->getNamespaceURI());
        if (ns == XSI_NS) continue;
        const XMLCh* ln = a->getLocalName() ? a->getLocalName() : a->getName();
        as.push_back(" {" + ns + "}" + hx::narrow(ln) + "=" + escAttr(hx::narrow(a->getValue())) + (a->getSpecified() ? "" : "!"));
    }
    std::sort(as.begin(), as.end());
    for (auto& s : as) h += s;
    std::basic_string<XMLCh> text;
    for (DOMNode* c = el->getFirstChild(); c; c = c->getNextSibling()) {
        DOMNode::NodeType nt = c->getNodeType();
        if (nt != DOMNode::TEXT_NODE && nt != DOMNode::CDATA_SECTION_NODE) continue;
        if (((DOMText*)c)->isIgnorableWhitespace()) continue;
        const XMLCh* d = c->getNodeValue();
        if (d) text.append(d);
    }
    h += " #" + normText(text) + ">";
    return h;
}

static std::string domDump(DOMDocument* doc) {
    std::string out;
    DOMNode* n = doc ? doc->getDocumentElement() : 0;
    DOMNode* root = n;
    while (n) {
        // enter
        if (n->getNodeType() == DOMNode::ELEMENT_NODE) out += domHead((DOMElement*)n);
        DOMNode* next = 0;
        if (n->getNodeType() == DOMNode::ELEMENT_NODE) {
            for (DOMNode* c = n->getFirstChild(); c; c = c->getNextSibling())
                if (c->getNodeType() == DOMNode::ELEMENT_NODE) { next = c; break; }
        }
        if (next) { n = next; continue; }
        // leave, go to next element sibling or climb
        for (;;) {
            if (n->getNodeType() == DOMNode::ELEMENT_NODE) out += "</>";
            if (n == root) { n = 0; break; }
            DOMNode* s = n->getNextSibling();
            while (s && s->getNodeType() != DOMNode::ELEMENT_NODE) s = s->getNextSibling();
            if (s) { n = s; break; }
            n = n->getParentNode();
            if (!n) break;
        }
    }
    return out;
}

// ---- configurations ----------------------------------------------------------------------------
struct Cfg {
    XMLGrammarPool* pool = 0;
    DomP* dom = 0;
    SaxP* sax = 0;
    SaxDump* dump = 0;
    bool haveModel = false;       // loadGrammar returned a grammar (the scanner then has its XSModel for PSVI)
    Rec& rec() { return dom ? dom->rec : sax->rec; }
    void destroy() {
        try { delete dom; } catch (...) {}
        try { delete sax; } catch (...) {}
        delete dump;
        try { delete pool; } catch (...) {}
        dom = 0; sax = 0; dump = 0; pool = 0; haveModel = false;
    }
};
static Cfg gCfg[8];
static bool gHaveCfg = false;

#define HX_CATCH_ALL(excVar) \
    catch (const OutOfMemoryException&) { excVar = "OutOfMemory"; } \
    catch (const XMLException& e) { excVar = hx::narrow(e.getType()); } \
    catch (const DOMException& e) { excVar = "DOMException:" + std::to_string((int)e.code); } \
    catch (const SAXParseException&) { excVar = "SAXParseException"; } \
    catch (const SAXException&) { excVar = "SAXException"; } \
    catch (...) { excVar = "FOREIGN-EXCEPTION"; }

static void destroyAll() {
    for (auto& c : gCfg) c.destroy();
    gHaveCfg = false;
}

// creates pool + parser for configuration k; returns "" or an exception name
static std::string makeCfg(int k) {
    Cfg& c = gCfg[k];
    bool sg = (k & 1) != 0, sax = (k & 2) != 0, full = (k & 4) != 0;
    std::string exc;
    try {
        c.pool = new (gMM) XMLGrammarPoolImpl(gMM);
        if (!sax) {
            DomP* p = new (gMM) DomP(gMM, c.pool);
            c.dom = p;
            p->useScanner(sg ? XMLUni::fgSGXMLScanner : XMLUni::fgIGXMLScanner);
            p->setErrorHandler(&gNullEH);
            p->setXMLEntityResolver(&gResolver);
            p->setDoNamespaces(true);
            p->setDoSchema(true);
            p->setValidationScheme(XercesDOMParser::Val_Always);
            p->setValidationSchemaFullChecking(full);
            p->setValidationConstraintFatal(false);
            p->setExitOnFirstFatalError(true);
            p->setLoadExternalDTD(false);
            p->cacheGrammarFromParse(true);
            p->setHandleMultipleImports(true);
            p->setCreateSchemaInfo(true);
            p->setCreateEntityReferenceNodes(false);
        } else {
            SaxP* p = new (gMM) SaxP(gMM, c.pool);
            c.sax = p;
            c.dump = new SaxDump();
            p->setProperty(XMLUni::fgXercesScannerName, (void*)(sg ? XMLUni::fgSGXMLScanner : XMLUni::fgIGXMLScanner));
            p->setErrorHandler(&gNullEH);
            p->setXMLEntityResolver(&gResolver);
            p->setContentHandler(c.dump);
            p->setPSVIHandler(c.dump);
            p->setFeature(XMLUni::fgSAX2CoreNameSpaces, true);
            p->setFeature(XMLUni::fgXercesSchema, true);
            p->setFeature(XMLUni::fgSAX2CoreValidation, true);
            p->setFeature(XMLUni::fgXercesDynamic, false);
            p->setFeature(XMLUni::fgXercesSchemaFullChecking, full);
            p->setFeature(XMLUni::fgXercesValidationErrorAsFatal, false);
            p->setFeature(XMLUni::fgXercesContinueAfterFatalError, false);
            p->setFeature(XMLUni::fgXercesLoadExternalDTD, false);
            p->setFeature(XMLUni::fgXercesCacheGrammarFromParse, true);
            p->setFeature(XMLUni::fgXercesHandleMultipleImports, true);
        }
    } HX_CATCH_ALL(exc)
    return exc;
}

static bool validHex(const std::string& s) {
    if (s == "-") return true;
    if (s.empty()) return false;
    for (char c : s) if (c != '.' && hx::hexv(c) < 0) return false;
    return true;
}
static std::vector<XMLByte> toBytes(const std::string& hex) {
    std::vector<uint32_t> v = hx::parseHexList(hex);
    std::vector<XMLByte> b;
    b.reserve(v.size());
    for (uint32_t x : v) b.push_back((XMLByte)(x & 0xFF));
    return b;
}

static std::string cmdS(const std::vector<std::string>& f, bool verbose) {
    if (f.size() < 2 || f[1].empty() || f[1].size() > 3) return "bad-op";
    size_t n = 0;
    for (char c : f[1]) { if (c < '0' || c > '9') return "bad-op"; n = n * 10 + (size_t)(c - '0'); }
    if (f.size() != 2 + n) return "bad-op";
    std::vector<SchemaDoc> docs;
    for (size_t i = 0; i < n; i++) {
        const std::string& t = f[2 + i];
        size_t eq = t.find('=');
        if (eq == std::string::npos || eq == 0) return "bad-op";
        std::string hex = t.substr(eq + 1);
        if (!validHex(hex)) return "bad-op";
        SchemaDoc d; d.sysid = t.substr(0, eq); d.bytes = toBytes(hex);
        docs.push_back(d);
    }
    destroyAll();
    gSchemas.swap(docs);
    gHaveCfg = true;
    std::string out = "S";
    std::string m0 = "-", m4 = "-";
    for (int k = 0; k < 8; k++) {
        std::string exc = makeCfg(k);
        Cfg& c = gCfg[k];
        if (exc.empty() && !gSchemas.empty()) {
            c.rec().reset();
            try {
                const SchemaDoc& r = gSchemas[0];
                MemBufInputSource src(r.bytes.empty() ? gEmptyBuf : r.bytes.data(), r.bytes.size(), r.sysid.c_str(), false, gMM);
                Grammar* g = c.dom ? c.dom->loadGrammar(src, Grammar::SchemaGrammarType, true)
                                   : c.sax->loadGrammar(src, Grammar::SchemaGrammarType, true);
                c.haveModel = g != 0;
            } HX_CATCH_ALL(exc)
        }
        if (exc.empty()) {
            try {
                if (c.dom) c.dom->useCachedGrammarInParse(true);
                else if (c.sax) c.sax->setFeature(XMLUni::fgXercesUseCachedGrammarInParse, true);
            } HX_CATCH_ALL(exc)
        }
        out += " c" + std::to_string(k) + "=";
        if (!exc.empty()) out += "exc:" + exc;
        else {
            Rec& r = c.rec();
            out += "w" + std::to_string(r.warn) + ",e" + std::to_string(r.err) + ",f" + std::to_string(r.fatal) + ":" + r.codeStr();
        }
        if ((c.dom || c.sax) && k == 0) m0 = c.rec().msgStr();
        if ((c.dom || c.sax) && k == 4) m4 = c.rec().msgStr();
    }
    if (verbose) out += " || c0: " + m0 + " || c4: " + m4;
    return out;
}

static std::string stripBang(const std::string& s) {
    std::string r; for (char c : s) if (c != '!') r += c; return r;
}

// guard: SGXMLScanner + PSVI handler + no grammar ever loaded by that scanner => its XSModel pointer is null and
// SGXMLScanner::buildAttList dereferences it on the first xmlns:p="..." attribute (SEGV inside the library).
// I / IV report "skip:nomodel" for such configurations; IU runs them anyway.
static std::string cmdI(const std::string& hex, bool verbose, bool guard) {
    if (!validHex(hex)) return "bad-op";
    std::vector<XMLByte> bytes = toBytes(hex);
    if (!gHaveCfg) {                       // no S line yet: parsers with empty pools
        destroyAll();
        gSchemas.clear();
        gHaveCfg = true;
        for (int k = 0; k < 8; k++) {
            std::string exc = makeCfg(k);
            if (exc.empty()) {
                try {
                    if (gCfg[k].dom) gCfg[k].dom->useCachedGrammarInParse(true);
                    else gCfg[k].sax->setFeature(XMLUni::fgXercesUseCachedGrammarInParse, true);
                } catch (...) {}
            }
        }
    }
    std::string out = "I ";
    std::string obs0, msgs0 = "-", msgsD;
    for (int k = 0; k < 8; k++) {
        Cfg& c = gCfg[k];
        std::string obs, exc, msgsK = "-";
        if (!c.dom && !c.sax) obs = "exc:NoParser";
        else if (guard && (k & 1) && !c.haveModel) obs = "skip:nomodel";
        else {
            c.rec().reset();
            if (c.dump) c.dump->reset();
            try {
                MemBufInputSource src(bytes.empty() ? gEmptyBuf : bytes.data(), bytes.size(), "instance.xml", false, gMM);
                if (c.dom) c.dom->parse(src); else c.sax->parse(src);
            } HX_CATCH_ALL(exc)
            Rec& r = c.rec();
            if (!exc.empty()) obs = "exc:" + exc;
            else {
                std::string dump = "-";
                if (r.fatal == 0) {
                    try {
                        dump = c.dom ? domDump(c.dom->getDocument()) : c.dump->result();
                        if (dump.empty()) dump = "-";
                    } catch (...) { dump = "-"; }
                }
                obs = "e" + std::to_string(r.err) + ",f" + std::to_string(r.fatal) + ":" + r.codeStr() + " D=" + dump;
            }
            msgsK = r.msgStr();
            if (k == 0) msgs0 = msgsK;
            if (c.dom) { try { c.dom->resetDocumentPool(); } catch (...) {} }
            if (c.dump) c.dump->reset();
        }
        if (k == 0) { obs0 = stripBang(obs); out += "c0=" + obs; }
        else {
            out += " | c" + std::to_string(k) + "=";
            bool same = stripBang(obs) == obs0;
            out += same ? std::string("=") : obs;
            if (!same && msgsD.empty()) msgsD = " || c" + std::to_string(k) + ": " + msgsK;
        }
    }
    if (verbose) out += " || " + msgs0 + msgsD;      // messages of c0, then of the first configuration that differs
    return out;
}

int main() {
    XMLPlatformUtils::Initialize();
    gMM = XMLPlatformUtils::fgMemoryManager;
    {
        SchemaValidator* val = new SchemaValidator();
        ScannerAccess parser(val);                 // the scanner adopts the validator
        XMLScanner* sc = parser.sc();
        gEmptyNs = sc->getEmptyNamespaceId();
        static const XMLCh uA[] = { 'u','r','n',':','a',0 };
        static const XMLCh uB[] = { 'u','r','n',':','b',0 };
        static const XMLCh uC[] = { 'u','r','n',':','c',0 };
        gNsA = sc->getURIStringPool()->addOrFind(uA);
        gNsB = sc->getURIStringPool()->addOrFind(uB);
        gNsC = sc->getURIStringPool()->addOrFind(uC);
        static const char letters[4] = { 'e', 'f', 'g', 'h' };
        for (int l = 0; l < 4; l++) for (unsigned k = 0; k < 10; k++) gPool[l][k] = mkName(letters[l], k);

        std::string line;
        while (std::getline(std::cin, line)) {
            if (!line.empty() && line.back() == '\r') line.pop_back();
            if (line.empty()) continue;
            auto f = hx::split(line);
            std::string out;
            try {
                if ((f[0] == "V" && f.size() == 3) || (f[0] == "A" && f.size() == 4)) out = tier1(f);
                else if (f[0] == "Q" && f.size() >= 3) out = cmdQ(f);
                else if (f[0] == "S" || f[0] == "SV") out = cmdS(f, f[0] == "SV");
                else if ((f[0] == "I" || f[0] == "IV" || f[0] == "IU") && f.size() == 2) out = cmdI(f[1], f[0] == "IV", f[0] != "IU");
                else out = "bad-op";
            } catch (const std::exception&) { out = "bad-op";
            } catch (...) { out = "exc:FOREIGN-EXCEPTION"; }
            for (char& c : out) if (c == '\n' || c == '\r') c = ' ';
            puts(out.c_str());
            fflush(stdout);
        }
        destroyAll();
        for (int l = 0; l < 4; l++) for (unsigned k = 0; k < 10; k++) delete gPool[l][k];
    }
    XMLPlatformUtils::Terminate();
    return 0;
}
