// C10 harness: identity constraints on the REAL library.
//   V <flags> <hex schema bytes> <hex instance bytes>
//        flags: '-' or letters:  s = SGXMLScanner (default IGXMLScanner), n = identity-constraint checking off,
//               t = also print the message texts (replay only), g = schema pre-loaded with loadGrammar(MemBufInputSource)
//               into the parser's grammar pool and used from the cache (IGXMLScanner only); default: the schema is named by
//               setExternalNoNamespaceSchemaLocation / setExternalSchemaLocation("<targetNamespace> mem://schema.xsd") and
//               served from memory by an entity resolver.  A targetNamespace is recognised from the schema text.
//        the instance is parsed by a fresh XercesDOMParser (namespaces, schema, Val_Always, IC checking on).
//        -> "S=<n schema-load errors> V=<validity code*count,...> E=<XMLErrs code*count,...> W=<n warnings> fatal=<n> exc=<name|->"
//   X <s|f> <hex xpath units> <events>
//        drives XercesXPath + XPathMatcher directly.  events: space separated, "S<uri>:<local>[;<uri>:<local>]*" (start element
//        with attributes) and "E" (end element).  The first S is the context element (matcher started there).
//        -> "m=<after each start: fMatched[] of every location path joined by '/', elements '.'-joined> v=<matched() calls, ','-joined>"
//        (element content passed to endElement is the element's preorder index; attribute value is "<index>@<uri>:<local>")
#include <cstdio>
#include <map>
#include <string>
#include <vector>
#include "hx_common.hpp"
#include <xercesc/parsers/XercesDOMParser.hpp>
#include <xercesc/internal/XMLScanner.hpp>
#include <xercesc/framework/MemBufInputSource.hpp>
#include <xercesc/framework/XMLAttr.hpp>
#include <xercesc/sax/SAXException.hpp>
#include <xercesc/sax/EntityResolver.hpp>
#include <xercesc/sax/InputSource.hpp>
#include <xercesc/dom/DOMException.hpp>
#include <xercesc/util/OutOfMemoryException.hpp>
#include <xercesc/util/StringPool.hpp>
#include <xercesc/util/XMLUni.hpp>
#include <xercesc/util/RefVectorOf.hpp>
#include <xercesc/validators/common/Grammar.hpp>
#include <xercesc/validators/schema/NamespaceScope.hpp>
#include <xercesc/validators/schema/SchemaElementDecl.hpp>
#include <xercesc/validators/schema/identity/XercesXPath.hpp>
#include <xercesc/validators/schema/identity/XPathMatcher.hpp>
#include <xercesc/validators/schema/identity/XPathException.hpp>

static bool unhex(const std::string& s, std::string& out) {
    out.clear();
    if (s == "-") return true;
    if (s.size() % 2) return false;
    out.reserve(s.size() / 2);
    for (size_t i = 0; i < s.size(); i += 2) {
        int a = hx::hexv(s[i]), b = hx::hexv(s[i + 1]);
        if (a < 0 || b < 0) return false;
        out.push_back((char)(a * 16 + b));
    }
    return true;
}

static std::string showMap(const std::map<unsigned, int>& m) {
    if (m.empty()) return "-";
    std::string r; char b[48];
    for (auto& kv : m) { snprintf(b, sizeof b, "%s%u*%d", r.empty() ? "" : ",", kv.first, kv.second); r += b; }
    return r;
}

class RecParser : public XercesDOMParser {
public:
    std::map<unsigned, int> v, e;
    int fatal = 0, warn = 0, schemaErrs = 0;
    bool loading = false, texts = false;
    std::string schemaText;
    std::string text;
    void error(const unsigned int code, const XMLCh* const domain, const XMLErrorReporter::ErrTypes type,
               const XMLCh* const msg, const XMLCh* const sysId, const XMLCh* const, const XMLFileLoc line, const XMLFileLoc col) override {
        bool inSchema = loading || hx::narrow(sysId).find("schema.xsd") != std::string::npos;
        if (texts) { char b[64]; snprintf(b, sizeof b, " [%u@%lu:%lu ", code, (unsigned long)line, (unsigned long)col); text += b + hx::narrow(msg) + "]"; }
        if (inSchema) { schemaErrs++; return; }
        if (type == XMLErrorReporter::ErrType_Warning) { warn++; return; }
        if (type == XMLErrorReporter::ErrType_Fatal) fatal++;
        if (XMLString::equals(domain, XMLUni::fgValidityDomain)) v[code]++; else e[code]++;
    }
    void resetErrors() override {}
    void hook() { getScanner()->setErrorReporter(this); }
};

class MemResolver : public EntityResolver {
public:
    const std::string* schema = 0;
    InputSource* resolveEntity(const XMLCh* const, const XMLCh* const systemId) override {
        if (schema && hx::narrow(systemId).find("schema.xsd") != std::string::npos)
            return new MemBufInputSource((const XMLByte*)schema->data(), schema->size(), "mem://schema.xsd");
        return 0;
    }
};

static std::string targetNs(const std::string& schema) {
    size_t k = schema.find("targetNamespace=\"");
    if (k == std::string::npos) return "";
    k += 17;
    size_t e = schema.find('"', k);
    return e == std::string::npos ? "" : schema.substr(k, e - k);
}

static std::string doValidate(const std::vector<std::string>& f) {
    if (f.size() != 4) return "bad-op";
    std::string schema, inst;
    if (!unhex(f[2], schema) || !unhex(f[3], inst)) return "bad-op";
    const std::string& fl = f[1];
    std::string exc = "-";
    RecParser p;
    p.texts = fl.find('t') != std::string::npos;
    try {
        if (fl.find('s') != std::string::npos) p.useScanner(XMLUni::fgSGXMLScanner);
        p.hook();
        p.setDoNamespaces(true);
        p.setDoSchema(true);
        p.setValidationScheme(XercesDOMParser::Val_Always);
        p.setValidationSchemaFullChecking(true);
        p.setIdentityConstraintChecking(fl.find('n') == std::string::npos);
        p.setLoadExternalDTD(false);
        MemResolver er; er.schema = &schema;
        if (fl.find('g') != std::string::npos) {
            MemBufInputSource ss((const XMLByte*)schema.data(), schema.size(), "mem://schema.xsd");
            p.loading = true;
            Grammar* g = p.loadGrammar(ss, Grammar::SchemaGrammarType, true);
            p.loading = false;
            if (!g) p.schemaErrs += 1000;
            p.useCachedGrammarInParse(true);
        } else {
            p.setEntityResolver(&er);
            std::string tns = targetNs(schema);
            if (tns.empty()) p.setExternalNoNamespaceSchemaLocation("mem://schema.xsd");
            else p.setExternalSchemaLocation((tns + " mem://schema.xsd").c_str());
        }
        MemBufInputSource is((const XMLByte*)inst.data(), inst.size(), "mem://instance.xml");
        p.parse(is);
    } catch (const OutOfMemoryException&) { exc = "OutOfMemoryException";
    } catch (const XMLException& e) { exc = hx::narrow(e.getType());
    } catch (const DOMException& e) { exc = "DOMException";
    } catch (const SAXException& e) { exc = "SAXException";
    } catch (...) { exc = "FOREIGN-EXCEPTION"; }
    char b[96];
    snprintf(b, sizeof b, "S=%d", p.schemaErrs);
    std::string out = b;
    out += " V=" + showMap(p.v) + " E=" + showMap(p.e);
    snprintf(b, sizeof b, " W=%d fatal=%d exc=", p.warn, p.fatal);
    out += b + exc;
    if (p.texts) out += " |" + p.text;
    return out;
}

// ---------------------------------------------------------------- direct XPathMatcher drive
class Resolver : public XercesNamespaceResolver {
public:
    unsigned int getNamespaceForPrefix(const XMLCh* const prefix) const override {
        std::string p = hx::narrow(prefix);
        if (p == "p") return 5;
        if (p == "q") return 6;
        return 1;          // the empty namespace (0 is the "unknown URI" id, which QName::operator== treats specially)
    }
};

class RecMatcher : public XPathMatcher {
public:
    std::string calls;
    RecMatcher(XercesXPath* xp) : XPathMatcher(xp) {}
    int getInitialDepth() const override { return 0; }
    std::string flags() const {
        std::string r; char b[16];
        for (XMLSize_t i = 0; i < fLocationPathSize; i++) { snprintf(b, sizeof b, "%s%u", i ? "/" : "", (unsigned)fMatched[i]); r += b; }
        return r.empty() ? "-" : r;
    }
protected:
    void matched(const XMLCh* const content, DatatypeValidator* const, const bool) override {
        if (!calls.empty()) calls += ",";
        calls += hx::narrow(content);
    }
};

static std::vector<XMLCh> wide(const std::string& s) {
    std::vector<XMLCh> w; for (unsigned char c : s) w.push_back((XMLCh)c); w.push_back(0); return w;
}

static bool parseName(const std::string& s, unsigned& uri, std::string& local) {
    size_t c = s.find(':');
    if (c == std::string::npos || c == 0 || c + 1 >= s.size()) return false;
    uri = (unsigned)std::stoul(s.substr(0, c)); local = s.substr(c + 1);
    return true;
}

static std::string doMatcher(const std::vector<std::string>& f) {
    if (f.size() < 4) return "bad-op";
    std::string xp;
    if (!unhex(f[2], xp)) return "bad-op";
    bool isSel = f[1] == "s";
    XMLStringPool pool(109);
    Resolver res;
    try {
        auto wx = wide(xp);
        XercesXPath path(wx.data(), &pool, &res, 1, isSel);
        RecMatcher m(&path);
        m.startDocumentFragment();
        std::string flags;
        std::vector<int> open;
        std::vector<SchemaElementDecl*> decls;
        int idx = 0;
        auto empty = wide("");
        for (size_t k = 3; k < f.size(); k++) {
            const std::string& ev = f[k];
            if (ev.empty()) continue;
            if (ev[0] == 'S') {
                auto parts = hx::split(ev.substr(1), ';');
                unsigned uri; std::string local;
                if (!parseName(parts[0], uri, local)) return "bad-op";
                auto wl = wide(local);
                SchemaElementDecl* d = new SchemaElementDecl(empty.data(), wl.data(), (int)uri);
                RefVectorOf<XMLAttr> attrs(8, true);
                for (size_t a = 1; a < parts.size(); a++) {
                    unsigned au; std::string al;
                    if (!parseName(parts[a], au, al)) { delete d; return "bad-op"; }
                    auto wa = wide(al);
                    char vb[96]; snprintf(vb, sizeof vb, "%d@%u:%s", idx, au, al.c_str());
                    auto wv = wide(vb);
                    attrs.addElement(new XMLAttr(au, wa.data(), empty.data(), wv.data()));
                }
                m.startElement(*d, uri, empty.data(), attrs, attrs.size(), 0);
                if (!flags.empty()) flags += ".";
                flags += m.flags();
                open.push_back(idx); decls.push_back(d);
                idx++;
            } else if (ev[0] == 'E') {
                if (open.empty()) return "bad-op";
                char cb[16]; snprintf(cb, sizeof cb, "%d", open.back());
                auto wc = wide(cb);
                m.endElement(*decls.back(), wc.data(), 0, 0);
                delete decls.back(); decls.pop_back(); open.pop_back();
            } else return "bad-op";
        }
        for (auto d : decls) delete d;
        return "m=" + (flags.empty() ? std::string("-") : flags) + " v=" + (m.calls.empty() ? std::string("-") : m.calls);
    } catch (const XPathException& e) { return std::string("exc XPathException ") + std::to_string((int)e.getCode());
    } catch (const OutOfMemoryException&) { return "exc OutOfMemoryException";
    } catch (const XMLException& e) { return std::string("exc ") + hx::narrow(e.getType());
    } catch (...) { return "exc FOREIGN-EXCEPTION"; }
}

int main() {
    XMLPlatformUtils::Initialize();
    std::string line;
    while (std::getline(std::cin, line)) {
        while (!line.empty() && (line.back() == '\r' || line.back() == ' ')) line.pop_back();
        if (line.empty()) continue;
        auto f = hx::split(line);
        std::string out;
        if (f[0] == "V") out = doValidate(f);
        else if (f[0] == "X") out = doMatcher(f);
        else out = "bad-op";
        fputs(out.c_str(), stdout); fputc('\n', stdout); fflush(stdout);
    }
    XMLPlatformUtils::Terminate();
    return 0;
}
