// C15 correspondence harness: operation histories on ONE parser object, and XMLGrammarPoolImpl / GrammarResolver
// driven directly.  Line protocol (one case per stdin line, one observation line per case):
//
//   H <kind> <op>;<op>;...      kind = sax | sax2 | dom | ls ; each line starts with a fresh pool and a fresh parser
//   P <op>;<op>;...             XMLGrammarPoolImpl ops (cache/retrieve/orphan/clear/lock/unlock/xsmodel/uri)
//   R <op>;<op>;...             GrammarResolver ops over a fresh XMLGrammarPoolImpl
//
// argv[1] = corpus file:  "D <id> <hex>" documents, "X <sysid-hex> <hex>" external entities served by the entity
// resolver, "G <id> <D|S> <sysid-hex>" grammars for loadGrammar, "L <id> <hex>" schema-location strings.
#include "hx_common.hpp"
#include <map>
#include <set>
#include <algorithm>
#include <memory>
#include <fstream>
#include <xercesc/parsers/SAXParser.hpp>
#include <xercesc/parsers/XercesDOMParser.hpp>
#include <xercesc/parsers/DOMLSParserImpl.hpp>
#include <xercesc/parsers/SAX2XMLReaderImpl.hpp>
#include <xercesc/sax2/DefaultHandler.hpp>
#include <xercesc/sax2/Attributes.hpp>
#include <xercesc/sax/HandlerBase.hpp>
#include <xercesc/sax/AttributeList.hpp>
#include <xercesc/sax/SAXParseException.hpp>
#include <xercesc/sax/SAXException.hpp>
#include <xercesc/framework/MemBufInputSource.hpp>
#include <xercesc/framework/Wrapper4InputSource.hpp>
#include <xercesc/framework/XMLGrammarPoolImpl.hpp>
#include <xercesc/framework/XMLPScanToken.hpp>
#include <xercesc/framework/XMLAttr.hpp>
#include <xercesc/framework/XMLElementDecl.hpp>
#include <xercesc/framework/psvi/PSVIHandler.hpp>
#include <xercesc/framework/psvi/PSVIElement.hpp>
#include <xercesc/framework/psvi/XSTypeDefinition.hpp>
#include <xercesc/framework/psvi/XSElementDeclaration.hpp>
#include <xercesc/validators/common/GrammarResolver.hpp>
#include <xercesc/validators/DTD/DTDGrammar.hpp>
#include <xercesc/validators/DTD/DTDElementDecl.hpp>
#include <xercesc/validators/DTD/XMLDTDDescriptionImpl.hpp>
#include <xercesc/validators/schema/SchemaGrammar.hpp>
#include <xercesc/validators/schema/XMLSchemaDescriptionImpl.hpp>
#include <xercesc/dom/DOM.hpp>
#include <xercesc/dom/DOMLSParserFilter.hpp>
#include <xercesc/util/OutOfMemoryException.hpp>
#include <xercesc/util/XMLUni.hpp>
#include <xercesc/util/StringPool.hpp>
#include <xercesc/util/RuntimeException.hpp>
#include <xercesc/util/SecurityManager.hpp>

using namespace hx;

// ------------------------------------------------------------------------------------------------ corpus
static std::map<int, std::string> gDocs;                 // id -> bytes
static std::map<std::string, std::string> gEnts;         // system id -> bytes
struct GramSrc { char type; std::string sysid; };
static std::map<int, GramSrc> gGrams;
static std::map<int, std::string> gLocs;

static std::string unhex(const std::string& h) {
    std::string r;
    if (h == "-") return r;
    for (size_t i = 0; i + 1 < h.size(); i += 2) r += (char)(hexv(h[i]) * 16 + hexv(h[i + 1]));
    return r;
}
static void loadCorpus(const char* path) {
    std::ifstream f(path);
    std::string line;
    while (std::getline(f, line)) {
        auto w = split(line);
        if (w.size() >= 3 && w[0] == "D") gDocs[atoi(w[1].c_str())] = unhex(w[2]);
        else if (w.size() >= 3 && w[0] == "X") gEnts[unhex(w[1])] = unhex(w[2]);
        else if (w.size() >= 4 && w[0] == "G") gGrams[atoi(w[1].c_str())] = GramSrc{w[2][0], unhex(w[3])};
        else if (w.size() >= 3 && w[0] == "L") gLocs[atoi(w[1].c_str())] = unhex(w[2]);
    }
}

// ------------------------------------------------------------------------------------------------ text helpers
static std::string esc(const XMLCh* s, size_t n) {
    std::string r;
    for (size_t i = 0; i < n; i++) {
        XMLCh c = s[i];
        if (c >= 0x21 && c < 0x7f && c != ';' && c != ',' && c != '\\' && c != '|' && c != '#') r += (char)c;
        else { char b[12]; snprintf(b, sizeof b, "\\%x.", (unsigned)c); r += b; }
    }
    return r;
}
static std::string esc(const XMLCh* s) { return s ? esc(s, XMLString::stringLen(s)) : std::string("~"); }
static std::string escn(const std::string& s) {
    std::string r;
    for (unsigned char c : s) {
        if (c >= 0x21 && c < 0x7f && c != ';' && c != ',' && c != '\\' && c != '|' && c != '#') r += (char)c;
        else { char b[12]; snprintf(b, sizeof b, "\\%x.", (unsigned)c); r += b; }
    }
    return r;
}
struct XStr {
    XMLCh* p;
    explicit XStr(const std::string& s) : p(XMLString::transcode(s.c_str())) {}
    ~XStr() { XMLString::release(&p); }
    const XMLCh* get() const { return p; }
};
struct UserAbort {};

// ------------------------------------------------------------------------------------------------ recorder
struct Rec {
    std::string out;        // canonical events of the current operation
    std::string chars;      // pending character data (adjacent chunks merged)
    long cb = 0, throwAt = -1;
    void reset() { out.clear(); chars.clear(); cb = 0; throwAt = -1; }
    void flush() { if (!chars.empty()) { out += "T" + chars + ","; chars.clear(); } }
    void ev(const std::string& e) { flush(); out += e; out += ","; }
    void tick() { if (++cb == throwAt) { ev("THROW"); throw UserAbort(); } }
    std::string take() { flush(); std::string r = out.empty() ? "-" : out; out.clear(); return r; }
};

static InputSource* resolveFromCorpus(Rec& rec, const XMLCh* sysId) {
    std::string id = narrow(sysId);
    rec.ev("ent(" + escn(id) + ")");
    rec.tick();
    auto it = gEnts.find(id);
    if (it == gEnts.end()) return 0;
    MemBufInputSource* s = new MemBufInputSource((const XMLByte*)it->second.data(), it->second.size(), sysId, false);
    return s;
}

static std::string attType(XMLAttDef::AttTypes t) {
    static const char* n[] = {"CDATA", "ID", "IDREF", "IDREFS", "ENTITY", "ENTITIES", "NMTOKEN", "NMTOKENS", "NOTATION", "ENUM", "SIMPLE", "ANYSIMPLE"};
    return (t >= 0 && t < 12) ? n[t] : "?";
}

// SAX2 handler + advanced document handler + PSVI handler
class H2 : public DefaultHandler, public XMLDocumentHandler, public PSVIHandler {
public:
    Rec& r;
    explicit H2(Rec& rr) : r(rr) {}
    // ContentHandler
    void startDocument() override { r.ev("sd"); r.tick(); }
    void endDocument() override { r.ev("ed"); r.tick(); }
    void startElement(const XMLCh* const uri, const XMLCh* const local, const XMLCh* const qn, const Attributes& a) override {
        std::string s = "se(" + esc(uri) + "|" + esc(local) + "|" + esc(qn);
        std::vector<std::string> as;
        for (XMLSize_t i = 0; i < a.getLength(); i++)
            as.push_back(esc(a.getURI(i)) + "|" + esc(a.getQName(i)) + "=" + esc(a.getValue(i)) + "|" + esc(a.getType(i)));
        std::sort(as.begin(), as.end());
        for (auto& x : as) s += " " + x;
        r.ev(s + ")"); r.tick();
    }
    void endElement(const XMLCh* const, const XMLCh* const, const XMLCh* const qn) override { r.ev("ee(" + esc(qn) + ")"); r.tick(); }
    void characters(const XMLCh* const c, const XMLSize_t n) override { r.chars += esc(c, n); r.tick(); }
    void ignorableWhitespace(const XMLCh* const c, const XMLSize_t n) override { r.ev("iw(" + esc(c, n) + ")"); r.tick(); }
    void processingInstruction(const XMLCh* const t, const XMLCh* const d) override { r.ev("pi(" + esc(t) + "|" + esc(d) + ")"); r.tick(); }
    void startPrefixMapping(const XMLCh* const p, const XMLCh* const u) override { r.ev("spm(" + esc(p) + "|" + esc(u) + ")"); r.tick(); }
    void endPrefixMapping(const XMLCh* const p) override { r.ev("epm(" + esc(p) + ")"); r.tick(); }
    void skippedEntity(const XMLCh* const n) override { r.ev("skip(" + esc(n) + ")"); r.tick(); }
    // LexicalHandler
    void comment(const XMLCh* const c, const XMLSize_t n) override { r.ev("cm(" + esc(c, n) + ")"); r.tick(); }
    void startDTD(const XMLCh* const n, const XMLCh* const p, const XMLCh* const s) override { r.ev("sdtd(" + esc(n) + "|" + esc(p) + "|" + esc(s) + ")"); r.tick(); }
    void endDTD() override { r.ev("edtd"); r.tick(); }
    void startEntity(const XMLCh* const n) override { r.ev("sen(" + esc(n) + ")"); r.tick(); }
    void endEntity(const XMLCh* const n) override { r.ev("een(" + esc(n) + ")"); r.tick(); }
    void startCDATA() override { r.ev("scd"); }
    void endCDATA() override { r.ev("ecd"); }
    // ErrorHandler
    void rep(const char* sev, const SAXParseException& e) {
        char b[64]; snprintf(b, sizeof b, "%s@%lu:%lu(", sev, (unsigned long)e.getLineNumber(), (unsigned long)e.getColumnNumber());
        r.ev(std::string(b) + esc(e.getMessage()).substr(0, 90) + ")");
        r.tick();
    }
    void warning(const SAXParseException& e) override { rep("warn", e); }
    void error(const SAXParseException& e) override { rep("err", e); }
    void fatalError(const SAXParseException& e) override { rep("fatal", e); }
    void resetErrors() override {}
    // EntityResolver
    InputSource* resolveEntity(const XMLCh* const, const XMLCh* const systemId) override { return resolveFromCorpus(r, systemId); }
    // advanced document handler: only attribute flags are recorded (the rest duplicates the SAX2 events)
    void docCharacters(const XMLCh* const, const XMLSize_t, const bool) override {}
    void docComment(const XMLCh* const) override {}
    void docPI(const XMLCh* const, const XMLCh* const) override {}
    void endElement(const XMLElementDecl&, const unsigned int, const bool, const XMLCh* const) override {}
    void endEntityReference(const XMLEntityDecl&) override {}
    void ignorableWhitespace(const XMLCh* const, const XMLSize_t, const bool) override {}
    void resetDocument() override {}
    void startElement(const XMLElementDecl& d, const unsigned int, const XMLCh* const, const RefVectorOf<XMLAttr>& al,
                      const XMLSize_t n, const bool isEmpty, const bool isRoot) override {
        std::string s = "adv(" + esc(d.getFullName()) + (isEmpty ? "/" : "") + (isRoot ? "^" : "");
        std::vector<std::string> as;
        for (XMLSize_t i = 0; i < n; i++) {
            const XMLAttr* a = al.elementAt(i);
            as.push_back(esc(a->getQName()) + "=" + esc(a->getValue()) + "|" + attType(a->getType()) + "|" + (a->getSpecified() ? "s" : "d"));
        }
        std::sort(as.begin(), as.end());
        for (auto& x : as) s += " " + x;
        r.ev(s + ")");
    }
    void startEntityReference(const XMLEntityDecl&) override {}
    void XMLDecl(const XMLCh* const v, const XMLCh* const e, const XMLCh* const s, const XMLCh* const) override {
        r.ev("xmldecl(" + esc(v) + "|" + esc(e) + "|" + esc(s) + ")");
    }
    // PSVI
    void handleElementPSVI(const XMLCh* const local, const XMLCh* const uri, PSVIElement* e) override {
        std::string t = "~";
        if (e && e->getTypeDefinition()) t = esc(e->getTypeDefinition()->getName());
        char b[32]; snprintf(b, sizeof b, "|%d|%d", e ? (int)e->getValidity() : -1, e ? (int)e->getValidationAttempted() : -1);
        r.ev("psvi(" + esc(uri) + "|" + esc(local) + "|" + t + b + ")");
    }
    void handleAttributesPSVI(const XMLCh* const, const XMLCh* const, PSVIAttributeList*) override {}
};

// SAX1 handler
class H1 : public HandlerBase {
public:
    Rec& r;
    explicit H1(Rec& rr) : r(rr) {}
    void startDocument() override { r.ev("sd"); r.tick(); }
    void endDocument() override { r.ev("ed"); r.tick(); }
    void startElement(const XMLCh* const name, AttributeList& a) override {
        std::string s = "se(" + esc(name);
        std::vector<std::string> as;
        for (XMLSize_t i = 0; i < a.getLength(); i++) as.push_back(esc(a.getName(i)) + "=" + esc(a.getValue(i)) + "|" + esc(a.getType(i)));
        std::sort(as.begin(), as.end());
        for (auto& x : as) s += " " + x;
        r.ev(s + ")"); r.tick();
    }
    void endElement(const XMLCh* const name) override { r.ev("ee(" + esc(name) + ")"); r.tick(); }
    void characters(const XMLCh* const c, const XMLSize_t n) override { r.chars += esc(c, n); r.tick(); }
    void ignorableWhitespace(const XMLCh* const c, const XMLSize_t n) override { r.ev("iw(" + esc(c, n) + ")"); r.tick(); }
    void processingInstruction(const XMLCh* const t, const XMLCh* const d) override { r.ev("pi(" + esc(t) + "|" + esc(d) + ")"); r.tick(); }
    void rep(const char* sev, const SAXParseException& e) {
        char b[64]; snprintf(b, sizeof b, "%s@%lu:%lu(", sev, (unsigned long)e.getLineNumber(), (unsigned long)e.getColumnNumber());
        r.ev(std::string(b) + esc(e.getMessage()).substr(0, 90) + ")");
        r.tick();
    }
    void warning(const SAXParseException& e) override { rep("warn", e); }
    void error(const SAXParseException& e) override { rep("err", e); }
    void fatalError(const SAXParseException& e) override { rep("fatal", e); }
    InputSource* resolveEntity(const XMLCh* const, const XMLCh* const systemId) override { return resolveFromCorpus(r, systemId); }
};

// DOM: error handler / resource resolver for DOMLSParser
class LSH : public DOMErrorHandler, public DOMLSResourceResolver {
public:
    Rec& r;
    explicit LSH(Rec& rr) : r(rr) {}
    bool handleError(const DOMError& e) override {
        const char* sev = e.getSeverity() == DOMError::DOM_SEVERITY_WARNING ? "warn" : e.getSeverity() == DOMError::DOM_SEVERITY_ERROR ? "err" : "fatal";
        DOMLocator* l = e.getLocation();
        char b[64]; snprintf(b, sizeof b, "%s@%lu:%lu(", sev, l ? (unsigned long)l->getLineNumber() : 0ul, l ? (unsigned long)l->getColumnNumber() : 0ul);
        r.ev(std::string(b) + esc(e.getMessage()).substr(0, 90) + ")");
        r.tick();
        return true;
    }
    DOMLSInput* resolveResource(const XMLCh* const, const XMLCh* const, const XMLCh* const, const XMLCh* const systemId, const XMLCh* const) override {
        InputSource* s = resolveFromCorpus(r, systemId);
        if (!s) return 0;
        return new Wrapper4InputSource(s, true);
    }
};

// ------------------------------------------------------------------------------------------------ DOM dump
static void dumpNode(const DOMNode* n, std::string& o) {
    switch (n->getNodeType()) {
    case DOMNode::ELEMENT_NODE: {
        const DOMElement* e = (const DOMElement*)n;
        o += "E<" + esc(e->getNodeName()) + "{" + esc(e->getNamespaceURI()) + "}";
        const DOMTypeInfo* ti = e->getSchemaTypeInfo();
        if (ti) o += "~" + esc(ti->getTypeName()) + "@" + esc(ti->getTypeNamespace());
        std::vector<std::string> as;
        DOMNamedNodeMap* m = e->getAttributes();
        for (XMLSize_t i = 0; m && i < m->getLength(); i++) {
            const DOMAttr* a = (const DOMAttr*)m->item(i);
            std::string s = esc(a->getNodeName()) + "=" + esc(a->getNodeValue()) + (a->getSpecified() ? "|s" : "|d") + (a->isId() ? "|id" : "");
            const DOMTypeInfo* at = a->getSchemaTypeInfo();
            if (at) s += "~" + esc(at->getTypeName()) + "@" + esc(at->getTypeNamespace());
            as.push_back(s);
        }
        std::sort(as.begin(), as.end());
        for (auto& x : as) o += " " + x;
        o += ">";
        for (DOMNode* c = n->getFirstChild(); c; c = c->getNextSibling()) dumpNode(c, o);
        o += "</>";
        break;
    }
    case DOMNode::TEXT_NODE: o += "T(" + esc(n->getNodeValue()) + ")"; break;
    case DOMNode::CDATA_SECTION_NODE: o += "C(" + esc(n->getNodeValue()) + ")"; break;
    case DOMNode::COMMENT_NODE: o += "M(" + esc(n->getNodeValue()) + ")"; break;
    case DOMNode::PROCESSING_INSTRUCTION_NODE: o += "P(" + esc(n->getNodeName()) + "|" + esc(n->getNodeValue()) + ")"; break;
    case DOMNode::ENTITY_REFERENCE_NODE:
        o += "R<" + esc(n->getNodeName()) + ">";
        for (DOMNode* c = n->getFirstChild(); c; c = c->getNextSibling()) dumpNode(c, o);
        o += "</R>";
        break;
    case DOMNode::DOCUMENT_TYPE_NODE: {
        const DOMDocumentType* d = (const DOMDocumentType*)n;
        o += "D<" + esc(d->getName()) + "|" + esc(d->getPublicId()) + "|" + esc(d->getSystemId());
        std::vector<std::string> es;
        DOMNamedNodeMap* m = d->getEntities();
        for (XMLSize_t i = 0; m && i < m->getLength(); i++) es.push_back(esc(m->item(i)->getNodeName()));
        std::sort(es.begin(), es.end());
        for (auto& x : es) o += " &" + x;
        std::vector<std::string> ns;
        DOMNamedNodeMap* nm = d->getNotations();
        for (XMLSize_t i = 0; nm && i < nm->getLength(); i++) ns.push_back(esc(nm->item(i)->getNodeName()));
        std::sort(ns.begin(), ns.end());
        for (auto& x : ns) o += " !" + x;
        // the internal subset as the parser re-serialised it (DOMDocumentType::getInternalSubset), in full
        o += " is=[" + esc(d->getInternalSubset()) + "]>";
        break;
    }
    case DOMNode::DOCUMENT_NODE: {
        const DOMDocument* d = (const DOMDocument*)n;
        o += "DOC[" + esc(d->getXmlVersion()) + "|" + (d->getXmlStandalone() ? "sa" : "-") + "|" + esc(d->getInputEncoding()) + "]";
        for (DOMNode* c = n->getFirstChild(); c; c = c->getNextSibling()) dumpNode(c, o);
        break;
    }
    default: o += "?"; break;
    }
}
static std::string dumpDoc(const DOMDocument* d) {
    if (!d) return "nodoc";
    std::string o; dumpNode(d, o);
    for (char& c : o) if (c == ',' || c == ';') c = '_';
    return o;
}

// ------------------------------------------------------------------------------------------------ pool signature
static std::map<const Grammar*, int> gGramIds;     // for the direct pool / resolver tests

static std::string gramFingerprint(Grammar* g) {
    std::vector<std::string> names;
    if (g->getGrammarType() == Grammar::DTDGrammarType) {
        DTDGrammar* d = (DTDGrammar*)g;
        NameIdPoolEnumerator<DTDElementDecl> en = d->getElemEnumerator();
        while (en.hasMoreElements()) {
            DTDElementDecl& e = en.nextElement();
            int na = 0;
            if (e.hasAttDefs()) na = (int)e.getAttDefList().getAttDefCount();
            char b[16]; snprintf(b, sizeof b, ":%d:%d", na, (int)e.getCreateReason());
            names.push_back(narrow(e.getFullName()) + b);
        }
        NameIdPoolEnumerator<DTDEntityDecl> ee = d->getEntityEnumerator();
        int ne = 0; while (ee.hasMoreElements()) { ee.nextElement(); ne++; }
        char b[16]; snprintf(b, sizeof b, "ents%d", ne); names.push_back(b);
    } else {
        SchemaGrammar* s = (SchemaGrammar*)g;
        RefHash3KeysIdPoolEnumerator<SchemaElementDecl> en = s->getElemEnumerator();
        while (en.hasMoreElements()) { SchemaElementDecl& e = en.nextElement(); names.push_back(narrow(e.getBaseName())); }
    }
    std::sort(names.begin(), names.end());
    Fnv f; for (auto& n : names) { f.add(n); f.addc(0); }
    char b[32]; snprintf(b, sizeof b, "%d/%08x", (int)names.size(), (unsigned)(f.h & 0xffffffff));
    return b;
}
static std::string poolSig(XMLGrammarPoolImpl* pool, bool locked) {
    std::vector<std::string> ks;
    RefHashTableOfEnumerator<Grammar> en = pool->getGrammarEnumerator();
    while (en.hasMoreElements()) {
        Grammar& g = en.nextElement();
        std::string k = escn(narrow(g.getGrammarDescription()->getGrammarKey()));
        ks.push_back(k + (g.getGrammarType() == Grammar::DTDGrammarType ? ":D:" : ":S:") + gramFingerprint(&g));
    }
    std::sort(ks.begin(), ks.end());
    std::string s = locked ? "L1[" : "L0[";
    for (size_t i = 0; i < ks.size(); i++) s += (i ? " " : "") + ks[i];
    char b[32]; snprintf(b, sizeof b, "]u%u", pool->getURIStringPool() ? (unsigned)pool->getURIStringPool()->getStringCount() : 0u);
    return s + b;
}

// ------------------------------------------------------------------------------------------------ parser wrappers
static const char* FEATS[] = {"ns", "val", "dyn", "vis", "schema", "full", "idc", "ldtd", "lsch", "cont", "vfatal", "cache", "use", "icd",
                              "skip", "multi", "nodtd", "nsp", "ent", "ws", "cmt", "sinfo", 0};

static const XMLCh* scannerName(int s) {
    switch (s) { case 0: return XMLUni::fgIGXMLScanner; case 1: return XMLUni::fgWFXMLScanner; case 2: return XMLUni::fgDGXMLScanner; default: return XMLUni::fgSGXMLScanner; }
}

static std::string kv(const char* k, int v);
struct PX {
    Rec& rec;
    explicit PX(Rec& r) : rec(r) {}
    virtual ~PX() {}
    virtual bool setf(const std::string& n, int v) = 0;       // false = feature not known to this kind
    virtual std::string getcfg() = 0;
    virtual void useScanner(int s) = 0;
    virtual void setLoc(bool nons, const XMLCh* loc) = 0;
    virtual void parse(const InputSource& src) = 0;
    virtual bool parseFirst(const InputSource& src, XMLPScanToken& t) = 0;
    virtual bool parseNext(XMLPScanToken& t) = 0;
    virtual void parseReset(XMLPScanToken& t) = 0;
    virtual bool progressive() { return true; }
    virtual Grammar* loadGrammar(const InputSource& src, Grammar::GrammarType t, bool toCache) = 0;
    virtual void resetGrammarPool() = 0;
    virtual bool isDom() { return false; }
    virtual void resetDocPool() {}
    virtual DOMDocument* adopt() { return 0; }
    virtual DOMDocument* doc() { return 0; }
    virtual void setSec(SecurityManager* sm) = 0;                 // setSecurityManager / setProperty(security-manager)
    virtual const SecurityManager* getSec() = 0;
    std::string secCfg() { const SecurityManager* m = getSec(); return kv("sec", m ? (int)m->getEntityExpansionLimit() : 0); }
};
static std::string kv(const char* k, int v) { char b[48]; snprintf(b, sizeof b, "%s=%d ", k, v); return b; }

template <class P> static bool setCommon(P* p, const std::string& n, int v) {
    if (n == "ns") p->setDoNamespaces(v);
    else if (n == "val") p->setValidationScheme(v == 0 ? P::Val_Never : v == 1 ? P::Val_Always : P::Val_Auto);
    else if (n == "schema") p->setDoSchema(v);
    else if (n == "full") p->setValidationSchemaFullChecking(v);
    else if (n == "idc") p->setIdentityConstraintChecking(v);
    else if (n == "ldtd") p->setLoadExternalDTD(v);
    else if (n == "lsch") p->setLoadSchema(v);
    else if (n == "cont") p->setExitOnFirstFatalError(!v);
    else if (n == "vfatal") p->setValidationConstraintFatal(v);
    else if (n == "cache") p->cacheGrammarFromParse(v);
    else if (n == "use") p->useCachedGrammarInParse(v);
    else if (n == "icd") p->setIgnoreCachedDTD(v);
    else if (n == "skip") p->setSkipDTDValidation(v);
    else if (n == "multi") p->setHandleMultipleImports(v);
    else if (n == "nodtd") p->setDisallowDoctype(v);
    else return false;
    return true;
}
template <class P> static std::string getCommon(P* p) {
    std::string s;
    s += kv("ns", p->getDoNamespaces());
    s += kv("val", p->getValidationScheme() == P::Val_Never ? 0 : p->getValidationScheme() == P::Val_Always ? 1 : 2);
    s += kv("schema", p->getDoSchema()); s += kv("full", p->getValidationSchemaFullChecking());
    s += kv("idc", p->getIdentityConstraintChecking()); s += kv("ldtd", p->getLoadExternalDTD()); s += kv("lsch", p->getLoadSchema());
    s += kv("cont", !p->getExitOnFirstFatalError()); s += kv("vfatal", p->getValidationConstraintFatal());
    s += kv("cache", p->isCachingGrammarFromParse()); s += kv("use", p->isUsingCachedGrammarInParse());
    s += kv("icd", p->getIgnoreCachedDTD()); s += kv("skip", p->getSkipDTDValidation()); s += kv("multi", p->getHandleMultipleImports());
    s += kv("nodtd", p->getDisallowDoctype());
    return s;
}

struct PSax : PX {
    SAXParser* p; H1 h; H2 adv;
    PSax(Rec& r, XMLGrammarPool* pool) : PX(r), h(r), adv(r) {
        p = new SAXParser(0, XMLPlatformUtils::fgMemoryManager, pool);
        p->setDocumentHandler(&h); p->setErrorHandler(&h); p->setEntityResolver(&h);
        p->installAdvDocHandler(&adv); p->setPSVIHandler(&adv);
    }
    ~PSax() override { delete p; }
    bool setf(const std::string& n, int v) override { return setCommon(p, n, v); }
    std::string getcfg() override { return getCommon(p) + secCfg(); }
    // SGXMLScanner with a PSVI handler dereferences a null XSModel on the first attribute of a document without schema
    // (a single-parse crash, not a matter of this property): no PSVI handler with that scanner
    void useScanner(int s) override { p->setPSVIHandler(s == 3 ? 0 : &adv); p->useScanner(scannerName(s)); }
    void setLoc(bool nons, const XMLCh* l) override { if (nons) p->setExternalNoNamespaceSchemaLocation(l); else p->setExternalSchemaLocation(l); }
    void parse(const InputSource& s) override { p->parse(s); }
    bool parseFirst(const InputSource& s, XMLPScanToken& t) override { return p->parseFirst(s, t); }
    bool parseNext(XMLPScanToken& t) override { return p->parseNext(t); }
    void parseReset(XMLPScanToken& t) override { p->parseReset(t); }
    Grammar* loadGrammar(const InputSource& s, Grammar::GrammarType t, bool c) override { return p->loadGrammar(s, t, c); }
    void resetGrammarPool() override { p->resetCachedGrammarPool(); }
    void setSec(SecurityManager* sm) override { p->setSecurityManager(sm); }
    const SecurityManager* getSec() override { return p->getSecurityManager(); }
};

struct PSax2 : PX {
    SAX2XMLReaderImpl* p; H2 h;
    PSax2(Rec& r, XMLGrammarPool* pool) : PX(r), h(r) {
        p = new SAX2XMLReaderImpl(XMLPlatformUtils::fgMemoryManager, pool);
        p->setContentHandler(&h); p->setErrorHandler(&h); p->setEntityResolver(&h); p->setLexicalHandler(&h);
        p->installAdvDocHandler(&h); p->setPSVIHandler(&h);
    }
    ~PSax2() override { delete p; }
    const XMLCh* uri(const std::string& n) {
        if (n == "ns") return XMLUni::fgSAX2CoreNameSpaces; if (n == "val") return XMLUni::fgSAX2CoreValidation;
        if (n == "dyn") return XMLUni::fgXercesDynamic; if (n == "nsp") return XMLUni::fgSAX2CoreNameSpacePrefixes;
        if (n == "schema") return XMLUni::fgXercesSchema; if (n == "full") return XMLUni::fgXercesSchemaFullChecking;
        if (n == "idc") return XMLUni::fgXercesIdentityConstraintChecking; if (n == "ldtd") return XMLUni::fgXercesLoadExternalDTD;
        if (n == "lsch") return XMLUni::fgXercesLoadSchema; if (n == "cont") return XMLUni::fgXercesContinueAfterFatalError;
        if (n == "vfatal") return XMLUni::fgXercesValidationErrorAsFatal; if (n == "cache") return XMLUni::fgXercesCacheGrammarFromParse;
        if (n == "use") return XMLUni::fgXercesUseCachedGrammarInParse; if (n == "icd") return XMLUni::fgXercesIgnoreCachedDTD;
        if (n == "skip") return XMLUni::fgXercesSkipDTDValidation; if (n == "multi") return XMLUni::fgXercesHandleMultipleImports;
        if (n == "nodtd") return XMLUni::fgXercesDisallowDoctype;
        return 0;
    }
    bool setf(const std::string& n, int v) override { const XMLCh* u = uri(n); if (!u) return false; p->setFeature(u, v != 0); return true; }
    std::string getcfg() override {
        std::string s;
        for (const char** f = FEATS; *f; ++f) { const XMLCh* u = uri(*f); if (u) s += kv(*f, p->getFeature(u)); }
        return s + secCfg();
    }
    void useScanner(int s) override { p->setPSVIHandler(s == 3 ? 0 : &h); p->setProperty(XMLUni::fgXercesScannerName, (void*)scannerName(s)); }
    void setLoc(bool nons, const XMLCh* l) override {
        p->setProperty(nons ? XMLUni::fgXercesSchemaExternalNoNameSpaceSchemaLocation : XMLUni::fgXercesSchemaExternalSchemaLocation, (void*)l);
    }
    void parse(const InputSource& s) override { p->parse(s); }
    bool parseFirst(const InputSource& s, XMLPScanToken& t) override { return p->parseFirst(s, t); }
    bool parseNext(XMLPScanToken& t) override { return p->parseNext(t); }
    void parseReset(XMLPScanToken& t) override { p->parseReset(t); }
    Grammar* loadGrammar(const InputSource& s, Grammar::GrammarType t, bool c) override { return p->loadGrammar(s, t, c); }
    void resetGrammarPool() override { p->resetCachedGrammarPool(); }
    void setSec(SecurityManager* sm) override { p->setProperty(XMLUni::fgXercesSecurityManager, (void*)sm); }
    const SecurityManager* getSec() override { return (const SecurityManager*)p->getProperty(XMLUni::fgXercesSecurityManager); }
};

// XercesDOMParser with counting hooks on the document-handler callbacks (the class is designed for subclassing)
class XDP : public XercesDOMParser {
public:
    Rec& r;
    XDP(Rec& rr, XMLGrammarPool* pool) : XercesDOMParser(0, XMLPlatformUtils::fgMemoryManager, pool), r(rr) {}
    void startElement(const XMLElementDecl& d, const unsigned int u, const XMLCh* const pfx, const RefVectorOf<XMLAttr>& al,
                      const XMLSize_t n, const bool e, const bool root) override {
        XercesDOMParser::startElement(d, u, pfx, al, n, e, root); r.tick();
    }
    void endElement(const XMLElementDecl& d, const unsigned int u, const bool root, const XMLCh* const pfx) override {
        XercesDOMParser::endElement(d, u, root, pfx); r.tick();
    }
    void docCharacters(const XMLCh* const c, const XMLSize_t n, const bool cd) override { XercesDOMParser::docCharacters(c, n, cd); r.tick(); }
    void startDocument() override { XercesDOMParser::startDocument(); r.tick(); }
    void endDocument() override { XercesDOMParser::endDocument(); r.tick(); }
};
struct PDom : PX {
    XDP* p; H1 h;
    PDom(Rec& r, XMLGrammarPool* pool) : PX(r), h(r) {
        p = new XDP(r, pool);
        p->setErrorHandler(&h); p->setEntityResolver(&h);
    }
    ~PDom() override { delete p; }
    bool setf(const std::string& n, int v) override {
        if (setCommon(p, n, v)) return true;
        if (n == "ent") p->setCreateEntityReferenceNodes(v); else if (n == "ws") p->setIncludeIgnorableWhitespace(v);
        else if (n == "cmt") p->setCreateCommentNodes(v); else if (n == "sinfo") p->setCreateSchemaInfo(v);
        else return false;
        return true;
    }
    std::string getcfg() override {
        return getCommon(p) + kv("ent", p->getCreateEntityReferenceNodes()) + kv("ws", p->getIncludeIgnorableWhitespace()) +
               kv("cmt", p->getCreateCommentNodes()) + kv("sinfo", p->getCreateSchemaInfo()) + secCfg();
    }
    void useScanner(int s) override { p->useScanner(scannerName(s)); }
    void setLoc(bool nons, const XMLCh* l) override { if (nons) p->setExternalNoNamespaceSchemaLocation(l); else p->setExternalSchemaLocation(l); }
    void parse(const InputSource& s) override { p->parse(s); }
    bool parseFirst(const InputSource& s, XMLPScanToken& t) override { return p->parseFirst(s, t); }
    bool parseNext(XMLPScanToken& t) override { return p->parseNext(t); }
    void parseReset(XMLPScanToken& t) override { p->parseReset(t); }
    Grammar* loadGrammar(const InputSource& s, Grammar::GrammarType t, bool c) override { return p->loadGrammar(s, t, c); }
    void resetGrammarPool() override { p->resetCachedGrammarPool(); }
    bool isDom() override { return true; }
    void resetDocPool() override { p->resetDocumentPool(); }
    DOMDocument* adopt() override { return p->adoptDocument(); }
    DOMDocument* doc() override { return p->getDocument(); }
    void setSec(SecurityManager* sm) override { p->setSecurityManager(sm); }
    const SecurityManager* getSec() override { return p->getSecurityManager(); }
};

class XLS : public DOMLSParserImpl {
public:
    Rec& r;
    XLS(Rec& rr, XMLGrammarPool* pool) : DOMLSParserImpl(0, XMLPlatformUtils::fgMemoryManager, pool), r(rr) {}
    void startElement(const XMLElementDecl& d, const unsigned int u, const XMLCh* const pfx, const RefVectorOf<XMLAttr>& al,
                      const XMLSize_t n, const bool e, const bool root) override {
        DOMLSParserImpl::startElement(d, u, pfx, al, n, e, root); r.tick();
    }
    void docCharacters(const XMLCh* const c, const XMLSize_t n, const bool cd) override { DOMLSParserImpl::docCharacters(c, n, cd); r.tick(); }
    void startDocument() override { DOMLSParserImpl::startDocument(); r.tick(); }
    void endDocument() override { DOMLSParserImpl::endDocument(); r.tick(); }
};
struct PLs : PX {
    XLS* p; LSH h; DOMDocument* last = 0;
    PLs(Rec& r, XMLGrammarPool* pool) : PX(r), h(r) {
        p = new XLS(r, pool);
        p->getDomConfig()->setParameter(XMLUni::fgDOMErrorHandler, (const void*)static_cast<DOMErrorHandler*>(&h));
        p->getDomConfig()->setParameter(XMLUni::fgDOMResourceResolver, (const void*)static_cast<DOMLSResourceResolver*>(&h));
    }
    ~PLs() override { p->release(); }
    const XMLCh* uri(const std::string& n) {
        if (n == "ns") return XMLUni::fgDOMNamespaces; if (n == "val") return XMLUni::fgDOMValidate; if (n == "vis") return XMLUni::fgDOMValidateIfSchema;
        if (n == "schema") return XMLUni::fgXercesSchema; if (n == "full") return XMLUni::fgXercesSchemaFullChecking;
        if (n == "idc") return XMLUni::fgXercesIdentityConstraintChecking; if (n == "ldtd") return XMLUni::fgXercesLoadExternalDTD;
        if (n == "lsch") return XMLUni::fgXercesLoadSchema; if (n == "cont") return XMLUni::fgXercesContinueAfterFatalError;
        if (n == "vfatal") return XMLUni::fgXercesValidationErrorAsFatal; if (n == "cache") return XMLUni::fgXercesCacheGrammarFromParse;
        if (n == "use") return XMLUni::fgXercesUseCachedGrammarInParse; if (n == "icd") return XMLUni::fgXercesIgnoreCachedDTD;
        if (n == "skip") return XMLUni::fgXercesSkipDTDValidation; if (n == "multi") return XMLUni::fgXercesHandleMultipleImports;
        if (n == "nodtd") return XMLUni::fgDOMDisallowDoctype; if (n == "ent") return XMLUni::fgDOMEntities;
        if (n == "ws") return XMLUni::fgDOMElementContentWhitespace; if (n == "cmt") return XMLUni::fgDOMComments;
        if (n == "sinfo") return XMLUni::fgXercesDOMHasPSVIInfo;
        return 0;
    }
    bool setf(const std::string& n, int v) override { const XMLCh* u = uri(n); if (!u) return false; p->getDomConfig()->setParameter(u, v != 0); return true; }
    std::string getcfg() override {
        std::string s;
        for (const char** f = FEATS; *f; ++f) {
            const XMLCh* u = uri(*f);
            if (u) s += kv(*f, p->getDomConfig()->getParameter(u) != 0);
        }
        return s + secCfg();
    }
    void useScanner(int s) override { p->getDomConfig()->setParameter(XMLUni::fgXercesScannerName, (const void*)scannerName(s)); }
    void setLoc(bool nons, const XMLCh* l) override {
        p->getDomConfig()->setParameter(nons ? XMLUni::fgXercesSchemaExternalNoNameSpaceSchemaLocation : XMLUni::fgXercesSchemaExternalSchemaLocation, (const void*)l);
    }
    void parse(const InputSource& s) override {
        // Wrapper4InputSource does not adopt here
        Wrapper4InputSource w(const_cast<InputSource*>(&s), false);
        last = 0;
        last = p->parse(&w);
    }
    bool parseFirst(const InputSource&, XMLPScanToken&) override { return false; }
    bool parseNext(XMLPScanToken&) override { return false; }
    void parseReset(XMLPScanToken&) override {}
    bool progressive() override { return false; }
    Grammar* loadGrammar(const InputSource& s, Grammar::GrammarType t, bool c) override {
        Wrapper4InputSource w(const_cast<InputSource*>(&s), false);
        return p->loadGrammar(&w, t, c);
    }
    void resetGrammarPool() override { p->resetCachedGrammarPool(); }
    bool isDom() override { return true; }
    void resetDocPool() override { p->resetDocumentPool(); }
    DOMDocument* adopt() override { return p->adoptDocument(); }
    DOMDocument* doc() override { return p->getDocument(); }
    void setSec(SecurityManager* sm) override { p->getDomConfig()->setParameter(XMLUni::fgXercesSecurityManager, (const void*)sm); }
    const SecurityManager* getSec() override { return (const SecurityManager*)p->getDomConfig()->getParameter(XMLUni::fgXercesSecurityManager); }
};

static PX* makeParser(const std::string& kind, Rec& rec, XMLGrammarPool* pool) {
    if (kind == "sax") return new PSax(rec, pool);
    if (kind == "sax2") return new PSax2(rec, pool);
    if (kind == "dom") return new PDom(rec, pool);
    if (kind == "ls") return new PLs(rec, pool);
    return 0;
}

// ------------------------------------------------------------------------------------------------ history
template <class F> static std::string guarded(F f) {
    // returns "" when f completed, otherwise the exception name
    try { f(); return ""; }
    catch (const UserAbort&) { return "exc:UserAbort"; }
    catch (const OutOfMemoryException&) { return "exc:OutOfMemory"; }
    catch (const XMLException& e) { return "exc:" + narrow(e.getType()) + "#" + std::to_string((int)e.getCode()); }
    catch (const SAXParseException& e) { return "exc:SAXParseException(" + esc(e.getMessage()).substr(0, 60) + ")"; }
    catch (const SAXException& e) { return "exc:SAXException(" + esc(e.getMessage()).substr(0, 60) + ")"; }
    catch (const DOMLSException& e) { return "exc:DOMLSException#" + std::to_string((int)e.code); }
    catch (const DOMException& e) { return "exc:DOMException#" + std::to_string((int)e.code); }
    catch (...) { return "exc:FOREIGN-EXCEPTION"; }
}

static std::string runHistory(const std::string& kind, const std::string& opsText) {
    Rec rec;
    XMLGrammarPoolImpl* pool = new XMLGrammarPoolImpl(XMLPlatformUtils::fgMemoryManager);
    bool locked = false;
    PX* px = makeParser(kind, rec, pool);
    if (!px) { delete pool; return "bad-op"; }
    std::vector<XMLPScanToken*> tokens;
    std::vector<bool> ended;
    std::vector<SecurityManager*> sms;      // owned by the application (here: the harness), as the API says
    SecurityManager* cursm = 0;
    struct Adopted { DOMDocument* d; std::string dump; };
    std::vector<Adopted> adopted;
    std::vector<std::string> outs;
    bool bad = false;
    for (const std::string& op : split(opsText, ';')) {
        if (op.empty()) continue;
        std::string o;
        rec.reset();
        char c0 = op[0];
        std::string rest = op.substr(1);
        if (c0 == 'F') {                                   // F<name>=<v>
            size_t eq = rest.find('=');
            if (eq == std::string::npos) { bad = true; break; }
            std::string n = rest.substr(0, eq); int v = atoi(rest.c_str() + eq + 1);
            bool known = true;
            std::string e = guarded([&] { known = px->setf(n, v); });
            o = !known ? "unknown" : e.empty() ? "ok" : e;
        } else if (c0 == 'S') {                            // S<scanner 0..3>
            std::string e = guarded([&] { px->useScanner(atoi(rest.c_str())); });
            o = e.empty() ? "ok" : e;
        } else if (c0 == 'X') {                            // XS<id> | XN<id>   (id 0 = none)
            bool nons = rest.size() && rest[0] == 'N';
            int id = atoi(rest.c_str() + 1);
            std::string e;
            if (id == 0) e = guarded([&] { px->setLoc(nons, 0); });
            else { XStr x(gLocs[id]); e = guarded([&] { px->setLoc(nons, x.get()); }); }
            o = e.empty() ? "ok" : e;
        } else if (c0 == 'M') {                            // MI<n> | ML<n> | M0
            std::string e;
            if (rest == "0") e = guarded([&] { px->setSec(0); cursm = 0; });
            else if (rest.size() > 1 && rest[0] == 'I') {
                SecurityManager* sm = new SecurityManager();
                sm->setEntityExpansionLimit((XMLSize_t)atol(rest.c_str() + 1));
                sms.push_back(sm);
                e = guarded([&] { px->setSec(sm); cursm = sm; });
            } else if (rest.size() > 1 && rest[0] == 'L') {
                if (cursm) cursm->setEntityExpansionLimit((XMLSize_t)atol(rest.c_str() + 1));
            } else { bad = true; break; }
            o = e.empty() ? "ok" : e;
        } else if (c0 == 'V') {                            // configuration read-back
            std::string e = guarded([&] { o = px->getcfg(); });
            if (!e.empty()) o = e;
            while (!o.empty() && o.back() == ' ') o.pop_back();
        } else if (c0 == 'P' || c0 == 'E') {               // P<d> | E<d>.<k>
            int d = atoi(rest.c_str()); long k = -1;
            size_t dot = rest.find('.');
            if (dot != std::string::npos) k = atol(rest.c_str() + dot + 1);
            auto it = gDocs.find(d);
            if (it == gDocs.end()) { bad = true; break; }
            char sid[64]; snprintf(sid, sizeof sid, "file:///c15/doc%d.xml", d);
            MemBufInputSource src((const XMLByte*)it->second.data(), it->second.size(), sid, false);
            rec.throwAt = (c0 == 'E') ? k : -1;
            std::string e = guarded([&] { px->parse(src); });
            o = rec.take();
            if (!e.empty()) o += e;
            if (px->isDom()) o += "|" + dumpDoc(px->doc());
        } else if (c0 == 'Q') {                            // QF<d> | QN<t> | QR<t>
            char which = rest.empty() ? '?' : rest[0];
            int a = atoi(rest.c_str() + 1);
            if (!px->progressive()) o = "unsupported";
            else if (which == 'F') {
                auto it = gDocs.find(a);
                if (it == gDocs.end()) { bad = true; break; }
                char sid[64]; snprintf(sid, sizeof sid, "file:///c15/doc%d.xml", a);
                MemBufInputSource src((const XMLByte*)it->second.data(), it->second.size(), sid, false);
                XMLPScanToken* t = new XMLPScanToken();
                tokens.push_back(t);
                bool ok = false;
                std::string e = guarded([&] { ok = px->parseFirst(src, *t); });
                ended.push_back(!ok || !e.empty());
                o = rec.take() + (ok ? "first:1" : "first:0") + e;
            } else if (which == 'N' || which == 'R' || which == '!') {
                // QN<t>: parseNext, not issued when the scan of token t has already ended (returned false / threw):
                // continuing such a scan crashes the pinned library (recorded finding); QN!<t> (written "Q!<t>") forces the call
                bool force = which == '!';
                if (force) which = 'N';
                if (a < 0 || a >= (int)tokens.size()) o = "no-token";
                else if (false && ended[a] && !force) o = "ended";   // (was skipped while /repo crashed here; repaired in b09cd0c)
                else {
                    bool more = false;
                    std::string e = guarded([&] { if (which == 'N') more = px->parseNext(*tokens[a]); else px->parseReset(*tokens[a]); });
                    if (which == 'N' && (!more || !e.empty()) && e.find("RuntimeException") == std::string::npos) ended[a] = true;
                    o = rec.take() + (which == 'N' ? (more ? "next:1" : "next:0") : "reset") + e;
                }
            } else { bad = true; break; }
        } else if (c0 == 'G') {                            // G<g>.<toCache>
            int g = atoi(rest.c_str()); int tc = 0;
            size_t dot = rest.find('.');
            if (dot != std::string::npos) tc = atoi(rest.c_str() + dot + 1);
            auto it = gGrams.find(g);
            if (it == gGrams.end()) { bad = true; break; }
            const std::string& bytes = gEnts[it->second.sysid];
            MemBufInputSource src((const XMLByte*)bytes.data(), bytes.size(), it->second.sysid.c_str(), false);
            Grammar* gr = 0;
            std::string e = guarded([&] { gr = px->loadGrammar(src, it->second.type == 'D' ? Grammar::DTDGrammarType : Grammar::SchemaGrammarType, tc != 0); });
            o = rec.take() + (gr ? "loaded:1" : "loaded:0") + e;
        } else if (op == "RD") {
            std::string e = guarded([&] { px->resetDocPool(); });
            o = e.empty() ? "ok" : e;
        } else if (op == "RG") {
            std::string e = guarded([&] { px->resetGrammarPool(); });
            o = e.empty() ? "ok" : e;
        } else if (op == "A") {
            if (!px->isDom()) o = "unsupported";
            else {
                DOMDocument* d = 0;
                std::string e = guarded([&] { d = px->adopt(); });
                if (d) {
                    bool dup = false;
                    for (auto& a : adopted) if (a.d == d) dup = true;
                    if (!dup) adopted.push_back(Adopted{d, dumpDoc(d)});
                }
                o = std::string(d ? "adopt:doc" : "adopt:null") + e;
            }
        } else if (op == "L") { std::string e = guarded([&] { pool->lockPool(); }); locked = true; o = e.empty() ? "ok" : e; }
        else if (op == "U") { std::string e = guarded([&] { pool->unlockPool(); }); locked = false; o = e.empty() ? "ok" : e; }
        else if (op == "N") {                              // replace the parser object by a freshly constructed one (same pool)
            for (auto& a : adopted) { if (dumpDoc(a.d) != a.dump) o = "ADOPTED-CHANGED"; }
            delete px; px = makeParser(kind, rec, pool);
            for (auto t : tokens) delete t;
            tokens.clear(); ended.clear(); cursm = 0;
            if (o.empty()) o = "new";
        } else { bad = true; break; }
        std::string cfg;
        { std::string e = guarded([&] { cfg = px->getcfg(); }); if (!e.empty()) cfg = e; }
        while (!cfg.empty() && cfg.back() == ' ') cfg.pop_back();
        outs.push_back(o + " @" + cfg + " #" + poolSig(pool, locked));
    }
    std::string res;
    if (bad) res = "bad-op";
    else {
        for (size_t i = 0; i < outs.size(); i++) res += (i ? " ;; " : "") + outs[i];
        // adopted documents must survive further use and the destruction of the parser unchanged
        std::string verdict = "adopted:" + std::to_string(adopted.size());
        for (auto& a : adopted) if (dumpDoc(a.d) != a.dump) verdict += ":CHANGED-BEFORE-DELETE";
        delete px; px = 0;
        for (auto& a : adopted) if (dumpDoc(a.d) != a.dump) verdict += ":CHANGED-AFTER-DELETE";
        res += " ;; " + verdict;
    }
    if (px) delete px;
    for (auto& a : adopted) a.d->release();
    for (auto t : tokens) delete t;
    for (auto m : sms) delete m;
    delete pool;
    return res;
}

// ------------------------------------------------------------------------------------------------ direct pool / resolver
struct GramBox {
    std::vector<Grammar*> mine;       // grammars currently owned by the harness
    void own(Grammar* g) { if (g) mine.push_back(g); }
    void disown(Grammar* g) { mine.erase(std::remove(mine.begin(), mine.end(), g), mine.end()); }
    ~GramBox() { for (auto g : mine) delete g; }
};
static Grammar* makeGrammar(XMLGrammarPoolImpl* pool, const std::string& key, bool schema, int id) {
    XStr k(key);
    Grammar* g;
    if (schema) { SchemaGrammar* s = pool->createSchemaGrammar(); s->setTargetNamespace(k.get());
        ((XMLSchemaDescription*)s->getGrammarDescription())->setTargetNamespace(k.get()); g = s; }
    else {
        DTDGrammar* d = pool->createDTDGrammar();
        ((XMLDTDDescription*)d->getGrammarDescription())->setSystemId(k.get());
        g = d;
    }
    gGramIds[g] = id;
    return g;
}
static std::string gid(Grammar* g) { return g ? std::to_string(gGramIds[g]) : std::string("-"); }
static std::string poolKeys(XMLGrammarPoolImpl* pool) {
    std::vector<std::string> ks;
    RefHashTableOfEnumerator<Grammar> en = pool->getGrammarEnumerator();
    while (en.hasMoreElements()) {
        Grammar& g = en.nextElement();
        ks.push_back(narrow(g.getGrammarDescription()->getGrammarKey()) + "=" + gid(&g));
    }
    std::sort(ks.begin(), ks.end());
    std::string s = "{";
    for (size_t i = 0; i < ks.size(); i++) s += (i ? " " : "") + ks[i];
    return s + "}";
}
static bool poolOp(XMLGrammarPoolImpl* pool, GramBox& box, const std::vector<std::string>& f, std::string& o) {
    const std::string& op = f[0];
    if (op == "c" && f.size() == 4) {
        Grammar* g = makeGrammar(pool, "k" + f[1], f[2] == "1", atoi(f[3].c_str()));
        bool ok = pool->cacheGrammar(g);
        if (!ok) box.own(g);
        o = ok ? "1" : "0";
    } else if (op == "c0") { o = pool->cacheGrammar(0) ? "1" : "0"; }
    else if (op == "r" && f.size() == 2) {
        XStr k("k" + f[1]);
        XMLSchemaDescription* d = pool->createSchemaDescription(k.get());
        Grammar* g = pool->retrieveGrammar(d);
        delete d;
        o = gid(g);
    } else if (op == "o" && f.size() == 2) {
        XStr k("k" + f[1]);
        Grammar* g = pool->orphanGrammar(k.get());
        box.own(g);
        o = gid(g);
    } else if (op == "x") { o = pool->clear() ? "1" : "0"; }
    else if (op == "l") { pool->lockPool(); o = "ok"; }
    else if (op == "u") { pool->unlockPool(); o = "ok"; }
    else if (op == "m") { bool ch = false; XSModel* m = pool->getXSModel(ch); o = std::string(ch ? "1" : "0") + (m ? "m" : "n"); }
    else if (op == "a" && f.size() == 2) {
        XStr s("uri" + f[1]);
        o = std::to_string(pool->getURIStringPool()->addOrFind(s.get()));
    } else if (op == "e") { o = poolKeys(pool) + "u" + std::to_string(pool->getURIStringPool()->getStringCount()); }
    else return false;
    return true;
}
static std::string runPool(const std::string& opsText) {
    XMLGrammarPoolImpl* pool = new XMLGrammarPoolImpl(XMLPlatformUtils::fgMemoryManager);
    std::string res;
    {
        GramBox box;
        bool first = true;
        for (const std::string& op : split(opsText, ';')) {
            if (op.empty()) continue;
            std::string o;
            std::string e = guarded([&] { if (!poolOp(pool, box, split(op, ':'), o)) o = "bad-op"; });
            if (!e.empty()) o = e;
            res += (first ? "" : " ") + o; first = false;
        }
        res += " " + poolKeys(pool);
    }
    delete pool;
    return res;
}
static std::string runResolver(const std::string& opsText) {
    XMLGrammarPoolImpl* pool = new XMLGrammarPoolImpl(XMLPlatformUtils::fgMemoryManager);
    std::string res;
    {
        GramBox box;
        GrammarResolver* r = new GrammarResolver(pool, XMLPlatformUtils::fgMemoryManager);
        bool first = true;
        for (const std::string& op : split(opsText, ';')) {
            if (op.empty()) continue;
            std::string o;
            auto f = split(op, ':');
            std::string e = guarded([&] {
                if (f[0] == "get" && f.size() == 2) { XStr k("k" + f[1]); o = gid(r->getGrammar(k.get())); }
                else if (f[0] == "put" && f.size() == 4) { r->putGrammar(makeGrammar(pool, "k" + f[1], f[2] == "1", atoi(f[3].c_str()))); o = "ok"; }
                else if (f[0] == "reset") { r->reset(); o = "ok"; }
                else if (f[0] == "resetCached") { r->resetCachedGrammar(); o = "ok"; }
                else if (f[0] == "cacheAll") { r->cacheGrammars(); o = "ok"; }
                else if (f[0] == "setCache" && f.size() == 2) { r->cacheGrammarFromParse(f[1] == "1"); o = "ok"; }
                else if (f[0] == "setUse" && f.size() == 2) { r->useCachedGrammarInParse(f[1] == "1"); o = "ok"; }
                else if (f[0] == "orphan" && f.size() == 2) { XStr k("k" + f[1]); Grammar* g = r->orphanGrammar(k.get()); box.own(g); o = gid(g); }
                else if (f[0] == "pool" && f.size() >= 2) {
                    std::vector<std::string> g(f.begin() + 1, f.end());
                    if (!poolOp(pool, box, g, o)) o = "bad-op";
                } else o = "bad-op";
            });
            if (!e.empty()) o = e;
            res += (first ? "" : " ") + o; first = false;
        }
        // bucket content
        std::vector<std::string> ks;
        RefHashTableOfEnumerator<Grammar> en = r->getGrammarEnumerator();
        while (en.hasMoreElements()) { Grammar& g = en.nextElement(); ks.push_back(narrow(g.getGrammarDescription()->getGrammarKey()) + "=" + gid(&g)); }
        std::sort(ks.begin(), ks.end());
        res += " b{";
        for (size_t i = 0; i < ks.size(); i++) res += (i ? " " : "") + ks[i];
        res += "} p" + poolKeys(pool);
        delete r;
    }
    delete pool;
    return res;
}

int main(int argc, char** argv) {
    XMLPlatformUtils::Initialize();
    if (argc > 1) loadCorpus(argv[1]);
    std::string line;
    while (std::getline(std::cin, line)) {
        if (line.empty()) continue;
        std::string out;
        size_t sp = line.find(' ');
        std::string head = line.substr(0, sp), rest = sp == std::string::npos ? "" : line.substr(sp + 1);
        try {
            if (head == "H") {
                size_t sp2 = rest.find(' ');
                out = runHistory(rest.substr(0, sp2), sp2 == std::string::npos ? "" : rest.substr(sp2 + 1));
            } else if (head == "P") out = runPool(rest);
            else if (head == "R") out = runResolver(rest);
            else out = "bad-op";
        } catch (...) { out = "FOREIGN-EXCEPTION(top)"; }
        std::cout << out << "\n" << std::flush;
    }
    XMLPlatformUtils::Terminate();
    return 0;
}
