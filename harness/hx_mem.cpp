// C18 harness: recording MemoryManagers around the real parsers, Initialize/Terminate sequences and the
// DOM document arena.  One case per stdin line, one observation line per case:
//     <observation> | <trace>
// trace tokens:  +m.p.s  (manager m allocated block p of s bytes)   -m.p  (block p released to manager m)
//                #text   (marker, ignored by the monitor; tells the reader where in the scenario an event happened)
// Block ids p are small numbers given to addresses in order of first appearance within the case.
#include "hx_common.hpp"
#include <map>
#include <set>
#include <memory>
#include <execinfo.h>
#include <cxxabi.h>
#include <xercesc/framework/MemoryManager.hpp>
#include <xercesc/framework/MemBufInputSource.hpp>
#include <xercesc/framework/Wrapper4InputSource.hpp>
#include <xercesc/framework/XMLGrammarPoolImpl.hpp>
#include <xercesc/framework/XMLPScanToken.hpp>
#include <xercesc/parsers/SAXParser.hpp>
#include <xercesc/parsers/XercesDOMParser.hpp>
#include <xercesc/sax/HandlerBase.hpp>
#include <xercesc/sax/SAXParseException.hpp>
#include <xercesc/sax2/SAX2XMLReader.hpp>
#include <xercesc/sax2/XMLReaderFactory.hpp>
#include <xercesc/sax2/DefaultHandler.hpp>
#include <xercesc/dom/DOM.hpp>
#include <xercesc/dom/DOMMemoryManager.hpp>
#include <xercesc/dom/impl/DOMDocumentImpl.hpp>
#include <xercesc/util/OutOfMemoryException.hpp>
#include <xercesc/util/XMLUni.hpp>
#include <xercesc/util/XMLMsgLoader.hpp>

extern "C" int __lsan_do_recoverable_leak_check();

// ------------------------------------------------------------------------------------------------ trace
struct Trace {
    std::string out;                       // tokens
    std::map<void*, int> ids;              // address -> small id (kept after release: address reuse keeps the id)
    int next = 0;
    long allocs = 0, frees = 0;
    bool bt = false;                       // record a backtrace per live block (replay/diagnosis only)
    std::map<int, std::string> site;       // id -> allocation site (most recent allocation of that id)
    int idOf(void* p) { auto it = ids.find(p); if (it != ids.end()) return it->second; ids[p] = next; return next++; }
    void alloc(int m, void* p, size_t n) {
        char b[64]; int id = idOf(p); snprintf(b, sizeof b, "+%d.%d.%zu ", m, id, n); out += b; allocs++;
        if (bt) site[id] = backtraceText();
    }
    void free_(int m, void* p) { char b[48]; snprintf(b, sizeof b, "-%d.%d ", m, idOf(p)); out += b; frees++; }
    void mark(const std::string& s) { out += "#" + s + " "; }
    static std::string backtraceText() {
        void* fr[24]; int n = backtrace(fr, 24); char** sy = backtrace_symbols(fr, n); std::string r;
        for (int i = 2; i < n && i < 14; i++) {
            std::string s = sy[i]; size_t a = s.find('('), b = s.find('+', a == std::string::npos ? 0 : a);
            if (a != std::string::npos && b != std::string::npos && b > a + 1) {
                std::string mang = s.substr(a + 1, b - a - 1); int st = 0;
                char* dm = abi::__cxa_demangle(mang.c_str(), 0, 0, &st);
                if (st == 0 && dm) { std::string d = dm; size_t par = d.find('('); r += d.substr(0, par); free(dm); }
                else r += mang;
            } else r += "?";
            r += " < ";
        }
        free(sy); return r;
    }
};

static MemoryManager* gRecordingGlobal = 0;

// A MemoryManager that records every call.  It allocates with malloc so that ASan sees real blocks.
// `mine` is bookkeeping for the harness' own safety only (never call free() on something that is not ours);
// the verdict about the trace is the verified monitor's, not this class'.
class RecMM : public MemoryManager {
public:
    int id; Trace* tr; std::set<void*> mine; bool* destroyedFlag = 0;
    RecMM(int i, Trace* t) : id(i), tr(t) {}
    ~RecMM() override { if (destroyedFlag) *destroyedFlag = true; reclaim(); }
    void* allocate(XMLSize_t n) override {
        void* p = malloc(n ? n : 1);
        if (!p) throw OutOfMemoryException();
        mine.insert(p); tr->alloc(id, p, n); return p;
    }
    void deallocate(void* p) override {
        if (!p) return;
        tr->free_(id, p);
        auto it = mine.find(p);
        if (it != mine.end()) { mine.erase(it); free(p); }
        else if (tr->bt) fprintf(stderr, "SUSPECT-FREE block %d to manager %d at: %s\n", tr->ids[p], id, Trace::backtraceText().c_str());
    }
    MemoryManager* getExceptionMemoryManager() override { return XMLPlatformUtils::fgMemoryManager; }
    // give back what the library never returned, so that LeakSanitizer only reports blocks that bypassed us
    void reclaim() { for (void* p : mine) free(p); mine.clear(); }
};

// ------------------------------------------------------------------------------------------------ handlers
struct HxStop { int k; };      // private exception type thrown from application callbacks

struct Ctl {
    int n = 0, stopAt = 0, err = 0, fatal = 0, warn = 0;
    RecMM* mm = 0; std::string aux; std::u16string auxW;
    void tick() { n++; if (stopAt && n == stopAt) throw HxStop{n}; }
    void reset(int k) { n = 0; stopAt = k; err = fatal = warn = 0; }
    InputSource* auxSource(const XMLCh* sysId) {
        if (aux.empty()) return 0;
        return new (mm) MemBufInputSource((const XMLByte*)aux.data(), aux.size(), sysId, false, mm);
    }
};

class Sax1H : public HandlerBase {
public:
    Ctl& c; explicit Sax1H(Ctl& c_) : c(c_) {}
    void characters(const XMLCh* const, const XMLSize_t) override { c.tick(); }
    void endDocument() override { c.tick(); }
    void endElement(const XMLCh* const) override { c.tick(); }
    void ignorableWhitespace(const XMLCh* const, const XMLSize_t) override { c.tick(); }
    void processingInstruction(const XMLCh* const, const XMLCh* const) override { c.tick(); }
    void resetDocument() override { c.tick(); }
    void startDocument() override { c.tick(); }
    void startElement(const XMLCh* const, AttributeList&) override { c.tick(); }
    void notationDecl(const XMLCh* const, const XMLCh* const, const XMLCh* const) override { c.tick(); }
    void unparsedEntityDecl(const XMLCh* const, const XMLCh* const, const XMLCh* const, const XMLCh* const) override { c.tick(); }
    InputSource* resolveEntity(const XMLCh* const, const XMLCh* const sysId) override { c.tick(); return c.auxSource(sysId); }
    void warning(const SAXParseException&) override { c.warn++; c.tick(); }
    void error(const SAXParseException&) override { c.err++; c.tick(); }
    void fatalError(const SAXParseException&) override { c.fatal++; c.tick(); }
};

class Sax2H : public DefaultHandler {
public:
    Ctl& c; explicit Sax2H(Ctl& c_) : c(c_) {}
    void characters(const XMLCh* const, const XMLSize_t) override { c.tick(); }
    void endDocument() override { c.tick(); }
    void endElement(const XMLCh* const, const XMLCh* const, const XMLCh* const) override { c.tick(); }
    void ignorableWhitespace(const XMLCh* const, const XMLSize_t) override { c.tick(); }
    void processingInstruction(const XMLCh* const, const XMLCh* const) override { c.tick(); }
    void startDocument() override { c.tick(); }
    void startElement(const XMLCh* const, const XMLCh* const, const XMLCh* const, const Attributes&) override { c.tick(); }
    void startPrefixMapping(const XMLCh* const, const XMLCh* const) override { c.tick(); }
    void endPrefixMapping(const XMLCh* const) override { c.tick(); }
    void skippedEntity(const XMLCh* const) override { c.tick(); }
    void comment(const XMLCh* const, const XMLSize_t) override { c.tick(); }
    void startCDATA() override { c.tick(); }
    void endCDATA() override { c.tick(); }
    void startDTD(const XMLCh* const, const XMLCh* const, const XMLCh* const) override { c.tick(); }
    void endDTD() override { c.tick(); }
    void startEntity(const XMLCh* const) override { c.tick(); }
    void endEntity(const XMLCh* const) override { c.tick(); }
    void elementDecl(const XMLCh* const, const XMLCh* const) override { c.tick(); }
    void attributeDecl(const XMLCh* const, const XMLCh* const, const XMLCh* const, const XMLCh* const, const XMLCh* const) override { c.tick(); }
    void internalEntityDecl(const XMLCh* const, const XMLCh* const) override { c.tick(); }
    void externalEntityDecl(const XMLCh* const, const XMLCh* const, const XMLCh* const) override { c.tick(); }
    void notationDecl(const XMLCh* const, const XMLCh* const, const XMLCh* const) override { c.tick(); }
    void unparsedEntityDecl(const XMLCh* const, const XMLCh* const, const XMLCh* const, const XMLCh* const) override { c.tick(); }
    InputSource* resolveEntity(const XMLCh* const, const XMLCh* const sysId) override { c.tick(); return c.auxSource(sysId); }
    void warning(const SAXParseException&) override { c.warn++; c.tick(); }
    void error(const SAXParseException&) override { c.err++; c.tick(); }
    void fatalError(const SAXParseException&) override { c.fatal++; c.tick(); }
};

class LsH : public DOMErrorHandler, public DOMLSResourceResolver, public DOMLSParserFilter {
public:
    Ctl& c; DOMImplementationLS* impl; explicit LsH(Ctl& c_, DOMImplementationLS* i) : c(c_), impl(i) {}
    bool handleError(const DOMError& e) override {
        if (e.getSeverity() == DOMError::DOM_SEVERITY_WARNING) c.warn++;
        else if (e.getSeverity() == DOMError::DOM_SEVERITY_ERROR) c.err++; else c.fatal++;
        c.tick(); return true;
    }
    DOMLSInput* resolveResource(const XMLCh* const, const XMLCh* const, const XMLCh* const, const XMLCh* const sysId, const XMLCh* const) override {
        c.tick();
        if (c.aux.empty()) return 0;
        DOMLSInput* in = impl->createLSInput(c.mm);
        in->setStringData((const XMLCh*)c.auxW.c_str());
        in->setSystemId(sysId);
        return in;
    }
    FilterAction acceptNode(DOMNode*) override { c.tick(); return FILTER_ACCEPT; }
    FilterAction startElement(DOMElement*) override { c.tick(); return FILTER_ACCEPT; }
    DOMNodeFilter::ShowType getWhatToShow() const override { return DOMNodeFilter::SHOW_ALL; }
};

// ------------------------------------------------------------------------------------------------ library state
static bool gUp = false;           // library initialised by us with the default manager
static void ensureUp() { if (!gUp) { XMLPlatformUtils::Initialize(); gUp = true; } }
static void ensureDown() { if (gUp) { XMLPlatformUtils::Terminate(); gUp = false; } }

static std::string bytesOf(const std::string& hex) {
    std::string r; for (uint32_t v : hx::parseHexList(hex)) r += (char)(unsigned char)v; return r;
}
static bool has(const std::vector<std::string>& o, const char* k) { for (auto& s : o) if (s == k) return true; return false; }

template <class F> static std::string guarded(F f) {
    try { f(); return "done"; }
    catch (const HxStop& s) { return "stop@" + std::to_string(s.k); }
    catch (const OutOfMemoryException&) { return "exc:OutOfMemory"; }
    catch (const XMLException& e) { return "exc:XMLException:" + hx::narrow(e.getType()); }
    catch (const DOMLSException& e) { return "exc:DOMLSException:" + std::to_string((int)e.code); }
    catch (const DOMException& e) { return "exc:DOMException:" + std::to_string((int)e.code); }
    catch (const SAXParseException&) { return "exc:SAXParseException"; }
    catch (const SAXException&) { return "exc:SAXException"; }
    catch (...) { return "exc:FOREIGN-EXCEPTION"; }
}

// ------------------------------------------------------------------------------------------------ parser scenarios
struct Scen {
    std::string parser, mode; int k = 0, j = 0; std::vector<std::string> opts; std::string doc, aux;
};

static XMLCh gDocId[] = {'d', 'o', 'c', '.', 'x', 'm', 'l', 0};

static void configSax(SAXParser* p, const Scen& s) {
    p->setValidationScheme(has(s.opts, "v2") ? SAXParser::Val_Always : has(s.opts, "v1") ? SAXParser::Val_Auto : SAXParser::Val_Never);
    p->setDoNamespaces(has(s.opts, "ns")); p->setDoSchema(has(s.opts, "sch"));
    if (has(s.opts, "sch")) p->setValidationSchemaFullChecking(true);
    if (has(s.opts, "pool")) { p->cacheGrammarFromParse(true); p->useCachedGrammarInParse(true); }
    if (has(s.opts, "xf")) p->setExitOnFirstFatalError(false);
}
static void configDom(XercesDOMParser* p, const Scen& s) {
    p->setValidationScheme(has(s.opts, "v2") ? XercesDOMParser::Val_Always : has(s.opts, "v1") ? XercesDOMParser::Val_Auto : XercesDOMParser::Val_Never);
    p->setDoNamespaces(has(s.opts, "ns")); p->setDoSchema(has(s.opts, "sch"));
    if (has(s.opts, "sch")) p->setValidationSchemaFullChecking(true);
    if (has(s.opts, "pool")) { p->cacheGrammarFromParse(true); p->useCachedGrammarInParse(true); }
    p->setCreateEntityReferenceNodes(has(s.opts, "er"));
    if (has(s.opts, "xf")) p->setExitOnFirstFatalError(false);
}
static void configSax2(SAX2XMLReader* p, const Scen& s) {
    bool val = has(s.opts, "v1") || has(s.opts, "v2");
    p->setFeature(XMLUni::fgSAX2CoreValidation, val);
    p->setFeature(XMLUni::fgXercesDynamic, has(s.opts, "v1"));
    p->setFeature(XMLUni::fgSAX2CoreNameSpaces, has(s.opts, "ns"));
    p->setFeature(XMLUni::fgSAX2CoreNameSpacePrefixes, true);
    p->setFeature(XMLUni::fgXercesSchema, has(s.opts, "sch"));
    if (has(s.opts, "sch")) p->setFeature(XMLUni::fgXercesSchemaFullChecking, true);
    if (has(s.opts, "pool")) { p->setFeature(XMLUni::fgXercesCacheGrammarFromParse, true); p->setFeature(XMLUni::fgXercesUseCachedGrammarInParse, true); }
    if (has(s.opts, "xf")) p->setFeature(XMLUni::fgXercesContinueAfterFatalError, true);
}
static void configLs(DOMLSParser* p, const Scen& s, LsH* h) {
    DOMConfiguration* cf = p->getDomConfig();
    bool val = has(s.opts, "v1") || has(s.opts, "v2");
    cf->setParameter(XMLUni::fgDOMValidate, has(s.opts, "v2"));
    cf->setParameter(XMLUni::fgDOMValidateIfSchema, has(s.opts, "v1"));
    (void)val;
    cf->setParameter(XMLUni::fgDOMNamespaces, has(s.opts, "ns"));
    cf->setParameter(XMLUni::fgXercesSchema, has(s.opts, "sch"));
    if (has(s.opts, "sch")) cf->setParameter(XMLUni::fgXercesSchemaFullChecking, true);
    if (has(s.opts, "pool")) { cf->setParameter(XMLUni::fgXercesCacheGrammarFromParse, true); cf->setParameter(XMLUni::fgXercesUseCachedGrammarInParse, true); }
    if (has(s.opts, "xf")) cf->setParameter(XMLUni::fgXercesContinueAfterFatalError, true);
    cf->setParameter(XMLUni::fgDOMErrorHandler, (DOMErrorHandler*)h);
    cf->setParameter(XMLUni::fgDOMResourceResolver, (DOMLSResourceResolver*)h);
    if (has(s.opts, "filter")) p->setFilter(h);
    if (s.mode == "adopt-before" || s.mode == "adopt-after") cf->setParameter(XMLUni::fgXercesUserAdoptsDOMDocument, true);
}

// runs one scenario; everything that was given a manager is destroyed before this returns
static std::string runParserScenario(const Scen& s, Trace& tr, RecMM& m1, RecMM& m2) {
    Ctl c; c.mm = &m1; c.aux = s.aux;
    for (unsigned char ch : s.aux) c.auxW += (char16_t)ch;
    std::string status; int swept = 0, lastN = 0;
    XMLGrammarPool* pool = 0;
    if (has(s.opts, "pool")) pool = new (&m2) XMLGrammarPoolImpl(&m2);
    auto mkSrc = [&]() { return new (&m1) MemBufInputSource((const XMLByte*)s.doc.data(), s.doc.size(), gDocId, false, &m1); };
    auto progressive = [&](auto* p) {
        XMLPScanToken tok;
        std::unique_ptr<InputSource> src(mkSrc());
        status = guarded([&] {
            if (!p->parseFirst(*src, tok)) return;
            for (int i = 0; i < s.j; i++) if (!p->parseNext(tok)) break;
        });
        if (s.mode == "prog-reset") { std::string r = guarded([&] { p->parseReset(tok); }); if (r != "done") status += "+reset:" + r; }
        if (s.mode == "prog-again") {
            std::string r = guarded([&] { p->parseReset(tok); std::unique_ptr<InputSource> s2(mkSrc()); p->parse(*s2); });
            status += "+again:" + r;
        }
    };
    auto sweep = [&](auto parseOnce) {
        // one parser, the application handler throws at callback k for k = 1..n, then one clean parse
        for (int k = 1; k <= s.k; k++) {
            tr.mark("k" + std::to_string(k)); c.reset(k);
            std::string r = guarded(parseOnce);
            if (r.rfind("stop@", 0) == 0) swept++;
        }
        tr.mark("final"); c.reset(0);
        status = "swept:" + std::to_string(swept) + "+" + guarded(parseOnce);
    };
    if (s.parser == "sax") {
        SAXParser* p = new (&m1) SAXParser(0, &m1, pool);
        Sax1H h(c); p->setDocumentHandler(&h); p->setErrorHandler(&h); p->setEntityResolver(&h); p->setDTDHandler(&h);
        configSax(p, s);
        auto once = [&] { std::unique_ptr<InputSource> src(mkSrc()); p->parse(*src); };
        c.reset(s.mode == "throw" ? s.k : 0);
        if (s.mode == "full" || s.mode == "throw") status = guarded(once);
        else if (s.mode == "throwall") sweep(once);
        else if (s.mode == "reuse") { status = guarded(once); lastN = c.n; c.reset(0); status += "+" + guarded(once); }
        else if (s.mode.rfind("prog-", 0) == 0) progressive(p);
        else status = "bad-mode";
        tr.mark("delete-parser");
        delete p;
    } else if (s.parser == "sax2") {
        SAX2XMLReader* p = XMLReaderFactory::createXMLReader(&m1, pool);
        Sax2H h(c); p->setContentHandler(&h); p->setErrorHandler(&h); p->setEntityResolver(&h); p->setDTDHandler(&h);
        p->setLexicalHandler(&h); p->setDeclarationHandler(&h);
        configSax2(p, s);
        auto once = [&] { std::unique_ptr<InputSource> src(mkSrc()); p->parse(*src); };
        c.reset(s.mode == "throw" ? s.k : 0);
        if (s.mode == "full" || s.mode == "throw") status = guarded(once);
        else if (s.mode == "throwall") sweep(once);
        else if (s.mode == "reuse") { status = guarded(once); lastN = c.n; c.reset(0); status += "+" + guarded(once); }
        else if (s.mode.rfind("prog-", 0) == 0) progressive(p);
        else status = "bad-mode";
        tr.mark("delete-parser");
        delete p;
    } else if (s.parser == "dom") {
        XercesDOMParser* p = new (&m1) XercesDOMParser(0, &m1, pool);
        Sax1H h(c); p->setErrorHandler(&h); p->setEntityResolver(&h);
        configDom(p, s);
        auto once = [&] { std::unique_ptr<InputSource> src(mkSrc()); p->parse(*src); };
        c.reset(s.mode == "throw" ? s.k : 0);
        if (s.mode == "full" || s.mode == "throw") status = guarded(once);
        else if (s.mode == "throwall") sweep(once);
        else if (s.mode == "reuse") { status = guarded(once); lastN = c.n; c.reset(0); p->resetDocumentPool(); status += "+" + guarded(once); }
        else if (s.mode == "keep") { status = guarded(once); lastN = c.n; c.reset(0); status += "+" + guarded(once); }
        else if (s.mode == "adopt-before" || s.mode == "adopt-after") {
            status = guarded(once);
            DOMDocument* d = p->adoptDocument();
            if (s.mode == "adopt-before") { tr.mark("delete-parser"); delete p; p = 0; tr.mark("release-doc"); if (d) d->release(); }
            else { tr.mark("release-doc"); if (d) d->release(); }
        }
        else if (s.mode.rfind("seq-", 0) == 0) {
            // seq-<mask>-<r|n>-<b|a>: three parses on one parser; bit i of mask = the application adopts document i;
            // r = resetDocumentPool() between parses; b/a = parser destroyed before/after the adopted documents are released
            std::vector<std::string> q = hx::split(s.mode, '-');
            if (q.size() != 4) status = "bad-mode";
            else {
                int mask = atoi(q[1].c_str()); std::vector<DOMDocument*> mine;
                for (int i = 0; i < 3; i++) {
                    tr.mark("parse" + std::to_string(i)); c.reset(0);
                    status += (i ? "+" : "") + guarded(once);
                    if (mask & (1 << i)) { DOMDocument* d = p->adoptDocument(); if (d) mine.push_back(d); }
                    if (q[2] == "r" && i < 2) { tr.mark("reset-pool"); p->resetDocumentPool(); }
                }
                if (q[3] == "b") { tr.mark("delete-parser"); delete p; p = 0; }
                tr.mark("release-docs"); for (DOMDocument* d : mine) d->release();
            }
        }
        else if (s.mode.rfind("prog-", 0) == 0) progressive(p);
        else status = "bad-mode";
        if (p) { tr.mark("delete-parser"); delete p; }
    } else if (s.parser == "ls") {
        XMLCh ls[] = {'L', 'S', 0};
        DOMImplementationLS* impl = (DOMImplementationLS*)DOMImplementationRegistry::getDOMImplementation(ls);
        DOMLSParser* p = impl->createLSParser(DOMImplementationLS::MODE_SYNCHRONOUS, 0, &m1, pool);
        LsH h(c, impl);
        configLs(p, s, &h);
        DOMDocument* last = 0;
        auto once = [&] {
            last = 0;
            Wrapper4InputSource src(mkSrc(), true, &m1);
            last = p->parse(&src);
        };
        c.reset(s.mode == "throw" ? s.k : 0);
        if (s.mode == "full" || s.mode == "throw") status = guarded(once);
        else if (s.mode == "throwall") sweep(once);
        else if (s.mode == "reuse") { status = guarded(once); lastN = c.n; c.reset(0); p->resetDocumentPool(); status += "+" + guarded(once); }
        else if (s.mode == "keep") { status = guarded(once); lastN = c.n; c.reset(0); status += "+" + guarded(once); }
        else if (s.mode == "adopt-before" || s.mode == "adopt-after") {
            status = guarded(once);
            DOMDocument* d = last;
            if (s.mode == "adopt-before") { tr.mark("delete-parser"); p->release(); p = 0; tr.mark("release-doc"); if (d) d->release(); }
            else { tr.mark("release-doc"); if (d) d->release(); }
        }
        else if (s.mode.rfind("seq-", 0) == 0) {
            // as above; adoption = the user-adopts-DOMDocument parameter switched on for that parse only
            std::vector<std::string> q = hx::split(s.mode, '-');
            if (q.size() != 4) status = "bad-mode";
            else {
                int mask = atoi(q[1].c_str()); std::vector<DOMDocument*> mine;
                for (int i = 0; i < 3; i++) {
                    tr.mark("parse" + std::to_string(i)); c.reset(0);
                    bool adopt = (mask & (1 << i)) != 0;
                    p->getDomConfig()->setParameter(XMLUni::fgXercesUserAdoptsDOMDocument, adopt);
                    status += (i ? "+" : "") + guarded(once);
                    if (adopt && last) mine.push_back(last);
                    if (q[2] == "r" && i < 2) { tr.mark("reset-pool"); p->resetDocumentPool(); }
                }
                if (q[3] == "b") { tr.mark("delete-parser"); p->release(); p = 0; }
                tr.mark("release-docs"); for (DOMDocument* d : mine) d->release();
            }
        }
        else status = "bad-mode";
        if (p) { tr.mark("delete-parser"); p->release(); }
    } else status = "bad-parser";
    if (pool) { tr.mark("delete-pool"); delete pool; }
    char b[160];
    snprintf(b, sizeof b, " cb=%d err=%d fatal=%d warn=%d", s.mode == "reuse" || s.mode == "keep" ? lastN : c.n, c.err, c.fatal, c.warn);
    return status + b;
}

static std::string doP(const std::vector<std::string>& f) {
    // P <parser> <mode> <k> <j> <opts> <dochex> <auxhex>
    if (f.size() != 8) return "bad-op";
    Scen s; s.parser = f[1]; s.mode = f[2]; s.k = atoi(f[3].c_str()); s.j = atoi(f[4].c_str());
    s.opts = hx::split(f[5], ','); s.doc = bytesOf(f[6]); s.aux = bytesOf(f[7]);
    Trace tr; tr.bt = getenv("HX_BT") != 0;
    RecMM g0(0, &tr), m1(1, &tr), m2(2, &tr);
    bool recGlobal = has(s.opts, "g");
    std::string obs;
    if (recGlobal) {
        ensureDown();
        XMLPlatformUtils::Initialize(XMLUni::fgXercescDefaultLocale, 0, 0, &g0);
        obs = runParserScenario(s, tr, m1, m2);
        tr.mark("terminate");
        XMLPlatformUtils::Terminate();
    } else {
        ensureUp();
        obs = runParserScenario(s, tr, m1, m2);
    }
    if (tr.bt) {
        std::set<int> live;
        for (RecMM* m : {&g0, &m1, &m2}) for (void* p : m->mine) live.insert(tr.ids[p]);
        for (int id : live) fprintf(stderr, "LIVE-AT-END block %d allocated at: %s\n", id, tr.site[id].c_str());
    }
    char b[64]; snprintf(b, sizeof b, " allocs=%ld frees=%ld", tr.allocs, tr.frees);
    return obs + b + " | " + tr.out;
}

// ------------------------------------------------------------------------------------------------ Initialize/Terminate sequences
static std::string doL(const std::vector<std::string>& f) {
    // L <op> <op> ...     I:<-|uK>   H:<i>.<m>.<s>:<-|uK>   T   W
    ensureDown();
    Trace tr;
    std::map<int, RecMM*> users; std::map<int, bool> destroyed;
    auto user = [&](const std::string& a) -> MemoryManager* {
        if (a == "-" || a.empty()) return 0;
        int k = atoi(a.c_str() + 1);
        if (!users.count(k)) { users[k] = new RecMM(10 + k, &tr); destroyed[k] = false; users[k]->destroyedFlag = &destroyed[k]; }
        return users[k];
    };
    auto who = [&]() -> std::string {
        MemoryManager* m = XMLPlatformUtils::fgMemoryManager;
        if (!m) return "0";
        for (auto& u : users) if (!destroyed[u.first] && u.second == m) return "u" + std::to_string(u.first);
        return "d";
    };
    std::string obs, nobs;
    size_t first = 1;
    if (f.size() > 1 && f[1].rfind("D:", 0) == 0) {
        // start from the given DOM heap sizes (the process defaults): they are statics that an earlier case may have changed
        std::vector<std::string> n = hx::split(f[1].substr(2), '.');
        if (n.size() != 3) return "bad-op";
        XMLPlatformUtils::Initialize((XMLSize_t)strtoull(n[0].c_str(), 0, 10), (XMLSize_t)strtoull(n[1].c_str(), 0, 10), (XMLSize_t)strtoull(n[2].c_str(), 0, 10));
        XMLPlatformUtils::Terminate();
        first = 2;
    }
    for (size_t i = first; i < f.size(); i++) {
        const std::string& op = f[i];
        tr.mark(std::to_string(i) + op);
        std::string r = guarded([&] {
            // I:<mgr>[:<locale>[:<nlsHome>]]   H:<i>.<m>.<s>:<mgr>[:<locale>[:<nlsHome>]]    "-" = argument left at its default
            std::vector<std::string> p = hx::split(op, ':');
            size_t a = op[0] == 'H' ? 2 : 1;
            std::string mg = p.size() > a ? p[a] : "-", loc = p.size() > a + 1 ? p[a + 1] : "-", nls = p.size() > a + 2 ? p[a + 2] : "-";
            const char* locArg = loc == "-" ? XMLUni::fgXercescDefaultLocale : loc.c_str();
            const char* nlsArg = nls == "-" ? 0 : nls.c_str();
            if (op[0] == 'I') XMLPlatformUtils::Initialize(locArg, nlsArg, 0, user(mg));
            else if (op[0] == 'H') {
                std::vector<std::string> n = hx::split(p[1], '.');
                XMLPlatformUtils::Initialize((XMLSize_t)strtoull(n[0].c_str(), 0, 10), (XMLSize_t)strtoull(n[1].c_str(), 0, 10),
                                             (XMLSize_t)strtoull(n[2].c_str(), 0, 10), locArg, nlsArg, 0, user(mg));
            }
            else if (op[0] == 'T') XMLPlatformUtils::Terminate();
            else if (op[0] == 'W') {
                if (!XMLPlatformUtils::fgMemoryManager) { obs += "W:down "; return; }
                XMLCh ls[] = {'L', 'S', 0}; XMLCh nm[] = {'e', 0};
                DOMImplementation* impl = DOMImplementationRegistry::getDOMImplementation(ls);
                DOMDocument* d = impl->createDocument();
                DOMMemoryManager* mm = (DOMMemoryManager*)d->getFeature(XMLUni::fgXercescInterfaceDOMMemoryManager, 0);
                obs += "W:bs=" + std::to_string((size_t)mm->getMemoryAllocationBlockSize()) + " ";
                d->appendChild(d->createElement(nm));
                d->release();
                static const char* x = "<!DOCTYPE a [<!ELEMENT a (#PCDATA)>]><a>t</a>";
                SAXParser sp; sp.setValidationScheme(SAXParser::Val_Always);
                MemBufInputSource src((const XMLByte*)x, strlen(x), gDocId);
                HandlerBase hb; sp.setErrorHandler(&hb);
                sp.parse(src);
            }
        });
        if (r != "done") obs += r + " ";
        obs += "m=" + who() + " ";
        { const char* l = XMLMsgLoader::getLocale(); const char* n = XMLMsgLoader::getNLSHome();
          nobs += std::string(l ? l : "0") + "," + (n ? n : "0") + ";"; }
    }
    // leave the library down whatever the sequence was (bounded: depth never exceeds the line length)
    tr.mark("cleanup");
    bool wasUp = XMLPlatformUtils::fgMemoryManager != 0;
    for (size_t i = 0; i < f.size() + 2 && XMLPlatformUtils::fgMemoryManager; i++) XMLPlatformUtils::Terminate();
    obs += std::string("end=") + (wasUp ? "up" : "down") + " del=";
    bool any = false;
    for (auto& d : destroyed) if (d.second) { obs += "u" + std::to_string(d.first) + ","; any = true; }
    if (!any) obs += "-";
    for (auto& u : users) if (!destroyed[u.first]) delete u.second;
    return obs + " N=" + nobs + " | " + tr.out;
}

// ------------------------------------------------------------------------------------------------ DOM document arena
static std::string doA(const std::vector<std::string>& f) {
    // A <i>.<m>.<s> <w|n> <op,op,...>      a<n> allocate   r<i> release the i-th returned pointer   s<n> set block size
    if (f.size() != 4) return "bad-op";
    ensureDown();
    std::vector<std::string> n = hx::split(f[1], '.');
    if (n.size() != 3) return "bad-op";
    bool writeMem = f[2] == "w";
    Trace tr; RecMM m1(1, &tr);
    XMLPlatformUtils::Initialize((XMLSize_t)strtoull(n[0].c_str(), 0, 10), (XMLSize_t)strtoull(n[1].c_str(), 0, 10),
                                 (XMLSize_t)strtoull(n[2].c_str(), 0, 10));
    std::string obs;
    {
        struct Raw { char* start; size_t size; bool live; };
        std::vector<Raw> raw;                  // arena raw blocks in allocation order
        std::vector<std::pair<char*, size_t>> got;
        std::string B, R, X, D;
        // raw blocks = what M1 is asked for while the arena code runs; found by diffing M1's live set
        auto snapshot = [&]() { return m1.mine; };
        auto sizeOf = [&](void* p) -> size_t {   // size as recorded in the trace: last "+1.<id>.<size>"
            std::string key = "+1." + std::to_string(tr.ids[p]) + "."; size_t at = tr.out.rfind(key);
            return at == std::string::npos ? 0 : (size_t)strtoull(tr.out.c_str() + at + key.size(), 0, 10);
        };
        XMLCh ls[] = {'L', 'S', 0};
        DOMImplementation* impl = DOMImplementationRegistry::getDOMImplementation(ls);
        std::set<void*> before = snapshot();
        size_t mark0 = tr.out.size();
        DOMDocument* d = impl->createDocument(&m1);
        {   // the constructor's arena allocation is the last block M1 handed out during createDocument
            size_t at = tr.out.rfind("+1.", std::string::npos);
            if (at != std::string::npos && at >= mark0) {
                int id = atoi(tr.out.c_str() + at + 3);
                for (auto& kv : tr.ids) if (kv.second == id) raw.push_back({(char*)kv.first, sizeOf(kv.first), true});
            }
        }
        DOMMemoryManager* mm = (DOMMemoryManager*)d->getFeature(XMLUni::fgXercescInterfaceDOMMemoryManager, 0);
        std::string r = guarded([&] {
            for (const std::string& op : hx::split(f[3], ',')) {
                if (op.empty()) continue;
                size_t v = (size_t)strtoull(op.c_str() + 1, 0, 10);
                std::set<void*> pre = snapshot();
                if (op[0] == 'a') {
                    char* p = (char*)mm->allocate(v);
                    for (void* q : m1.mine) if (!pre.count(q)) raw.push_back({(char*)q, sizeOf(q), true});
                    got.push_back({p, v});
                    int bi = -1;
                    for (int i = (int)raw.size() - 1; i >= 0; i--) if (raw[i].live && p >= raw[i].start && p <= raw[i].start + raw[i].size) { bi = i; break; }
                    char b[96];
                    if (bi >= 0) snprintf(b, sizeof b, "%d:%zu:%zu,", bi, (size_t)(p - raw[bi].start), v);
                    else snprintf(b, sizeof b, "x:%s:%zu,", p ? "?" : "null", v);
                    R += b;
                    if (writeMem && p && v) memset(p, 0xAB, v);
                } else if (op[0] == 'r') {
                    if (v < got.size()) ((DOMDocumentImpl*)d)->release((void*)got[v].first);
                    for (size_t i = 0; i < raw.size(); i++) if (raw[i].live && !m1.mine.count(raw[i].start)) { raw[i].live = false; X += std::to_string(i) + ","; }
                } else if (op[0] == 's') mm->setMemoryAllocationBlockSize(v);
            }
        });
        for (auto& b : raw) B += std::to_string(b.size) + ",";
        size_t mark1 = tr.out.size();
        d->release();
        // order in which the raw blocks went back
        for (size_t at = mark1; (at = tr.out.find("-1.", at)) != std::string::npos; at += 3) {
            int id = atoi(tr.out.c_str() + at + 3);
            for (size_t i = 0; i < raw.size(); i++) if (raw[i].live && tr.ids[raw[i].start] == id) { D += std::to_string(i) + ","; raw[i].live = false; }
        }
        obs = (r == "done" ? "" : r + " ") + "B=" + (B.empty() ? "-" : B) + " R=" + (R.empty() ? "-" : R) + " X=" + (X.empty() ? "-" : X) + " D=" + (D.empty() ? "-" : D);
    }
    XMLPlatformUtils::Terminate();
    return obs + " | " + tr.out;
}

int main() {
    std::string line;
    bool lsanEach = getenv("HX_LSAN_EACH") != 0;
    while (std::getline(std::cin, line)) {
        if (line.empty()) continue;
        std::vector<std::string> f = hx::split(line);
        std::string out;
        if (f[0] == "P") out = doP(f);
        else if (f[0] == "L") out = doL(f);
        else if (f[0] == "A") out = doA(f);
        else out = "bad-op";
        if (lsanEach && __lsan_do_recoverable_leak_check()) out = "LSAN-LEAK " + out;
        fputs(out.c_str(), stdout); fputc('\n', stdout); fflush(stdout);
    }
    ensureDown();
    return 0;
}
