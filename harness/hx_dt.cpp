// C09 harness: schema datatypes on the REAL library, three routes:
//   (a) XMLBigDecimal / XMLBigInteger / HexBin / Base64 / XMLString ws / XMLDateTime directly,
//   (b) DatatypeValidatorFactory built-in validators: validate / compare / getCanonicalRepresentation,
//   (c) XSValue::validate / getActualValue / getCanonicalRepresentation.
// One case per stdin line, one observation per stdout line.  Strings are '.'-separated hex XMLCh units ("-" = empty).
//   D  <s>            XMLBigDecimal(s)                  -> ok <sign> <intVal> <totalDigits> <scale> | exc <name>
//   DC <s>            XMLBigDecimal::getCanonicalRepresentation -> can <s> | null
//   DK <s> <s>        XMLBigDecimal::compareValues      -> cmp <n> | exc <name>
//   I  <s>            XMLBigInteger::parseBigInteger    -> ok <sign> <magnitude> | exc <name>
//   IC <s>            XMLBigInteger::getCanonicalRepresentation -> can <s> | null
//   IK <s> <s>        XMLBigInteger::compareValues      -> cmp <n> | exc <name>
//   H  <s>            HexBin: isArrayByteHex, getDataLength, getCanonicalRepresentation, decodeToXMLByte(only if valid)
//                                                       -> hex <0|1> <len> <can|null> <bytes|null>
//   HD <s>            HexBin::decodeToXMLByte unconditionally (as XSValue::getActualValue does) -> dec <bytes> | null
//   B  <S|R> <s>      Base64::decodeToXMLByte + getCanonicalRepresentation -> b64 <bytes> <can> | null
//   BB <S|R> <bytes>  Base64::decode on a byte string   -> b64 <bytes> | null
//   BE <bytes>        Base64::encode                    -> enc <bytes> | null
//   W  <r|c> <s>      XMLString::replaceWS / collapseWS -> ws <s>
//   T  <type> <s>     validator.validate, XSValue::validate, both canonical forms, XSValue actual value
//                     -> b=V|I:<exc> c=V|I:<status> bc=<s|null> cc=<s|null> cv=<text|null:<status>>
//   K  <type> <s> <s> validator.compare                 -> cmp <n> | exc <name>
//   DT <kind> <s>     XMLDateTime(s).parse<kind>()         -> ok <y> <mo> <d> <h> <mi> <s> <canonical|-> | exc <type>
//   DTK <kind> <s> <s> XMLDateTime::compare(a, b)          -> cmp <n>  (2 = INDETERMINATE) | exc <type>
//   TB                read the codec tables back through the API -> tables ...
#include "hx_common.hpp"
#include <xercesc/util/XMLBigDecimal.hpp>
#include <xercesc/util/XMLBigInteger.hpp>
#include <xercesc/util/Base64.hpp>
#include <xercesc/util/HexBin.hpp>
#include <xercesc/util/XMLDateTime.hpp>
#include <xercesc/util/NumberFormatException.hpp>
#include <xercesc/util/OutOfMemoryException.hpp>
#include <xercesc/util/XMLUni.hpp>
#include <xercesc/framework/psvi/XSValue.hpp>
#include <xercesc/validators/datatype/DatatypeValidatorFactory.hpp>
#include <xercesc/validators/datatype/DatatypeValidator.hpp>
#include <xercesc/validators/schema/SchemaSymbols.hpp>
#include <map>

static MemoryManager* mm = 0;
static DatatypeValidatorFactory* gFactory = 0;

static std::vector<XMLCh> toX(const std::string& h) {
    std::vector<uint32_t> v = hx::parseHexList(h);
    std::vector<XMLCh> x;
    for (uint32_t u : v) x.push_back((XMLCh)u);
    x.push_back(0);
    return x;
}
static std::string fromX(const XMLCh* s) {
    if (!s) return "null";
    std::vector<uint32_t> v;
    for (; *s; ++s) v.push_back(*s);
    return hx::hexList(v);
}
static std::string fromBytes(const XMLByte* b, size_t n) {
    std::vector<uint32_t> v;
    for (size_t i = 0; i < n; i++) v.push_back(b[i]);
    return hx::hexList(v);
}

static std::string excName(const XMLException& e) {
    std::string t = hx::narrow(e.getType());
    switch (e.getCode()) {
        case XMLExcepts::XMLNUM_emptyString: return "XMLNUM_emptyString";
        case XMLExcepts::XMLNUM_WSString: return "XMLNUM_WSString";
        case XMLExcepts::XMLNUM_Inv_chars: return "XMLNUM_Inv_chars";
        case XMLExcepts::XMLNUM_2ManyDecPoint: return "XMLNUM_2ManyDecPoint";
        default: break;
    }
    return t;
}

#define GUARD(body) \
    try { body } \
    catch (const OutOfMemoryException&) { return std::string("exc OutOfMemory"); } \
    catch (const XMLException& e) { return "exc " + excName(e); } \
    catch (...) { return std::string("FOREIGN-EXCEPTION"); }

static std::string opD(const std::string& h) {
    auto x = toX(h);
    GUARD(
        XMLBigDecimal d(x.data(), mm);
        return "ok " + std::to_string(d.getSign()) + " " + fromX(d.getValue()) + " " +
               std::to_string(d.getTotalDigit()) + " " + std::to_string(d.getScale());
    )
}
static std::string opDC(const std::string& h) {
    auto x = toX(h);
    GUARD(
        XMLCh* c = XMLBigDecimal::getCanonicalRepresentation(x.data(), mm);
        if (!c) return std::string("null");
        std::string r = "can " + fromX(c);
        mm->deallocate(c);
        return r;
    )
}
static std::string opDK(const std::string& a, const std::string& b) {
    auto x = toX(a); auto y = toX(b);
    GUARD(
        XMLBigDecimal l(x.data(), mm); XMLBigDecimal r(y.data(), mm);
        return "cmp " + std::to_string(XMLBigDecimal::compareValues(&l, &r, mm));
    )
}
static std::string opI(const std::string& h) {
    auto x = toX(h);
    GUARD(
        std::vector<XMLCh> buf(x.size() + 2, 0);
        int sign = 99;
        XMLBigInteger::parseBigInteger(x.data(), buf.data(), sign, mm);
        return "ok " + std::to_string(sign) + " " + (sign == 0 ? std::string("-") : fromX(buf.data()));
    )
}
static std::string opIC(const std::string& h) {
    auto x = toX(h);
    GUARD(
        XMLCh* c = XMLBigInteger::getCanonicalRepresentation(x.data(), mm, false);
        if (!c) return std::string("null");
        std::string r = "can " + fromX(c);
        mm->deallocate(c);
        return r;
    )
}
static std::string opIK(const std::string& a, const std::string& b) {
    auto x = toX(a); auto y = toX(b);
    GUARD(
        XMLBigInteger l(x.data(), mm); XMLBigInteger r(y.data(), mm);
        return "cmp " + std::to_string(XMLBigInteger::compareValues(&l, &r, mm));
    )
}
static std::string opH(const std::string& h) {
    auto x = toX(h);
    GUARD(
        bool ok = HexBin::isArrayByteHex(x.data());
        int len = HexBin::getDataLength(x.data());
        XMLCh* c = HexBin::getCanonicalRepresentation(x.data(), mm);
        std::string cs = fromX(c);
        if (c) mm->deallocate(c);
        std::string ds = "null";
        if (ok) {
            XMLByte* d = HexBin::decodeToXMLByte(x.data(), mm);
            if (d) { ds = fromBytes(d, (x.size() - 1) / 2); mm->deallocate(d); }
        }
        return "hex " + std::string(ok ? "1" : "0") + " " + std::to_string(len) + " " + cs + " " + ds;
    )
}
static std::string opHD(const std::string& h) {
    auto x = toX(h);
    GUARD(
        XMLByte* d = HexBin::decodeToXMLByte(x.data(), mm);
        if (!d) return std::string("null");
        std::string r = "dec " + fromBytes(d, (x.size() - 1) / 2);
        mm->deallocate(d);
        return r;
    )
}
static std::string opB(const std::string& conf, const std::string& h) {
    auto x = toX(h);
    Base64::Conformance cf = conf == "S" ? Base64::Conf_Schema : Base64::Conf_RFC2045;
    GUARD(
        XMLSize_t len = 0;
        XMLByte* d = Base64::decodeToXMLByte(x.data(), &len, mm, cf);
        XMLCh* c = Base64::getCanonicalRepresentation(x.data(), mm, cf);
        int dl = Base64::getDataLength(x.data(), mm, cf);
        std::string r;
        if (!d && !c && dl == -1) r = "null";
        else if (d && c && dl == (int)len) r = "b64 " + fromBytes(d, len) + " " + fromX(c);
        else r = "INCONSISTENT dec=" + std::string(d ? fromBytes(d, len) : "null") + " can=" + fromX(c) + " len=" + std::to_string(dl);
        if (d) mm->deallocate(d);
        if (c) mm->deallocate(c);
        return r;
    )
}
static std::string opBB(const std::string& conf, const std::string& h) {
    std::vector<uint32_t> v = hx::parseHexList(h);
    std::vector<XMLByte> b; for (uint32_t u : v) b.push_back((XMLByte)u); b.push_back(0);
    Base64::Conformance cf = conf == "S" ? Base64::Conf_Schema : Base64::Conf_RFC2045;
    GUARD(
        XMLSize_t len = 0;
        XMLByte* d = Base64::decode(b.data(), &len, mm, cf);
        if (!d) return std::string("null");
        std::string r = "b64 " + fromBytes(d, len);
        mm->deallocate(d);
        return r;
    )
}
static std::string opBE(const std::string& h) {
    std::vector<uint32_t> v = hx::parseHexList(h);
    std::vector<XMLByte> b; for (uint32_t u : v) b.push_back((XMLByte)u); b.push_back(0xEE);
    GUARD(
        XMLSize_t len = 0;
        XMLByte* e = Base64::encode(b.data(), v.size(), &len, mm);
        if (!e) return std::string("null");
        std::string r = "enc " + fromBytes(e, len);
        if (e[len] != 0) r += " UNTERMINATED";
        mm->deallocate(e);
        return r;
    )
}
static std::string opW(const std::string& mode, const std::string& h) {
    auto x = toX(h);
    GUARD(
        if (mode == "r") XMLString::replaceWS(x.data(), mm);
        else if (mode == "c") XMLString::collapseWS(x.data(), mm);
        else if (mode == "t") XMLString::trim(x.data());
        else return std::string("bad-op");
        return "ws " + fromX(x.data());
    )
}

static bool parseKind(XMLDateTime& d, const std::string& kind) {
    if (kind == "dateTime") d.parseDateTime();
    else if (kind == "date") d.parseDate();
    else if (kind == "time") d.parseTime();
    else if (kind == "gYearMonth") d.parseYearMonth();
    else if (kind == "gYear") d.parseYear();
    else if (kind == "gMonthDay") d.parseMonthDay();
    else if (kind == "gDay") d.parseDay();
    else if (kind == "gMonth") d.parseMonth();
    else if (kind == "duration") d.parseDuration();
    else return false;
    return true;
}
static std::string opDT(const std::string& kind, const std::string& h) {
    auto x = toX(h);
    GUARD(
        XMLDateTime d(x.data(), mm);
        if (!parseKind(d, kind)) return std::string("bad-op");
        std::string can = "-";
        XMLCh* c = 0;
        if (kind == "dateTime") c = d.getDateTimeCanonicalRepresentation(mm);
        else if (kind == "time") c = d.getTimeCanonicalRepresentation(mm);
        else if (kind == "date") c = d.getDateCanonicalRepresentation(mm);
        if (c) { can = fromX(c); mm->deallocate(c); }
        return "ok " + std::to_string(d.getYear()) + " " + std::to_string(d.getMonth()) + " " + std::to_string(d.getDay()) + " " +
               std::to_string(d.getHour()) + " " + std::to_string(d.getMinute()) + " " + std::to_string(d.getSecond()) + " " + can;
    )
}
static std::string opDTK(const std::string& kind, const std::string& a, const std::string& b) {
    auto x = toX(a); auto y = toX(b);
    GUARD(
        XMLDateTime l(x.data(), mm); XMLDateTime r(y.data(), mm);
        if (!parseKind(l, kind) || !parseKind(r, kind)) return std::string("bad-op");
        int c = (kind == "duration") ? XMLDateTime::compare(&l, &r, true) : XMLDateTime::compare(&l, &r);
        return "cmp " + std::to_string(c);
    )
}

static const std::map<std::string, XSValue::DataType>& typeMap() {
    static std::map<std::string, XSValue::DataType> m = {
        {"string", XSValue::dt_string}, {"boolean", XSValue::dt_boolean}, {"decimal", XSValue::dt_decimal},
        {"float", XSValue::dt_float}, {"double", XSValue::dt_double}, {"duration", XSValue::dt_duration},
        {"dateTime", XSValue::dt_dateTime}, {"time", XSValue::dt_time}, {"date", XSValue::dt_date},
        {"gYearMonth", XSValue::dt_gYearMonth}, {"gYear", XSValue::dt_gYear}, {"gMonthDay", XSValue::dt_gMonthDay},
        {"gDay", XSValue::dt_gDay}, {"gMonth", XSValue::dt_gMonth}, {"hexBinary", XSValue::dt_hexBinary},
        {"base64Binary", XSValue::dt_base64Binary}, {"anyURI", XSValue::dt_anyURI},
        {"normalizedString", XSValue::dt_normalizedString}, {"token", XSValue::dt_token},
        {"language", XSValue::dt_language}, {"NMTOKEN", XSValue::dt_NMTOKEN}, {"NMTOKENS", XSValue::dt_NMTOKENS},
        {"Name", XSValue::dt_Name}, {"NCName", XSValue::dt_NCName},
        {"integer", XSValue::dt_integer}, {"nonPositiveInteger", XSValue::dt_nonPositiveInteger},
        {"negativeInteger", XSValue::dt_negativeInteger}, {"long", XSValue::dt_long}, {"int", XSValue::dt_int},
        {"short", XSValue::dt_short}, {"byte", XSValue::dt_byte}, {"nonNegativeInteger", XSValue::dt_nonNegativeInteger},
        {"unsignedLong", XSValue::dt_unsignedLong}, {"unsignedInt", XSValue::dt_unsignedInt},
        {"unsignedShort", XSValue::dt_unsignedShort}, {"unsignedByte", XSValue::dt_unsignedByte},
        {"positiveInteger", XSValue::dt_positiveInteger}};
    return m;
}
static const char* stName(XSValue::Status s) {
    switch (s) {
        case XSValue::st_Init: return "Init"; case XSValue::st_NoContent: return "NoContent";
        case XSValue::st_NoCanRep: return "NoCanRep"; case XSValue::st_NoActVal: return "NoActVal";
        case XSValue::st_NotSupported: return "NotSupported"; case XSValue::st_CantCreateRegEx: return "CantCreateRegEx";
        case XSValue::st_FOCA0002: return "FOCA0002"; case XSValue::st_FOCA0001: return "FOCA0001";
        case XSValue::st_FOCA0003: return "FOCA0003"; case XSValue::st_FODT0003: return "FODT0003";
        case XSValue::st_UnknownType: return "UnknownType";
    }
    return "?";
}
static DatatypeValidator* getDV(const std::string& type) {
    std::vector<XMLCh> n; for (char c : type) n.push_back((XMLCh)c); n.push_back(0);
    return gFactory->getDatatypeValidator(n.data());
}
static std::string actualValue(XSValue* v, XSValue::DataType dt, size_t srcLen) {
    char b[160];
    switch (dt) {
        case XSValue::dt_boolean: return v->fData.fValue.f_bool ? "true" : "false";
        case XSValue::dt_decimal: snprintf(b, sizeof b, "%.17g", v->fData.fValue.f_decimal.f_dvalue); return b;
        case XSValue::dt_float:
            snprintf(b, sizeof b, "%d:%.9g", (int)v->fData.fValue.f_floatType.f_floatEnum, (double)v->fData.fValue.f_floatType.f_float); return b;
        case XSValue::dt_double:
            snprintf(b, sizeof b, "%d:%.17g", (int)v->fData.fValue.f_doubleType.f_doubleEnum, v->fData.fValue.f_doubleType.f_double); return b;
        case XSValue::dt_integer: case XSValue::dt_nonPositiveInteger: case XSValue::dt_negativeInteger: case XSValue::dt_long:
            return std::to_string((long long)v->fData.fValue.f_long);
        case XSValue::dt_nonNegativeInteger: case XSValue::dt_positiveInteger:
            return std::to_string((unsigned long long)v->fData.fValue.f_ulong);
        case XSValue::dt_int: return std::to_string((long long)v->fData.fValue.f_int);
        case XSValue::dt_short: return std::to_string((long long)v->fData.fValue.f_short);
        case XSValue::dt_byte: return std::to_string((long long)v->fData.fValue.f_char);
        case XSValue::dt_unsignedLong: return std::to_string((unsigned long long)v->fData.fValue.f_ulong);
        case XSValue::dt_unsignedInt: return std::to_string((unsigned long long)v->fData.fValue.f_uint);
        case XSValue::dt_unsignedShort: return std::to_string((unsigned long long)v->fData.fValue.f_ushort);
        case XSValue::dt_unsignedByte: return std::to_string((unsigned long long)v->fData.fValue.f_uchar);
        case XSValue::dt_hexBinary: return "bytes:" + fromBytes(v->fData.fValue.f_byteVal, srcLen / 2);
        case XSValue::dt_duration: case XSValue::dt_dateTime: case XSValue::dt_time: case XSValue::dt_date:
        case XSValue::dt_gYearMonth: case XSValue::dt_gYear: case XSValue::dt_gMonthDay: case XSValue::dt_gDay: case XSValue::dt_gMonth:
            snprintf(b, sizeof b, "%d/%d/%d/%d/%d/%d/%.9g", v->fData.fValue.f_datetime.f_year, v->fData.fValue.f_datetime.f_month,
                     v->fData.fValue.f_datetime.f_day, v->fData.fValue.f_datetime.f_hour, v->fData.fValue.f_datetime.f_min,
                     v->fData.fValue.f_datetime.f_second, v->fData.fValue.f_datetime.f_milisec);
            return b;
        default: return "present";
    }
}
static std::string opT(const std::string& type, const std::string& h) {
    auto x = toX(h);
    DatatypeValidator* dv = getDV(type);
    auto it = typeMap().find(type);
    if (!dv || it == typeMap().end()) return "bad-op";
    XSValue::DataType dt = it->second;
    std::string out;
    // (b) validator
    bool bValid = false;
    try { dv->validate(x.data(), 0, mm); out = "b=V"; bValid = true; }
    catch (const OutOfMemoryException&) { out = "b=I:OutOfMemory"; }
    catch (const XMLException& e) { out = "b=I:" + hx::narrow(e.getType()); }
    catch (...) { out = "b=FOREIGN-EXCEPTION"; }
    // (c) XSValue::validate
    XSValue::Status st = XSValue::st_Init;
    bool cValid = false;
    try { cValid = XSValue::validate(x.data(), dt, st, XSValue::ver_10, mm);
          out += cValid ? " c=V" : std::string(" c=I:") + stName(st); }
    catch (...) { out += " c=FOREIGN-EXCEPTION"; }
    // canonical forms
    try {
        const XMLCh* c = dv->getCanonicalRepresentation(x.data(), mm, true);
        out += " bc=" + fromX(c);
        if (c) mm->deallocate((void*)c);
    } catch (const XMLException& e) { out += " bc=exc:" + hx::narrow(e.getType()); }
    catch (...) { out += " bc=FOREIGN-EXCEPTION"; }
    try {
        st = XSValue::st_Init;
        XMLCh* c = XSValue::getCanonicalRepresentation(x.data(), dt, st, XSValue::ver_10, true, mm);
        out += " cc=" + (c ? fromX(c) : std::string("null:") + stName(st));
        if (c) mm->deallocate(c);
    } catch (...) { out += " cc=FOREIGN-EXCEPTION"; }
    // actual value
    try {
        st = XSValue::st_Init;
        XSValue* v = XSValue::getActualValue(x.data(), dt, st, XSValue::ver_10, true, mm);
        if (v) { out += " cv=" + actualValue(v, dt, x.size() - 1); delete v; }
        else out += std::string(" cv=null:") + stName(st);
    } catch (...) { out += " cv=FOREIGN-EXCEPTION"; }
    return out;
}
static std::string opK(const std::string& type, const std::string& a, const std::string& b) {
    auto x = toX(a); auto y = toX(b);
    DatatypeValidator* dv = getDV(type);
    if (!dv) return "bad-op";
    GUARD( return "cmp " + std::to_string(dv->compare(x.data(), y.data(), mm)); )
}
static std::string opTB() {
    // read the codec tables back through the public API (the translator's Gen/Codec is compared with this)
    std::string hexok, hexval, inv, alpha;
    char b[8];
    for (unsigned c = 1; c < 0x300; c++) {
        XMLCh two[3] = {(XMLCh)c, (XMLCh)c, 0};
        bool ok = HexBin::isArrayByteHex(two);
        hexok += ok ? '1' : '0';
        if (ok) {
            XMLCh t2[3] = {(XMLCh)c, chDigit_0, 0};
            XMLByte* d = HexBin::decodeToXMLByte(t2, mm);
            snprintf(b, sizeof b, "%x:%x,", c, d ? (unsigned)(d[0] >> 4) : 999u); hexval += b;
            if (d) mm->deallocate(d);
        }
    }
    for (unsigned c = 1; c < 0xff; c++) {       // 0xff is outside base64Inverse[255] (reported separately)
        XMLByte four[5] = {(XMLByte)c, 'A', 'A', 'A', 0};
        XMLSize_t len = 0;
        XMLByte* d = Base64::decode(four, &len, mm, Base64::Conf_Schema);
        if (d) { snprintf(b, sizeof b, "%x:%x,", c, (unsigned)(d[0] >> 2)); inv += b; mm->deallocate(d); }
    }
    for (unsigned i = 0; i < 64; i++) {
        XMLByte three[4] = {(XMLByte)(i << 2), 0, 0, 0};
        XMLSize_t len = 0;
        XMLByte* e = Base64::encode(three, 3, &len, mm);
        snprintf(b, sizeof b, "%x,", e ? (unsigned)e[0] : 999u); alpha += b;
        if (e) mm->deallocate(e);
    }
    return "tables hexok=" + hexok + " hexval=" + hexval + " inv=" + inv + " alpha=" + alpha;
}

int main(int argc, char** argv) {
    XMLPlatformUtils::Initialize();
    mm = XMLPlatformUtils::fgMemoryManager;
    {
        DatatypeValidatorFactory factory;
        gFactory = &factory;
        std::string line;
        while (std::getline(std::cin, line)) {
            if (line.empty()) continue;
            auto f = hx::split(line);
            std::string r;
            const std::string& op = f[0];
            if (op == "D" && f.size() == 2) r = opD(f[1]);
            else if (op == "DC" && f.size() == 2) r = opDC(f[1]);
            else if (op == "DK" && f.size() == 3) r = opDK(f[1], f[2]);
            else if (op == "I" && f.size() == 2) r = opI(f[1]);
            else if (op == "IC" && f.size() == 2) r = opIC(f[1]);
            else if (op == "IK" && f.size() == 3) r = opIK(f[1], f[2]);
            else if (op == "H" && f.size() == 2) r = opH(f[1]);
            else if (op == "HD" && f.size() == 2) r = opHD(f[1]);
            else if (op == "B" && f.size() == 3) r = opB(f[1], f[2]);
            else if (op == "BB" && f.size() == 3) r = opBB(f[1], f[2]);
            else if (op == "BE" && f.size() == 2) r = opBE(f[1]);
            else if (op == "W" && f.size() == 3) r = opW(f[1], f[2]);
            else if (op == "T" && f.size() == 3) r = opT(f[1], f[2]);
            else if (op == "K" && f.size() == 4) r = opK(f[1], f[2], f[3]);
            else if (op == "DT" && f.size() == 3) r = opDT(f[1], f[2]);
            else if (op == "DTK" && f.size() == 4) r = opDTK(f[1], f[2], f[3]);
            else if (op == "TB") r = opTB();
            else r = "bad-op";
            puts(r.c_str());
            fflush(stdout);
        }
        gFactory = 0;
    }
    XMLPlatformUtils::Terminate();
    return 0;
}
