// C09 facet tier: user-derived simple types on the REAL library, built from real schema documents.
//   FS <hex utf-8 schema> <n> <hex utf-8 value>,<value>,...
// The schema (no target namespace) declares global elements e1..en, each of a simple type; it is loaded from memory
// into a grammar pool (loadGrammar).  Every value is then checked against every element two ways:
//   P  in-parse:   the document <ek>value</ek> is parsed with the cached grammar, validation on
//   D  validator:  the DatatypeValidator of ek's declaration (SchemaElementDecl::getDatatypeValidator) is applied to the
//                  value after the white-space processing of its whiteSpace facet
// Output:  load=ok|err:<first message>  e1=<PD><PD>...  e2=...      with P, D in {V, I};  '-' = value list empty
#include "hx_common.hpp"
#include <xercesc/sax2/SAX2XMLReader.hpp>
#include <xercesc/sax2/XMLReaderFactory.hpp>
#include <xercesc/sax2/DefaultHandler.hpp>
#include <xercesc/framework/MemBufInputSource.hpp>
#include <xercesc/framework/XMLGrammarPoolImpl.hpp>
#include <xercesc/validators/schema/SchemaGrammar.hpp>
#include <xercesc/validators/schema/SchemaElementDecl.hpp>
#include <xercesc/validators/datatype/DatatypeValidator.hpp>
#include <xercesc/util/OutOfMemoryException.hpp>
#include <xercesc/util/XMLUni.hpp>
#include <xercesc/sax/SAXParseException.hpp>

static std::string unhexBytes(const std::string& h) {
    std::string out;
    if (h == "-") return out;
    for (size_t i = 0; i + 1 < h.size(); i += 2) out += (char)(hx::hexv(h[i]) * 16 + hx::hexv(h[i + 1]));
    return out;
}

struct Counter : public DefaultHandler {
    int errors = 0; std::string first;
    void note(const SAXParseException& e) { if (!errors++) first = hx::narrow(e.getMessage()); }
    void error(const SAXParseException& e) override { note(e); }
    void fatalError(const SAXParseException& e) override { note(e); }
    void warning(const SAXParseException&) override {}
    void resetErrors() override {}
};

static std::string esc(const std::string& v) {
    std::string r;
    for (char c : v) {
        if (c == '<') r += "&lt;"; else if (c == '&') r += "&amp;"; else if (c == '>') r += "&gt;";
        else if (c == '\r') r += "&#13;"; else r += c;
    }
    return r;
}

static std::string runCase(const std::string& schema, int n, const std::vector<std::string>& values) {
    MemoryManager* mm = XMLPlatformUtils::fgMemoryManager;
    XMLGrammarPoolImpl* pool = new (mm) XMLGrammarPoolImpl(mm);
    std::string out;
    {
        SAX2XMLReader* rd = XMLReaderFactory::createXMLReader(mm, pool);
        Counter ch;
        rd->setErrorHandler(&ch);
        rd->setFeature(XMLUni::fgSAX2CoreValidation, true);
        rd->setFeature(XMLUni::fgXercesSchema, true);
        rd->setFeature(XMLUni::fgXercesSchemaFullChecking, true);
        rd->setFeature(XMLUni::fgSAX2CoreNameSpaces, true);
        rd->setFeature(XMLUni::fgXercesCacheGrammarFromParse, true);
        rd->setFeature(XMLUni::fgXercesUseCachedGrammarInParse, true);
        rd->setFeature(XMLUni::fgXercesLoadExternalDTD, false);
        Grammar* g = 0;
        try {
            MemBufInputSource src((const XMLByte*)schema.data(), schema.size(), "mem:schema.xsd");
            g = rd->loadGrammar(src, Grammar::SchemaGrammarType, true);
        } catch (const OutOfMemoryException&) { out = "load=err:OutOfMemory"; }
        catch (const XMLException& e) { ch.errors++; if (ch.first.empty()) ch.first = hx::narrow(e.getMessage()); }
        catch (const SAXException& e) { ch.errors++; if (ch.first.empty()) ch.first = hx::narrow(e.getMessage()); }
        catch (...) { out = "load=FOREIGN-EXCEPTION"; }
        if (out.empty()) {
            if (ch.errors || !g) {
                std::string m = ch.first.substr(0, 90);
                for (char& c : m) if (c == ' ') c = '_';
                out = "load=err:" + (m.empty() ? std::string("no-grammar") : m);
            } else out = "load=ok";
        }
        if (g && !ch.errors) {
            SchemaGrammar* sg = (SchemaGrammar*)g;
            unsigned int emptyNs = pool->getURIStringPool()->addOrFind(XMLUni::fgZeroLenString);
            for (int k = 1; k <= n; k++) {
                std::string en = "e" + std::to_string(k);
                std::vector<XMLCh> wn; for (char c : en) wn.push_back((XMLCh)c); wn.push_back(0);
                out += " " + en + "=";
                if (values.empty()) { out += "-"; continue; }
                XMLElementDecl* ed = sg->getElemDecl(emptyNs, wn.data(), wn.data(), Grammar::TOP_LEVEL_SCOPE);
                DatatypeValidator* dv = ed ? ((SchemaElementDecl*)ed)->getDatatypeValidator() : 0;
                for (const std::string& v : values) {
                    // P: in-parse
                    char p = 'I';
                    try {
                        Counter vh;
                        rd->setErrorHandler(&vh);
                        std::string doc = "<" + en + ">" + esc(v) + "</" + en + ">";
                        MemBufInputSource isrc((const XMLByte*)doc.data(), doc.size(), "mem:instance.xml");
                        rd->parse(isrc);
                        p = vh.errors ? 'I' : 'V';
                    } catch (const OutOfMemoryException&) { p = 'M'; }
                    catch (const XMLException&) { p = 'I'; }
                    catch (const SAXException&) { p = 'I'; }
                    catch (...) { p = 'F'; }
                    // D: the declaration's validator
                    char d = '?';
                    if (dv) {
                        try {
                            XMLCh* w = XMLString::transcode(v.c_str(), mm);   // values are ASCII
                            short ws = dv->getWSFacet();
                            if (ws == DatatypeValidator::REPLACE) XMLString::replaceWS(w, mm);
                            else if (ws == DatatypeValidator::COLLAPSE) XMLString::collapseWS(w, mm);
                            try { dv->validate(w, 0, mm); d = 'V'; }
                            catch (const OutOfMemoryException&) { d = 'M'; }
                            catch (const XMLException&) { d = 'I'; }
                            catch (...) { d = 'F'; }
                            XMLString::release(&w, mm);
                        } catch (...) { d = 'F'; }
                    }
                    out += p; out += d;
                }
            }
        }
        delete rd;
    }
    delete pool;
    return out;
}

int main() {
    XMLPlatformUtils::Initialize();
    std::string line;
    while (std::getline(std::cin, line)) {
        if (line.empty()) continue;
        auto f = hx::split(line);
        std::string r;
        if (f[0] == "FS" && f.size() == 4) {
            std::vector<std::string> vals;
            if (f[3] != "-") for (auto& h : hx::split(f[3], ',')) vals.push_back(unhexBytes(h));
            try { r = runCase(unhexBytes(f[1]), atoi(f[2].c_str()), vals); }
            catch (...) { r = "FOREIGN-EXCEPTION"; }
        } else r = "bad-op";
        puts(r.c_str());
        fflush(stdout);
    }
    XMLPlatformUtils::Terminate();
    return 0;
}
