// C02 harness: well-formedness verdict of the REAL parsers, in-process, one Initialize.
//   stdin lines:  <configs> <hex bytes of the document>
//       configs = [FRESH:] ALL | DTD | comma list of api/scanner/ns  (api: sax sax2 dom ls; scanner: IG WF DG SG; ns: 0 1)
//                 FRESH: = create new parser objects for this line (otherwise they are reused from line to line)
//                 ALL = 4 APIs x 4 scanners x 2;  DTD = 4 APIs x {IG,DG} x 2 (scanners that process a DOCTYPE)
//   stdout:       one line per input line:  cfg=obs cfg=obs ...
//       obs = ok | fatal:<first fatal XMLErrs code>[:<domain-if-not-XMLErrs>] | exc:<type>[:<code>]
//             (+ "!nohandler" if the error() hook saw a fatal but the public handler did not, or the reverse)
//   hx_wf tables : reads both character tables back through the public XMLChar1_0 / XMLChar1_1 API
//                  (all 65536 units) and prints  api10 <hex bytes>  /  api11 <hex bytes>
// Validation off, no external access (setLoadExternalDTD(false), setDisableDefaultEntityResolution(true)),
// MemBufInputSource.  Parser objects are created once per configuration and reused.
#include "hx_common.hpp"
#include <map>
#include <memory>
#include <xercesc/parsers/SAXParser.hpp>
#include <xercesc/parsers/SAX2XMLReaderImpl.hpp>
#include <xercesc/parsers/XercesDOMParser.hpp>
#include <xercesc/parsers/DOMLSParserImpl.hpp>
#include <xercesc/framework/MemBufInputSource.hpp>
#include <xercesc/framework/Wrapper4InputSource.hpp>
#include <xercesc/framework/XMLErrorCodes.hpp>
#include <xercesc/sax/HandlerBase.hpp>
#include <xercesc/sax/SAXParseException.hpp>
#include <xercesc/sax/SAXException.hpp>
#include <xercesc/sax2/DefaultHandler.hpp>
#include <xercesc/dom/DOM.hpp>
#include <xercesc/dom/DOMLSException.hpp>
#include <xercesc/util/XMLUni.hpp>
#include <xercesc/util/XMLChar.hpp>
#include <xercesc/util/OutOfMemoryException.hpp>
#include <xercesc/util/XMLUniDefs.hpp>

struct Obs {
    int firstFatalCode = -1;     // from the error() hook
    std::string domain;
    int hookFatals = 0;
    int handlerFatals = 0;       // from the public ErrorHandler / DOMErrorHandler
    void reset() { firstFatalCode = -1; domain.clear(); hookFatals = 0; handlerFatals = 0; }
    void hook(unsigned int code, const XMLCh* dom, XMLErrorReporter::ErrTypes t) {
        if (t == XMLErrorReporter::ErrType_Fatal) {
            if (!hookFatals) { firstFatalCode = (int)code; domain = hx::narrow(dom); }
            hookFatals++;
        }
    }
};
static Obs gObs;

#define HOOK_ERROR(Base) \
    void error(const unsigned int errCode, const XMLCh* const msgDomain, const XMLErrorReporter::ErrTypes errType, \
               const XMLCh* const errorText, const XMLCh* const systemId, const XMLCh* const publicId, \
               const XMLFileLoc lineNum, const XMLFileLoc colNum) override { \
        gObs.hook(errCode, msgDomain, errType); \
        Base::error(errCode, msgDomain, errType, errorText, systemId, publicId, lineNum, colNum); }

struct MySAX : SAXParser { HOOK_ERROR(SAXParser) };
struct MySAX2 : SAX2XMLReaderImpl { HOOK_ERROR(SAX2XMLReaderImpl) };
struct MyDOM : XercesDOMParser { HOOK_ERROR(XercesDOMParser) };
struct MyLS : DOMLSParserImpl { HOOK_ERROR(DOMLSParserImpl) };

struct SaxHandler : HandlerBase {
    void fatalError(const SAXParseException&) override { gObs.handlerFatals++; }
    void error(const SAXParseException&) override {}
    void warning(const SAXParseException&) override {}
};
struct Sax2Handler : DefaultHandler {
    void fatalError(const SAXParseException&) override { gObs.handlerFatals++; }
    void error(const SAXParseException&) override {}
    void warning(const SAXParseException&) override {}
};
struct LsHandler : DOMErrorHandler {
    bool handleError(const DOMError& e) override {
        if (e.getSeverity() == DOMError::DOM_SEVERITY_FATAL_ERROR) gObs.handlerFatals++;
        return true;
    }
};

static const XMLCh* scannerName(const std::string& s) {
    if (s == "IG") return XMLUni::fgIGXMLScanner;
    if (s == "WF") return XMLUni::fgWFXMLScanner;
    if (s == "DG") return XMLUni::fgDGXMLScanner;
    if (s == "SG") return XMLUni::fgSGXMLScanner;
    return 0;
}

struct Config {
    std::string api, scanner; bool ns;
    std::unique_ptr<MySAX> sax; std::unique_ptr<MySAX2> sax2; std::unique_ptr<MyDOM> dom; std::unique_ptr<MyLS> ls;
    SaxHandler sh; Sax2Handler s2h; LsHandler lh;
    bool build() {
        const XMLCh* sn = scannerName(scanner);
        if (!sn) return false;
        if (api == "sax") {
            sax.reset(new MySAX());
            sax->useScanner(sn);
            sax->setValidationScheme(SAXParser::Val_Never);
            sax->setDoNamespaces(ns);
            sax->setDoSchema(false);
            sax->setLoadExternalDTD(false);
            sax->setDisableDefaultEntityResolution(true);
            sax->setErrorHandler(&sh);
            sax->setDocumentHandler(&sh);
        } else if (api == "sax2") {
            sax2.reset(new MySAX2());
            sax2->setProperty(XMLUni::fgXercesScannerName, (void*)sn);
            sax2->setFeature(XMLUni::fgSAX2CoreValidation, false);
            sax2->setFeature(XMLUni::fgXercesDynamic, false);
            sax2->setFeature(XMLUni::fgSAX2CoreNameSpaces, ns);
            sax2->setFeature(XMLUni::fgSAX2CoreNameSpacePrefixes, true);
            sax2->setFeature(XMLUni::fgXercesSchema, false);
            sax2->setFeature(XMLUni::fgXercesLoadExternalDTD, false);
            sax2->setFeature(XMLUni::fgXercesDisableDefaultEntityResolution, true);
            sax2->setErrorHandler(&s2h);
            sax2->setContentHandler(&s2h);
        } else if (api == "dom") {
            dom.reset(new MyDOM());
            dom->useScanner(sn);
            dom->setValidationScheme(XercesDOMParser::Val_Never);
            dom->setDoNamespaces(ns);
            dom->setDoSchema(false);
            dom->setLoadExternalDTD(false);
            dom->setDisableDefaultEntityResolution(true);
            dom->setErrorHandler(&sh);
        } else if (api == "ls") {
            ls.reset(new MyLS());
            DOMConfiguration* c = ls->getDomConfig();
            c->setParameter(XMLUni::fgXercesScannerName, (void*)sn);
            c->setParameter(XMLUni::fgDOMValidate, false);
            c->setParameter(XMLUni::fgDOMNamespaces, ns);
            c->setParameter(XMLUni::fgXercesSchema, false);
            c->setParameter(XMLUni::fgXercesLoadExternalDTD, false);
            c->setParameter(XMLUni::fgXercesDisableDefaultEntityResolution, true);
            c->setParameter(XMLUni::fgDOMErrorHandler, (void*)&lh);
        } else return false;
        return true;
    }
    std::string run(const std::vector<XMLByte>& bytes) {
        gObs.reset();
        static const XMLByte empty[1] = {0};
        MemBufInputSource src(bytes.empty() ? empty : bytes.data(), bytes.size(), "hx", false);
        std::string exc;
        try {
            if (api == "sax") sax->parse(src);
            else if (api == "sax2") sax2->parse(src);
            else if (api == "dom") { dom->parse(src); dom->resetDocumentPool(); }
            else {
                Wrapper4InputSource w(&src, false);
                ls->parse(&w);
                ls->resetDocumentPool();
            }
        }
        catch (const OutOfMemoryException&) { exc = "OutOfMemoryException"; }
        catch (const XMLException& e) { exc = "XMLException:" + hx::narrow(e.getType()) + ":" + std::to_string((int)e.getCode()); }
        catch (const SAXParseException&) { exc = "SAXParseException"; }
        catch (const SAXException&) { exc = "SAXException"; }
        catch (const DOMLSException& e) { exc = "DOMLSException:" + std::to_string((int)e.code); }
        catch (const DOMException& e) { exc = "DOMException:" + std::to_string((int)e.code); }
        catch (...) { exc = "FOREIGN-EXCEPTION"; }
        std::string o;
        if (gObs.hookFatals || gObs.handlerFatals) {
            o = "fatal:" + std::to_string(gObs.firstFatalCode);
            if (gObs.domain != "http://apache.org/xml/messages/XMLErrors") o += ":" + gObs.domain;
            if ((gObs.hookFatals > 0) != (gObs.handlerFatals > 0)) o += "!nohandler";
            if (!exc.empty()) o += "+exc:" + exc;
        } else if (!exc.empty()) o = "exc:" + exc;
        else o = "ok";
        return o;
    }
};

static std::map<std::string, std::unique_ptr<Config>> gConfigs;

static Config* getConfig(const std::string& name) {
    auto it = gConfigs.find(name);
    if (it != gConfigs.end()) return it->second.get();
    auto f = hx::split(name, '/');
    if (f.size() != 3 || (f[2] != "0" && f[2] != "1")) return 0;
    std::unique_ptr<Config> c(new Config());
    c->api = f[0]; c->scanner = f[1]; c->ns = f[2] == "1";
    if (!c->build()) return 0;
    Config* p = c.get();
    gConfigs[name] = std::move(c);
    return p;
}

static std::vector<std::string> expand(const std::string& w) {
    std::vector<std::string> out;
    static const char* apis[] = {"sax", "sax2", "dom", "ls"};
    if (w == "ALL" || w == "DTD") {
        std::vector<std::string> sc = (w == "ALL") ? std::vector<std::string>{"IG", "WF", "DG", "SG"} : std::vector<std::string>{"IG", "DG"};
        for (auto a : apis) for (auto& s : sc) for (int n = 0; n < 2; n++) out.push_back(std::string(a) + "/" + s + "/" + std::to_string(n));
    } else out = hx::split(w, ',');
    return out;
}

static void dumpTables() {
    for (int ver = 0; ver < 2; ver++) {
        std::string s = ver == 0 ? "api10 " : "api11 ";
        char b[4];
        for (unsigned c = 0; c < 0x10000; c++) {
            XMLCh ch = (XMLCh)c; unsigned v = 0;
            if (ver == 0) {
                if (XMLChar1_0::isNCNameChar(ch, 0)) v |= gNCNameCharMask;
                if (XMLChar1_0::isFirstNameChar(ch, 0)) v |= gFirstNameCharMask;
                if (XMLChar1_0::isNameChar(ch, 0)) v |= gNameCharMask;
                if (XMLChar1_0::isPlainContentChar(ch, 0)) v |= gPlainContentCharMask;
                if (XMLChar1_0::isSpecialStartTagChar(ch, 0)) v |= gSpecialStartTagCharMask;
                if (XMLChar1_0::isControlChar(ch, 0)) v |= gControlCharMask;
                if (XMLChar1_0::isXMLChar(ch, 0)) v |= gXMLCharMask;
                if (XMLChar1_0::isWhitespace(ch)) v |= gWhitespaceCharMask;
            } else {
                if (XMLChar1_1::isNCNameChar(ch, 0)) v |= gNCNameCharMask;
                if (XMLChar1_1::isFirstNameChar(ch, 0)) v |= gFirstNameCharMask;
                if (XMLChar1_1::isNameChar(ch, 0)) v |= gNameCharMask;
                if (XMLChar1_1::isPlainContentChar(ch, 0)) v |= gPlainContentCharMask;
                if (XMLChar1_1::isSpecialStartTagChar(ch, 0)) v |= gSpecialStartTagCharMask;
                if (XMLChar1_1::isControlChar(ch, 0)) v |= gControlCharMask;
                if (XMLChar1_1::isXMLChar(ch, 0)) v |= gXMLCharMask;
                if (XMLChar1_1::isWhitespace(ch)) v |= gWhitespaceCharMask;
            }
            snprintf(b, sizeof b, "%02x", v);
            s += b;
        }
        puts(s.c_str());
    }
}

int main(int argc, char** argv) {
    XMLPlatformUtils::Initialize();
    if (argc > 1 && std::string(argv[1]) == "tables") {
        dumpTables();
        XMLPlatformUtils::Terminate();
        return 0;
    }
    {
        std::string line;
        while (std::getline(std::cin, line)) {
            if (line.empty()) continue;
            auto f = hx::split(line);
            if (f.size() != 2) { puts("bad-op"); fflush(stdout); continue; }
            auto v = hx::parseHexList(f[1]);
            std::vector<XMLByte> bytes(v.begin(), v.end());
            std::string out;
            bool bad = false;
            // "FRESH:<configs>": drop the cached parser objects first, so that this document is the first one
            // every parser sees (hash sets and pools of a parser keep their size from earlier documents)
            if (f[0].rfind("FRESH:", 0) == 0) { gConfigs.clear(); f[0] = f[0].substr(6); }
            for (auto& cn : expand(f[0])) {
                Config* c = getConfig(cn);
                if (!c) { bad = true; break; }
                if (!out.empty()) out += " ";
                out += cn + "=" + c->run(bytes);
            }
            puts(bad ? "bad-op" : out.c_str());
            fflush(stdout);
        }
        gConfigs.clear();
    }
    XMLPlatformUtils::Terminate();
    return 0;
}
