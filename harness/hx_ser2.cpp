// C12 harness: the real XMLFormatter and the real DOMLSSerializer, in-process.
//   FB <enc> <xml11 0|1> <fix-ignored> <esc 0-3> <unrep 0-2> <hex units>
//        XMLFormatter(enc, "1.0"|"1.1", MemBufFormatTarget).formatBuf(units, n, esc, unrep)
//        -> ok <hex bytes> | exc <name> <hex bytes so far> | hang
//        (the source buffer is followed by two 0 units: the code reads up to two units past `count`)
//   FX ... same, but the buffer holds exactly `count` units (ASan reports a read past the end)
//   T <enc> <xml11 0|1> <featbits> <script>    build a DOM tree through the API and round-trip it
//   X <enc> <ignored> <featbits> <hex bytes>   parse a document and round-trip the tree
//        -> w=<0|1|exc:..> e=<errors> b=<hex bytes> p=<ok|fatal:..|skip> q=<0|1|-> i=<0|1|-> a=<same|diff|-> [d=<why not equal>]
//   featbits: 1 split-cdata-sections, 2 xml-declaration, 4 discard-default-content, 8 byte-order-mark,
//             16 writeToString (UTF-16) instead of write(), 32 entities
//        x=<expanded names of the re-parsed tree> y=<xmlns declarations per element of the re-parsed tree>
#include "hx_common.hpp"
#include <csetjmp>
#include <csignal>
#include <unistd.h>
#include <map>
#include <algorithm>
#include <xercesc/framework/XMLFormatter.hpp>
#include <xercesc/framework/MemBufFormatTarget.hpp>
#include <xercesc/framework/MemBufInputSource.hpp>
#include <xercesc/util/TranscodingException.hpp>
#include <xercesc/util/OutOfMemoryException.hpp>
#include <xercesc/util/XMLUni.hpp>
#include <xercesc/dom/DOM.hpp>
#include <xercesc/parsers/XercesDOMParser.hpp>
#include <xercesc/sax/ErrorHandler.hpp>
#include <xercesc/sax/SAXParseException.hpp>

static sigjmp_buf gJmp;
static int gAlarmScale = 1;   // HX_ALARM_SCALE: the check re-runs a case that timed out with a longer limit before calling it a hang
static void onAlarm(int) { siglongjmp(gJmp, 1); }

static std::basic_string<XMLCh> X(const std::vector<uint32_t>& v) {
    std::basic_string<XMLCh> s; for (auto u : v) s.push_back((XMLCh)u); return s;
}
static std::string hexBytes(const XMLByte* p, size_t n) {
    std::vector<uint32_t> v(p, p + n); return hx::hexList(v);
}
static const char* excName(const XMLException& e) {
    switch (e.getCode()) {
        case XMLExcepts::Trans_Unrepresentable: return "Trans_Unrepresentable";
        case XMLExcepts::Trans_BadSrcSeq: return "Trans_BadSrcSeq";
        case XMLExcepts::Trans_BadTrailingSurrogate: return "Trans_BadTrailingSurrogate";
        case XMLExcepts::Trans_CantCreateCvtrFor: return "Trans_CantCreateCvtrFor";
        default: return "OTHER";
    }
}

// ---------------------------------------------------------------- (a) XMLFormatter
static std::string doFormat(const std::vector<std::string>& f, bool exact) {
    const std::string& enc = f[1];
    bool v11 = f[2] == "1";
    int esc = atoi(f[4].c_str()), unrep = atoi(f[5].c_str());
    auto units = hx::parseHexList(f[6]);
    static const XMLFormatter::EscapeFlags E[] = {XMLFormatter::NoEscapes, XMLFormatter::StdEscapes,
                                                  XMLFormatter::AttrEscapes, XMLFormatter::CharEscapes};
    static const XMLFormatter::UnRepFlags U[] = {XMLFormatter::UnRep_Fail, XMLFormatter::UnRep_CharRef,
                                                 XMLFormatter::UnRep_Replace};
    if (esc < 0 || esc > 3 || unrep < 0 || unrep > 2) return "bad-op";
    size_t n = units.size();
    XMLCh* buf = new XMLCh[n + (exact ? 0 : 2) + (n == 0 && exact ? 1 : 0)];
    for (size_t i = 0; i < n; i++) buf[i] = (XMLCh)units[i];
    if (!exact) { buf[n] = 0; buf[n + 1] = 0; }
    MemBufFormatTarget* tgt = new MemBufFormatTarget();
    std::string res;
    XMLFormatter* fm = 0;
    if (sigsetjmp(gJmp, 1) == 0) {
        alarm(3 * gAlarmScale);
        try {
            fm = new XMLFormatter(enc.c_str(), v11 ? "1.1" : "1.0", tgt, XMLFormatter::NoEscapes, XMLFormatter::UnRep_Fail);
            fm->formatBuf(buf, n, E[esc], U[unrep]);
            res = "ok " + hexBytes(tgt->getRawBuffer(), tgt->getLen());
        } catch (const TranscodingException& e) {
            res = std::string("exc ") + excName(e) + " " + hexBytes(tgt->getRawBuffer(), tgt->getLen());
        } catch (const XMLException& e) {
            res = std::string("exc XMLException:") + excName(e);
        } catch (...) { res = "exc FOREIGN-EXCEPTION"; }
        alarm(0);
        delete fm; delete tgt; delete[] buf;
    } else {
        res = "hang";      // objects are abandoned: the formatter was interrupted inside its loop
    }
    return res;
}

// ---------------------------------------------------------------- (b) DOM round trip
struct ErrRec : public DOMErrorHandler {
    std::string log; int n = 0;
    bool handleError(const DOMError& e) override {
        char sv = e.getSeverity() == DOMError::DOM_SEVERITY_WARNING ? 'W' : e.getSeverity() == DOMError::DOM_SEVERITY_ERROR ? 'E' : 'F';
        std::string m = hx::narrow(e.getMessage());
        for (auto& c : m) if (c == ' ' || c == '\n' || c == '\t') c = '_';
        if (n++ < 4) { if (!log.empty()) log += ","; log += sv; log += ":"; log += m.substr(0, 60); }
        return true;
    }
};
struct ParseErr : public ErrorHandler {
    std::string first;
    void rec(const char* k, const SAXParseException& e) {
        if (first.empty()) { std::string m = hx::narrow(e.getMessage()); for (auto& c : m) if (c == ' ' || c == '\n') c = '_';
            first = std::string(k) + ":" + m.substr(0, 70) + "@" + std::to_string(e.getLineNumber()) + ":" + std::to_string(e.getColumnNumber()); }
    }
    void warning(const SAXParseException&) override {}
    void error(const SAXParseException& e) override { rec("error", e); }
    void fatalError(const SAXParseException& e) override { rec("fatal", e); }
    void resetErrors() override {}
};

static bool xeq(const XMLCh* a, const XMLCh* b) {
    if (!a) a = XMLUni::fgZeroLenString; if (!b) b = XMLUni::fgZeroLenString;
    return XMLString::equals(a, b);
}
static bool isChars(const DOMNode* n) {
    return n->getNodeType() == DOMNode::TEXT_NODE || n->getNodeType() == DOMNode::CDATA_SECTION_NODE;
}
struct Item { const DOMNode* node; std::basic_string<XMLCh> chars; int nchars; int kind; };
static std::vector<Item> items(const DOMNode* parent) {
    std::vector<Item> v;
    for (const DOMNode* c = parent->getFirstChild(); c; c = c->getNextSibling()) {
        if (c->getNodeType() == DOMNode::DOCUMENT_TYPE_NODE) continue;
        if (isChars(c)) {
            const XMLCh* d = c->getNodeValue();
            if (!v.empty() && v.back().node == 0) { v.back().chars += d ? d : XMLUni::fgZeroLenString; v.back().nchars++; }
            else { Item it; it.node = 0; it.chars = d ? d : XMLUni::fgZeroLenString; it.nchars = 1; it.kind = c->getNodeType(); v.push_back(it); }
        } else { Item it; it.node = c; it.nchars = 0; it.kind = c->getNodeType(); v.push_back(it); }
    }
    std::vector<Item> w;
    for (auto& it : v) if (it.node || !it.chars.empty()) w.push_back(it);
    return w;
}
static bool isXmlnsAttr(const DOMNode* a) {
    const XMLCh* nm = a->getNodeName();
    static const XMLCh x[] = {chLatin_x, chLatin_m, chLatin_l, chLatin_n, chLatin_s, chNull};
    if (XMLString::equals(nm, x)) return true;
    return XMLString::startsWith(nm, x) && nm[5] == chColon;
}
static int gKindMismatch = 0;
static std::string path(const DOMNode* n) { return hx::narrow(n->getNodeName()); }
// equality up to the division of character data among adjacent Text/CDATA nodes and up to namespace
// declarations added by the serializer's fix-up (b may have more xmlns attributes than a)
static bool eqc(const DOMNode* a, const DOMNode* b, std::string& why) {
    if (a->getNodeType() != b->getNodeType()) { why = "node-type " + path(a) + "/" + path(b); return false; }
    switch (a->getNodeType()) {
    case DOMNode::ELEMENT_NODE: {
        if (!xeq(a->getNodeName(), b->getNodeName())) { why = "element-name " + path(a) + "/" + path(b); return false; }
        if (!xeq(a->getNamespaceURI(), b->getNamespaceURI())) { why = "element-namespace " + path(a); return false; }
        DOMNamedNodeMap* aa = a->getAttributes(); DOMNamedNodeMap* ba = b->getAttributes();
        size_t na = 0, nb = 0;
        for (XMLSize_t i = 0; i < aa->getLength(); i++) {
            DOMNode* x = aa->item(i);
            DOMNode* y = ba->getNamedItem(x->getNodeName());
            bool ns = isXmlnsAttr(x);
            if (!ns) na++;
            if (!y) { why = std::string(ns ? "xmlns-attr-lost " : "attr-lost ") + path(x); return false; }
            if (!xeq(x->getNodeValue(), y->getNodeValue())) { why = std::string(ns ? "xmlns-attr-value " : "attr-value ") + path(x); return false; }
            if (!ns && !xeq(x->getNamespaceURI(), y->getNamespaceURI())) { why = "attr-namespace " + path(x); return false; }
        }
        for (XMLSize_t i = 0; i < ba->getLength(); i++) if (!isXmlnsAttr(ba->item(i))) nb++;
        if (na != nb) { why = "attr-count " + path(a); return false; }
        break;
    }
    case DOMNode::PROCESSING_INSTRUCTION_NODE:
        if (!xeq(a->getNodeName(), b->getNodeName())) { why = "pi-target"; return false; }
        if (!xeq(a->getNodeValue(), b->getNodeValue())) { why = "pi-data"; return false; }
        return true;
    case DOMNode::COMMENT_NODE:
        if (!xeq(a->getNodeValue(), b->getNodeValue())) { why = "comment-data"; return false; }
        return true;
    case DOMNode::ENTITY_REFERENCE_NODE:
        if (!xeq(a->getNodeName(), b->getNodeName())) { why = "entityref-name"; return false; }
        return true;
    case DOMNode::DOCUMENT_NODE: {
        const DOMDocumentType* da = ((const DOMDocument*)a)->getDoctype();
        const DOMDocumentType* db = ((const DOMDocument*)b)->getDoctype();
        if ((da == 0) != (db == 0)) { why = "doctype-presence"; return false; }
        if (da) {
            if (!xeq(da->getName(), db->getName())) { why = "doctype-name"; return false; }
            if (!xeq(da->getPublicId(), db->getPublicId())) { why = "doctype-public"; return false; }
            if (!xeq(da->getSystemId(), db->getSystemId())) { why = "doctype-system"; return false; }
        }
        break;
    }
    default: break;
    }
    auto ia = items(a), ib = items(b);
    if (ia.size() != ib.size()) { why = "child-count " + path(a) + " " + std::to_string(ia.size()) + "/" + std::to_string(ib.size()); return false; }
    for (size_t i = 0; i < ia.size(); i++) {
        if ((ia[i].node == 0) != (ib[i].node == 0)) { why = "child-kind " + path(a); return false; }
        if (!ia[i].node) {
            if (ia[i].chars != ib[i].chars) {
                why = std::string(ia[i].kind == DOMNode::CDATA_SECTION_NODE ? "cdata-data " : "text-data ") + path(a);
                return false;
            }
            // Text <-> CDATA changes are counted, not failed: they are legitimate where a CDATA section had to be split
            if (ia[i].nchars == 1 && ib[i].nchars == 1 && ia[i].kind != ib[i].kind) gKindMismatch++;
        } else if (!eqc(ia[i].node, ib[i].node, why)) return false;
    }
    return true;
}

// expanded names of every element and (non-xmlns) attribute in document order: E{uri}local A{uri}local …
// and the namespace declarations each element carries: D prefix=uri … (attributes sorted)
static void signature(const DOMNode* n, std::string& names, std::string& decls) {
    if (n->getNodeType() == DOMNode::ELEMENT_NODE) {
        const XMLCh* ln = n->getLocalName(); if (!ln) ln = n->getNodeName();
        names += "|E{" + hx::narrow(n->getNamespaceURI()) + "}" + hx::narrow(ln);
        decls += "|E";
        std::vector<std::string> as, ds;
        DOMNamedNodeMap* m = n->getAttributes();
        for (XMLSize_t i = 0; i < m->getLength(); i++) {
            DOMNode* a = m->item(i);
            if (isXmlnsAttr(a)) {
                const XMLCh* nm = a->getNodeName();
                ds.push_back(hx::narrow(nm[5] == chColon ? nm + 6 : XMLUni::fgZeroLenString) + "=" + hx::narrow(a->getNodeValue()));
            } else {
                const XMLCh* al = a->getLocalName(); if (!al) al = a->getNodeName();
                as.push_back("{" + hx::narrow(a->getNamespaceURI()) + "}" + hx::narrow(al));
            }
        }
        std::sort(as.begin(), as.end()); std::sort(ds.begin(), ds.end());
        for (auto& x : as) names += "|A" + x;
        for (auto& x : ds) decls += "," + x;
    }
    for (const DOMNode* c = n->getFirstChild(); c; c = c->getNextSibling()) signature(c, names, decls);
}

static DOMImplementation* gImpl = 0;

static bool serialize(DOMDocument* doc, const std::string& enc, int feat, std::string& w, std::string& errs,
                      std::vector<XMLByte>& out) {
    DOMLSSerializer* ser = ((DOMImplementationLS*)gImpl)->createLSSerializer();
    DOMLSOutput* o = ((DOMImplementationLS*)gImpl)->createLSOutput();
    DOMConfiguration* cfg = ser->getDomConfig();
    ErrRec er;
    cfg->setParameter(XMLUni::fgDOMErrorHandler, (const void*)&er);
    cfg->setParameter(XMLUni::fgDOMWRTSplitCdataSections, (feat & 1) != 0);
    cfg->setParameter(XMLUni::fgDOMXMLDeclaration, (feat & 2) != 0);
    cfg->setParameter(XMLUni::fgDOMWRTDiscardDefaultContent, (feat & 4) != 0);
    cfg->setParameter(XMLUni::fgDOMWRTBOM, (feat & 8) != 0);
    if (cfg->canSetParameter(XMLUni::fgDOMWRTEntities, (feat & 32) != 0))
        cfg->setParameter(XMLUni::fgDOMWRTEntities, (feat & 32) != 0);
    MemBufFormatTarget tgt;
    XMLCh* xenc = XMLString::transcode(enc.c_str());
    o->setEncoding(xenc);
    o->setByteStream(&tgt);
    bool ok = false;
    std::vector<XMLByte> strBytes;
    try {
        if (feat & 16) {
            // writeToString: always UTF-16, through a MemBufFormatTarget of the serializer's own
            XMLCh* str = ser->writeToString(doc);
            ok = str != 0;
            if (str) {
                const XMLSize_t n = XMLString::stringLen(str);
                strBytes.assign((const XMLByte*)str, (const XMLByte*)str + 2 * n);
                XMLString::release(&str);
            }
        } else
            ok = ser->write(doc, o);
        w = ok ? "1" : "0";
    } catch (const DOMLSException& e) { w = "exc:DOMLSException"; }
    catch (const DOMException& e) { w = "exc:DOMException" + std::to_string((int)e.code); }
    catch (const XMLException& e) { w = std::string("exc:XMLException:") + excName(e); }
    catch (const OutOfMemoryException&) { w = "exc:OutOfMemory"; }
    catch (...) { w = "exc:FOREIGN-EXCEPTION"; }
    if (feat & 16) out = strBytes;
    else out.assign(tgt.getRawBuffer(), tgt.getRawBuffer() + tgt.getLen());
    errs = er.log.empty() ? "-" : er.log;
    XMLString::release(&xenc);
    o->release(); ser->release();
    return ok;
}

static XercesDOMParser* newParser(ParseErr* pe, bool entRefs) {
    XercesDOMParser* p = new XercesDOMParser();
    p->setDoNamespaces(true);
    p->setValidationScheme(XercesDOMParser::Val_Never);
    p->setLoadExternalDTD(false);
    p->setCreateEntityReferenceNodes(entRefs);
    p->setCreateCommentNodes(true);
    p->setIncludeIgnorableWhitespace(true);
    p->setErrorHandler(pe);
    return p;
}

static std::string roundTrip(DOMDocument* doc, const std::string& enc, int feat) {
    std::string w, errs; std::vector<XMLByte> b1;
    serialize(doc, enc, feat, w, errs, b1);
    std::string res = "w=" + w + " e=" + errs + " b=" + hexBytes(b1.data(), b1.size());
    if (w != "1") return res + " p=skip q=- i=- a=-";
    ParseErr pe;
    XercesDOMParser* p = newParser(&pe, true);
    MemBufInputSource src(b1.data(), b1.size(), "out", false);
    XMLCh* xenc = XMLString::transcode(enc.c_str());
    src.setEncoding(xenc);
    std::string pr = "ok";
    try { p->parse(src); }
    catch (const XMLException& e) { pr = "fatal:XMLException:" + hx::narrow(e.getMessage()).substr(0, 50); for (auto& c : pr) if (c == ' ') c = '_'; }
    catch (const DOMException& e) { pr = "fatal:DOMException"; }
    catch (const SAXException& e) { pr = "fatal:SAXException"; }
    catch (...) { pr = "fatal:FOREIGN-EXCEPTION"; }
    if (pr == "ok" && !pe.first.empty()) pr = pe.first;
    res += " p=" + pr;
    DOMDocument* d2 = p->getDocument();
    if (pr != "ok" || !d2) { XMLString::release(&xenc); delete p; return res + " q=- i=- a=-"; }
    std::string why;
    gKindMismatch = 0;
    bool q = eqc(doc, d2, why);
    bool i = doc->isEqualNode(d2);
    res += std::string(" q=") + (q ? "1" : "0") + " i=" + (i ? "1" : "0");
    // third leg: the re-parsed tree serialises to the same bytes
    if (XMLString::equals(doc->getXmlVersion(), XMLUni::fgVersion1_1)) { /* version travels in the declaration */ }
    std::string w2, e2; std::vector<XMLByte> b2;
    serialize(d2, enc, feat, w2, e2, b2);
    res += std::string(" a=") + (w2 != "1" ? "w0" : b2 == b1 ? "same" : "diff") + " k=" + std::to_string(gKindMismatch);
    if (!q) { for (auto& c : why) if (c == ' ') c = '_'; res += " d=" + why; }
    {   // what the re-parsed tree says about namespaces, for the Spec-judged comparison with the construction recipe
        std::string names, decls; signature(d2, names, decls);
        for (auto& c : names) if (c == ' ') c = '_';
        for (auto& c : decls) if (c == ' ') c = '_';
        res += " x=" + names + " y=" + decls;
    }
    XMLString::release(&xenc);
    delete p;
    return res;
}

static const XMLCh* orNull(const std::string& tok, std::basic_string<XMLCh>& store) {
    if (tok == "~") return 0;
    store = X(hx::parseHexList(tok));
    return store.c_str();
}

static std::string doTree(const std::vector<std::string>& f) {
    const std::string& enc = f[1]; bool v11 = f[2] == "1"; int feat = atoi(f[3].c_str());
    auto ops = hx::split(f[4], ';');
    DOMDocument* doc = 0; DOMDocumentType* dt = 0; DOMNode* cur = 0;
    std::string res;
    try {
        for (auto& op : ops) {
            if (op.empty()) continue;
            auto a = hx::split(op, ',');
            std::basic_string<XMLCh> s1, s2, s3;
            if (a[0] == "D" && a.size() == 4) {
                dt = gImpl->createDocumentType(orNull(a[1], s1), orNull(a[2], s2), orNull(a[3], s3));
            } else if (a[0] == "E" && a.size() == 3) {
                if (!doc) { doc = gImpl->createDocument(orNull(a[1], s1), orNull(a[2], s2), dt); cur = doc->getDocumentElement();
                            if (v11) doc->setXmlVersion(XMLUni::fgVersion1_1); }
                else { DOMElement* e = doc->createElementNS(orNull(a[1], s1), orNull(a[2], s2)); cur->appendChild(e); cur = e; }
            } else if (!doc) { return "bad-op"; }
            else if (a[0] == "L" && a.size() == 2) { DOMElement* e = doc->createElement(orNull(a[1], s1)); cur->appendChild(e); cur = e; }
            else if (a[0] == "U") { if (cur->getParentNode() && cur->getParentNode() != doc) cur = cur->getParentNode(); }
            else if (a[0] == "A" && a.size() == 4) ((DOMElement*)cur)->setAttributeNS(orNull(a[1], s1), orNull(a[2], s2), orNull(a[3], s3));
            else if (a[0] == "B" && a.size() == 3) ((DOMElement*)cur)->setAttribute(orNull(a[1], s1), orNull(a[2], s2));
            else if (a[0] == "T" && a.size() == 2) cur->appendChild(doc->createTextNode(orNull(a[1], s1)));
            else if (a[0] == "C" && a.size() == 2) cur->appendChild(doc->createCDATASection(orNull(a[1], s1)));
            else if (a[0] == "M" && a.size() == 2) cur->appendChild(doc->createComment(orNull(a[1], s1)));
            else if (a[0] == "P" && a.size() == 3) cur->appendChild(doc->createProcessingInstruction(orNull(a[1], s1), orNull(a[2], s2)));
            else if (a[0] == "R" && a.size() == 2) cur->appendChild(doc->createEntityReference(orNull(a[1], s1)));
            else if (a[0] == "m" && a.size() == 2) doc->insertBefore(doc->createComment(orNull(a[1], s1)), doc->getDocumentElement());
            else if (a[0] == "p" && a.size() == 3) doc->appendChild(doc->createProcessingInstruction(orNull(a[1], s1), orNull(a[2], s2)));
            else return "bad-op";
        }
    } catch (const DOMException& e) {
        if (doc) doc->release();
        return "build-exc " + std::to_string((int)e.code);
    }
    if (!doc) return "bad-op";
    res = roundTrip(doc, enc, feat);
    doc->release();
    return res;
}

static std::string doParsed(const std::vector<std::string>& f) {
    const std::string& enc = f[1]; int feat = atoi(f[3].c_str());
    auto bs = hx::parseHexList(f[4]);
    std::vector<XMLByte> raw(bs.begin(), bs.end());
    ParseErr pe;
    XercesDOMParser* p = newParser(&pe, (feat & 32) != 0);
    MemBufInputSource src(raw.data(), raw.size(), "in", false);
    std::string res;
    try { p->parse(src); } catch (...) { delete p; return "input-fatal exception"; }
    if (!pe.first.empty() || !p->getDocument()) { std::string r = "input-fatal " + pe.first; delete p; return r; }
    res = roundTrip(p->getDocument(), enc, feat);
    delete p;
    return res;
}

int main() {
    XMLPlatformUtils::Initialize();
    static const XMLCh ls[] = {chLatin_L, chLatin_S, chNull};
    gImpl = DOMImplementationRegistry::getDOMImplementation(ls);
    signal(SIGALRM, onAlarm);
    if (const char* sc = getenv("HX_ALARM_SCALE")) { gAlarmScale = atoi(sc); if (gAlarmScale < 1) gAlarmScale = 1; }
    std::string line;
    while (std::getline(std::cin, line)) {
        if (line.empty()) continue;
        auto f = hx::split(line);
        std::string out;
        if ((f[0] == "FB" || f[0] == "FX") && f.size() == 7) out = doFormat(f, f[0] == "FX");
        else if ((f[0] == "T" || f[0] == "X") && f.size() == 5) {
            if (sigsetjmp(gJmp, 1) == 0) {
                alarm(6 * gAlarmScale);
                try { out = f[0] == "T" ? doTree(f) : doParsed(f); }
                catch (const OutOfMemoryException&) { out = "exc OutOfMemory"; }
                catch (const XMLException& e) { out = std::string("exc XMLException:") + excName(e); }
                catch (const DOMException& e) { out = "exc DOMException " + std::to_string((int)e.code); }
                catch (...) { out = "exc FOREIGN-EXCEPTION"; }
                alarm(0);
            } else out = "HANG";
        } else out = "bad-op";
        puts(out.c_str());
        fflush(stdout);
    }
    return 0;
}
