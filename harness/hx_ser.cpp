// C16 harness: the REAL XSerializeEngine / XMLGrammarPoolImpl, same line protocol as lean/XV/Driver/Ser.lean.
//   E <bufSize> <asis> <tok>*   typed values through a real storing engine into BinMemOutputStream, engine
//                               destroyed, stream read back by a real loading engine from BinMemInputStream
//   G <bufSize> <root> <node>*  object graph of harness classes HxA/HxB through write(XSerializable*)/operator>>
//   H <storer> <loader> <lock>  serialised pool whose level field is overwritten with <storer>, then deserialised
//   K                           constants read back through the compiled library headers
//   P <kind D|S> <flags> <grammar hex> <instance hex>*
//                               pool round trip (two runs of the implementation, no model): pool A from the grammar,
//                               serialise, deserialise into B, re-serialise B, deserialise into C; every instance is
//                               validated against A, B and C; grammar/XSModel dumps compared.  One line of result.
#include "hx_common.hpp"
#include <map>
#include <set>
#include <algorithm>
#include <memory>
#include <xercesc/internal/XSerializeEngine.hpp>
#include <xercesc/internal/XSerializable.hpp>
#include <xercesc/internal/XSerializationException.hpp>
#include <xercesc/internal/BinMemOutputStream.hpp>
#include <xercesc/util/BinMemInputStream.hpp>
#include <xercesc/util/OutOfMemoryException.hpp>
#include <xercesc/util/XercesVersion.hpp>
#include <xercesc/util/RefHashTableOf.hpp>
#include <xercesc/framework/XMLGrammarPoolImpl.hpp>
#include <xercesc/framework/MemBufInputSource.hpp>
#include <xercesc/framework/XMLGrammarDescription.hpp>
#include <xercesc/parsers/XercesDOMParser.hpp>
#include <xercesc/dom/DOM.hpp>
#include <xercesc/sax/SAXException.hpp>
#include <xercesc/sax/SAXParseException.hpp>
#include <xercesc/sax/ErrorHandler.hpp>
#include <xercesc/sax/EntityResolver.hpp>
#include <xercesc/sax/InputSource.hpp>
#include <xercesc/validators/common/Grammar.hpp>
#include <xercesc/validators/DTD/DTDGrammar.hpp>
#include <xercesc/validators/DTD/DTDElementDecl.hpp>
#include <xercesc/validators/DTD/DTDAttDef.hpp>
#include <xercesc/validators/DTD/DTDEntityDecl.hpp>
#include <xercesc/framework/XMLNotationDecl.hpp>
#include <xercesc/framework/psvi/XSModel.hpp>
#include <xercesc/framework/psvi/XSNamedMap.hpp>
#include <xercesc/framework/psvi/XSElementDeclaration.hpp>
#include <xercesc/framework/psvi/XSAttributeDeclaration.hpp>
#include <xercesc/framework/psvi/XSAttributeUse.hpp>
#include <xercesc/framework/psvi/XSComplexTypeDefinition.hpp>
#include <xercesc/framework/psvi/XSSimpleTypeDefinition.hpp>
#include <xercesc/framework/psvi/XSParticle.hpp>
#include <xercesc/framework/psvi/XSModelGroup.hpp>
#include <xercesc/framework/psvi/XSModelGroupDefinition.hpp>
#include <xercesc/framework/psvi/XSAttributeGroupDefinition.hpp>
#include <xercesc/framework/psvi/XSWildcard.hpp>
#include <xercesc/framework/psvi/XSIDCDefinition.hpp>
#include <xercesc/framework/psvi/XSNotationDeclaration.hpp>
#include <xercesc/framework/psvi/XSFacet.hpp>
#include <xercesc/framework/psvi/XSMultiValueFacet.hpp>
#include <xercesc/framework/psvi/XSAnnotation.hpp>
#include <xercesc/framework/psvi/XSNamespaceItem.hpp>

static MemoryManager* MM() { return XMLPlatformUtils::fgMemoryManager; }

static const char* serExcName(const XMLException& e) {
    switch (e.getCode()) {
#define C(x) case XMLExcepts::x: return #x;
        C(XSer_ProtoType_Null_ClassName) C(XSer_ProtoType_NameLen_Dif) C(XSer_ProtoType_Name_Dif)
        C(XSer_InStream_Read_LT_Req) C(XSer_InStream_Read_OverFlow) C(XSer_Storing_Violation)
        C(XSer_StoreBuffer_Violation) C(XSer_LoadPool_UppBnd_Exceed) C(XSer_LoadPool_NoTally_ObjCnt)
        C(XSer_Loading_Violation) C(XSer_LoadBuffer_Violation) C(XSer_Inv_ClassIndex)
        C(XSer_Inv_checkFillBuffer_Size) C(XSer_Inv_checkFlushBuffer_Size) C(XSer_Inv_Null_Pointer)
        C(XSer_CreateObject_Fail) C(XSer_ObjCount_UppBnd_Exceed) C(XSer_GrammarPool_Empty)
        C(XSer_GrammarPool_NotEmpty) C(XSer_StringPool_NotEmpty) C(XSer_Storer_Loader_Mismatch)
#undef C
        default: return "OTHER-XMLException";
    }
}

static std::string hexOf(unsigned long long v) { char b[32]; snprintf(b, sizeof b, "%llx", v); return b; }

static std::string fnvHex(const XMLByte* p, size_t n) {
    unsigned long long h = 14695981039346656037ULL;
    for (size_t i = 0; i < n; i++) { h ^= p[i]; h *= 1099511628211ULL; }
    return hexOf(h);
}

// ------------------------------------------------------------------------------------------ E mode
struct Tok { char kind; std::string ty; unsigned long long v; bool null; std::vector<uint32_t> data; unsigned long long bl; };

static bool parseU64(const std::string& s, unsigned long long& v) {
    if (s.empty()) return false;
    v = 0;
    for (char c : s) { int d = hx::hexv(c); if (d < 0) return false; v = v * 16 + d; }
    return true;
}

static bool parseTok(const std::string& t, Tok& k) {
    auto f = hx::split(t, ':');
    if (f[0].size() != 1) return false;
    k.kind = f[0][0]; k.null = false; k.bl = 0; k.v = 0;
    switch (k.kind) {
        case 'p': if (f.size() != 3) return false; k.ty = f[1]; return parseU64(f[2], k.v);
        case 'r': if (f.size() != 2) return false; k.data = hx::parseHexList(f[1]); return true;
        case 's': case 'b': if (f.size() != 2) return false;
            if (f[1] == "N") k.null = true; else k.data = hx::parseHexList(f[1]); return true;
        case 'S': case 'B': if (f.size() != 3) return false;
            if (!parseU64(f[1], k.bl)) return false;
            if (f[2] == "N") k.null = true; else k.data = hx::parseHexList(f[2]); return true;
    }
    return false;
}

static bool writeTok(XSerializeEngine& e, const Tok& k) {
    if (k.kind == 'p') {
        const std::string& t = k.ty; unsigned long long v = k.v;
        if (t == "byte") e << (XMLByte)v;
        else if (t == "xmlch") e << (XMLCh)v;
        else if (t == "char") e << (char)v;
        else if (t == "short") e << (short)v;
        else if (t == "int") e << (int)v;
        else if (t == "uint") e << (unsigned int)v;
        else if (t == "long") e << (long)v;
        else if (t == "ulong") e << (unsigned long)v;
        else if (t == "float") { unsigned int u = (unsigned int)v; float f; memcpy(&f, &u, 4); e << f; }
        else if (t == "double") { double d; memcpy(&d, &v, 8); e << d; }
        else if (t == "bool") e << (bool)(v != 0);
        else if (t == "size") e.writeSize((XMLSize_t)v);
        else if (t == "int64") e.writeInt64((XMLInt64)v);
        else if (t == "uint64") e.writeUInt64((XMLUInt64)v);
        else return false;
        return true;
    }
    if (k.kind == 'r') {
        std::vector<XMLByte> b(k.data.size() + 1);
        for (size_t i = 0; i < k.data.size(); i++) b[i] = (XMLByte)k.data[i];
        e.write(b.data(), k.data.size());
        return true;
    }
    if (k.kind == 's' || k.kind == 'S') {
        std::vector<XMLCh> u(k.data.size() + 1, 0);
        for (size_t i = 0; i < k.data.size(); i++) u[i] = (XMLCh)k.data[i];
        const XMLCh* p = k.null ? 0 : u.data();
        if (k.kind == 's') e.writeString(p); else e.writeString(p, (XMLSize_t)k.bl, XSerializeEngine::toWriteBufferLen);
        return true;
    }
    if (k.kind == 'b' || k.kind == 'B') {
        std::vector<XMLByte> u(k.data.size() + 1, 0);
        for (size_t i = 0; i < k.data.size(); i++) u[i] = (XMLByte)k.data[i];
        const XMLByte* p = k.null ? 0 : u.data();
        if (k.kind == 'b') e.writeString(p); else e.writeString(p, (XMLSize_t)k.bl, XSerializeEngine::toWriteBufferLen);
        return true;
    }
    return false;
}

static std::string readTok(XSerializeEngine& e, const Tok& k) {
    if (k.kind == 'p') {
        const std::string& t = k.ty; unsigned long long v = 0;
        if (t == "byte") { XMLByte x = 0; e >> x; v = x; }
        else if (t == "xmlch") { XMLCh x = 0; e >> x; v = x; }
        else if (t == "char") { char x = 0; e >> x; v = (unsigned char)x; }
        else if (t == "short") { short x = 0; e >> x; v = (unsigned short)x; }
        else if (t == "int") { int x = 0; e >> x; v = (unsigned int)x; }
        else if (t == "uint") { unsigned int x = 0; e >> x; v = x; }
        else if (t == "long") { long x = 0; e >> x; v = (unsigned long)x; }
        else if (t == "ulong") { unsigned long x = 0; e >> x; v = x; }
        else if (t == "float") { float f = 0; e >> f; unsigned int u; memcpy(&u, &f, 4); v = u; }
        else if (t == "double") { double d = 0; e >> d; memcpy(&v, &d, 8); }
        else if (t == "bool") { XMLByte x = 0; e >> x; v = x; }     // read the raw byte: no UB on corrupt data
        else if (t == "size") { XMLSize_t x = 0; e.readSize(x); v = x; }
        else if (t == "int64") { XMLInt64 x = 0; e.readInt64(x); v = (unsigned long long)x; }
        else if (t == "uint64") { XMLUInt64 x = 0; e.readUInt64(x); v = x; }
        return "p:" + t + ":" + hexOf(v);
    }
    if (k.kind == 'r') {
        std::vector<XMLByte> b(k.data.size() + 1, 0);
        e.read(b.data(), k.data.size());
        std::vector<uint32_t> v(b.begin(), b.begin() + k.data.size());
        return "r:" + hx::hexList(v);
    }
    if (k.kind == 's' || k.kind == 'S') {
        XMLCh* p = 0; XMLSize_t bl = 0, dl = 0;
        if (k.kind == 's') e.readString(p); else e.readString(p, bl, dl, XSerializeEngine::toReadBufferLen);
        std::string r = k.kind == 's' ? "s:" : "S:" + hexOf(bl) + ":";
        if (!p) return r + "N";
        std::vector<uint32_t> v; for (XMLCh* q = p; *q; ++q) v.push_back(*q);
        MM()->deallocate(p);
        return r + hx::hexList(v);
    }
    XMLByte* p = 0; XMLSize_t bl = 0, dl = 0;
    if (k.kind == 'b') e.readString(p); else e.readString(p, bl, dl, XSerializeEngine::toReadBufferLen);
    std::string r = k.kind == 'b' ? "b:" : "B:" + hexOf(bl) + ":";
    if (!p) return r + "N";
    std::vector<uint32_t> v; for (XMLByte* q = p; *q; ++q) v.push_back(*q);
    MM()->deallocate(p);
    return r + hx::hexList(v);
}

static std::string doE(size_t bufSize, const std::vector<std::string>& f) {
    std::vector<Tok> toks(f.size() - 3);
    for (size_t i = 3; i < f.size(); i++) if (!parseTok(f[i], toks[i - 3])) return "bad-op";
    XMLGrammarPoolImpl pool(MM());
    BinMemOutputStream out(1024, MM());
    try {
        XSerializeEngine e(&out, &pool, bufSize);
        for (auto& k : toks) if (!writeTok(e, k)) return "bad-op";
    } catch (const XMLException& ex) { return std::string("store-exc ") + serExcName(ex); }
    size_t n = (size_t)out.curPos();
    const XMLByte* raw = out.getRawBuffer();
    std::vector<uint32_t> head(raw, raw + std::min<size_t>(n, 48));
    std::string res = "ok " + std::to_string(n) + " " + fnvHex(raw, n) + " " + hx::hexList(head) + " >";
    BinMemInputStream in(raw, n, BinMemInputStream::BufOpt_Copy, MM());
    try {
        XSerializeEngine e(&in, &pool, bufSize);
        for (auto& k : toks) {
            try { res += " " + readTok(e, k); }
            catch (const XMLException& ex) { res += std::string(" exc ") + serExcName(ex); break; }
        }
    } catch (const XMLException& ex) { res += std::string(" exc ") + serExcName(ex); }
    return res;
}

// ------------------------------------------------------------------------------------------ G mode
class HxB;
class HxA : public XSerializable, public XMemory {
public:
    HxA(MemoryManager* = 0) : i(0), s(0), a(0), b(0) {}
    ~HxA() { if (s) MM()->deallocate(s); }
    int i; XMLCh* s; HxA* a; HxB* b;
    DECL_XSERIALIZABLE(HxA)
};
class HxB : public XSerializable, public XMemory {
public:
    HxB(MemoryManager* = 0) : by(0), b(0), a(0), z(0), a2(0) {}
    XMLByte by; HxB* b; HxA* a; XMLSize_t z; HxA* a2;
    DECL_XSERIALIZABLE(HxB)
};
IMPL_XSERIALIZABLE_TOCREATE(HxA)
IMPL_XSERIALIZABLE_TOCREATE(HxB)
void HxA::serialize(XSerializeEngine& e) {
    if (e.isStoring()) { e << i; e.writeString(s); e << a; e << b; }
    else { e >> i; e.readString(s); e >> a; e >> b; }
}
void HxB::serialize(XSerializeEngine& e) {
    if (e.isStoring()) { e << by; e << b; e << a; e.writeSize(z); e << a2; }
    else { e >> by; e >> b; e >> a; e.readSize(z); e >> a2; }
}

static void collectB(HxB* p, std::set<const void*>& s, std::vector<HxA*>& da, std::vector<HxB*>& db);
static void collectA(HxA* p, std::set<const void*>& s, std::vector<HxA*>& da, std::vector<HxB*>& db) {
    if (!p || !s.insert(p).second) return;
    da.push_back(p); collectA(p->a, s, da, db); collectB(p->b, s, da, db);
}
static void collectB(HxB* p, std::set<const void*>& s, std::vector<HxA*>& da, std::vector<HxB*>& db) {
    if (!p || !s.insert(p).second) return;
    db.push_back(p); collectB(p->b, s, da, db); collectA(p->a, s, da, db); collectA(p->a2, s, da, db);
}

struct GraphDump {
    std::map<const void*, unsigned> num; std::vector<std::string> nodes;
    unsigned visitA(HxA* p);
    unsigned visitB(HxB* p);
};
unsigned GraphDump::visitA(HxA* p) {
    if (!p) return 0;
    auto it = num.find(p); if (it != num.end()) return it->second;
    unsigned n = (unsigned)num.size() + 1; num[p] = n; nodes.push_back("");
    std::string str = "N";
    if (p->s) { std::vector<uint32_t> v; for (XMLCh* q = p->s; *q; ++q) v.push_back(*q); str = hx::hexList(v); }
    unsigned ra = visitA(p->a), rb = visitB(p->b);
    nodes[n - 1] = hexOf(n) + ":1:" + hexOf((unsigned int)p->i) + ":" + str + ":" + hexOf(ra) + ":" + hexOf(rb);
    return n;
}
unsigned GraphDump::visitB(HxB* p) {
    if (!p) return 0;
    auto it = num.find(p); if (it != num.end()) return it->second;
    unsigned n = (unsigned)num.size() + 1; num[p] = n; nodes.push_back("");
    unsigned rb = visitB(p->b), ra = visitA(p->a), ra2 = visitA(p->a2);
    nodes[n - 1] = hexOf(n) + ":2:" + hexOf(p->by) + ":" + hexOf(rb) + ":" + hexOf(ra) + ":" + hexOf(p->z) + ":" + hexOf(ra2);
    return n;
}


static std::string doG(size_t bufSize, const std::vector<std::string>& f) {
    unsigned long long rootId;
    if (!parseU64(f[2], rootId)) return "bad-op";
    std::map<unsigned long long, HxA*> as; std::map<unsigned long long, HxB*> bs;
    struct Raw { unsigned long long id; int cls; std::vector<std::string> fl; };
    std::vector<Raw> raws;
    for (size_t i = 3; i < f.size(); i++) {
        auto g = hx::split(f[i], ':');
        if (g.size() < 2) return "bad-op";
        Raw r; if (!parseU64(g[0], r.id)) return "bad-op";
        r.cls = g[1] == "1" ? 1 : g[1] == "2" ? 2 : 0;
        if ((r.cls == 1 && g.size() != 6) || (r.cls == 2 && g.size() != 7) || r.cls == 0) return "bad-op";
        r.fl.assign(g.begin() + 2, g.end());
        if (as.count(r.id) || bs.count(r.id)) continue;       // first entry wins, like heapLookup
        if (r.cls == 1) as[r.id] = new HxA(); else bs[r.id] = new HxB();
        raws.push_back(r);
    }
    auto A = [&](const std::string& s) -> HxA* { unsigned long long v = 0; parseU64(s, v); auto it = as.find(v); return it == as.end() ? 0 : it->second; };
    auto B = [&](const std::string& s) -> HxB* { unsigned long long v = 0; parseU64(s, v); auto it = bs.find(v); return it == bs.end() ? 0 : it->second; };
    for (auto& r : raws) {
        unsigned long long v = 0;
        if (r.cls == 1) {
            HxA* o = as[r.id]; parseU64(r.fl[0], v); o->i = (int)v;
            if (r.fl[1] != "N") { auto d = hx::parseHexList(r.fl[1]); o->s = (XMLCh*)MM()->allocate((d.size() + 1) * sizeof(XMLCh));
                for (size_t k = 0; k < d.size(); k++) o->s[k] = (XMLCh)d[k]; o->s[d.size()] = 0; }
            o->a = A(r.fl[2]); o->b = B(r.fl[3]);
        } else {
            HxB* o = bs[r.id]; parseU64(r.fl[0], v); o->by = (XMLByte)v; o->b = B(r.fl[1]); o->a = A(r.fl[2]);
            parseU64(r.fl[3], v); o->z = (XMLSize_t)v; o->a2 = A(r.fl[4]);
        }
    }
    std::string res;
    {
        XMLGrammarPoolImpl pool(MM());
        BinMemOutputStream out(1024, MM());
        bool rootIsA = !bs.count(rootId);
        try {
            XSerializeEngine e(&out, &pool, bufSize);
            if (rootIsA) e << (as.count(rootId) ? as[rootId] : (HxA*)0); else e << bs[rootId];
        } catch (const XMLException& ex) { res = std::string("store-exc ") + serExcName(ex); }
        if (res.empty()) {
            size_t n = (size_t)out.curPos();
            const XMLByte* raw = out.getRawBuffer();
            res = "ok " + std::to_string(n) + " " + fnvHex(raw, n) + " >";
            BinMemInputStream in(raw, n, BinMemInputStream::BufOpt_Copy, MM());
            HxA* ra = 0; HxB* rb = 0;
            try {
                XSerializeEngine e(&in, &pool, bufSize);
                if (rootIsA) e >> ra; else e >> rb;
                GraphDump d;
                unsigned r = rootIsA ? d.visitA(ra) : d.visitB(rb);
                res += " " + hexOf(r);
                for (auto& s : d.nodes) res += " " + s;
                std::set<const void*> vis; std::vector<HxA*> da; std::vector<HxB*> db;
                if (rootIsA) collectA(ra, vis, da, db); else collectB(rb, vis, da, db);
                for (auto p : da) delete p;
                for (auto p : db) delete p;
            } catch (const XMLException& ex) { res += std::string(" exc ") + serExcName(ex); }
        }
    }
    for (auto& kv : as) delete kv.second;
    for (auto& kv : bs) delete kv.second;
    return res;
}

// ------------------------------------------------------------------------------------------ K mode
static std::string doK() {
    std::string r = "level=" + std::to_string((unsigned)XERCES_GRAMMAR_SERIALIZATION_LEVEL);
    {   // default buffer size: what a default-constructed engine reports
        XMLGrammarPoolImpl pool(MM()); BinMemOutputStream out(1024, MM());
        XSerializeEngine e(&out, &pool);
        r += " buf=" + std::to_string((unsigned long)e.getBufSize());
    }
    // tags are file-static in XSerializeEngine.cpp: observe them through the stream of a tiny graph
    {
        XMLGrammarPoolImpl pool(MM()); BinMemOutputStream out(1024, MM());
        HxA a; a.a = &a;
        { XSerializeEngine e(&out, &pool, 64); e << (HxA*)0; e << &a; }
        const XMLByte* p = out.getRawBuffer();
        auto u32 = [&](size_t o) { return (unsigned)(p[o] | p[o + 1] << 8 | p[o + 2] << 16 | (unsigned)p[o + 3] << 24); };
        r += " null=" + hexOf(u32(0)) + " newclass=" + hexOf(u32(4));
        XMLGrammarPoolImpl pool2(MM()); BinMemOutputStream out2(1024, MM());
        int dummy = 0;
        { XSerializeEngine e(&out2, &pool2, 64); e.needToStoreObject(&dummy); HxA b, c; b.a = &c; e << &b; }
        const XMLByte* q = out2.getRawBuffer();
        auto v32 = [&](size_t o) { return (unsigned)(q[o] | q[o + 1] << 8 | q[o + 2] << 16 | (unsigned)q[o + 3] << 24); };
        r += " tmpl=" + hexOf(v32(0));
        // b: newclass tag at 4, name record, fields: int i, string N(8 bytes, aligned), a -> &c: class ref tag
        // stream: [0]tmpl [4]newclass [8]len(8) [16]"HxA" [20]i [24]noData(8) [32]classref
        r += " mask=" + hexOf(v32(32) & ~0x7FFFFFFFu);
    }
    r += " objid=" + std::to_string(sizeof(XSerializeEngine::XSerializedObjectId_t));
    r += " byte=" + std::to_string(sizeof(XMLByte)) + " xmlch=" + std::to_string(sizeof(XMLCh)) + " char=" + std::to_string(sizeof(char))
       + " short=" + std::to_string(sizeof(short)) + " int=" + std::to_string(sizeof(int)) + " uint=" + std::to_string(sizeof(unsigned int))
       + " long=" + std::to_string(sizeof(long)) + " ulong=" + std::to_string(sizeof(unsigned long)) + " float=" + std::to_string(sizeof(float))
       + " double=" + std::to_string(sizeof(double)) + " bool=" + std::to_string(sizeof(bool)) + " size=" + std::to_string(sizeof(XMLSize_t))
       + " int64=" + std::to_string(sizeof(XMLInt64)) + " uint64=" + std::to_string(sizeof(XMLUInt64));
    return r;
}

// ------------------------------------------------------------------------------------------ P mode
static std::string N(const XMLCh* s) { return s ? hx::narrow(s) : std::string("~"); }
static std::string QN(const XMLCh* ns, const XMLCh* nm) { return "{" + N(ns) + "}" + N(nm); }
static std::string unhex(const std::string& h) {
    std::string r; if (h == "-") return r;
    for (size_t i = 0; i + 1 < h.size(); i += 2) r += (char)(hx::hexv(h[i]) * 16 + hx::hexv(h[i + 1]));
    return r;
}
static std::string strFnv(const std::string& s) { return fnvHex((const XMLByte*)s.data(), s.size()); }

struct Src { std::string sysid, text; char kind; };

class HxResolver : public EntityResolver {
public:
    std::vector<Src>* srcs;
    std::vector<std::string> asked;
    InputSource* resolveEntity(const XMLCh* const, const XMLCh* const systemId) {
        std::string id = N(systemId);
        asked.push_back(id);
        for (auto& s : *srcs) if (s.sysid == id)
            return new MemBufInputSource((const XMLByte*)s.text.data(), s.text.size(), systemId, false, MM());
        static const char* empty = "";
        return new MemBufInputSource((const XMLByte*)empty, 0, systemId, false, MM());   // never touch disk/network
    }
};

class HxNullHandler : public ErrorHandler {
public:
    void warning(const SAXParseException&) {}
    void error(const SAXParseException&) {}
    void fatalError(const SAXParseException&) {}
    void resetErrors() {}
};
static HxNullHandler gNullHandler;

class HxParser : public XercesDOMParser {
public:
    HxParser(XMLGrammarPool* p) : XercesDOMParser(0, MM(), p) { setErrorHandler(&gNullHandler); }   // installs this as the scanner's XMLErrorReporter
    std::vector<std::string> errs;
    virtual void error(const unsigned int errCode, const XMLCh* const msgDomain, const XMLErrorReporter::ErrTypes errType,
                       const XMLCh* const, const XMLCh* const, const XMLCh* const, const XMLFileLoc, const XMLFileLoc) {
        char d = XMLString::equals(msgDomain, XMLUni::fgXMLErrDomain) ? 'E' :
                 XMLString::equals(msgDomain, XMLUni::fgValidityDomain) ? 'V' : 'X';
        char t = errType == XMLErrorReporter::ErrType_Warning ? 'w' : errType == XMLErrorReporter::ErrType_Error ? 'e' : 'f';
        errs.push_back(std::string(1, d) + std::to_string(errCode) + t);
    }
    virtual void resetErrors() {}
};

static bool gPsvi = false;   // flag 't': DOM type info through the PSVI handler
static void configure(HxParser& p, HxResolver* r) {
    p.setDoNamespaces(true);
    p.setDoSchema(true);
    p.setValidationScheme(XercesDOMParser::Val_Always);
    p.setValidationSchemaFullChecking(true);
    p.setIdentityConstraintChecking(true);
    p.setHandleMultipleImports(true);
    p.setCreateSchemaInfo(gPsvi);
    p.setCreateEntityReferenceNodes(false);
    p.setEntityResolver(r);
    p.setExitOnFirstFatalError(true);
    p.setLoadExternalDTD(true);
}

static void dumpDom(DOMNode* n, std::string& o) {
    switch (n->getNodeType()) {
    case DOMNode::ELEMENT_NODE: {
        DOMElement* e = (DOMElement*)n;
        const DOMTypeInfo* ti = e->getSchemaTypeInfo();
        o += "<" + N(e->getNodeName()) + " T=" + (ti ? QN(ti->getTypeNamespace(), ti->getTypeName()) : "-");
        DOMNamedNodeMap* as = e->getAttributes();
        std::vector<std::string> al;
        for (XMLSize_t i = 0; i < as->getLength(); i++) {
            DOMAttr* a = (DOMAttr*)as->item(i);
            const DOMTypeInfo* at = a->getSchemaTypeInfo();
            al.push_back(N(a->getNodeName()) + "=" + N(a->getNodeValue()) + (a->getSpecified() ? "|s|" : "|d|") + (a->isId() ? "id|" : "") +
                         (at ? QN(at->getTypeNamespace(), at->getTypeName()) : "-"));
        }
        std::sort(al.begin(), al.end());
        for (auto& s : al) o += " " + s;
        o += ">";
        for (DOMNode* c = n->getFirstChild(); c; c = c->getNextSibling()) dumpDom(c, o);
        o += "</>";
        break; }
    case DOMNode::TEXT_NODE: case DOMNode::CDATA_SECTION_NODE:
        o += "[" + N(n->getNodeValue()) + (((DOMText*)n)->isIgnorableWhitespace() ? "|ign" : "") + "]"; break;
    case DOMNode::ENTITY_REFERENCE_NODE: o += "&" + N(n->getNodeName()) + ";"; break;
    case DOMNode::DOCUMENT_NODE:
        for (DOMNode* c = n->getFirstChild(); c; c = c->getNextSibling()) dumpDom(c, o);
        break;
    default: break;
    }
}

static std::string validateAgainst(XMLGrammarPool* pool, std::vector<Src>& srcs, const std::string& inst, bool verbose) {
    HxResolver res; res.srcs = &srcs;
    std::string dump, err;
    HxParser p(pool);
    configure(p, &res);
    p.useCachedGrammarInParse(true);
    try {
        MemBufInputSource is((const XMLByte*)inst.data(), inst.size(), "file:///hx/instance.xml", false, MM());
        p.parse(is);
        DOMDocument* d = p.getDocument();
        if (d) dumpDom(d, dump);
    }
    catch (const OutOfMemoryException&) { err = "!OOM"; }
    catch (const XMLException& e) { err = "!XMLException:" + std::to_string((int)e.getCode()); }
    catch (const DOMException& e) { err = "!DOMException:" + std::to_string((int)e.code); }
    catch (const SAXException&) { err = "!SAXException"; }
    catch (...) { err = "!FOREIGN-EXCEPTION"; }
    std::vector<std::string> es = p.errs;
    std::sort(es.begin(), es.end());
    std::string r = es.empty() ? "valid" : "";
    for (size_t i = 0; i < es.size(); i++) r += (i ? "," : "") + es[i];
    r += err + "#" + strFnv(dump);
    // external entities the parser asked for beyond the cached grammar: part of the behaviour
    std::sort(res.asked.begin(), res.asked.end());
    std::string asked; for (auto& a : res.asked) asked += a + ";";
    r += "#" + strFnv(asked);
    if (verbose) r += "#" + dump + "#" + asked;
    return r;
}

// ---- grammar dumps
static std::string strList(StringList* l) {
    std::string r = "(";
    if (l) for (XMLSize_t i = 0; i < l->size(); i++) r += (i ? "|" : "") + N(l->elementAt(i));
    return r + ")";
}
static std::string dumpType(XSTypeDefinition* t, int depth);
static std::string typeRef(XSTypeDefinition* t, int depth) {
    if (!t) return "-";
    if (t->getAnonymous() || !t->getName()) return depth > 0 ? "anon" + dumpType(t, depth - 1) : "anon..";
    return QN(t->getNamespace(), t->getName());
}
static std::string dumpWildcard(XSWildcard* w) {
    if (!w) return "-";
    return "wc(" + std::to_string((int)w->getConstraintType()) + strList(w->getNsConstraintList()) + "," + std::to_string((int)w->getProcessContents()) + ")";
}
static std::string dumpIDC(XSIDCDefinition* c) {
    std::string r = "idc(" + QN(c->getNamespace(), c->getName()) + "," + std::to_string((int)c->getCategory()) + ",sel=" + N(c->getSelectorStr()) +
                    ",f=" + strList(c->getFieldStrs());
    if (c->getRefKey()) r += ",ref=" + QN(c->getRefKey()->getNamespace(), c->getRefKey()->getName());
    return r + ")";
}
static std::string dumpElemHead(XSElementDeclaration* e, int depth) {
    std::string r = "el(" + QN(e->getNamespace(), e->getName()) + ":" + typeRef(e->getTypeDefinition(), depth) +
        ",sc" + std::to_string((int)e->getScope()) + ",vc" + std::to_string((int)e->getConstraintType()) + "=" + N(e->getConstraintValue()) +
        (e->getNillable() ? ",nil" : "") + (e->getAbstract() ? ",abs" : "") + ",ex" + std::to_string(e->getSubstitutionGroupExclusions()) +
        ",dis" + std::to_string(e->getDisallowedSubstitutions());
    if (e->getSubstitutionGroupAffiliation())
        r += ",sg=" + QN(e->getSubstitutionGroupAffiliation()->getNamespace(), e->getSubstitutionGroupAffiliation()->getName());
    XSNamedMap<XSIDCDefinition>* ics = e->getIdentityConstraints();
    if (ics) { std::vector<std::string> v; for (XMLSize_t i = 0; i < ics->getLength(); i++) v.push_back(dumpIDC(ics->item(i)));
        std::sort(v.begin(), v.end()); for (auto& s : v) r += "," + s; }
    return r + ")";
}
static std::string dumpParticle(XSParticle* p, int depth) {
    if (!p) return "-";
    std::string r = "p[" + std::to_string((unsigned long)p->getMinOccurs()) + "," +
                    (p->getMaxOccursUnbounded() ? std::string("*") : std::to_string((unsigned long)p->getMaxOccurs())) + "]";
    switch (p->getTermType()) {
    case XSParticle::TERM_ELEMENT: r += dumpElemHead(p->getElementTerm(), depth); break;
    case XSParticle::TERM_WILDCARD: r += dumpWildcard(p->getWildcardTerm()); break;
    case XSParticle::TERM_MODELGROUP: {
        XSModelGroup* g = p->getModelGroupTerm();
        r += "g" + std::to_string((int)g->getCompositor()) + "{";
        XSParticleList* l = g->getParticles();
        if (l) for (XMLSize_t i = 0; i < l->size(); i++) r += (i ? " " : "") + dumpParticle(l->elementAt(i), depth);
        r += "}"; break; }
    default: r += "empty";
    }
    return r;
}
static std::string dumpAttrDecl(XSAttributeDeclaration* a, int depth) {
    if (!a) return "-";
    return "at(" + QN(a->getNamespace(), a->getName()) + ":" + typeRef(a->getTypeDefinition(), depth) + ",sc" + std::to_string((int)a->getScope()) +
           ",vc" + std::to_string((int)a->getConstraintType()) + "=" + N(a->getConstraintValue()) + ")";
}
static std::string dumpAttrUses(XSAttributeUseList* l, int depth) {
    std::vector<std::string> v;
    if (l) for (XMLSize_t i = 0; i < l->size(); i++) { XSAttributeUse* u = l->elementAt(i);
        v.push_back("use(" + dumpAttrDecl(u->getAttrDeclaration(), depth) + (u->getRequired() ? ",req" : "") + ",vc" +
                    std::to_string((int)u->getConstraintType()) + "=" + N(u->getConstraintValue()) + ")"); }
    std::sort(v.begin(), v.end());
    std::string r; for (auto& s : v) r += s; return r;
}
static std::string dumpType(XSTypeDefinition* t, int depth) {
    if (!t) return "-";
    std::string r;
    if (t->getTypeCategory() == XSTypeDefinition::SIMPLE_TYPE) {
        XSSimpleTypeDefinition* s = (XSSimpleTypeDefinition*)t;
        r = "st(var" + std::to_string((int)s->getVariety()) + ",fin" + std::to_string(s->getFinal()) + ",base=" +
            (s->getBaseType() && s->getBaseType() != t ? typeRef(s->getBaseType(), 0) : std::string("-"));
        if (s->getVariety() == XSSimpleTypeDefinition::VARIETY_LIST) r += ",item=" + typeRef(s->getItemType(), depth);
        if (s->getVariety() == XSSimpleTypeDefinition::VARIETY_UNION) { XSSimpleTypeDefinitionList* m = s->getMemberTypes();
            r += ",mem="; if (m) for (XMLSize_t i = 0; i < m->size(); i++) r += typeRef(m->elementAt(i), depth) + ";"; }
        if (s->getVariety() == XSSimpleTypeDefinition::VARIETY_ATOMIC && s->getPrimitiveType())
            r += ",prim=" + N(s->getPrimitiveType()->getName());
        r += ",df" + std::to_string(s->getDefinedFacets()) + ",ff" + std::to_string(s->getFixedFacets()) + ",ord" + std::to_string((int)s->getOrdered()) +
             (s->getFinite() ? ",fin" : "") + (s->getBounded() ? ",bnd" : "") + (s->getNumeric() ? ",num" : "");
        XSFacetList* fl = s->getFacets();       // a set: its order follows a hash table and is not part of the component
        std::vector<std::string> fv;
        if (fl) for (XMLSize_t i = 0; i < fl->size(); i++) { XSFacet* f = fl->elementAt(i);
            fv.push_back(",F" + std::to_string((int)f->getFacetKind()) + "=" + N(f->getLexicalFacetValue()) + (f->isFixed() ? "!" : "")); }
        std::sort(fv.begin(), fv.end());
        for (auto& x : fv) r += x;
        r += ",enum" + strList(s->getLexicalEnumeration()) + ",pat" + strList(s->getLexicalPattern()) + ")";
    } else {
        XSComplexTypeDefinition* c = (XSComplexTypeDefinition*)t;
        r = "ct(der" + std::to_string((int)c->getDerivationMethod()) + (c->getAbstract() ? ",abs" : "") + ",ct" + std::to_string((int)c->getContentType()) +
            ",fin" + std::to_string(c->getFinal()) + ",ps" + std::to_string(c->getProhibitedSubstitutions()) +
            ",base=" + (c->getBaseType() && c->getBaseType() != t ? typeRef(c->getBaseType(), 0) : std::string("-")) +
            ",simple=" + typeRef(c->getSimpleType(), depth) + ",part=" + dumpParticle(c->getParticle(), depth) +
            ",attrs=" + dumpAttrUses(c->getAttributeUses(), depth) + ",awc=" + dumpWildcard(c->getAttributeWildcard()) + ")";
    }
    return r;
}

static void dumpXSModel(XSModel* m, std::vector<std::string>& out) {
    if (!m) { out.push_back("xsmodel=null"); return; }
    XSNamedMap<XSObject>* mp;
    if ((mp = m->getComponents(XSConstants::ELEMENT_DECLARATION)))
        for (XMLSize_t i = 0; i < mp->getLength(); i++) out.push_back("E " + dumpElemHead((XSElementDeclaration*)mp->item(i), 4));
    if ((mp = m->getComponents(XSConstants::TYPE_DEFINITION)))
        for (XMLSize_t i = 0; i < mp->getLength(); i++) { XSTypeDefinition* t = (XSTypeDefinition*)mp->item(i);
            out.push_back("T " + QN(t->getNamespace(), t->getName()) + "=" + dumpType(t, 4)); }
    if ((mp = m->getComponents(XSConstants::ATTRIBUTE_DECLARATION)))
        for (XMLSize_t i = 0; i < mp->getLength(); i++) out.push_back("A " + dumpAttrDecl((XSAttributeDeclaration*)mp->item(i), 4));
    if ((mp = m->getComponents(XSConstants::ATTRIBUTE_GROUP_DEFINITION)))
        for (XMLSize_t i = 0; i < mp->getLength(); i++) { XSAttributeGroupDefinition* g = (XSAttributeGroupDefinition*)mp->item(i);
            out.push_back("AG " + QN(g->getNamespace(), g->getName()) + "=" + dumpAttrUses(g->getAttributeUses(), 4) + dumpWildcard(g->getAttributeWildcard())); }
    if ((mp = m->getComponents(XSConstants::MODEL_GROUP_DEFINITION)))
        for (XMLSize_t i = 0; i < mp->getLength(); i++) { XSModelGroupDefinition* g = (XSModelGroupDefinition*)mp->item(i);
            std::string r = "MG " + QN(g->getNamespace(), g->getName()) + "=";
            XSModelGroup* mg = g->getModelGroup();
            if (mg) { r += "g" + std::to_string((int)mg->getCompositor()) + "{"; XSParticleList* l = mg->getParticles();
                if (l) for (XMLSize_t k = 0; k < l->size(); k++) r += dumpParticle(l->elementAt(k), 4) + " "; r += "}"; }
            out.push_back(r); }
    if ((mp = m->getComponents(XSConstants::NOTATION_DECLARATION)))
        for (XMLSize_t i = 0; i < mp->getLength(); i++) { XSNotationDeclaration* n = (XSNotationDeclaration*)mp->item(i);
            out.push_back("N " + QN(n->getNamespace(), n->getName()) + " sys=" + N(n->getSystemId()) + " pub=" + N(n->getPublicId())); }
    XSAnnotationList* al = m->getAnnotations();
    if (al) for (XMLSize_t i = 0; i < al->size(); i++) out.push_back("AN " + N(al->elementAt(i)->getAnnotationString()));
    StringList* nss = m->getNamespaces();
    out.push_back("NS " + strList(nss));
}

static void dumpDTD(DTDGrammar* g, std::vector<std::string>& out) {
    NameIdPoolEnumerator<DTDElementDecl> ee = g->getElemEnumerator();
    while (ee.hasMoreElements()) {
        DTDElementDecl& e = ee.nextElement();
        std::string r = "DE " + N(e.getFullName()) + " mt" + std::to_string((int)e.getModelType()) + " cr" + std::to_string((int)e.getCreateReason()) +
                        (e.isExternal() ? " ext" : "") + " cm=" + N(e.getFormattedContentModel());
        std::vector<std::string> al;
        if (e.hasAttDefs()) { XMLAttDefList& l = e.getAttDefList();
            for (XMLSize_t i = 0; i < l.getAttDefCount(); i++) { XMLAttDef& a = l.getAttDef(i);
                al.push_back(N(a.getFullName()) + ":t" + std::to_string((int)a.getType()) + ":d" + std::to_string((int)a.getDefaultType()) + ":v=" + N(a.getValue()) +
                             ":e=" + N(a.getEnumeration()) + (a.isExternal() ? ":ext" : "")); } }
        std::sort(al.begin(), al.end());
        for (auto& s : al) r += " " + s;
        out.push_back(r);
    }
    NameIdPoolEnumerator<DTDEntityDecl> en = g->getEntityEnumerator();
    while (en.hasMoreElements()) { DTDEntityDecl& d = en.nextElement();
        out.push_back("DN " + N(d.getName()) + " v=" + N(d.getValue()) + " len=" + std::to_string((unsigned long)d.getValueLen()) + " sys=" + N(d.getSystemId()) +
                      " pub=" + N(d.getPublicId()) + " nd=" + N(d.getNotationName()) + (d.getIsParameter() ? " pe" : "") + (d.isExternal() ? " ext" : "") +
                      (d.getDeclaredInIntSubset() ? " int" : "")); }
    NameIdPoolEnumerator<XMLNotationDecl> nn = g->getNotationEnumerator();
    while (nn.hasMoreElements()) { XMLNotationDecl& d = nn.nextElement();
        out.push_back("DO " + N(d.getName()) + " sys=" + N(d.getSystemId()) + " pub=" + N(d.getPublicId())); }
}

static std::string dumpPool(XMLGrammarPoolImpl* pool) {
    std::vector<std::string> out;
    RefHashTableOfEnumerator<Grammar> ge = pool->getGrammarEnumerator();
    while (ge.hasMoreElements()) {
        Grammar& g = ge.nextElement();
        XMLGrammarDescription* d = g.getGrammarDescription();
        out.push_back("G " + std::to_string((int)g.getGrammarType()) + " key=" + N(d ? d->getGrammarKey() : 0) + " ns=" + N(g.getTargetNamespace()) +
                      (g.getValidated() ? " validated" : ""));
        if (g.getGrammarType() == Grammar::DTDGrammarType) dumpDTD((DTDGrammar*)&g, out);
    }
    bool changed = false;
    dumpXSModel(pool->getXSModel(changed), out);
    std::sort(out.begin(), out.end());
    std::string r; for (auto& s : out) r += s + "\n";
    return r;
}

static std::string esc(const std::string& s) { std::string r; for (char c : s) { if (c == '\n') r += "\\n"; else if (c == ' ') r += "\\_"; else r += c; } return r; }

static bool tryDeserialize(XMLGrammarPoolImpl* pool, const std::vector<XMLByte>& bytes, std::string& what) {
    try {
        BinMemInputStream in(bytes.data(), bytes.size(), BinMemInputStream::BufOpt_Reference, MM());
        pool->deserializeGrammars(&in);
        what = "ok"; return true;
    }
    catch (const XSerializationException& e) { what = std::string("XSerializationException:") + serExcName(e); }
    catch (const OutOfMemoryException&) { what = "OOM"; }
    catch (const XMLException& e) { what = "XMLException:" + std::to_string((int)e.getCode()); }
    catch (...) { what = "FOREIGN-EXCEPTION"; }
    return false;
}
static bool trySerialize(XMLGrammarPoolImpl* pool, std::vector<XMLByte>& bytes, std::string& what) {
    try {
        BinMemOutputStream out(65536, MM());
        pool->serializeGrammars(&out);
        const XMLByte* p = out.getRawBuffer();
        bytes.assign(p, p + (size_t)out.curPos());
        what = "ok"; return true;
    }
    catch (const XSerializationException& e) { what = std::string("XSerializationException:") + serExcName(e); }
    catch (const OutOfMemoryException&) { what = "OOM"; }
    catch (const XMLException& e) { what = "XMLException:" + std::to_string((int)e.getCode()); }
    catch (...) { what = "FOREIGN-EXCEPTION"; }
    return false;
}

// P <flags> g:<D|S>:<hex> ... i:<hex> ...      flags: - = none, v = verbose dumps, l = lock pool A *before* serialising
//                                              (all three pools are locked before validation in any case)
//                                              t = create DOM schema type info (PSVI handler), a = original pool only
static std::string doP(const std::vector<std::string>& f) {
    if (f.size() < 3) return "bad-op";
    bool verbose = f[1].find('v') != std::string::npos, prelock = f[1].find('l') != std::string::npos;
    gPsvi = f[1].find('t') != std::string::npos;
    std::vector<Src> srcs; std::vector<std::string> insts;
    for (size_t i = 2; i < f.size(); i++) {
        auto g = hx::split(f[i], ':');
        if (g[0] == "g" && g.size() == 3 && (g[1] == "D" || g[1] == "S")) {
            Src s; s.kind = g[1][0]; s.text = unhex(g[2]);
            s.sysid = "file:///hx/g" + std::to_string(srcs.size()) + (s.kind == 'D' ? ".dtd" : ".xsd");
            srcs.push_back(s);
        } else if (g[0] == "i" && g.size() == 2) insts.push_back(unhex(g[1]));
        else return "bad-op";
    }
    std::string res;
    std::unique_ptr<XMLGrammarPoolImpl> A(new XMLGrammarPoolImpl(MM())), B(new XMLGrammarPoolImpl(MM())), C(new XMLGrammarPoolImpl(MM()));
    std::string gerrs;
    {
        HxResolver r; r.srcs = &srcs;
        HxParser p(A.get()); configure(p, &r);
        for (auto& s : srcs) {
            try {
                MemBufInputSource is((const XMLByte*)s.text.data(), s.text.size(), s.sysid.c_str(), false, MM());
                p.loadGrammar(is, s.kind == 'D' ? Grammar::DTDGrammarType : Grammar::SchemaGrammarType, true);
            } catch (const XMLException& e) { gerrs += "!XMLException:" + std::to_string((int)e.getCode()); }
              catch (const SAXException&) { gerrs += "!SAXException"; }
              catch (...) { gerrs += "!FOREIGN"; }
        }
        for (auto& e : p.errs) gerrs += e + ",";
    }
    res = "gram=" + (gerrs.empty() ? std::string("clean") : gerrs);
    if (f[1].find('a') != std::string::npos) {      // original pool only: does the problem exist without any serialisation?
        if (!getenv("HX_NOLOCK")) A->lockPool();
        res += " original-only dump=" + strFnv(dumpPool(A.get()));
        for (auto& in : insts) res += " | " + esc(validateAgainst(A.get(), srcs, in, verbose));
        return res;
    }
    if (prelock) A->lockPool();
    std::vector<XMLByte> s1, s2, s3; std::string w;
    if (!trySerialize(A.get(), s1, w)) return res + " ser1=" + w;
    res += " ser1=ok:" + std::to_string(s1.size()) + ":" + fnvHex(s1.data(), s1.size());
    // level field corrupted: must be rejected with XSerializationException
    {
        unsigned lvl = (unsigned)XERCES_GRAMMAR_SERIALIZATION_LEVEL;
        unsigned alts[] = { lvl + 1, lvl - 1, 0u, 0xFFFFFFFFu, lvl + 256u };
        std::string lr;
        for (unsigned a : alts) {
            std::vector<XMLByte> bad(s1); bad[0] = a & 255; bad[1] = (a >> 8) & 255; bad[2] = (a >> 16) & 255; bad[3] = (a >> 24) & 255;
            XMLGrammarPoolImpl D(MM()); std::string ww;
            bool ok = tryDeserialize(&D, bad, ww);
            bool empty = !D.getGrammarEnumerator().hasMoreElements();
            if (ok || ww != "XSerializationException:XSer_Storer_Loader_Mismatch" || !empty) { lr = "level" + hexOf(a) + "->" + ww + (empty ? "" : "+pool-not-empty"); break; }
        }
        res += " lvl=" + (lr.empty() ? std::string("rejected") : lr);
    }
    if (!tryDeserialize(B.get(), s1, w)) return res + " de1=" + w;
    res += " de1=ok";
    if (!trySerialize(B.get(), s2, w)) return res + " ser2=" + w;
    res += " ser2=ok:" + std::to_string(s2.size()) + ":" + fnvHex(s2.data(), s2.size());
    if (!tryDeserialize(C.get(), s2, w)) return res + " de2=" + w;
    res += " de2=ok";
    if (trySerialize(C.get(), s3, w)) res += " ser3=ok:" + std::to_string(s3.size()) + ":" + fnvHex(s3.data(), s3.size()); else res += " ser3=" + w;
    A->lockPool(); B->lockPool(); C->lockPool();
    std::string dA = dumpPool(A.get()), dB = dumpPool(B.get()), dC = dumpPool(C.get());
    res += " dump=" + strFnv(dA) + "," + strFnv(dB) + "," + strFnv(dC) + ":" + std::to_string(std::count(dA.begin(), dA.end(), '\n'));
    res += std::string(" lock=") + (prelock ? "pre" : "post");
    for (auto& in : insts) {
        std::string va = validateAgainst(A.get(), srcs, in, verbose);     // original pool
        std::string vb = validateAgainst(B.get(), srcs, in, verbose);     // restored pool
        std::string vc = validateAgainst(C.get(), srcs, in, verbose);     // restored from the re-serialised stream
        res += " | " + esc(va) + " " + esc(vb) + " " + esc(vc);
    }
    if (verbose) res += " || " + esc(dA) + " || " + esc(dB) + " || " + esc(dC);
    return res;
}

// O g:<D|S>:<hex> m:<hex ascii marker>   byte offset(s) of the marker (as UTF-16LE) in the serialised stream of pool A
static std::string doO(const std::vector<std::string>& f) {
    std::vector<Src> srcs; std::string marker;
    for (size_t i = 1; i < f.size(); i++) {
        auto g = hx::split(f[i], ':');
        if (g[0] == "g" && g.size() == 3) { Src s; s.kind = g[1][0]; s.text = unhex(g[2]);
            s.sysid = "file:///hx/g" + std::to_string(srcs.size()) + (s.kind == 'D' ? ".dtd" : ".xsd"); srcs.push_back(s); }
        else if (g[0] == "m" && g.size() == 2) marker = unhex(g[1]);
        else return "bad-op";
    }
    XMLGrammarPoolImpl A(MM());
    { HxResolver r; r.srcs = &srcs; HxParser p(&A); configure(p, &r);
      for (auto& s : srcs) { MemBufInputSource is((const XMLByte*)s.text.data(), s.text.size(), s.sysid.c_str(), false, MM());
        try { p.loadGrammar(is, s.kind == 'D' ? Grammar::DTDGrammarType : Grammar::SchemaGrammarType, true); } catch (...) {} } }
    std::vector<XMLByte> s1; std::string w;
    if (!trySerialize(&A, s1, w)) return "ser " + w;
    std::string m16; for (char c : marker) { m16 += c; m16 += (char)0; }
    std::string hay((const char*)s1.data(), s1.size());
    std::string res = "ok " + std::to_string(s1.size());
    for (size_t pos = hay.find(m16); pos != std::string::npos; pos = hay.find(m16, pos + 1)) res += " " + std::to_string(pos);
    return res;
}

// H: a real serialised pool (tiny DTD) whose level field is overwritten
static std::string doH(unsigned storer, unsigned loader, bool locked) {
    if (loader != (unsigned)XERCES_GRAMMAR_SERIALIZATION_LEVEL) return "bad-op";
    std::vector<Src> srcs; Src s; s.kind = 'D'; s.text = "<!ELEMENT a EMPTY>"; s.sysid = "file:///hx/g0.dtd"; srcs.push_back(s);
    XMLGrammarPoolImpl A(MM());
    { HxResolver r; r.srcs = &srcs; HxParser p(&A); configure(p, &r);
      MemBufInputSource is((const XMLByte*)s.text.data(), s.text.size(), s.sysid.c_str(), false, MM());
      p.loadGrammar(is, Grammar::DTDGrammarType, true); }
    if (locked) A.lockPool();
    std::vector<XMLByte> s1; std::string w;
    if (!trySerialize(&A, s1, w)) return "ser " + w;
    s1[0] = storer & 255; s1[1] = (storer >> 8) & 255; s1[2] = (storer >> 16) & 255; s1[3] = (storer >> 24) & 255;
    XMLGrammarPoolImpl B(MM());
    if (!tryDeserialize(&B, s1, w)) {
        size_t k = w.find(':');
        return "exc " + (k == std::string::npos ? w : w.substr(k + 1));
    }
    // the lock flag as restored: a locked pool refuses to cache
    bool changed = false; (void)changed;
    return std::string("ok ") + (s1[4] ? "1" : "0");
}

int main(int, char**) {
    XMLPlatformUtils::Initialize();
    std::string line;
    while (std::getline(std::cin, line)) {
        if (line.empty()) continue;
        auto f = hx::split(line);
        std::string r;
        try {
            if (f[0] == "E" && f.size() >= 3) { size_t b = std::stoul(f[1]); r = b ? doE(b, f) : "bad-op"; }
            else if (f[0] == "G" && f.size() >= 3) { size_t b = std::stoul(f[1]); r = b ? doG(b, f) : "bad-op"; }
            else if (f[0] == "H" && f.size() == 4) r = doH((unsigned)std::stoul(f[1]), (unsigned)std::stoul(f[2]), f[3] == "1");
            else if (f[0] == "K") r = doK();
            else if (f[0] == "P") r = doP(f);
            else if (f[0] == "O") r = doO(f);
            else r = "bad-op";
        }
        catch (const OutOfMemoryException&) { r = "exc OutOfMemoryException"; }
        catch (const XMLException& e) { r = std::string("exc ") + serExcName(e); }
        catch (const DOMException&) { r = "exc DOMException"; }
        catch (const SAXException&) { r = "exc SAXException"; }
        catch (const std::exception& e) { r = std::string("bad-op ") + e.what(); }
        catch (...) { r = "FOREIGN-EXCEPTION"; }
        puts(r.c_str());
        fflush(stdout);
    }
    XMLPlatformUtils::Terminate();
    return 0;
}
