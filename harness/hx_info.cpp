// C03 harness: what the REAL parsers report for a document, as one canonical dump per configuration.
//   stdin lines:  <configs> <hex bytes of the document>
//       configs = comma list of  api/scanner/ns/opts
//           api     : sax1 (SAXParser: DocumentHandler + DTDHandler)          psax1 (same, parseFirst/parseNext loop)
//                     sax2 (SAX2XMLReader: Content+Lexical+Decl+DTD handler)  psax2
//                     dom  (XercesDOMParser, tree walk)                       pdom
//                     ls   (DOMLSParser, tree walk)
//           scanner : IG WF DG SG          ns : 0 1
//           opts    : e<0|1> create entity-reference nodes   w<0|1> include ignorable white space
//                     f<0..6> DOMLSParserFilter (ls only)     v<0|1> validation (Val_Always)
//                     s<0|1> schema processing on, with a cached (accept-anything) schema grammar for urn:u (not ls)
//   stdout: one line per input line:  cfg=<dump> TAB cfg=<dump> ...
//   dump tokens (space separated; text escaped as %hex; for everything outside 0x21..0x7E and for % : @ = ~):
//       F<code>                        first fatal error (XMLErrs code), parse results up to it follow
//       EXC:<type>                     exception that escaped the parse call
//       X:<version>:<encoding>:<standalone>                           (DOM: document properties)
//       DT:<name>:<pub>:<sys> ... /DT                                 (~ = null)
//       IE:<name>:<value>  XE:<name>:<pub>:<sys>  UE:<name>:<pub>:<sys>:<notation>  NT:<name>:<pub>:<sys>     (SAX)
//       DE:<name>:<pub>:<sys>:<notation>  DN:<name>:<pub>:<sys>       (DOM: entities / notations maps, sorted by name)
//       <name@line  @attr=value:type ...  >name   (SAX)                (attributes sorted by name)
//       <name  @attr=value:S|D ...  >name         (DOM: getSpecified; no type, no line)
//       T:<text>  W:<text>  [  ]  K:<text>@line  P:<target>:<data>@line  &name  ;name   ED (SAX: endDocument)
//   Adjacent character data is merged (a split of character data into several callbacks is not a difference).
// No external access (setLoadExternalDTD(false), setDisableDefaultEntityResolution(true)); MemBufInputSource.
#include "hx_common.hpp"
#include <algorithm>
#include <map>
#include <memory>
#include <xercesc/parsers/SAXParser.hpp>
#include <xercesc/parsers/SAX2XMLReaderImpl.hpp>
#include <xercesc/parsers/XercesDOMParser.hpp>
#include <xercesc/parsers/DOMLSParserImpl.hpp>
#include <xercesc/framework/MemBufInputSource.hpp>
#include <xercesc/framework/Wrapper4InputSource.hpp>
#include <xercesc/framework/XMLErrorCodes.hpp>
#include <xercesc/framework/XMLPScanToken.hpp>
#include <xercesc/sax/HandlerBase.hpp>
#include <xercesc/sax/AttributeList.hpp>
#include <xercesc/sax/Locator.hpp>
#include <xercesc/sax/SAXParseException.hpp>
#include <xercesc/sax/SAXException.hpp>
#include <xercesc/sax2/DefaultHandler.hpp>
#include <xercesc/sax2/Attributes.hpp>
#include <xercesc/dom/DOM.hpp>
#include <xercesc/dom/DOMLSException.hpp>
#include <xercesc/dom/DOMLSParserFilter.hpp>
#include <xercesc/util/XMLUni.hpp>
#include <xercesc/validators/common/Grammar.hpp>
#include <xercesc/util/OutOfMemoryException.hpp>

using namespace hx;

typedef std::vector<uint32_t> CPs;

static CPs cps(const XMLCh* s, XMLSize_t len) {
    CPs v;
    for (XMLSize_t i = 0; i < len; i++) {
        uint32_t c = s[i];
        if (c >= 0xD800 && c <= 0xDBFF && i + 1 < len && s[i + 1] >= 0xDC00 && s[i + 1] <= 0xDFFF) {
            c = 0x10000 + ((c - 0xD800) << 10) + (s[i + 1] - 0xDC00); i++;
        }
        v.push_back(c);
    }
    return v;
}
static CPs cps(const XMLCh* s) { return s ? cps(s, XMLString::stringLen(s)) : CPs(); }
static std::string esc(const CPs& v) {
    std::string r; char b[16];
    for (uint32_t c : v) {
        if (c >= 0x21 && c <= 0x7E && c != '%' && c != ':' && c != '@' && c != '=' && c != '~') r += (char)c;
        else { snprintf(b, sizeof b, "%%%x;", c); r += b; }
    }
    return r;
}
static std::string E(const XMLCh* s) { return s ? esc(cps(s)) : std::string("~"); }
static std::string E(const XMLCh* s, XMLSize_t n) { return esc(cps(s, n)); }

// ---------------------------------------------------------------------------------- errors
struct Errs {
    int fatals = 0; int firstFatal = -1;
    void reset() { fatals = 0; firstFatal = -1; }
};
static Errs gErr;

#define HOOK_ERROR(Base) \
    void error(const unsigned int errCode, const XMLCh* const msgDomain, const XMLErrorReporter::ErrTypes errType, \
               const XMLCh* const errorText, const XMLCh* const systemId, const XMLCh* const publicId, \
               const XMLFileLoc lineNum, const XMLFileLoc colNum) override { \
        if (errType == XMLErrorReporter::ErrType_Fatal) { if (!gErr.fatals) gErr.firstFatal = (int)errCode; gErr.fatals++; } \
        Base::error(errCode, msgDomain, errType, errorText, systemId, publicId, lineNum, colNum); }

struct MySAX : SAXParser { HOOK_ERROR(SAXParser) };
struct MySAX2 : SAX2XMLReaderImpl { HOOK_ERROR(SAX2XMLReaderImpl) };
struct MyDOM : XercesDOMParser { HOOK_ERROR(XercesDOMParser) };
struct MyLS : DOMLSParserImpl { HOOK_ERROR(DOMLSParserImpl) };

// ---------------------------------------------------------------------------------- dump builder
struct Dump {
    std::string out;
    std::basic_string<XMLCh> txt; int kind = 0;     // pending character data: 1 characters, 2 ignorable
    void flush() {
        if (kind && !txt.empty()) { out += (kind == 1 ? " T:" : " W:"); out += E(txt.data(), txt.size()); }
        txt.clear(); kind = 0;
    }
    void tok(const std::string& s) { flush(); out += ' '; out += s; }
    void text(const XMLCh* s, XMLSize_t n, int k) {
        if (!n) return;
        if (kind != k) flush();
        kind = k; txt.append(s, n);
    }
};

static std::string atLine(const Locator* l) { return l ? "@" + std::to_string((unsigned long long)l->getLineNumber()) : std::string("@?"); }

struct AttTok { CPs name; std::string tok; };
static void emitAtts(Dump& d, std::vector<AttTok>& v) {
    std::sort(v.begin(), v.end(), [](const AttTok& a, const AttTok& b) { return a.name < b.name; });
    for (auto& a : v) { d.out += ' '; d.out += a.tok; }
}

// ---------------------------------------------------------------------------------- SAX1
struct S1 : HandlerBase {
    Dump d; const Locator* loc = 0;
    void setDocumentLocator(const Locator* const l) override { loc = l; }
    void startDocument() override {}
    void endDocument() override { d.tok("ED"); }
    void startElement(const XMLCh* const name, AttributeList& a) override {
        d.tok("<" + E(name) + atLine(loc));
        std::vector<AttTok> v;
        for (XMLSize_t i = 0; i < a.getLength(); i++)
            v.push_back({cps(a.getName(i)), "@" + E(a.getName(i)) + "=" + E(a.getValue(i)) + ":" + E(a.getType(i))});
        emitAtts(d, v);
    }
    void endElement(const XMLCh* const name) override { d.tok(">" + E(name)); }
    void characters(const XMLCh* const s, const XMLSize_t n) override { d.text(s, n, 1); }
    void ignorableWhitespace(const XMLCh* const s, const XMLSize_t n) override { d.text(s, n, 2); }
    void processingInstruction(const XMLCh* const t, const XMLCh* const data) override { d.tok("P:" + E(t) + ":" + E(data) + atLine(loc)); }
    void notationDecl(const XMLCh* const n, const XMLCh* const p, const XMLCh* const s) override { d.tok("NT:" + E(n) + ":" + E(p) + ":" + E(s)); }
    void unparsedEntityDecl(const XMLCh* const n, const XMLCh* const p, const XMLCh* const s, const XMLCh* const nn) override {
        d.tok("UE:" + E(n) + ":" + E(p) + ":" + E(s) + ":" + E(nn)); }
    void fatalError(const SAXParseException&) override {}
    void error(const SAXParseException&) override {}
    void warning(const SAXParseException&) override {}
};

// ---------------------------------------------------------------------------------- SAX2
struct S2 : DefaultHandler {
    Dump d; const Locator* loc = 0;
    void setDocumentLocator(const Locator* const l) override { loc = l; }
    void startDocument() override {}
    void endDocument() override { d.tok("ED"); }
    void startElement(const XMLCh* const, const XMLCh* const, const XMLCh* const qn, const Attributes& a) override {
        d.tok("<" + E(qn) + atLine(loc));
        std::vector<AttTok> v;
        for (XMLSize_t i = 0; i < a.getLength(); i++)
            v.push_back({cps(a.getQName(i)), "@" + E(a.getQName(i)) + "=" + E(a.getValue(i)) + ":" + E(a.getType(i))});
        emitAtts(d, v);
    }
    void endElement(const XMLCh* const, const XMLCh* const, const XMLCh* const qn) override { d.tok(">" + E(qn)); }
    void characters(const XMLCh* const s, const XMLSize_t n) override { d.text(s, n, 1); }
    void ignorableWhitespace(const XMLCh* const s, const XMLSize_t n) override { d.text(s, n, 2); }
    void processingInstruction(const XMLCh* const t, const XMLCh* const data) override { d.tok("P:" + E(t) + ":" + E(data) + atLine(loc)); }
    void notationDecl(const XMLCh* const n, const XMLCh* const p, const XMLCh* const s) override { d.tok("NT:" + E(n) + ":" + E(p) + ":" + E(s)); }
    void unparsedEntityDecl(const XMLCh* const n, const XMLCh* const p, const XMLCh* const s, const XMLCh* const nn) override {
        d.tok("UE:" + E(n) + ":" + E(p) + ":" + E(s) + ":" + E(nn)); }
    // LexicalHandler
    void comment(const XMLCh* const s, const XMLSize_t n) override { d.tok("K:" + E(s, n) + atLine(loc)); }
    void startCDATA() override { d.tok("["); }
    void endCDATA() override { d.tok("]"); }
    void startDTD(const XMLCh* const n, const XMLCh* const p, const XMLCh* const s) override { d.tok("DT:" + E(n) + ":" + E(p) + ":" + E(s)); }
    void endDTD() override { d.tok("/DT"); }
    void startEntity(const XMLCh* const n) override { d.tok("&" + E(n)); }
    void endEntity(const XMLCh* const n) override { d.tok(";" + E(n)); }
    // DeclHandler
    void internalEntityDecl(const XMLCh* const n, const XMLCh* const v) override { d.tok("IE:" + E(n) + ":" + E(v)); }
    void externalEntityDecl(const XMLCh* const n, const XMLCh* const p, const XMLCh* const s) override { d.tok("XE:" + E(n) + ":" + E(p) + ":" + E(s)); }
    void elementDecl(const XMLCh* const, const XMLCh* const) override {}
    void attributeDecl(const XMLCh* const, const XMLCh* const, const XMLCh* const, const XMLCh* const, const XMLCh* const) override {}
    void fatalError(const SAXParseException&) override {}
    void error(const SAXParseException&) override {}
    void warning(const SAXParseException&) override {}
};

// ---------------------------------------------------------------------------------- DOM walk
static void walk(const DOMNode* n, Dump& d) {
    switch (n->getNodeType()) {
    case DOMNode::ELEMENT_NODE: {
        d.tok("<" + E(n->getNodeName()));
        DOMNamedNodeMap* m = n->getAttributes();
        std::vector<AttTok> v;
        for (XMLSize_t i = 0; m && i < m->getLength(); i++) {
            const DOMAttr* a = (const DOMAttr*)m->item(i);
            // the declared type is compared through the SAX interfaces; the DOM's TypeInfo is not part of the dump
            v.push_back({cps(a->getName()), "@" + E(a->getName()) + "=" + E(a->getValue()) + (a->getSpecified() ? ":S" : ":D")});
        }
        emitAtts(d, v);
        for (DOMNode* c = n->getFirstChild(); c; c = c->getNextSibling()) walk(c, d);
        d.tok(">" + E(n->getNodeName()));
        break;
    }
    case DOMNode::TEXT_NODE: {
        const DOMText* t = (const DOMText*)n;
        const XMLCh* s = t->getData();
        d.text(s, XMLString::stringLen(s), t->isIgnorableWhitespace() ? 2 : 1);
        break;
    }
    case DOMNode::CDATA_SECTION_NODE: {
        d.tok("[");
        const XMLCh* s = ((const DOMCharacterData*)n)->getData();
        d.text(s, XMLString::stringLen(s), 1);
        d.tok("]");
        break;
    }
    case DOMNode::COMMENT_NODE: d.tok("K:" + E(((const DOMCharacterData*)n)->getData())); break;
    case DOMNode::PROCESSING_INSTRUCTION_NODE: {
        const DOMProcessingInstruction* p = (const DOMProcessingInstruction*)n;
        d.tok("P:" + E(p->getTarget()) + ":" + E(p->getData()));
        break;
    }
    case DOMNode::ENTITY_REFERENCE_NODE:
        d.tok("&" + E(n->getNodeName()));
        for (DOMNode* c = n->getFirstChild(); c; c = c->getNextSibling()) walk(c, d);
        d.tok(";" + E(n->getNodeName()));
        break;
    case DOMNode::DOCUMENT_TYPE_NODE: {
        const DOMDocumentType* t = (const DOMDocumentType*)n;
        d.tok("DT:" + E(t->getName()) + ":" + E(t->getPublicId()) + ":" + E(t->getSystemId()));
        std::vector<AttTok> v;
        DOMNamedNodeMap* m = t->getEntities();
        for (XMLSize_t i = 0; m && i < m->getLength(); i++) {
            const DOMEntity* e = (const DOMEntity*)m->item(i);
            v.push_back({cps(e->getNodeName()), "DE:" + E(e->getNodeName()) + ":" + E(e->getPublicId()) + ":" + E(e->getSystemId()) + ":" + E(e->getNotationName())});
        }
        emitAtts(d, v);
        v.clear();
        m = t->getNotations();
        for (XMLSize_t i = 0; m && i < m->getLength(); i++) {
            const DOMNotation* e = (const DOMNotation*)m->item(i);
            v.push_back({cps(e->getNodeName()), "DN:" + E(e->getNodeName()) + ":" + E(e->getPublicId()) + ":" + E(e->getSystemId())});
        }
        emitAtts(d, v);
        d.tok("/DT");
        break;
    }
    default:
        d.tok("?" + std::to_string((int)n->getNodeType()));
    }
}

static std::string dumpDoc(const DOMDocument* doc) {
    Dump d;
    if (!doc) return " NODOC";
    const XMLCh* enc = doc->getXmlEncoding();        // "not specified" is reported as the empty string: printed like null
    const XMLCh* ver = doc->getXmlVersion();        // no XML declaration: null, printed as the default 1.0
    d.tok("X:" + (ver ? E(ver) : std::string("1.0")) + ":" + E(enc && *enc ? enc : 0) + ":" + (doc->getXmlStandalone() ? "1" : "0"));
    for (DOMNode* c = doc->getFirstChild(); c; c = c->getNextSibling()) walk(c, d);
    d.flush();
    return d.out;
}

// ---------------------------------------------------------------------------------- DOMLSParser filters
static bool startsWithB(const DOMNode* n) { const XMLCh* s = n->getNodeName(); return s && s[0] == 'b'; }
struct Filt : DOMLSParserFilter {
    int id;
    explicit Filt(int i) : id(i) {}
    // the document element itself is never rejected or skipped (that would not leave a document)
    static bool isRoot(const DOMNode* n) { const DOMNode* p = n->getParentNode(); return n->getNodeType() == DOMNode::ELEMENT_NODE && (!p || p->getNodeType() == DOMNode::DOCUMENT_NODE); }
    FilterAction acceptNode(DOMNode* n) override {
        if (isRoot(n)) return FILTER_ACCEPT;
        switch (id) {
        case 1: return n->getNodeType() == DOMNode::ELEMENT_NODE && startsWithB(n) ? FILTER_REJECT : FILTER_ACCEPT;
        case 2: return n->getNodeType() == DOMNode::ELEMENT_NODE && startsWithB(n) ? FILTER_SKIP : FILTER_ACCEPT;
        case 3: {
            DOMNode::NodeType t = n->getNodeType();
            return (t == DOMNode::COMMENT_NODE || t == DOMNode::PROCESSING_INSTRUCTION_NODE || t == DOMNode::CDATA_SECTION_NODE) ? FILTER_REJECT : FILTER_ACCEPT;
        }
        case 4: return n->getNodeType() == DOMNode::TEXT_NODE ? FILTER_REJECT : FILTER_ACCEPT;
        default: return FILTER_ACCEPT;
        }
    }
    FilterAction startElement(DOMElement* e) override {
        if (isRoot(e)) return FILTER_ACCEPT;
        if (id == 5 && startsWithB(e)) return FILTER_REJECT;
        if (id == 6 && startsWithB(e)) return FILTER_SKIP;
        return FILTER_ACCEPT;
    }
    DOMNodeFilter::ShowType getWhatToShow() const override {
        switch (id) {
        case 1: case 2: case 5: case 6: return DOMNodeFilter::SHOW_ELEMENT;
        case 3: return DOMNodeFilter::SHOW_COMMENT | DOMNodeFilter::SHOW_PROCESSING_INSTRUCTION | DOMNodeFilter::SHOW_CDATA_SECTION;
        case 4: return DOMNodeFilter::SHOW_TEXT;
        default: return DOMNodeFilter::SHOW_ALL;
        }
    }
};

// ---------------------------------------------------------------------------------- configurations
static const XMLCh* scannerName(const std::string& s) {
    if (s == "IG") return XMLUni::fgIGXMLScanner;
    if (s == "WF") return XMLUni::fgWFXMLScanner;
    if (s == "DG") return XMLUni::fgDGXMLScanner;
    if (s == "SG") return XMLUni::fgSGXMLScanner;
    return 0;
}

struct LsErr : DOMErrorHandler { bool handleError(const DOMError&) override { return true; } };

// s1: schema processing on (validation off) with a cached schema grammar for the namespace urn:u, so that the scanner
// works on a schema grammar (element declarations pooled by expanded name); the schema accepts anything
static const char* kSchema =
    "<xs:schema xmlns:xs='http://www.w3.org/2001/XMLSchema' targetNamespace='urn:u' elementFormDefault='qualified'>"
    "<xs:complexType name='any' mixed='true'><xs:sequence><xs:any processContents='lax' minOccurs='0' maxOccurs='unbounded'/></xs:sequence>"
    "<xs:anyAttribute processContents='lax'/></xs:complexType>"
    "<xs:element name='x' type='any'/><xs:element name='y' type='any'/></xs:schema>";

struct Config {
    std::string api, scanner; bool ns = false; int e = 1, w = 1, f = 0, v = 0, sc = 0;
    std::unique_ptr<MySAX> sax; std::unique_ptr<MySAX2> sax2; std::unique_ptr<MyDOM> dom; std::unique_ptr<MyLS> ls;
    std::unique_ptr<Filt> filt; LsErr lh; HandlerBase dummy;
    struct Quiet : HandlerBase { void fatalError(const SAXParseException&) override {} void error(const SAXParseException&) override {} void warning(const SAXParseException&) override {} } quiet;
    bool build() {
        const XMLCh* sn = scannerName(scanner);
        if (!sn) return false;
        if (api == "sax1" || api == "psax1") {
            sax.reset(new MySAX());
            sax->useScanner(sn);
            sax->setValidationScheme(v ? SAXParser::Val_Always : SAXParser::Val_Never);
            sax->setDoNamespaces(ns);
            sax->setDoSchema(sc != 0);
            sax->setLoadExternalDTD(false);
            sax->setDisableDefaultEntityResolution(true);
            if (sc) { MemBufInputSource g((const XMLByte*)kSchema, strlen(kSchema), "hx-schema", false); sax->loadGrammar(g, Grammar::SchemaGrammarType, true); sax->useCachedGrammarInParse(true); }
        } else if (api == "sax2" || api == "psax2") {
            sax2.reset(new MySAX2());
            sax2->setProperty(XMLUni::fgXercesScannerName, (void*)sn);
            sax2->setFeature(XMLUni::fgSAX2CoreValidation, v != 0);
            sax2->setFeature(XMLUni::fgXercesDynamic, false);
            sax2->setFeature(XMLUni::fgSAX2CoreNameSpaces, ns);
            sax2->setFeature(XMLUni::fgSAX2CoreNameSpacePrefixes, true);
            sax2->setFeature(XMLUni::fgXercesSchema, sc != 0);
            sax2->setFeature(XMLUni::fgXercesLoadExternalDTD, false);
            sax2->setFeature(XMLUni::fgXercesDisableDefaultEntityResolution, true);
            if (sc) { MemBufInputSource g((const XMLByte*)kSchema, strlen(kSchema), "hx-schema", false); sax2->loadGrammar(g, Grammar::SchemaGrammarType, true); sax2->setFeature(XMLUni::fgXercesUseCachedGrammarInParse, true); }
        } else if (api == "dom" || api == "pdom") {
            dom.reset(new MyDOM());
            dom->useScanner(sn);
            dom->setValidationScheme(v ? XercesDOMParser::Val_Always : XercesDOMParser::Val_Never);
            dom->setDoNamespaces(ns);
            dom->setDoSchema(sc != 0);
            dom->setLoadExternalDTD(false);
            dom->setDisableDefaultEntityResolution(true);
            dom->setCreateEntityReferenceNodes(e != 0);
            dom->setIncludeIgnorableWhitespace(w != 0);
            dom->setCreateCommentNodes(true);
            dom->setErrorHandler(&quiet);
            if (sc) { MemBufInputSource g((const XMLByte*)kSchema, strlen(kSchema), "hx-schema", false); dom->loadGrammar(g, Grammar::SchemaGrammarType, true); dom->useCachedGrammarInParse(true); }
        } else if (api == "ls") {
            ls.reset(new MyLS());
            DOMConfiguration* c = ls->getDomConfig();
            c->setParameter(XMLUni::fgXercesScannerName, (void*)sn);
            c->setParameter(XMLUni::fgDOMValidate, v != 0);
            c->setParameter(XMLUni::fgDOMNamespaces, ns);
            c->setParameter(XMLUni::fgXercesSchema, false);
            c->setParameter(XMLUni::fgXercesLoadExternalDTD, false);
            c->setParameter(XMLUni::fgXercesDisableDefaultEntityResolution, true);
            c->setParameter(XMLUni::fgDOMEntities, e != 0);
            c->setParameter(XMLUni::fgDOMElementContentWhitespace, w != 0);
            c->setParameter(XMLUni::fgDOMComments, true);
            c->setParameter(XMLUni::fgDOMErrorHandler, (void*)&lh);
            if (f) { filt.reset(new Filt(f)); ls->setFilter(filt.get()); }
        } else return false;
        return true;
    }
    std::string run(const std::vector<XMLByte>& bytes) {
        gErr.reset();
        static const XMLByte empty[1] = {0};
        MemBufInputSource src(bytes.empty() ? empty : bytes.data(), bytes.size(), "hx", false);
        std::string exc, body;
        S1 h1; S2 h2;
        try {
            if (sax) {
                sax->setDocumentHandler(&h1); sax->setDTDHandler(&h1); sax->setErrorHandler(&h1);
                try {
                    if (api == "sax1") sax->parse(src);
                    else {
                        XMLPScanToken tok;
                        if (sax->parseFirst(src, tok)) while (sax->parseNext(tok)) {}
                        sax->parseReset(tok);
                    }
                } catch (...) { h1.d.flush(); body = h1.d.out; sax->setDocumentHandler(0); sax->setDTDHandler(0); throw; }
                h1.d.flush(); body = h1.d.out;
                sax->setDocumentHandler(0); sax->setDTDHandler(0);
            } else if (sax2) {
                sax2->setContentHandler(&h2); sax2->setDTDHandler(&h2); sax2->setLexicalHandler(&h2); sax2->setDeclarationHandler(&h2);
                sax2->setErrorHandler(&h2);
                try {
                    if (api == "sax2") sax2->parse(src);
                    else {
                        XMLPScanToken tok;
                        if (sax2->parseFirst(src, tok)) while (sax2->parseNext(tok)) {}
                        sax2->parseReset(tok);
                    }
                } catch (...) { h2.d.flush(); body = h2.d.out; sax2->setContentHandler(0); sax2->setDTDHandler(0); sax2->setLexicalHandler(0); sax2->setDeclarationHandler(0); throw; }
                h2.d.flush(); body = h2.d.out;
                sax2->setContentHandler(0); sax2->setDTDHandler(0); sax2->setLexicalHandler(0); sax2->setDeclarationHandler(0);
            } else if (dom) {
                if (api == "dom") dom->parse(src);
                else {
                    XMLPScanToken tok;
                    if (dom->parseFirst(src, tok)) while (dom->parseNext(tok)) {}
                    body = dumpDoc(dom->getDocument());
                    dom->parseReset(tok);
                }
                if (api == "dom") body = dumpDoc(dom->getDocument());
                dom->resetDocumentPool();
            } else {
                Wrapper4InputSource w4(&src, false);
                DOMDocument* doc = ls->parse(&w4);
                body = dumpDoc(doc);
                ls->resetDocumentPool();
            }
        }
        catch (const OutOfMemoryException&) { exc = "OutOfMemoryException"; }
        catch (const XMLException& e) { exc = "XMLException-" + narrow(e.getType()); }
        catch (const SAXParseException&) { exc = "SAXParseException"; }
        catch (const SAXException&) { exc = "SAXException"; }
        catch (const DOMLSException& e) { exc = "DOMLSException-" + std::to_string((int)e.code); }
        catch (const DOMException& e) { exc = "DOMException-" + std::to_string((int)e.code); }
        catch (...) { exc = "FOREIGN-EXCEPTION"; }
        std::string o;
        if (gErr.fatals) o += " F" + std::to_string(gErr.firstFatal);
        if (!exc.empty()) o += " EXC:" + exc;
        o += body;
        return o.empty() ? std::string(" ") : o;
    }
};

static std::map<std::string, std::unique_ptr<Config>> gConfigs;

static Config* getConfig(const std::string& name) {
    auto it = gConfigs.find(name);
    if (it != gConfigs.end()) return it->second.get();
    auto f = hx::split(name, '/');
    if (f.size() < 3 || f.size() > 4 || (f[2] != "0" && f[2] != "1")) return 0;
    std::unique_ptr<Config> c(new Config());
    c->api = f[0]; c->scanner = f[1]; c->ns = f[2] == "1";
    if (f.size() == 4) {
        const std::string& o = f[3];
        if (o.size() % 2) return 0;
        for (size_t i = 0; i + 1 < o.size(); i += 2) {
            int dgt = o[i + 1] - '0';
            if (dgt < 0 || dgt > 9) return 0;
            switch (o[i]) { case 'e': c->e = dgt; break; case 'w': c->w = dgt; break; case 'f': c->f = dgt; break; case 'v': c->v = dgt; break; case 's': c->sc = dgt; break; default: return 0; }
        }
    }
    if (!c->build()) return 0;
    Config* p = c.get();
    gConfigs[name] = std::move(c);
    return p;
}

int main(int, char**) {
    XMLPlatformUtils::Initialize();
    {
        std::string line;
        while (std::getline(std::cin, line)) {
            if (line.empty()) continue;
            auto f = hx::split(line);
            if (f.size() != 2) { puts("bad-op"); fflush(stdout); continue; }
            auto v = hx::parseHexList(f[1]);
            std::vector<XMLByte> bytes(v.begin(), v.end());
            std::string out;
            bool bad = false;
            for (auto& cn : hx::split(f[0], ',')) {
                Config* c = getConfig(cn);
                if (!c) { bad = true; break; }
                if (!out.empty()) out += "\t";
                out += cn + "=" + c->run(bytes);
            }
            puts(bad ? "bad-op" : out.c_str());
            fflush(stdout);
        }
        gConfigs.clear();
    }
    XMLPlatformUtils::Terminate();
    return 0;
}
