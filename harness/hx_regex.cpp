// C11 harness: (1) RangeToken operation histories on real tokens (via TokenFactory), dumping fRanges;
// (2) RegularExpression::matches on (pattern, string) pairs; (3) ranges of shorthand/category tokens.
//   H <ops> | <queries>      ops: a,k,s,e  m,k,j  s,k,j  i,k,j  c,k,j  n,k   (hex ints, k,j in 0..3)
//   M <hex pattern units> <hex string code points> [options]
//   R <hex pattern units>    -> ranges of the single character-class token the pattern parses to
#include <cstdio>
#include <string>
#include <vector>
#define private public
#define protected public
#include <xercesc/util/regx/RangeToken.hpp>
#include <xercesc/util/regx/RegularExpression.hpp>
#undef private
#undef protected
#include "hx_common.hpp"
#include <xercesc/util/regx/TokenFactory.hpp>
#include <xercesc/util/regx/RegxParser.hpp>
#include <xercesc/util/regx/ParserForXMLSchema.hpp>
#include <xercesc/util/regx/Match.hpp>
#include <xercesc/util/ParseException.hpp>
#include <xercesc/util/RuntimeException.hpp>
#include <xercesc/util/OutOfMemoryException.hpp>

static std::string showInt(long v) { char b[32]; if (v < 0) snprintf(b, sizeof b, "-%lx", -v); else snprintf(b, sizeof b, "%lx", v); return b; }
static long parseInt(const std::string& s) { if (!s.empty() && s[0] == '-') return -std::stol(s.substr(1), 0, 16); return std::stol(s, 0, 16); }

static std::string dumpTok(RangeToken* t) {
    if (!t->fRanges || t->fElemCount == 0) return "-";
    std::string r;
    for (unsigned i = 0; i + 1 < t->fElemCount; i += 2) {
        if (i) r += ",";
        r += showInt(t->fRanges[i]) + "-" + showInt(t->fRanges[i + 1]);
    }
    return r;
}

static std::string doHist(const std::string& line) {
    size_t bar = line.find(" | ");
    if (bar == std::string::npos) return "bad-op";
    auto head = hx::split(line.substr(0, bar));
    if (head.size() != 2) return "bad-op";
    std::vector<long> qs;
    for (auto& q : hx::split(line.substr(bar + 3))) if (!q.empty()) qs.push_back(parseInt(q));
    TokenFactory fac;
    RangeToken* t[4];
    for (int k = 0; k < 4; k++) t[k] = fac.createRange();
    try {
        for (auto& op : hx::split(head[1], ';')) {
            auto f = hx::split(op, ',');
            if (f[0] == "a" && f.size() == 4) t[std::stoi(f[1])]->addRange((XMLInt32)parseInt(f[2]), (XMLInt32)parseInt(f[3]));
            else if (f[0] == "m" && f.size() == 3) t[std::stoi(f[1])]->mergeRanges(t[std::stoi(f[2])]);
            else if (f[0] == "s" && f.size() == 3) t[std::stoi(f[1])]->subtractRanges(t[std::stoi(f[2])]);
            else if (f[0] == "i" && f.size() == 3) t[std::stoi(f[1])]->intersectRanges(t[std::stoi(f[2])]);
            else if (f[0] == "c" && f.size() == 3) t[std::stoi(f[1])] = RangeToken::complementRanges(t[std::stoi(f[2])], &fac, XMLPlatformUtils::fgMemoryManager);
            else if (f[0] == "n" && f.size() == 2) { t[std::stoi(f[1])]->sortRanges(); t[std::stoi(f[1])]->compactRanges(); }
            else return "bad-op";
        }
    } catch (const XMLException& e) {
        return std::string("exc ") + hx::narrow(e.getType());
    }
    std::string out, ms;
    for (int k = 0; k < 4; k++) { if (k) out += " "; out += dumpTok(t[k]); }
    for (int k = 0; k < 4; k++) {
        if (k) ms += " ";
        for (long q : qs) ms += t[k]->match((XMLInt32)q) ? '1' : '0';
    }
    return out + " | " + ms;
}

static std::vector<XMLCh> toUnits(const std::vector<uint32_t>& cps) {
    std::vector<XMLCh> u;
    for (uint32_t c : cps) {
        if (c >= 0x10000) { c -= 0x10000; u.push_back((XMLCh)(0xD800 + (c >> 10))); u.push_back((XMLCh)(0xDC00 + (c & 1023))); }
        else u.push_back((XMLCh)c);
    }
    u.push_back(0);
    return u;
}

static std::string doMatch(const std::vector<std::string>& f) {
    auto pat = toUnits(hx::parseHexList(f[1]));
    auto str = toUnits(hx::parseHexList(f[2]));
    std::string opts = f.size() > 3 ? f[3] : "X";
    if (opts == "-") opts = "";
    std::vector<XMLCh> o(opts.begin(), opts.end()); o.push_back(0);
    try {
        RegularExpression re(pat.data(), o.data());
        bool a = re.matches(str.data());
        bool b = re.matches(str.data());       // second use of the compiled expression must agree
        if (a != b) return "UNSTABLE";
        return a ? "1" : "0";
    } catch (const ParseException&) { return "exc ParseException";
    } catch (const OutOfMemoryException&) { return "exc OutOfMemory";
    } catch (const XMLException& e) { return std::string("exc ") + hx::narrow(e.getType()); }
}

static std::string doRanges(const std::vector<std::string>& f) {
    auto pat = toUnits(hx::parseHexList(f[1]));
    try {
        TokenFactory fac;
        ParserForXMLSchema p;
        p.setTokenFactory(&fac);
        Token* tok = p.parse(pat.data(), RegularExpression::XMLSCHEMA_MODE);
        if (!tok) return "none";
        if (tok->getTokenType() != Token::T_RANGE && tok->getTokenType() != Token::T_NRANGE) return "not-a-range";
        RangeToken* r = (RangeToken*)tok;
        return std::string(tok->getTokenType() == Token::T_NRANGE ? "N " : "R ") + dumpTok(r);
    } catch (const XMLException& e) { return std::string("exc ") + hx::narrow(e.getType()); }
}

int main() {
    XMLPlatformUtils::Initialize();
    std::string line;
    while (std::getline(std::cin, line)) {
        if (line.empty()) continue;
        std::string out;
        try {
            auto f = hx::split(line);
            if (f[0] == "H") out = doHist(line);
            else if (f[0] == "M" && f.size() >= 3) out = doMatch(f);
            else if (f[0] == "R" && f.size() == 2) out = doRanges(f);
            else out = "bad-op";
        } catch (...) { out = "FOREIGN-EXCEPTION"; }
        puts(out.c_str());
    }
    XMLPlatformUtils::Terminate();
    return 0;
}
