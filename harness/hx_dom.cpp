// C13 harness: executes DOM Core operation histories on the REAL xerces-c DOM and, after every operation,
// prints the result (or the DOMException code name) followed by a structural dump of every live handle computed
// through public getters only.  Protocol: see lean/XV/Driver/Dom.lean (same lines in, same lines out).
//   hx_dom [full]      digest mode (default): "<result> <fnv64 of dump>" ; full mode: "<result> | <dump>"
// Handles are small integers assigned in creation order (documents first).  Nodes created inside an operation
// (clone/import subtrees, the Attr + Text of setAttribute, the Text of setValue, splitText's node) get handles in
// the order documented in XV/Model/Dom.lean.  Nodes released by the library (old attribute values, removed
// attributes) lose their handle ("dead").
// Safety: every walk is bounded; once the structure is seen to be cyclic/inconsistent the rest of the history is
// answered with "abandoned"; a per-operation CPU-time watchdog (SIGPROF, HX_DOM_WATCHDOG_MS) turns a hang into a "HANG" line and exit code 3.
#include "hx_common.hpp"
#include <xercesc/dom/DOM.hpp>
#include <xercesc/util/OutOfMemoryException.hpp>
#include <xercesc/parsers/XercesDOMParser.hpp>
#include <xercesc/framework/MemBufInputSource.hpp>
#include <unistd.h>
#include <csignal>
#include <sys/time.h>
#include <algorithm>
#include <unordered_map>

static DOMImplementation* gImpl = 0;
static std::vector<DOMNode*> H;
static std::vector<char> alive;
static std::unordered_map<const DOMNode*, int> rev;
static std::vector<DOMDocument*> docs;
static bool corrupted = false;
static bool fullMode = false;

static void onAlarm(int) {
    fputs("HANG\n", stdout);
    fflush(stdout);
    _exit(3);
}

static int newHandle(DOMNode* n) {
    H.push_back(n); alive.push_back(1);
    rev[n] = (int)H.size() - 1;
    return (int)H.size() - 1;
}
static void kill(int h) {
    if (h < 0 || h >= (int)H.size() || !alive[h]) return;
    alive[h] = 0;
    auto it = rev.find(H[h]);
    if (it != rev.end() && it->second == h) rev.erase(it);
}
static std::string hOf(const DOMNode* n) {
    if (!n) return "-";
    auto it = rev.find(n);
    if (it == rev.end()) return "?";
    return std::to_string(it->second);
}
static int hIdx(const DOMNode* n) {
    auto it = rev.find(n);
    return it == rev.end() ? -1 : it->second;
}
static std::string hexStr(const XMLCh* s) {
    if (!s) return "~";
    if (!*s) return "-";
    std::string r; char b[16]; bool first = true;
    for (; *s; ++s) { snprintf(b, sizeof b, first ? "%x" : ".%x", (unsigned)*s); r += b; first = false; }
    return r;
}
static std::vector<XMLCh> toX(const std::string& hex) {
    std::vector<uint32_t> v = hx::parseHexList(hex);
    std::vector<XMLCh> r;
    for (uint32_t u : v) r.push_back((XMLCh)u);
    r.push_back(0);
    return r;
}
static std::string joinH(const std::vector<std::string>& v) {
    if (v.empty()) return "-";
    std::string r;
    for (size_t i = 0; i < v.size(); i++) { if (i) r += ","; r += v[i]; }
    return r;
}

static const char* excName(int code) {
    switch (code) {
        case DOMException::INDEX_SIZE_ERR: return "INDEX_SIZE_ERR";
        case DOMException::DOMSTRING_SIZE_ERR: return "DOMSTRING_SIZE_ERR";
        case DOMException::HIERARCHY_REQUEST_ERR: return "HIERARCHY_REQUEST_ERR";
        case DOMException::WRONG_DOCUMENT_ERR: return "WRONG_DOCUMENT_ERR";
        case DOMException::INVALID_CHARACTER_ERR: return "INVALID_CHARACTER_ERR";
        case DOMException::NO_DATA_ALLOWED_ERR: return "NO_DATA_ALLOWED_ERR";
        case DOMException::NO_MODIFICATION_ALLOWED_ERR: return "NO_MODIFICATION_ALLOWED_ERR";
        case DOMException::NOT_FOUND_ERR: return "NOT_FOUND_ERR";
        case DOMException::NOT_SUPPORTED_ERR: return "NOT_SUPPORTED_ERR";
        case DOMException::INUSE_ATTRIBUTE_ERR: return "INUSE_ATTRIBUTE_ERR";
        case DOMException::INVALID_STATE_ERR: return "INVALID_STATE_ERR";
        case DOMException::SYNTAX_ERR: return "SYNTAX_ERR";
        case DOMException::INVALID_MODIFICATION_ERR: return "INVALID_MODIFICATION_ERR";
        case DOMException::NAMESPACE_ERR: return "NAMESPACE_ERR";
        case DOMException::INVALID_ACCESS_ERR: return "INVALID_ACCESS_ERR";
        case DOMException::VALIDATION_ERR: return "VALIDATION_ERR";
        case DOMException::TYPE_MISMATCH_ERR: return "TYPE_MISMATCH_ERR";
        default: return "UNKNOWN_DOM_CODE";
    }
}

// ---------------------------------------------------------------- dump (public getters only, bounded walks)
static std::string entry(int h) {
    DOMNode* n = H[h];
    size_t LIMIT = H.size() + 4;
    int ty = (int)n->getNodeType();
    const XMLCh* nm = n->getNodeName();
    std::string s = std::to_string(h) + ":" + std::to_string(ty) + ":";
    s += (nm && nm[0] == chPound) ? std::string("#") : hexStr(nm);
    s += ":" + hexStr(n->getNodeValue());
    DOMNode* par = n->getParentNode();
    s += ":" + hOf(par);
    // ancestor chain must terminate
    { size_t k = 0; for (DOMNode* a = par; a; a = a->getParentNode()) if (++k > LIMIT) { corrupted = true; break; } }
    // children three ways
    std::vector<std::string> fwd, bwd, lst;
    bool loop = false;
    { size_t k = 0; for (DOMNode* c = n->getFirstChild(); c; c = c->getNextSibling()) { if (++k > LIMIT) { loop = true; break; } fwd.push_back(hOf(c)); } }
    if (!loop) { size_t k = 0; for (DOMNode* c = n->getLastChild(); c; c = c->getPreviousSibling()) { if (++k > LIMIT) { loop = true; break; } bwd.push_back(hOf(c)); } std::reverse(bwd.begin(), bwd.end()); }
    if (!loop) { DOMNodeList* l = n->getChildNodes(); XMLSize_t len = l ? l->getLength() : 0; for (XMLSize_t i = 0; i < len && i <= LIMIT; i++) lst.push_back(hOf(l->item(i))); }
    if (loop) { s += ":!loop"; corrupted = true; }
    else if (fwd == bwd && fwd == lst) s += ":" + joinH(fwd);
    else { s += ":!f=" + joinH(fwd) + "|b=" + joinH(bwd) + "|l=" + joinH(lst); corrupted = true; }
    // attributes in map order
    DOMNamedNodeMap* am = n->getAttributes();
    std::vector<std::string> as;
    if (am) for (XMLSize_t i = 0; i < am->getLength(); i++) as.push_back(hOf(am->item(i)));
    s += ":" + joinH(as);
    s += ":" + hOf(n->getOwnerDocument());
    s += ":" + (ty == DOMNode::ATTRIBUTE_NODE ? hOf(static_cast<DOMAttr*>(n)->getOwnerElement()) : std::string("-"));
    if (ty == DOMNode::DOCUMENT_NODE) s += ":de=" + hOf(static_cast<DOMDocument*>(n)->getDocumentElement());
    return s;
}
static std::string dump() {
    std::string s; bool first = true;
    for (size_t h = 0; h < H.size(); h++) {
        if (!alive[h]) continue;
        if (!first) s += ";";
        s += entry((int)h); first = false;
    }
    return s;
}
static void emit(const std::string& res) {
    std::string d = dump();
    if (fullMode) printf("%s | %s\n", res.c_str(), d.c_str());
    else { hx::Fnv f; f.add(d); printf("%s %llx\n", res.c_str(), (unsigned long long)f.h); }
}

// ---------------------------------------------------------------- helpers for operations
static bool live(long h) { return h >= 0 && h < (long)H.size() && alive[h]; }
static bool isType(int h, int t) { return (int)H[h]->getNodeType() == t; }
static bool isCharData(int h) { int t = H[h]->getNodeType(); return t == DOMNode::TEXT_NODE || t == DOMNode::CDATA_SECTION_NODE || t == DOMNode::COMMENT_NODE; }
static std::string okNode(const DOMNode* n) { return n ? "ok n" + hOf(n) : std::string("ok -"); }

// pair the nodes of a copy with the originals (same shape), to number the copies in the order of the originals
static void pairUp(DOMNode* o, DOMNode* c, std::vector<std::pair<int, DOMNode*> >& out, int depth) {
    if (!o || !c || depth > 4000) return;
    out.push_back(std::make_pair(hIdx(o), c));
    DOMNamedNodeMap* oa = o->getAttributes(); DOMNamedNodeMap* ca = c->getAttributes();
    if (oa && ca) {
        // attributes are matched by name (both maps are sorted by name; an import may skip none here)
        for (XMLSize_t i = 0; i < ca->getLength(); i++) {
            DOMNode* cattr = ca->item(i);
            DOMNode* oattr = oa->getNamedItem(cattr->getNodeName());
            if (oattr) pairUp(oattr, cattr, out, depth + 1);
            else out.push_back(std::make_pair(1 << 30, cattr));
        }
    }
    DOMNode* ok = o->getFirstChild(); DOMNode* ck = c->getFirstChild();
    while (ok && ck) { pairUp(ok, ck, out, depth + 1); ok = ok->getNextSibling(); ck = ck->getNextSibling(); }
}
static void numberCopy(DOMNode* orig, DOMNode* copy) {
    std::vector<std::pair<int, DOMNode*> > ps;
    pairUp(orig, copy, ps, 0);
    std::stable_sort(ps.begin(), ps.end(), [](const std::pair<int, DOMNode*>& a, const std::pair<int, DOMNode*>& b) { return a.first < b.first; });
    for (auto& p : ps) newHandle(p.second);
}
static void collectKids(DOMNode* n, std::vector<int>& out) {
    size_t k = 0;
    for (DOMNode* c = n->getFirstChild(); c && k < H.size() + 4; c = c->getNextSibling(), k++) { int h = hIdx(c); if (h >= 0) out.push_back(h); }
}

// handles for a whole subtree in document order: node, its attributes (each followed by its children), its children
static void assignSubtree(DOMNode* n, int depth = 0) {
    if (!n || depth > 4000) return;
    if (hIdx(n) < 0) newHandle(n);
    DOMNamedNodeMap* am = n->getAttributes();
    if (am) for (XMLSize_t i = 0; i < am->getLength(); i++) assignSubtree(am->item(i), depth + 1);
    size_t k = 0;
    for (DOMNode* c = n->getFirstChild(); c && k < 100000; c = c->getNextSibling(), k++) assignSubtree(c, depth + 1);
}

static std::string doOp(const std::vector<std::string>& f) {
    const std::string& op = f[0];
    auto num = [&](size_t i) -> long { if (i >= f.size()) return -1; char* e = 0; long v = strtol(f[i].c_str(), &e, 10); return (*e || f[i].empty()) ? -1 : v; };
    auto unum = [&](size_t i) -> XMLSize_t { return (XMLSize_t)strtoull(f[i].c_str(), 0, 10); };
    size_t n = f.size();
    // ---- creation
    if ((op == "ce" || op == "ct" || op == "cc" || op == "cd" || op == "ca" || op == "cr") && n == 3) {
        long d = num(1); if (!live(d)) return "dead";
        if (!isType(d, DOMNode::DOCUMENT_NODE)) return "mismatch";
        DOMDocument* doc = static_cast<DOMDocument*>(H[d]); std::vector<XMLCh> x = toX(f[2]);
        DOMNode* r = 0;
        if (op == "ce") r = doc->createElement(x.data());
        else if (op == "ct") r = doc->createTextNode(x.data());
        else if (op == "cc") r = doc->createComment(x.data());
        else if (op == "cd") r = doc->createCDATASection(x.data());
        else if (op == "ca") r = doc->createAttribute(x.data());
        else r = doc->createEntityReference(x.data());
        if (op == "cr") assignSubtree(r);     // an entity declared in the doctype brings its (read-only) expansion along
        else newHandle(r);
        return okNode(r);
    }
    if (op == "cp" && n == 4) {
        long d = num(1); if (!live(d)) return "dead";
        if (!isType(d, DOMNode::DOCUMENT_NODE)) return "mismatch";
        std::vector<XMLCh> t = toX(f[2]), x = toX(f[3]);
        DOMNode* r = static_cast<DOMDocument*>(H[d])->createProcessingInstruction(t.data(), x.data());
        newHandle(r); return okNode(r);
    }
    if (op == "cf" && n == 2) {
        long d = num(1); if (!live(d)) return "dead";
        if (!isType(d, DOMNode::DOCUMENT_NODE)) return "mismatch";
        DOMNode* r = static_cast<DOMDocument*>(H[d])->createDocumentFragment();
        newHandle(r); return okNode(r);
    }
    // ---- tree surgery
    if (op == "ap" && n == 3) {
        long p = num(1), c = num(2); if (!live(p) || !live(c)) return "dead";
        return okNode(H[p]->appendChild(H[c]));
    }
    if (op == "ib" && n == 4) {
        long p = num(1), c = num(2); if (!live(p) || !live(c)) return "dead";
        DOMNode* ref = 0;
        if (f[3] != "-") { long r = num(3); if (!live(r)) return "dead"; ref = H[r]; }
        return okNode(H[p]->insertBefore(H[c], ref));
    }
    if (op == "rm" && n == 3) {
        long p = num(1), c = num(2); if (!live(p) || !live(c)) return "dead";
        return okNode(H[p]->removeChild(H[c]));
    }
    if (op == "rp" && n == 4) {
        long p = num(1), c = num(2), o = num(3); if (!live(p) || !live(c) || !live(o)) return "dead";
        return okNode(H[p]->replaceChild(H[c], H[o]));
    }
    // ---- attributes
    if (op == "sa" && n == 4) {
        long e = num(1); if (!live(e)) return "dead";
        if (!isType(e, DOMNode::ELEMENT_NODE)) return "mismatch";
        DOMElement* el = static_cast<DOMElement*>(H[e]); std::vector<XMLCh> nm = toX(f[2]), v = toX(f[3]);
        DOMAttr* before = el->getAttributeNode(nm.data());
        std::vector<int> dying; if (before) collectKids(before, dying);
        el->setAttribute(nm.data(), v.data());
        for (int h : dying) kill(h);
        DOMAttr* a = el->getAttributeNode(nm.data());
        if (a) { if (!before) newHandle(a); if (a->getFirstChild()) newHandle(a->getFirstChild()); }
        return "ok -";
    }
    if (op == "ra" && n == 3) {
        long e = num(1); if (!live(e)) return "dead";
        if (!isType(e, DOMNode::ELEMENT_NODE)) return "mismatch";
        DOMElement* el = static_cast<DOMElement*>(H[e]); std::vector<XMLCh> nm = toX(f[2]);
        DOMAttr* before = el->getAttributeNode(nm.data());
        std::vector<int> dying; if (before) { collectKids(before, dying); int h = hIdx(before); if (h >= 0) dying.push_back(h); }
        el->removeAttribute(nm.data());
        for (int h : dying) kill(h);
        return "ok -";
    }
    if ((op == "sn" || op == "rn") && n == 3) {
        long e = num(1), a = num(2); if (!live(e) || !live(a)) return "dead";
        if (!isType(e, DOMNode::ELEMENT_NODE) || !isType(a, DOMNode::ATTRIBUTE_NODE)) return "mismatch";
        DOMElement* el = static_cast<DOMElement*>(H[e]); DOMAttr* at = static_cast<DOMAttr*>(H[a]);
        return okNode(op == "sn" ? el->setAttributeNode(at) : el->removeAttributeNode(at));
    }
    if (op == "sv" && n == 3) {
        long a = num(1); if (!live(a)) return "dead";
        if (!isType(a, DOMNode::ATTRIBUTE_NODE)) return "mismatch";
        DOMAttr* at = static_cast<DOMAttr*>(H[a]); std::vector<XMLCh> v = toX(f[2]);
        std::vector<int> dying; collectKids(at, dying);
        at->setValue(v.data());
        for (int h : dying) kill(h);
        if (at->getFirstChild()) newHandle(at->getFirstChild());
        return "ok -";
    }
    // ---- character data
    if (op == "ss" || op == "da" || op == "di" || op == "dd" || op == "dr" || op == "ds") {
        long t = num(1); if (!live(t)) return "dead";
        if (op == "ds" && n == 3 && isType(t, DOMNode::PROCESSING_INSTRUCTION_NODE)) {
            std::vector<XMLCh> x = toX(f[2]);
            static_cast<DOMProcessingInstruction*>(H[t])->setData(x.data()); return "ok -";
        }
        if (!isCharData(t)) return "mismatch";
        DOMCharacterData* cd = static_cast<DOMCharacterData*>(H[t]);
        if (op == "ss" && n == 4) { const XMLCh* r = cd->substringData(unum(2), unum(3)); std::string h = hexStr(r); return "ok s" + h; }
        if (op == "da" && n == 3) { std::vector<XMLCh> x = toX(f[2]); cd->appendData(x.data()); return "ok -"; }
        if (op == "di" && n == 4) { std::vector<XMLCh> x = toX(f[3]); cd->insertData(unum(2), x.data()); return "ok -"; }
        if (op == "dd" && n == 4) { cd->deleteData(unum(2), unum(3)); return "ok -"; }
        if (op == "dr" && n == 5) { std::vector<XMLCh> x = toX(f[4]); cd->replaceData(unum(2), unum(3), x.data()); return "ok -"; }
        if (op == "ds" && n == 3) { std::vector<XMLCh> x = toX(f[2]); cd->setData(x.data()); return "ok -"; }
        return "bad-op";
    }
    if (op == "sp" && n == 3) {
        long t = num(1); if (!live(t)) return "dead";
        if (!isType(t, DOMNode::TEXT_NODE) && !isType(t, DOMNode::CDATA_SECTION_NODE)) return "mismatch";
        DOMNode* r = static_cast<DOMText*>(H[t])->splitText(unum(2));
        if (r) newHandle(r);
        return okNode(r);
    }
    // ---- clone / import / adopt / normalize / rename
    if (op == "cl" && n == 3) {
        long x = num(1); if (!live(x)) return "dead";
        if (isType(x, DOMNode::DOCUMENT_NODE) || isType(x, DOMNode::DOCUMENT_TYPE_NODE)) return "mismatch";
        DOMNode* r = H[x]->cloneNode(f[2] == "1");
        if (r) numberCopy(H[x], r);
        return okNode(r);
    }
    if (op == "im" && n == 4) {
        long d = num(1), x = num(2); if (!live(d) || !live(x)) return "dead";
        if (!isType(d, DOMNode::DOCUMENT_NODE)) return "mismatch";
        DOMNode* r = static_cast<DOMDocument*>(H[d])->importNode(H[x], f[3] == "1");
        if (r) numberCopy(H[x], r);
        return okNode(r);
    }
    if (op == "ad" && n == 3) {
        long d = num(1), x = num(2); if (!live(d) || !live(x)) return "dead";
        if (!isType(d, DOMNode::DOCUMENT_NODE)) return "mismatch";
        return okNode(static_cast<DOMDocument*>(H[d])->adoptNode(H[x]));
    }
    if (op == "nz" && n == 2) {
        long x = num(1); if (!live(x)) return "dead";
        H[x]->normalize(); return "ok -";
    }
    if (op == "rns" && n == 5) {      // renameNode(node, namespaceURI, qualifiedName)
        long d = num(1), x = num(2); if (!live(d) || !live(x)) return "dead";
        if (!isType(d, DOMNode::DOCUMENT_NODE)) return "mismatch";
        std::vector<XMLCh> ns = toX(f[3]), nm = toX(f[4]);
        DOMNode* r = static_cast<DOMDocument*>(H[d])->renameNode(H[x], ns.data(), nm.data());
        if (r && hIdx(r) < 0) newHandle(r);
        return okNode(r);
    }
    if (op == "rnm" && n == 4) {
        long d = num(1), x = num(2); if (!live(d) || !live(x)) return "dead";
        if (!isType(d, DOMNode::DOCUMENT_NODE)) return "mismatch";
        std::vector<XMLCh> nm = toX(f[3]);
        DOMNode* r = static_cast<DOMDocument*>(H[d])->renameNode(H[x], 0, nm.data());
        if (r && hIdx(r) < 0) newHandle(r);
        return okNode(r);
    }
    return "bad-op";
}

static void reset(int k) {
    if (!corrupted) for (DOMDocument* d : docs) d->release();
    docs.clear(); H.clear(); alive.clear(); rev.clear(); corrupted = false;
    for (int i = 0; i < k; i++) { DOMDocument* d = gImpl->createDocument(); docs.push_back(d); newHandle(d); }
}

// "resetp": document 0 is PARSED (entity-reference nodes kept, namespaces off) so that the histories have a read-only
// subtree with element + attribute content; every node of it gets a handle in document order; then one empty document.
static const char* kPrefixDoc =
    "<!DOCTYPE r [<!ENTITY e \"<x a='1' b='2'>t<y a='3'>u</y></x>\">]>"
    "<r w=\"0\"><p a=\"free\">q</p>&e;<c/><!--z--></r>";
static void resetParsed() {
    if (!corrupted) for (DOMDocument* d : docs) d->release();
    docs.clear(); H.clear(); alive.clear(); rev.clear(); corrupted = false;
    XercesDOMParser parser;
    parser.setCreateEntityReferenceNodes(true);
    parser.setDoNamespaces(false);
    parser.setValidationScheme(XercesDOMParser::Val_Never);
    MemBufInputSource src((const XMLByte*)kPrefixDoc, strlen(kPrefixDoc), "hx_dom_prefix");
    parser.parse(src);
    DOMDocument* d = parser.adoptDocument();
    docs.push_back(d);
    assignSubtree(d);
    DOMDocument* d2 = gImpl->createDocument(); docs.push_back(d2); newHandle(d2);
}

int main(int argc, char** argv) {
    fullMode = argc > 1 && std::string(argv[1]) == "full";
    long watchdogMs = 5000;     // per operation
    if (const char* w = getenv("HX_DOM_WATCHDOG_MS")) watchdogMs = atol(w);
    auto arm = [&](long ms) { struct itimerval tv; tv.it_interval.tv_sec = 0; tv.it_interval.tv_usec = 0;
                              tv.it_value.tv_sec = ms / 1000; tv.it_value.tv_usec = (ms % 1000) * 1000; setitimer(ITIMER_PROF, &tv, 0); };   // CPU time: a loaded machine cannot fake a hang
    XMLPlatformUtils::Initialize();
    static const XMLCh core[] = { chLatin_C, chLatin_o, chLatin_r, chLatin_e, 0 };
    gImpl = DOMImplementationRegistry::getDOMImplementation(core);
    if (!gImpl) { fprintf(stderr, "no DOM implementation\n"); return 2; }
    signal(SIGPROF, onAlarm);
    std::string line;
    while (std::getline(std::cin, line)) {
        if (line.empty()) continue;
        std::vector<std::string> f = hx::split(line);
        if (f[0] == "reset" && f.size() == 2) {
            fflush(stdout);
            arm(watchdogMs);
            reset(atoi(f[1].c_str()));
            emit("ok -");
            arm(0);
            fflush(stdout);
            continue;
        }
        if (f[0] == "resetp" && f.size() == 1) {
            fflush(stdout);
            arm(watchdogMs);
            try { resetParsed(); emit("ok -"); }
            catch (...) { puts("exc PARSE-FAILED | "); }
            arm(0);
            fflush(stdout);
            continue;
        }
        if (corrupted) { puts("abandoned"); continue; }
        std::string res;
        arm(watchdogMs);
        try { res = doOp(f); }
        catch (const DOMException& e) { res = std::string("exc ") + excName((int)e.code); }
        catch (const OutOfMemoryException&) { res = "exc OutOfMemoryException"; }
        catch (const XMLException&) { res = "exc XMLException"; }
        catch (...) { res = "exc FOREIGN-EXCEPTION"; }
        if (res == "bad-op") { arm(0); puts("bad-op"); fflush(stdout); continue; }
        try { emit(res); }
        catch (const DOMException& e) { printf("%s | DUMP-EXCEPTION %s\n", res.c_str(), excName((int)e.code)); corrupted = true; }
        catch (...) { printf("%s | DUMP-EXCEPTION\n", res.c_str()); corrupted = true; }
        arm(0);
        if (fullMode) fflush(stdout);     // digest mode flushes once per history (at the next reset)
    }
    return 0;   // documents are leaked on purpose (a corrupted one cannot be released safely)
}
