// C19 harness: which external resources does a parse touch, in which order, and what is the entity resolver offered?
// No source hook: right after Initialize the public statics XMLPlatformUtils::fgFileMgr / fgNetAccessor are replaced by
// a recording, delegating file manager and by a recording net accessor stub (no socket is ever opened).
//
//   G <cfg> <main system id> <supply>          parse a file tree
//        cfg     sc=IG|WF|DG|SG,dd=0|1,ld=0|1,vs=N|A|Y,ls=0|1,ds=0|1,ns=0|1,res=none|xml|sax,api=sax2|dom|sax1[,sm=<limit>][,sp=0..9][,pre=0|1]
//                (sp/pre: ordered configuration history — where the scanner switch happens among the policy settings)
//        supply  -  |  lit>path>bufId;lit>path>bufId     (resolver supplies MemBufInputSource(content of path, bufId) when the
//                                                         offered system id equals lit; declines otherwise)
//     -> R:<type>|<systemId>|<baseURI>|<publicId>|<namespace>  O:<path>  N:<url> ... = ok | fatal:<name> | exc:<type>
//   X <cfg> <limit|-> <hex main doc> <name>hex;name>hex|->    in-memory parse with SecurityManager(limit)
//     -> ok|fatal:<name> se=<entity starts> n=<chars> h=<hash of character data and attribute values>
//   U L <hex base> <hex rel>     XMLURL(base, rel)           -> proto|user|pass|host|port|path|query|frag|text  or exc <type>
//   U I <hex base> <hex rel>     XMLUri(&XMLUri(base), rel)  -> scheme|userinfo|host|port|regauth|path|query|frag|text
//   U N <hex uri>                XMLUri::normalizeURI
#include <cstdio>
#include <string>
#include <vector>
#include <map>
#include "hx_common.hpp"
#include <xercesc/util/XMLUni.hpp>
#include <xercesc/util/XMLURL.hpp>
#include <xercesc/util/XMLUri.hpp>
#include <xercesc/util/XMLFileMgr.hpp>
#include <xercesc/util/XMLNetAccessor.hpp>
#include <xercesc/util/XMLEntityResolver.hpp>
#include <xercesc/util/XMLResourceIdentifier.hpp>
#include <xercesc/util/SecurityManager.hpp>
#include <xercesc/util/OutOfMemoryException.hpp>
#include <xercesc/util/XMLNetAccessor.hpp>
#include <xercesc/util/BinInputStream.hpp>
#include <xercesc/framework/MemBufInputSource.hpp>
#include <xercesc/framework/XMLErrorCodes.hpp>
#include <xercesc/framework/XMLBuffer.hpp>
#include <xercesc/framework/XMLEntityDecl.hpp>
#include <xercesc/sax/EntityResolver.hpp>
#include <xercesc/sax/SAXException.hpp>
#include <xercesc/sax/SAXParseException.hpp>
#include <xercesc/sax2/Attributes.hpp>
#include <xercesc/sax2/DefaultHandler.hpp>
#include <xercesc/parsers/SAX2XMLReaderImpl.hpp>
#include <xercesc/parsers/SAXParser.hpp>
#include <xercesc/sax/HandlerBase.hpp>
#include <xercesc/sax/AttributeList.hpp>
#include <xercesc/parsers/XercesDOMParser.hpp>
#include <xercesc/dom/DOM.hpp>

// ------------------------------------------------------------------ recording
static std::vector<std::string> gEvents;
static bool gRecording = false;
static void rec(const std::string& e) { if (gRecording) gEvents.push_back(e); }
static std::string nz(const XMLCh* s) { return s ? hx::narrow(s) : std::string("~"); }   // ~ = null pointer

class RecFileMgr : public XMLFileMgr {
public:
    XMLFileMgr* fOrig;
    explicit RecFileMgr(XMLFileMgr* o) : fOrig(o) {}
    ~RecFileMgr() { delete fOrig; }
    FileHandle fileOpen(const XMLCh* path, bool toWrite, MemoryManager* const m) override {
        rec(std::string(toWrite ? "W:" : "O:") + hx::narrow(path)); return fOrig->fileOpen(path, toWrite, m); }
    FileHandle fileOpen(const char* path, bool toWrite, MemoryManager* const m) override {
        rec(std::string(toWrite ? "W:" : "O:") + path); return fOrig->fileOpen(path, toWrite, m); }
    FileHandle openStdIn(MemoryManager* const m) override { rec("O:<stdin>"); return fOrig->openStdIn(m); }
    void fileClose(FileHandle f, MemoryManager* const m) override { fOrig->fileClose(f, m); }
    void fileReset(FileHandle f, MemoryManager* const m) override { fOrig->fileReset(f, m); }
    XMLFilePos curPos(FileHandle f, MemoryManager* const m) override { return fOrig->curPos(f, m); }
    XMLFilePos fileSize(FileHandle f, MemoryManager* const m) override { return fOrig->fileSize(f, m); }
    XMLSize_t fileRead(FileHandle f, XMLSize_t n, XMLByte* b, MemoryManager* const m) override { return fOrig->fileRead(f, n, b, m); }
    void fileWrite(FileHandle f, XMLSize_t n, const XMLByte* b, MemoryManager* const m) override { fOrig->fileWrite(f, n, b, m); }
    XMLCh* getFullPath(const XMLCh* const p, MemoryManager* const m) override { return fOrig->getFullPath(p, m); }
    XMLCh* getCurrentDirectory(MemoryManager* const m) override { return fOrig->getCurrentDirectory(m); }
    bool isRelative(const XMLCh* const p, MemoryManager* const m) override { return fOrig->isRelative(p, m); }
};

class RecNetAccessor : public XMLNetAccessor {
public:
    XMLNetAccessor* fOrig;
    explicit RecNetAccessor(XMLNetAccessor* o) : fOrig(o) {}
    ~RecNetAccessor() { delete fOrig; }
    BinInputStream* makeNew(const XMLURL& url, const XMLNetHTTPInfo* = 0) override {
        rec(std::string("N:") + hx::narrow(url.getURLText()));
        ThrowXML1(NetAccessorException, XMLExcepts::NetAcc_TargetResolution, url.getHost() ? url.getHost() : XMLUni::fgZeroLenString);
        return 0;
    }
    const XMLCh* getId() const override { static const XMLCh id[] = { 'x', 'v', 0 }; return id; }
};

struct Supply { std::string path, bufId; std::string bytes; bool inlineBytes = false; };
static std::map<std::string, Supply> gSupply;
static std::vector<char*> gKeep;       // MemBufInputSource does not copy; keep buffers until the case ends

static bool readFile(const std::string& p, std::string& out) {
    FILE* f = fopen(p.c_str(), "rb"); if (!f) return false;
    char buf[65536]; size_t n; out.clear();
    while ((n = fread(buf, 1, sizeof buf, f)) > 0) out.append(buf, n);
    fclose(f); return true;
}

static InputSource* supplyFor(const XMLCh* sysId) {
    if (!sysId) return 0;
    auto it = gSupply.find(hx::narrow(sysId));
    if (it == gSupply.end()) return 0;
    std::string bytes;
    if (it->second.inlineBytes) bytes = it->second.bytes;
    else if (!readFile(it->second.path, bytes)) return 0;
    char* keep = (char*)malloc(bytes.size() + 1); memcpy(keep, bytes.data(), bytes.size()); keep[bytes.size()] = 0;
    gKeep.push_back(keep);
    XMLCh* id = XMLString::transcode(it->second.bufId.c_str());
    MemBufInputSource* s = new MemBufInputSource((const XMLByte*)keep, bytes.size(), id, false);
    XMLString::release(&id);
    return s;
}

static const char* typeName(XMLResourceIdentifier::ResourceIdentifierType t) {
    switch (t) {
    case XMLResourceIdentifier::SchemaGrammar: return "G";
    case XMLResourceIdentifier::SchemaImport: return "I";
    case XMLResourceIdentifier::SchemaInclude: return "C";
    case XMLResourceIdentifier::SchemaRedefine: return "D";
    case XMLResourceIdentifier::ExternalEntity: return "E";
    default: return "U";
    }
}

class RecXMLResolver : public XMLEntityResolver {
public:
    InputSource* resolveEntity(XMLResourceIdentifier* r) override {
        rec(std::string("R:") + typeName(r->getResourceIdentifierType()) + "|" + nz(r->getSystemId()) + "|" + nz(r->getBaseURI()) + "|" +
            nz(r->getPublicId()) + "|" + nz(r->getNameSpace()));
        return supplyFor(r->getSystemId());
    }
};
class RecSAXResolver : public EntityResolver {
public:
    InputSource* resolveEntity(const XMLCh* const publicId, const XMLCh* const systemId) override {
        rec(std::string("R:S|") + nz(systemId) + "||" + nz(publicId) + "|");
        return supplyFor(systemId);
    }
};

// ------------------------------------------------------------------ error naming
struct ErrLog { std::string firstFatal; int fatals = 0, errors = 0, warnings = 0; std::string firstError; };
static ErrLog gErr;
static std::string errName(unsigned int code, const XMLCh* domain) {
    char b[48];
    if (XMLString::equals(domain, XMLUni::fgXMLErrDomain)) {
        switch (code) {
        case XMLErrs::EntityExpansionLimitExceeded: return "limit";
        case XMLErrs::RecursiveEntity: return "recursive";
        case XMLErrs::EntityNotFound: return "notfound";
        case XMLErrs::XMLException_Fatal: return "xmlexception";
        case XMLErrs::SchemaScanFatalError: return "schemascan";
        default: snprintf(b, sizeof b, "X%u", code); return b;
        }
    }
    if (XMLString::equals(domain, XMLUni::fgValidityDomain)) { snprintf(b, sizeof b, "V%u", code); return b; }
    if (XMLString::equals(domain, XMLUni::fgExceptDomain)) {
        switch (code) {
        case XMLExcepts::Gen_CouldNotOpenExtEntity: case XMLExcepts::Gen_CouldNotOpenDTD: return "noopen";
        case XMLExcepts::NetAcc_TargetResolution: return "netfail";
        default: snprintf(b, sizeof b, "E%u", code); return b;
        }
    }
    snprintf(b, sizeof b, "D%u", code); return b;
}
static void noteError(unsigned int code, const XMLCh* domain, XMLErrorReporter::ErrTypes t) {
    if (t >= XMLErrorReporter::ErrType_Fatal) { if (!gErr.fatals++) gErr.firstFatal = errName(code, domain); }
    else if (t == XMLErrorReporter::ErrType_Error) { if (!gErr.errors++) gErr.firstError = errName(code, domain); }
    else gErr.warnings++;
}

struct Obs { hx::Fnv h; size_t n = 0; int se = 0; };
static Obs gObs;
static void obsChars(const XMLCh* s, XMLSize_t len) { for (XMLSize_t i = 0; i < len; i++) { gObs.h.addc(s[i] & 0xff); gObs.h.addc((s[i] >> 8) & 0xff); } gObs.n += len; }

class MySax2 : public SAX2XMLReaderImpl {
public:
    void error(const unsigned int code, const XMLCh* const domain, const XMLErrorReporter::ErrTypes t, const XMLCh* const text,
               const XMLCh* const sysId, const XMLCh* const pubId, const XMLFileLoc line, const XMLFileLoc col) override {
        noteError(code, domain, t);
        SAX2XMLReaderImpl::error(code, domain, t, text, sysId, pubId, line, col);
    }
    void startEntityReference(const XMLEntityDecl& d) override { gObs.se++; SAX2XMLReaderImpl::startEntityReference(d); }
};
class MyDom : public XercesDOMParser {
public:
    void error(const unsigned int code, const XMLCh* const domain, const XMLErrorReporter::ErrTypes t, const XMLCh* const text,
               const XMLCh* const sysId, const XMLCh* const pubId, const XMLFileLoc line, const XMLFileLoc col) override {
        noteError(code, domain, t);
        XercesDOMParser::error(code, domain, t, text, sysId, pubId, line, col);
    }
    void startEntityReference(const XMLEntityDecl& d) override { gObs.se++; XercesDOMParser::startEntityReference(d); }
};
class Sink : public DefaultHandler {
public:
    void characters(const XMLCh* const c, const XMLSize_t len) override { obsChars(c, len); }
    void startElement(const XMLCh* const, const XMLCh* const, const XMLCh* const, const Attributes& a) override {
        for (XMLSize_t i = 0; i < a.getLength(); i++) { const XMLCh* v = a.getValue(i); obsChars(v, XMLString::stringLen(v)); }
    }
    void fatalError(const SAXParseException&) override {}
    void error(const SAXParseException&) override {}
    void warning(const SAXParseException&) override {}
};
class MySax1 : public SAXParser {
public:
    void error(const unsigned int code, const XMLCh* const domain, const XMLErrorReporter::ErrTypes t, const XMLCh* const text,
               const XMLCh* const sysId, const XMLCh* const pubId, const XMLFileLoc line, const XMLFileLoc col) override {
        noteError(code, domain, t);
        SAXParser::error(code, domain, t, text, sysId, pubId, line, col);
    }
    void startEntityReference(const XMLEntityDecl& d) override { gObs.se++; SAXParser::startEntityReference(d); }
};
class Sink1 : public HandlerBase {
public:
    void characters(const XMLCh* const c, const XMLSize_t len) override { obsChars(c, len); }
    void startElement(const XMLCh* const, AttributeList& a) override {
        for (XMLSize_t i = 0; i < a.getLength(); i++) { const XMLCh* v = a.getValue(i); obsChars(v, XMLString::stringLen(v)); }
    }
    void fatalError(const SAXParseException&) override {}
    void error(const SAXParseException&) override {}
    void warning(const SAXParseException&) override {}
};
static void domWalk(DOMNode* n) {
    for (; n; n = n->getNextSibling()) {
        if (n->getNodeType() == DOMNode::ELEMENT_NODE) {
            DOMNamedNodeMap* a = n->getAttributes();
            // document order of attributes is not kept by the map for defaulted ones; hash order-independently is not
            // needed: the generators use at most one attribute per element
            for (XMLSize_t i = 0; a && i < a->getLength(); i++) { const XMLCh* v = a->item(i)->getNodeValue(); obsChars(v, XMLString::stringLen(v)); }
            domWalk(n->getFirstChild());
        } else if (n->getNodeType() == DOMNode::TEXT_NODE || n->getNodeType() == DOMNode::CDATA_SECTION_NODE) {
            const XMLCh* v = n->getNodeValue(); obsChars(v, XMLString::stringLen(v));
        } else if (n->getNodeType() == DOMNode::ENTITY_REFERENCE_NODE) {
            domWalk(n->getFirstChild());
        }
    }
}

// ------------------------------------------------------------------ configuration
struct Cfg { std::string sc = "IG", vs = "N", res = "none", api = "sax2"; bool dd = false, ld = true, ls = true, ds = false, ns = true; long sm = -1;
             int sp = 0; bool pre = false; };   // sp: the scanner switch happens before configuration step sp (0..9); pre: an extra switch to another scanner first
static bool parseCfg(const std::string& s, Cfg& c) {
    for (auto& kv : hx::split(s, ',')) {
        size_t eq = kv.find('='); if (eq == std::string::npos) return false;
        std::string k = kv.substr(0, eq), v = kv.substr(eq + 1);
        if (k == "sc") c.sc = v; else if (k == "vs") c.vs = v; else if (k == "res") c.res = v; else if (k == "api") c.api = v;
        else if (k == "dd") c.dd = v == "1"; else if (k == "ld") c.ld = v == "1"; else if (k == "ls") c.ls = v == "1";
        else if (k == "ds") c.ds = v == "1"; else if (k == "ns") c.ns = v == "1"; else if (k == "sm") c.sm = std::stol(v);
        else if (k == "sp") c.sp = std::stoi(v); else if (k == "pre") c.pre = v == "1";
        else return false;
    }
    return true;
}
static const XMLCh* scannerName(const std::string& s) {
    if (s == "WF") return XMLUni::fgWFXMLScanner;
    if (s == "DG") return XMLUni::fgDGXMLScanner;
    if (s == "SG") return XMLUni::fgSGXMLScanner;
    return XMLUni::fgIGXMLScanner;
}

static RecXMLResolver gXmlRes;
static RecSAXResolver gSaxRes;

static std::string excName(const XMLException& e) { return std::string("exc:") + hx::narrow(e.getType()); }

// runs one parse; src==0 -> parse by system id
static std::string runParse(const Cfg& c, const char* sysId, InputSource* src) {
    gErr = ErrLog(); gObs = Obs();
    SecurityManager sm;
    if (c.sm >= 0) sm.setEntityExpansionLimit((XMLSize_t)c.sm);
    std::string res;
    XMLCh* xsys = sysId ? XMLString::transcode(sysId) : 0;
    try {
        // The configuration is an ORDERED history: steps 0..8 below, with the scanner switch inserted before step c.sp
        // (9 = after everything) and optionally a first switch to some other scanner at the very beginning.
        const XMLCh* other = scannerName(c.sc == "DG" ? "IG" : "DG");
        Sink sink;
        if (c.api == "dom") {
            MyDom p;
            if (c.pre) p.useScanner(other);
            for (int step = 0; step <= 9; step++) {
                if (step == c.sp) p.useScanner(scannerName(c.sc));
                switch (step) {
                case 0: p.setDoNamespaces(c.ns); break;
                case 1: p.setValidationScheme(c.vs == "Y" ? XercesDOMParser::Val_Always : c.vs == "A" ? XercesDOMParser::Val_Auto : XercesDOMParser::Val_Never); break;
                case 2: p.setDoSchema(c.ds); break;
                case 3: p.setLoadExternalDTD(c.ld); break;
                case 4: p.setLoadSchema(c.ls); break;
                case 5: p.setDisableDefaultEntityResolution(c.dd); break;
                case 6: if (c.sm >= 0) p.setSecurityManager(&sm); break;
                case 7: if (c.res == "xml") p.setXMLEntityResolver(&gXmlRes); else if (c.res == "sax") p.setEntityResolver(&gSaxRes); break;
                case 8: p.setErrorHandler(&sink); break;
                default: break;
                }
            }
            gRecording = true;
            if (src) p.parse(*src); else p.parse(xsys);
            gRecording = false;
            DOMDocument* d = p.getDocument();
            if (d) domWalk(d->getDocumentElement());
        } else if (c.api == "sax1") {
            MySax1 p;
            Sink1 sink1;
            if (c.pre) p.useScanner(other);
            for (int step = 0; step <= 9; step++) {
                if (step == c.sp) p.useScanner(scannerName(c.sc));
                switch (step) {
                case 0: p.setDoNamespaces(c.ns); break;
                case 1: p.setValidationScheme(c.vs == "Y" ? SAXParser::Val_Always : c.vs == "A" ? SAXParser::Val_Auto : SAXParser::Val_Never); break;
                case 2: p.setDoSchema(c.ds); break;
                case 3: p.setLoadExternalDTD(c.ld); break;
                case 4: p.setLoadSchema(c.ls); break;
                case 5: p.setDisableDefaultEntityResolution(c.dd); break;
                case 6: if (c.sm >= 0) p.setSecurityManager(&sm); break;
                case 7: if (c.res == "xml") p.setXMLEntityResolver(&gXmlRes); else if (c.res == "sax") p.setEntityResolver(&gSaxRes); break;
                case 8: p.setDocumentHandler(&sink1); p.setErrorHandler(&sink1); break;
                default: break;
                }
            }
            gRecording = true;
            if (src) p.parse(*src); else p.parse(xsys);
            gRecording = false;
        } else {
            MySax2 p;
            if (c.pre) p.setProperty(XMLUni::fgXercesScannerName, (void*)other);
            for (int step = 0; step <= 9; step++) {
                if (step == c.sp) p.setProperty(XMLUni::fgXercesScannerName, (void*)scannerName(c.sc));
                switch (step) {
                case 0: p.setFeature(XMLUni::fgSAX2CoreNameSpaces, c.ns); break;
                case 1: p.setFeature(XMLUni::fgSAX2CoreValidation, c.vs != "N"); p.setFeature(XMLUni::fgXercesDynamic, c.vs == "A"); break;
                case 2: p.setFeature(XMLUni::fgXercesSchema, c.ds); break;
                case 3: p.setFeature(XMLUni::fgXercesLoadExternalDTD, c.ld); break;
                case 4: p.setFeature(XMLUni::fgXercesLoadSchema, c.ls); break;
                case 5: p.setFeature(XMLUni::fgXercesDisableDefaultEntityResolution, c.dd); break;
                case 6: if (c.sm >= 0) p.setProperty(XMLUni::fgXercesSecurityManager, &sm); break;
                case 7: if (c.res == "xml") p.setXMLEntityResolver(&gXmlRes); else if (c.res == "sax") p.setEntityResolver(&gSaxRes); break;
                case 8: p.setContentHandler(&sink); p.setErrorHandler(&sink); break;
                default: break;
                }
            }
            gRecording = true;
            if (src) p.parse(*src); else p.parse(xsys);
            gRecording = false;
        }
        res = gErr.fatals ? "fatal:" + gErr.firstFatal : "ok";
    } catch (const OutOfMemoryException&) { res = "exc:OutOfMemory";
    } catch (const XMLException& e) { res = excName(e);
    } catch (const SAXException&) { res = "exc:SAXException";
    } catch (const DOMException&) { res = "exc:DOMException";
    } catch (...) { res = "exc:FOREIGN-EXCEPTION"; }
    gRecording = false;
    if (xsys) XMLString::release(&xsys);
    return res;
}

static void clearCase() {
    gEvents.clear(); gSupply.clear();
    for (char* k : gKeep) free(k);
    gKeep.clear();
}

static std::string doGate(const std::vector<std::string>& f) {
    if (f.size() != 4) return "bad-op";
    Cfg c; if (!parseCfg(f[1], c)) return "bad-op";
    clearCase();
    if (f[3] != "-") for (auto& e : hx::split(f[3], ';')) {
        auto p = hx::split(e, '>'); if (p.size() != 3) return "bad-op";
        Supply s; s.path = p[1]; s.bufId = p[2]; gSupply[p[0]] = s;
    }
    std::string r = runParse(c, f[2].c_str(), 0);
    std::string out;
    for (auto& e : gEvents) { out += e; out += ' '; }
    out += "= " + r;
    clearCase();
    return out;
}

static std::string unhex(const std::string& s) { std::string r; for (uint32_t v : hx::parseHexList(s)) r += (char)v; return r; }

static std::string doExpand(const std::vector<std::string>& f) {
    if (f.size() != 5) return "bad-op";
    Cfg c; if (!parseCfg(f[1], c)) return "bad-op";
    c.sm = f[2] == "-" ? -1 : std::stol(f[2]);
    clearCase();
    std::string doc = unhex(f[3]);
    if (f[4] != "-") for (auto& e : hx::split(f[4], ';')) {
        auto p = hx::split(e, '>'); if (p.size() != 2) return "bad-op";
        Supply s; s.inlineBytes = true; s.bytes = unhex(p[1]); s.bufId = "/xvmem/" + p[0]; gSupply[p[0]] = s;
    }
    XMLCh* id = XMLString::transcode("/xvmem/doc.xml");
    MemBufInputSource src((const XMLByte*)doc.data(), doc.size(), id, false);
    XMLString::release(&id);
    std::string r = runParse(c, 0, &src);
    char b[96]; snprintf(b, sizeof b, " se=%d n=%zu h=%016llx", gObs.se, gObs.n, (unsigned long long)gObs.h.h);
    std::string opens;
    for (auto& e : gEvents) if (e[0] == 'O' || e[0] == 'N') opens += " " + e;
    clearCase();
    return r + b + opens;
}

static std::vector<XMLCh> units(const std::string& hex) { std::vector<XMLCh> u; for (uint32_t v : hx::parseHexList(hex)) u.push_back((XMLCh)v); u.push_back(0); return u; }

static std::string doUrl(const std::vector<std::string>& f) {
    if (f.size() < 3) return "bad-op";
    try {
        if (f[1] == "L" && f.size() == 4) {
            auto b = units(f[2]), r = units(f[3]);
            XMLURL u(b.data(), r.data());
            char port[16]; snprintf(port, sizeof port, "%u", u.getPortNum());
            return std::string(u.getProtocolName() ? hx::narrow(u.getProtocolName()) : "~") + "|" + nz(u.getUser()) + "|" + nz(u.getPassword()) + "|" + nz(u.getHost()) + "|" + port + "|" +
                   nz(u.getPath()) + "|" + nz(u.getQuery()) + "|" + nz(u.getFragment()) + "|" + nz(u.getURLText());
        }
        if (f[1] == "I" && f.size() == 4) {
            auto b = units(f[2]), r = units(f[3]);
            XMLUri base(b.data());
            XMLUri u(&base, r.data());
            char port[16]; snprintf(port, sizeof port, "%d", u.getPort());
            return nz(u.getScheme()) + "|" + nz(u.getUserInfo()) + "|" + nz(u.getHost()) + "|" + port + "|" + nz(u.getRegBasedAuthority()) + "|" +
                   nz(u.getPath()) + "|" + nz(u.getQueryString()) + "|" + nz(u.getFragment()) + "|" + nz(u.getUriText());
        }
        if (f[1] == "N" && f.size() == 3) {
            auto s = units(f[2]);
            XMLBuffer out;
            XMLUri::normalizeURI(s.data(), out);
            return hx::narrow(out.getRawBuffer());
        }
    } catch (const OutOfMemoryException&) { return "exc OutOfMemory";
    } catch (const XMLException& e) { return std::string("exc ") + hx::narrow(e.getType());
    } catch (...) { return "exc FOREIGN-EXCEPTION"; }
    return "bad-op";
}

int main() {
    XMLPlatformUtils::Initialize();
    XMLPlatformUtils::fgFileMgr = new RecFileMgr(XMLPlatformUtils::fgFileMgr);
    XMLPlatformUtils::fgNetAccessor = new RecNetAccessor(XMLPlatformUtils::fgNetAccessor);
    std::string line;
    while (std::getline(std::cin, line)) {
        if (line.empty()) continue;
        auto f = hx::split(line);
        std::string out;
        if (f[0] == "G") out = doGate(f);
        else if (f[0] == "X") out = doExpand(f);
        else if (f[0] == "U") out = doUrl(f);
        else out = "bad-op";
        for (char& ch : out) if (ch == '\n' || ch == '\r') ch = ' ';
        std::cout << out << "\n" << std::flush;
    }
    XMLPlatformUtils::Terminate();
    return 0;
}
