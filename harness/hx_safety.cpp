// C01 direct-drive harness: the containers / functions whose index arithmetic is modelled in XV.Model.{Growth,
// CharRef,MsgFormat,ReaderStack,DomHeap}, executed on the real library (ASan/UBSan build) with the line protocol of
// `xvdriver safety`.  One case per line, one observation per line.
//
//   XB <cap> <fullSize|0> <H0|H1> <ops>    XMLBuffer; ops: c | n<count> | s<count> | r | g   -> len N | exc
//   ES <ops> / WS <ops>                    ElemStack / WFElemStack; p | q | x<k> | c<k> | r  -> len <depth>
//   VV <ops> / RV <ops>                    ValueVectorOf<unsigned> / RefVectorOf; a | i<k> | d<k> | x | e<n> -> len N
//   RT <lo-hi,...>                         RangeToken::addRange sequence                     -> ok
//   DB <cap> <ops>                         DOMBuffer; a<n> | s<n> | r | g                    -> len N cap C
//   TK <maxChars> <src hex list> <l0> <l1> <l2> <l3>   XMLString::replaceTokens on a buffer of maxChars+1  -> out N
//   CR <site c|a|d|t> <radix> <digit values>            character reference through a real parse -> single X | pair H L | invalid
//   RM <ops>                               ReaderMgr; P<name|->:<adopt>:<chars> | O<throwEOE> | C<n> | R  -> obs;obs;… leak N
//   argv "domheap <init> <max> <sub>": DH <amounts>     DOMDocumentImpl::allocate after Initialize(init,max,sub) -> ok
#include "hx_common.hpp"
#include <atomic>
#include <cstdlib>
#include <xercesc/framework/XMLBuffer.hpp>
#include <xercesc/framework/MemoryManager.hpp>
#include <xercesc/framework/MemBufInputSource.hpp>
#include <xercesc/internal/ElemStack.hpp>
#include <xercesc/internal/ReaderMgr.hpp>
#include <xercesc/internal/EndOfEntityException.hpp>
#include <xercesc/util/ValueVectorOf.hpp>
#include <xercesc/util/RefVectorOf.hpp>
#include <xercesc/util/QName.hpp>
#include <xercesc/util/OutOfMemoryException.hpp>
#include <xercesc/util/regx/RangeToken.hpp>
#include <xercesc/util/regx/TokenFactory.hpp>
#include <xercesc/dom/DOM.hpp>
#include <xercesc/dom/impl/DOMDocumentImpl.hpp>
#include <xercesc/dom/impl/DOMStringPool.hpp>
#include <xercesc/parsers/SAXParser.hpp>
#include <xercesc/sax/HandlerBase.hpp>
#include <xercesc/sax/AttributeList.hpp>
#include <xercesc/validators/DTD/DTDEntityDecl.hpp>

static std::atomic<long> gLive(0);
class CountingMM : public MemoryManager {
public:
    MemoryManager* getExceptionMemoryManager() override { return this; }
    void* allocate(XMLSize_t size) override { void* p = ::malloc(size ? size : 1); if (!p) throw OutOfMemoryException(); ++gLive; return p; }
    void deallocate(void* p) override { if (p) { --gLive; ::free(p); } }
};

static std::vector<std::string> ops(const std::string& s) { if (s == "-" || s.empty()) return {}; return hx::split(s, ','); }
static unsigned long num(const std::string& s, size_t from = 1) { return strtoul(s.c_str() + from, 0, 10); }

struct Handler : public XMLBufferFullHandler {
    bool ok;
    bool bufferFull(XMLBuffer& b) override { if (ok) { b.reset(); return true; } return false; }
};

static std::string doXB(const std::vector<std::string>& t) {
    if (t.size() < 5) return "bad-op";
    unsigned long cap = strtoul(t[1].c_str(), 0, 10), full = strtoul(t[2].c_str(), 0, 10);
    Handler h; h.ok = (t[3] == "H1");
    XMLBuffer b(cap);
    if (full) b.setFullHandler(&h, full);
    std::vector<XMLCh> src(1 << 16, (XMLCh)'x');
    try {
        for (const std::string& o : ops(t[4])) {
            if (o == "c") b.append((XMLCh)'y');
            else if (o[0] == 'n') { unsigned long k = num(o); if (k > src.size()) src.resize(k, (XMLCh)'x'); if (k) b.append(src.data(), k); }
            else if (o[0] == 's') { unsigned long k = num(o); if (k > src.size()) src.resize(k, (XMLCh)'x'); if (k) b.set(src.data(), k); else b.reset(); }
            else if (o == "r") b.reset();
            else if (o == "g") { volatile XMLCh c = b.getRawBuffer()[b.getLen()]; (void)c; }
            else return "bad-op";
        }
    } catch (const XMLException&) { return "exc"; }
    return "len " + std::to_string(b.getLen());
}

template <class S> static std::string doStack(S& st, const std::vector<std::string>& t, bool wf) {
    if (t.size() < 2) return "bad-op";
    long depth = 0;
    static const XMLCh pre[] = {chLatin_p, chNull};
    std::vector<QName*> kids;
    for (const std::string& o : ops(t[1])) {
        try {
            if (o == "p") { st.addLevel(); depth++; }
            else if (o == "q") { if (depth > 0) { st.popTop(); depth--; } }
            else if (o[0] == 'x') { if (depth > 0) for (unsigned long k = num(o); k > 0; k--) st.addPrefix(pre, (unsigned)k); }
            else if (o == "r") { st.reset(1, 2, 3, 4); depth = 0; }
            else if (o[0] == 'c') { /* handled by caller for ElemStack */ (void)wf; }
            else return "bad-op";
        } catch (const XMLException&) {}
    }
    return "len " + std::to_string(depth);
}
static std::string doES(const std::vector<std::string>& t) {
    if (t.size() < 2) return "bad-op";
    ElemStack st; st.reset(1, 2, 3, 4);
    long depth = 0; static const XMLCh pre[] = {chLatin_p, chNull};
    QName qn(pre, 1);
    for (const std::string& o : ops(t[1])) {
        try {
            if (o == "p") { st.addLevel(); depth++; }
            else if (o == "q") { if (depth > 0) { st.popTop(); depth--; } }
            else if (o[0] == 'x') { if (depth > 0) for (unsigned long k = num(o); k > 0; k--) st.addPrefix(pre, (unsigned)k); }
            else if (o[0] == 'c') { if (depth > 0) for (unsigned long k = num(o); k > 0; k--) st.addChild(&qn, false); }
            else if (o == "r") { st.reset(1, 2, 3, 4); depth = 0; }
            else return "bad-op";
        } catch (const XMLException&) {}
    }
    return "len " + std::to_string(depth);
}
static std::string doWS(const std::vector<std::string>& t) { WFElemStack st; st.reset(1, 2, 3, 4); return doStack(st, t, true); }

static std::string doVV(const std::vector<std::string>& t, bool ref) {
    if (t.size() < 2) return "bad-op";
    ValueVectorOf<unsigned int> vv(0);
    RefVectorOf<XMLCh> rv(0, false);
    static XMLCh dummy[2] = {chLatin_a, chNull};
    for (const std::string& o : ops(t[1])) {
        try {
            if (o == "a") { if (ref) rv.addElement(dummy); else vv.addElement(7); }
            else if (o[0] == 'i') { if (ref) rv.insertElementAt(dummy, num(o)); else vv.insertElementAt(9, num(o)); }
            else if (o[0] == 'd') { if (ref) rv.removeElementAt(num(o)); else vv.removeElementAt(num(o)); }
            else if (o == "x") { if (ref) rv.removeAllElements(); else vv.removeAllElements(); }
            else if (o[0] == 'e') { if (ref) rv.ensureExtraCapacity(num(o)); else vv.ensureExtraCapacity(num(o)); }
            else return "bad-op";
        } catch (const XMLException&) {}
    }
    return "len " + std::to_string(ref ? rv.size() : vv.size());
}

static std::string doRT(const std::vector<std::string>& t) {
    if (t.size() < 2) return "bad-op";
    TokenFactory tf; RangeToken* r = tf.createRange();
    for (const std::string& o : ops(t[1])) {
        size_t d = o.find('-'); if (d == std::string::npos) return "bad-op";
        r->addRange((XMLInt32)strtol(o.substr(0, d).c_str(), 0, 16), (XMLInt32)strtol(o.substr(d + 1).c_str(), 0, 16));
    }
    r->sortRanges(); r->compactRanges();
    volatile bool m = r->match(0x41); (void)m;
    return "ok";
}

static std::string doDB(const std::vector<std::string>& t) {
    if (t.size() < 3) return "bad-op";
    static const XMLCh core[] = {chLatin_C, chLatin_o, chLatin_r, chLatin_e, chNull};
    DOMImplementation* impl = DOMImplementationRegistry::getDOMImplementation(core);
    DOMDocument* doc = impl->createDocument();
    std::string out;
    {
        DOMBuffer b((DOMDocumentImpl*)doc, strtoul(t[1].c_str(), 0, 10));
        std::vector<XMLCh> src(1 << 16, (XMLCh)'x');
        for (const std::string& o : ops(t[2])) {
            if (o[0] == 'a') { unsigned long k = num(o); if (k > src.size()) src.resize(k, (XMLCh)'x'); b.append(src.data(), k); }
            else if (o[0] == 's') { unsigned long k = num(o); if (k > src.size()) src.resize(k, (XMLCh)'x'); b.set(src.data(), k); }
            else if (o == "r") b.reset();
            else if (o == "g") { volatile XMLCh c = b.getRawBuffer()[b.getLen()]; (void)c; }
            else { doc->release(); return "bad-op"; }
        }
        out = "len " + std::to_string(b.getLen()) + " cap " + std::to_string(b.getCapacity());
    }
    doc->release();
    return out;
}

static std::string doTK(const std::vector<std::string>& t) {
    if (t.size() < 7) return "bad-op";
    unsigned long maxChars = strtoul(t[1].c_str(), 0, 10);
    std::vector<uint32_t> src = hx::parseHexList(t[2]);
    // errText: exactly maxChars + 1 cells on the heap, so that ASan sees the first cell past it
    XMLCh* err = (XMLCh*)malloc((maxChars + 1) * sizeof(XMLCh));
    size_t n = src.size() < maxChars ? src.size() : maxChars;      // what loadMsg would have left
    for (size_t i = 0; i < n; i++) err[i] = (XMLCh)src[i];
    err[n] = 0;
    std::vector<std::vector<XMLCh> > rep(4);
    const XMLCh* rp[4];
    for (int k = 0; k < 4; k++) { unsigned long l = strtoul(t[3 + k].c_str(), 0, 10); rep[k].assign(l, (XMLCh)'r'); rep[k].push_back(0); rp[k] = rep[k].data(); }
    XMLSize_t out = XMLString::replaceTokens(err, maxChars, rp[0], rp[1], rp[2], rp[3], XMLPlatformUtils::fgMemoryManager);
    free(err);
    return "out " + std::to_string(out);
}

struct CharSink : public HandlerBase {
    std::vector<XMLCh> text, att; long fatal = 0;
    void characters(const XMLCh* const ch, const XMLSize_t n) override { text.insert(text.end(), ch, ch + n); }
    void startElement(const XMLCh* const, AttributeList& a) override { if (a.getLength()) { const XMLCh* v = a.getValue((XMLSize_t)0); while (*v) att.push_back(*v++); } }
    void fatalError(const SAXParseException&) override { ++fatal; }
    void error(const SAXParseException&) override {}
    void warning(const SAXParseException&) override {}
};
static std::string doCR(const std::vector<std::string>& t) {
    if (t.size() < 4) return "bad-op";
    unsigned long radix = strtoul(t[2].c_str(), 0, 10);
    std::string ref = radix == 16 ? "&#x" : "&#";
    for (uint32_t d : hx::parseHexList(t[3])) ref += "0123456789abcdef"[d & 15];
    ref += ";";
    std::string doc; bool inAtt = false;
    if (t[1] == "c") doc = "<a>" + ref + "</a>";
    else if (t[1] == "a") { doc = "<a b=\"" + ref + "\"/>"; inAtt = true; }
    else if (t[1] == "d") doc = "<!DOCTYPE a [<!ENTITY e \"" + ref + "\">]><a>&e;</a>";
    else if (t[1] == "t") { doc = "<!DOCTYPE a [<!ATTLIST a b CDATA \"" + ref + "\">]><a/>"; inAtt = true; }
    else return "bad-op";
    SAXParser p; CharSink s; p.setDocumentHandler(&s); p.setErrorHandler(&s);
    p.setValidationScheme(SAXParser::Val_Never); p.setDoNamespaces(false); p.setDisableDefaultEntityResolution(true);
    try {
        MemBufInputSource src((const XMLByte*)doc.data(), doc.size(), "cr", false);
        p.parse(src);
    } catch (const XMLException&) { return "invalid"; } catch (const SAXException&) { return "invalid"; }
    if (s.fatal) return "invalid";
    const std::vector<XMLCh>& v = inAtt ? s.att : s.text;
    char b[64];
    if (v.size() == 1) { snprintf(b, sizeof b, "single %x", (unsigned)v[0]); return b; }
    if (v.size() == 2) { snprintf(b, sizeof b, "pair %x %x", (unsigned)v[0], (unsigned)v[1]); return b; }
    return "other " + std::to_string(v.size());
}

static std::string doRM(const std::vector<std::string>& t) {
    if (t.size() < 2) return "bad-op";
    MemoryManager* mm = XMLPlatformUtils::fgMemoryManager;
    long before = gLive.load();
    std::string out;
    {
        std::vector<DTDEntityDecl*> pool;      // entities owned by the "grammar" (not adopted)
        static XMLCh data[65]; for (int i = 0; i < 64; i++) data[i] = chLatin_a; data[64] = 0;
        ReaderMgr* rm = new (mm) ReaderMgr(mm);
        bool anyPushed = false;
        for (const std::string& o : ops(t[1])) {
            std::string obs;
            try {
                if (o[0] == 'P') {
                    std::vector<std::string> f = hx::split(o.substr(1), ':');
                    if (f.size() != 3) { obs = "bad"; }
                    else {
                        bool adopt = f[1] == "1", chars = f[2] == "1";
                        XMLCh nm[8]; DTDEntityDecl* ent = 0;
                        if (f[0] != "-") {
                            XMLString::transcode(("e" + f[0]).c_str(), nm, 7, mm);
                            ent = new (mm) DTDEntityDecl(nm, false, mm);
                            if (!adopt) pool.push_back(ent);
                        } else { XMLString::transcode("doc", nm, 7, mm); adopt = false; }
                        XMLReader* r = rm->createIntEntReader(nm, XMLReader::RefFrom_NonLiteral, XMLReader::Type_General, data, chars ? 64 : 0, false, false);
                        bool ok = adopt ? rm->pushReaderAdoptEntity(r, ent, true) : rm->pushReader(r, ent);
                        anyPushed = anyPushed || ok;
                        obs = ok ? "1" : "0";
                    }
                } else if (o[0] == 'O') {
                    if (!anyPushed || rm->getReaderDepth() == 0) obs = "-";
                    else {
                        // drain the current reader, then ask for one more character: that call runs popReader()
                        rm->setThrowEOE(false);
                        XMLSize_t cur = rm->getCurrentReaderNum(); XMLCh ch = 1;
                        for (int k = 0; k < 64 && ch; k++) { XMLCh pk = rm->getCurrentReader()->charsLeftInBuffer() ? 1 : 0; if (!pk) { rm->getCurrentReader()->refreshCharBuffer(); if (!rm->getCurrentReader()->charsLeftInBuffer()) break; } ch = rm->getNextChar(); }
                        (void)cur;
                        rm->setThrowEOE(o.size() > 1 && o[1] == '1');
                        ch = rm->getNextChar();
                        obs = ch ? "1" : "0";
                    }
                } else if (o[0] == 'C') {
                    if (!anyPushed || rm->getReaderDepth() == 0) obs = "-";
                    else { rm->cleanStackBackTo(num(o)); obs = "k"; }
                } else if (o == "R") { rm->reset(); obs = "r"; }
                else obs = "bad";
            } catch (const EndOfEntityException&) { obs = "E"; }
            catch (const XMLException&) { obs = "x"; }
            size_t depth = rm->getReaderDepth();
            obs += "/" + std::to_string(depth) + "/" + (depth ? std::to_string(rm->getCurrentReaderNum()) : std::string("-"));
            out += (out.empty() ? "" : ";") + obs;
        }
        rm->reset();
        delete rm;
        for (DTDEntityDecl* e : pool) delete e;
    }
    return out + " leak " + std::to_string(gLive.load() - before);
}

static std::string doDH(const std::vector<std::string>& t) {
    if (t.size() < 2) return "bad-op";
    static const XMLCh core[] = {chLatin_C, chLatin_o, chLatin_r, chLatin_e, chNull};
    DOMImplementation* impl = DOMImplementationRegistry::getDOMImplementation(core);
    DOMDocument* doc = impl->createDocument();
    DOMDocumentImpl* di = (DOMDocumentImpl*)doc;
    for (const std::string& o : ops(t[1])) {
        unsigned long k = strtoul(o.c_str(), 0, 10);
        void* p = di->allocate(k);
        memset(p, 0x5a, k);          // the caller owns k bytes
    }
    doc->release();
    return "ok";
}

int main(int argc, char** argv) {
    CountingMM* mm = new CountingMM();
    if (argc >= 5 && std::string(argv[1]) == "domheap")
        XMLPlatformUtils::Initialize(strtoul(argv[2], 0, 10), strtoul(argv[3], 0, 10), strtoul(argv[4], 0, 10), XMLUni::fgXercescDefaultLocale, 0, 0, mm);
    else
        XMLPlatformUtils::Initialize(XMLUni::fgXercescDefaultLocale, 0, 0, mm);
    { std::vector<std::string> w = {"CR", "c", "10", "6.5"}; doCR(w); std::vector<std::string> w2 = {"RM", "P-:0:1,P1:0:1,O0,R"}; doRM(w2); doRM(w2); }
    std::string line; size_t caseNo = 0;
    while (std::getline(std::cin, line)) {
        fprintf(stderr, "#C %zu\n", caseNo++); fflush(stderr);
        std::vector<std::string> t = hx::split(line, ' ');
        std::string out;
        try {
            if (t[0] == "XB") out = doXB(t);
            else if (t[0] == "ES") out = doES(t);
            else if (t[0] == "WS") out = doWS(t);
            else if (t[0] == "VV") out = doVV(t, false);
            else if (t[0] == "RV") out = doVV(t, true);
            else if (t[0] == "RT") out = doRT(t);
            else if (t[0] == "DB") out = doDB(t);
            else if (t[0] == "TK") out = doTK(t);
            else if (t[0] == "CR") out = doCR(t);
            else if (t[0] == "RM") out = doRM(t);
            else if (t[0] == "DH") out = doDH(t);
            else out = "bad-op";
        } catch (const OutOfMemoryException&) { out = "exc OutOfMemory"; }
        catch (const XMLException& e) { out = "exc " + hx::narrow(e.getType()); }
        catch (const DOMException& e) { out = "exc DOMException:" + std::to_string((int)e.code); }
        catch (...) { out = "FOREIGN-EXCEPTION"; }
        std::cout << out << std::endl;
    }
    XMLPlatformUtils::Terminate();
    return 0;
}
